#!/usr/bin/env python3
"""Regenerates MANIFEST.json from the table below (kept valid at all times)."""
import json, os
V = os.path.dirname(os.path.abspath(__file__))
TB = ("Trusted: Coq 8.16.1 kernel and vm_compute (no native_compute); the python-ast translator in /verif/translate; "
      "the correspondence harness (in-memory transports, virtual clock, canonicalisers). No axioms are declared; "
      "every Print Assumptions of the property file must report 'Closed under the global context' or only standard-library axioms, "
      "which are then listed in the evidence file. ")
CHECKS = {}
NA = {}


def check(pid, text, note, technique, design):
    CHECKS[pid] = dict(text=text, note=note, technique=technique, design=design)


exec(open(os.path.join(V, "manifest_table.py")).read())

props = [json.loads(l)["id"] for l in open(os.path.join(V, "properties.jsonl"))]
m = dict(version=1, setup_cmd="./setup.sh",
         hooks=dict(guard="WARNER_FOOLSCAP_VERIF",
                    enable="no source hooks: the checks import /repo/src directly and replace module-level names (reactor, time, peerFromTransport) from the harness; WARNER_FOOLSCAP_VERIF=1 is exported by ./check for completeness",
                    baseline_off_cmd="cd /repo && /venv/bin/python -m pytest -ra -q -p no:cacheprovider --timeout=900 --continue-on-collection-errors",
                    source_commits=[], add_only=True),
         engines=[dict(name="coq-proof", path="/verif/check", serves_properties=sorted(CHECKS),
                       kind_free_text="Coq 8.16.1 theorems over translated + hand-written models; correspondence by vm_compute against the real classes")],
         checks=[], not_applicable=[])
for pid in props:
    if pid in CHECKS:
        c = CHECKS[pid]
        m["checks"].append(dict(property_id=pid, quick_cmd="./check %s --tier quick" % pid,
                                thorough_cmd="./check %s --tier thorough" % pid,
                                evidence_file="/verif/evidence/%s.json" % pid,
                                replay_cmd_template="./check %s --replay {path}" % pid, engine="coq-proof",
                                level_claimed=dict(category="proof", text=c["text"], design_ref=c["design"]),
                                level_note=TB + c["note"], technique=c["technique"]))
    else:
        m["not_applicable"].append(dict(property_id=pid, reason=NA.get(pid, "not yet covered by the machinery in this commit (work in progress); no check is claimed")))
json.dump(m, open(os.path.join(V, "MANIFEST.json"), "w"), indent=1)
print("checks:", len(m["checks"]), "not_applicable:", len(m["not_applicable"]))
