(* C01: the sender machine of SendHeap.v emits exactly `slice` of the canonical term of the heap it is given. *)
From Coq Require Import ZArith List String Bool Lia.
Import ListNotations.
Require Import Verif.lib.PyLite Verif.gen.BananaGen Verif.gen.SlicersGen Verif.lib.Token Verif.lib.TokenProofs
        Verif.lib.Obj Verif.lib.ObjProofs Verif.lib.SendHeap.
Local Open Scope Z_scope.

Fixpoint ssteps (k : nat) (h : sheap) (st : sstate) : option sstate :=
  match k with
  | O => Some st
  | S k' => match sstep h st with SStep st' => ssteps k' h st' | _ => None end
  end.

Lemma ssteps_app a b h st : ssteps (a + b) h st = match ssteps a h st with Some s => ssteps b h s | None => None end.
Proof. revert st. induction a as [|a IH]; intros st; cbn [Nat.add ssteps]; [reflexivity|]. destruct (sstep h st); auto. Qed.

Definition mkst (s : list sframe) (scs : list stable) (n : Z) (out : list token) : sstate :=
  {| ss_stack := s; ss_scopes := scs; ss_count := n; ss_out := out |}.
Definition fr (o : Z) (rest : list sval) (sc : bool) : sframe := {| sf_open := o; sf_rest := rest; sf_scope := sc |}.

Definition simple (v : sval) : bool := match v with SInt _ | SFloat _ | SBytes _ => true | _ => false end.
Definition tok_of (v : sval) : token := match v with SInt z => TInt z | SFloat b => TFloat b | SBytes b => TString b | _ => TInt 0 end.

Lemma tok_of_sstrs l : map tok_of (sstrs l) = strs l.
Proof. unfold sstrs, strs. rewrite map_map. reflexivity. Qed.
Lemma simple_sstrs l : forallb simple (sstrs l) = true.
Proof. induction l; [reflexivity|exact IHl]. Qed.

(* SIMPLE_TOKENS yielded by the top slicer go straight out *)
Lemma steps_simple h : forall ys, forallb simple ys = true -> forall o rest sc r scs n out,
  ssteps (List.length ys) h (mkst (fr o (ys ++ rest) sc :: r) scs n out) = Some (mkst (fr o rest sc :: r) scs n (out ++ map tok_of ys)).
Proof.
  unfold mkst, fr. induction ys as [|y ys IH]; intros S o rest sc r scs n out.
  - cbn. rewrite app_nil_r. reflexivity.
  - cbn [forallb] in S. apply andb_true_iff in S as [S1 S2]. cbn [List.length ssteps app].
    unfold sstep. cbn [ss_stack sf_rest sf_open sf_scope ss_scopes ss_count ss_out].
    destruct y; try discriminate; cbn [map tok_of].
    + rewrite (IH S2 o rest sc r scs n (out ++ [TInt z])). rewrite <- app_assoc. reflexivity.
    + rewrite (IH S2 o rest sc r scs n (out ++ [TFloat b8])). rewrite <- app_assoc. reflexivity.
    + rewrite (IH S2 o rest sc r scs n (out ++ [TString bs])). rewrite <- app_assoc. reflexivity.
Qed.

(* a slicer that yields only simple tokens: OPEN, the tokens, CLOSE *)
Lemma steps_leaf h v ys : slicer_for h = slicer_for h -> forall o rest sc r scs n out,
  simple v = false -> slicer_for h scs v = Some (Chosen ys None false) -> forallb simple ys = true ->
  ssteps (S (List.length ys + 1)) h (mkst (fr o (v :: rest) sc :: r) scs n out) =
  Some (mkst (fr o rest sc :: r) scs (n + 1) (out ++ TOpen n :: map tok_of ys ++ [TClose n])).
Proof.
  intros _ o rest sc r scs n out NS SF SY. cbn [ssteps]. unfold sstep at 1.
  cbn [mkst ss_stack fr sf_rest sf_open sf_scope ss_scopes ss_count ss_out]. rewrite SF.
  destruct v; try discriminate;
    (rewrite ssteps_app;
     pose proof (steps_simple h ys SY n [] false (fr o rest sc :: r) scs (n + 1) (out ++ [TOpen n])) as X;
     rewrite app_nil_r in X; unfold mkst, fr in X |- *; rewrite X;
     cbn [ssteps]; unfold sstep; cbn [ss_stack sf_rest sf_scope ss_scopes ss_count ss_out sf_open];
     rewrite <- !app_assoc; reflexivity).
Qed.

(* ------------------------------------------------------------------ the machine follows the recursive descent *)
Definition PB (h : sheap) (fuel : nat) : Prop :=
  forall v scs n t n' scs', bcanon fuel h scs n v = Some (t, n', scs') ->
  forall o rest sc r out, exists k,
    ssteps k h (mkst (fr o (v :: rest) sc :: r) scs n out) = Some (mkst (fr o rest sc :: r) scs' n' (out ++ slice n t))
    /\ n' = n + opens t.

Lemma steps_list h fu : PB h fu -> forall l scs n os n' scs', bcanon_list fu h scs n l = Some (os, n', scs') ->
  forall o rest sc r out, exists k,
    ssteps k h (mkst (fr o (l ++ rest) sc :: r) scs n out) = Some (mkst (fr o rest sc :: r) scs' n' (out ++ slice_list n os))
    /\ n' = n + opens_list os.
Proof.
  intros P. induction l as [|x l IH]; intros scs n os n' scs' B o rest sc r out.
  - cbn in B. inversion B; subst. exists O. cbn [ssteps app slice_list opens_list]. rewrite app_nil_r, Z.add_0_r. split; reflexivity.
  - cbn [bcanon_list] in B. destruct (bcanon fu h scs n x) as [[[t m2] scs1]|] eqn:B1; [|discriminate].
    fold (bcanon_list fu h) in B.
    destruct (bcanon_list fu h scs1 m2 l) as [[[os' m3] scs2]|] eqn:B2; [|discriminate]. inversion B; subst os n' scs'; clear B.
    destruct (P x scs n t m2 scs1 B1 o (l ++ rest) sc r out) as [k1 [K1 N1]].
    destruct (IH scs1 m2 os' m3 scs2 B2 o rest sc r (out ++ slice n t)) as [k2 [K2 N2]].
    exists (k1 + k2)%nat. cbn [app]. rewrite ssteps_app, K1, K2. subst m2.
    rewrite slice_list_cons, app_assoc. split; [reflexivity|].
    change (opens_list (t :: os')) with (opens t + opens_list os'). lia.
Qed.

Theorem machine_follows h : forall fuel, PB h fuel.
Proof.
  induction fuel as [|fu IH]; intros v scs n t n' scs' B o rest sc r out; [discriminate|].
  cbn [bcanon] in B. destruct v.
  1-3: (inversion B; subst; exists 1%nat; cbn [ssteps opens]; unfold sstep;
        cbn [mkst ss_stack fr sf_rest sf_open sf_scope ss_scopes ss_count ss_out slice]; rewrite Z.add_0_r; split; reflexivity).
  - (* text *) inversion B; subst. eexists. split; [|cbn [opens]; reflexivity].
    rewrite (steps_leaf h (SText u) (sstrs ot_unicode ++ [SBytes u]) eq_refl); [|reflexivity|reflexivity|rewrite forallb_app, simple_sstrs; reflexivity].
    rewrite map_app, tok_of_sstrs. cbn [slice map tok_of]. rewrite <- app_assoc. reflexivity.
  - inversion B; subst. eexists. split; [|cbn [opens]; reflexivity].
    rewrite (steps_leaf h (SBool b) (sstrs ot_boolean ++ [SInt (if b then bool_true_tok else bool_false_tok)]) eq_refl); [|reflexivity|reflexivity|rewrite forallb_app, simple_sstrs; reflexivity].
    rewrite map_app, tok_of_sstrs. cbn [slice map tok_of]. rewrite <- app_assoc. reflexivity.
  - inversion B; subst. eexists. split; [|cbn [opens]; reflexivity].
    rewrite (steps_leaf h SNone (sstrs ot_none) eq_refl); [|reflexivity|reflexivity|apply simple_sstrs].
    rewrite tok_of_sstrs. cbn [slice]. reflexivity.
  - inversion B; subst. eexists. split; [|cbn [opens]; reflexivity].
    rewrite (steps_leaf h (SDecimal s) (sstrs ot_decimal ++ [SBytes s]) eq_refl); [|reflexivity|reflexivity|rewrite forallb_app, simple_sstrs; reflexivity].
    rewrite map_app, tok_of_sstrs. cbn [slice map tok_of]. rewrite <- app_assoc. reflexivity.
  - (* an object *)
    destruct (scopes_lookup scs id) as [k|] eqn:L.
    + (* already sent in a visible scope: ReferenceSlicer *)
      inversion B; subst. eexists. split; [|cbn [opens]; reflexivity].
      rewrite (steps_leaf h (SObj id) (sstrs ot_reference ++ [SInt k]) eq_refl);
        [|reflexivity|cbn [slicer_for]; rewrite L; reflexivity|rewrite forallb_app, simple_sstrs; reflexivity].
      rewrite map_app, tok_of_sstrs. cbn [slice map tok_of]. rewrite <- app_assoc. reflexivity.
    + destruct (sfind id h) as [nd|] eqn:F; [|discriminate].
      set (c := sn_kind nd) in *.
      set (scs1 := if tracked c then scopes_register scs id n else scs) in *.
      set (scs2 := if is_scope c then [] :: scs1 else scs1) in *.
      fold (bcanon_list fu h) in B.
      destruct (bcanon_list fu h scs2 (n + 1) (sn_items nd)) as [[[os m] scs3]|] eqn:BL; [|discriminate].
      inversion B; subst t n' scs'; clear B.
      (* push *)
      pose proof (steps_simple h (sstrs (opentype_of c)) (simple_sstrs _) n (sn_items nd) (is_scope c) (fr o rest sc :: r) scs2 (n + 1) (out ++ [TOpen n])) as S1.
      destruct (steps_list h fu IH (sn_items nd) scs2 (n + 1) os m scs3 BL n [] (is_scope c) (fr o rest sc :: r)
                  ((out ++ [TOpen n]) ++ map tok_of (sstrs (opentype_of c)))) as [k2 [K2 N2]].
      rewrite app_nil_r in K2.
      exists (S (List.length (sstrs (opentype_of c)) + (k2 + 1)))%nat. split.
      * cbn [ssteps]. unfold sstep at 1. cbn [mkst ss_stack fr sf_rest sf_open sf_scope ss_scopes ss_count ss_out slicer_for].
        rewrite L, F. fold c.
        assert (E1 : match (if tracked c then Some id else None) with Some oid => scopes_register scs oid n | None => scs end = scs1).
        { unfold scs1. destruct (tracked c); reflexivity. }
        rewrite E1.
        rewrite ssteps_app.
        match goal with |- match ?X with Some s => _ | None => None end = _ =>
          let H := fresh in assert (H : X = Some (mkst (fr n (sn_items nd) (is_scope c) :: fr o rest sc :: r) scs2 (n + 1) ((out ++ [TOpen n]) ++ map tok_of (sstrs (opentype_of c))))) by exact S1;
          rewrite H; clear H end.
        rewrite ssteps_app.
        match goal with |- match ?X with Some s => _ | None => None end = _ =>
          let H := fresh in assert (H : X = Some (mkst (fr n [] (is_scope c) :: fr o rest sc :: r) scs3 m (((out ++ [TOpen n]) ++ map tok_of (sstrs (opentype_of c))) ++ slice_list (n + 1) os))) by exact K2;
          rewrite H; clear H end.
        unfold mkst, fr.
        cbn [ssteps]. unfold sstep. cbn [ss_stack sf_rest sf_scope ss_scopes ss_count ss_out sf_open].
        rewrite tok_of_sstrs, slice_cont. rewrite <- !app_assoc. reflexivity.
      * rewrite opens_cont. lia.
Qed.

(* ------------------------------------------------------------------ whole sends *)
Lemma srun_of_ssteps h : forall k st st', ssteps k h st = Some st' -> sstep h st' = SIdle -> srun (S k) h st = Some st'.
Proof.
  induction k as [|k IH]; intros st st' K I.
  - cbn in K. inversion K; subst. cbn. rewrite I. reflexivity.
  - cbn [ssteps] in K. destruct (sstep h st) as [s1| |] eqn:E; try discriminate. cbn [srun]. rewrite E. apply IH; assumption.
Qed.

Lemma srun_det h : forall f1 f2 st a b, srun f1 h st = Some a -> srun f2 h st = Some b -> a = b.
Proof.
  induction f1 as [|f1 IH]; intros f2 st a b A B; [discriminate|]. destruct f2 as [|f2]; [discriminate|].
  cbn [srun] in A, B. destruct (sstep h st) as [s1| |]; try discriminate.
  - exact (IH _ _ _ _ A B).
  - inversion A; inversion B; subst; reflexivity.
Qed.

(* the sender machine, given ANY heap (sharing, cycles, nested call scopes) and any queue of top-level objects whose
   canonical descent terminates, emits exactly `slice_list` of the canonical terms: `slice` on canonical terms is a
   sound abstraction of the slicer stack with its reference tables *)
Theorem send_heap_is_slice_canon h scoped n q fuel os :
  canon_of fuel h scoped n q = Some os -> exists fuel', send_heap fuel' h scoped n q = Some (slice_list n os).
Proof.
  unfold canon_of. destruct (bcanon_list fuel h (if scoped then [[]] else []) n q) as [[[os' m] scs']|] eqn:B; [|discriminate].
  intros E; inversion E; subst os'; clear E.
  destruct (steps_list h fuel (machine_follows h fuel) q _ n os m scs' B (-1) [] scoped [] []) as [k [K _]].
  rewrite app_nil_r in K. exists (S k). unfold send_heap, sinit.
  unfold mkst, fr in K. rewrite (srun_of_ssteps h k _ _ K); [reflexivity|reflexivity].
Qed.

Corollary send_heap_unique h scoped n q fuel fuel' toks os :
  send_heap fuel h scoped n q = Some toks -> canon_of fuel' h scoped n q = Some os -> toks = slice_list n os.
Proof.
  intros S C. destruct (send_heap_is_slice_canon _ _ _ _ _ _ C) as [f2 S2]. unfold send_heap in *.
  destruct (srun fuel h (sinit scoped n q)) as [a|] eqn:A; [|discriminate].
  destruct (srun f2 h (sinit scoped n q)) as [b|] eqn:B; [|discriminate].
  rewrite (srun_det h _ _ _ _ _ A B) in S. inversion S; inversion S2; subst. reflexivity.
Qed.

(* ------------------------------------------------------------------ the per-call scope, as a property of the machine's tables *)
Definition tge (lo : Z) (scs : list stable) : Prop := Forall (Forall (fun p : Z * Z => lo <= snd p)) scs.

Lemma dict_get_ge lo d : Forall (fun p : Z * Z => lo <= snd p) d -> forall k e, gen_dict_get d k = Some e -> lo <= e.
Proof.
  induction 1 as [|[a b] d Hp _ IH]; intros k e H; cbn [gen_dict_get] in H; [discriminate|].
  destruct (a =? k); [inversion H; subst; exact Hp|eapply IH; exact H].
Qed.

Lemma lookup_ge lo scs : tge lo scs -> forall oid k, scopes_lookup scs oid = Some k -> lo <= k.
Proof.
  induction 1 as [|t r Ht _ IH]; intros oid k H; cbn [scopes_lookup] in H; [discriminate|].
  unfold gen_scoped_lookup in H. destruct (gen_dict_get t oid) as [e|] eqn:E.
  - inversion H; subst. eapply dict_get_ge; eassumption.
  - eapply IH; exact H.
Qed.

Lemma register_ge lo scs oid n : tge lo scs -> lo <= n -> tge lo (scopes_register scs oid n).
Proof.
  intros T L. destruct scs as [|t r]; [exact T|]. inversion T; subst. cbn [scopes_register]. unfold gen_scoped_register.
  constructor; [constructor; [exact L|assumption]|assumption].
Qed.

Lemma register_length scs oid n : List.length (scopes_register scs oid n) = List.length scs.
Proof. destruct scs; reflexivity. Qed.

Definition PS (h : sheap) (fuel : nat) : Prop :=
  forall v scs n t n' scs', bcanon fuel h scs n v = Some (t, n', scs') -> forall lo, tge lo scs -> lo <= n ->
    refs_ge lo t = true /\ tge lo scs' /\ n <= n' /\ List.length scs' = List.length scs.

Lemma scope_list h fu : PS h fu -> forall l scs n os n' scs', bcanon_list fu h scs n l = Some (os, n', scs') ->
  forall lo, tge lo scs -> lo <= n -> refs_ge_list lo os = true /\ tge lo scs' /\ n <= n' /\ List.length scs' = List.length scs.
Proof.
  intros P. induction l as [|x l IH]; intros scs n os n' scs' B lo T L.
  - cbn in B. inversion B; subst. repeat split; auto; lia.
  - cbn [bcanon_list] in B. destruct (bcanon fu h scs n x) as [[[t m2] scs1]|] eqn:B1; [|discriminate].
    fold (bcanon_list fu h) in B.
    destruct (bcanon_list fu h scs1 m2 l) as [[[os' m3] scs2]|] eqn:B2; [|discriminate]. inversion B; subst os n' scs'; clear B.
    destruct (P _ _ _ _ _ _ B1 lo T L) as (R1 & T1 & N1 & L1).
    destruct (IH _ _ _ _ _ B2 lo T1 ltac:(lia)) as (R2 & T2 & N2 & L2).
    cbn [refs_ge_list]. rewrite R1, R2. repeat split; auto; lia.
Qed.

Theorem tables_bound h : forall fuel, PS h fuel.
Proof.
  induction fuel as [|fu IH]; intros v scs n t n' scs' B lo T L; [discriminate|].
  cbn [bcanon] in B. destruct v; try (inversion B; subst; repeat split; auto; lia).
  destruct (scopes_lookup scs id) as [k|] eqn:LK.
  - inversion B; subst. repeat split; auto; [|lia]. cbn [refs_ge]. apply Z.leb_le. eapply lookup_ge; eassumption.
  - destruct (sfind id h) as [nd|]; [|discriminate]. fold (bcanon_list fu h) in B. cbv zeta in B.
    set (c := sn_kind nd) in *.
    set (scs1 := if tracked c then scopes_register scs id n else scs) in *.
    match type of B with match ?X with _ => _ end = _ => destruct X as [[[os m] scs3]|] eqn:BL; [|discriminate] end.
    inversion B; subst t n' scs'; clear B.
    assert (T1 : tge lo scs1). { unfold scs1. destruct (tracked c); [apply register_ge; assumption|exact T]. }
    assert (L1 : List.length scs1 = List.length scs). { unfold scs1. destruct (tracked c); [apply register_length|reflexivity]. }
    assert (T2 : tge lo (if is_scope c then [] :: scs1 else scs1)). { destruct (is_scope c); [constructor; [constructor|exact T1]|exact T1]. }
    destruct (scope_list h fu IH _ _ _ _ _ _ BL lo T2 ltac:(lia)) as (R & T3 & N & L3).
    split; [exact R|]. split; [|split; [lia|]].
    + destruct (is_scope c); [|exact T3]. destruct scs3; [exact T3|]. inversion T3; assumption.
    + destruct (is_scope c); [|lia]. destruct scs3; cbn [List.length tl] in *; lia.
Qed.

(* A call / arguments / answer scope pushed when no enclosing slicer has a table (a Broker: PBRootSlicer.registerRefID is a
   no-op): the machine serializes it with a table of its own that starts empty and is dropped at its CLOSE -- every
   reference emitted inside points at an object opened inside this very scope, and no table is left behind. *)
Theorem machine_scope_is_local h fuel oid nd n t n' scs' :
  sfind oid h = Some nd -> is_scope (sn_kind nd) = true ->
  bcanon fuel h [] n (SObj oid) = Some (t, n', scs') ->
  scs' = [] /\ refs_ge (n + 1) t = true /\
  forall o rest sc r out, exists k,
    ssteps k h (mkst (fr o (SObj oid :: rest) sc :: r) [] n out) = Some (mkst (fr o rest sc :: r) [] n' (out ++ slice n t)).
Proof.
  intros F S B.
  assert (E : scs' = []).
  { destruct (tables_bound h fuel _ _ _ _ _ _ B n (Forall_nil _) ltac:(lia)) as (_ & _ & _ & L). destruct scs'; [reflexivity|cbn in L; discriminate]. }
  subst scs'. split; [reflexivity|]. split.
  - destruct fuel as [|fu]; [discriminate|]. cbn [bcanon scopes_lookup] in B. rewrite F in B. fold (bcanon_list fu h) in B. cbv zeta in B.
    rewrite S in B.
    assert (TR : tracked (sn_kind nd) = false) by (destruct (sn_kind nd); try discriminate; reflexivity).
    rewrite TR in B.
    match type of B with match ?X with _ => _ end = _ => destruct X as [[[os m] scs3]|] eqn:BL; [|discriminate] end.
    inversion B; subst t n'. cbn [refs_ge]. fold (refs_ge_list (n + 1) os).
    destruct (scope_list h fu (tables_bound h fu) _ _ _ _ _ _ BL (n + 1)) as (R & _); [constructor; constructor|lia|exact R].
  - intros o rest sc r out. destruct (machine_follows h fuel _ _ _ _ _ _ B o rest sc r out) as [k [K _]]. exists k. exact K.
Qed.
