(* The STANDARD unslicers (slicers/root.py RootUnslicer, list / tuple / dict / set / immutable-set / unicode / boolean /
   none) under a tree of REAL constraint objects, as an unslicer semantics for lib/Unsl.v.
   A constraint node carries the taster table, strictTaster flag and opentypes list that the harness reads from the live
   constraint object, so the theorems of lib/StdUnslProofs.v hold for EVERY taster table; what is hand-modelled here and
   compared with the real classes on every run (harness/c07.py std_correspondence, harness/c11.py) is the use made of
   them: Constraint.checkToken / checkOpentype, PolyConstraint.checkToken, each unslicer's setConstraint / checkToken /
   doOpen / receiveChild / receiveClose, RootUnslicer.doOpen / open / openerCheckToken.
   Not modelled: decimal, copyable, set-vocab / add-vocab unslicers, what a reference resolves to, non-ASCII unicode bodies,
   float / bool / frozenset members of sets and dict keys.  There the model ABSTAINS: the callback answers OExc 97 / OExc 98, the
   run ends with the marker event UUnmodelled and nothing else (lib/Unsl.v: abstention is a third outcome, neither ok nor
   "abandoned"), and every theorem about this instance says that it claims nothing about such a run.  What the real code does
   BEFORE the unmodelled unslicer exists is modelled: the opentype check, the registry lookup, and the AssertionError of the
   unslicer's setConstraint under a constraint it does not accept.  Model only. *)
From Coq Require Import ZArith List Bool Lia.
Import ListNotations.
Require Import Verif.lib.PyLite Verif.gen.BananaGen Verif.gen.RecvGen Verif.lib.Token Verif.lib.Recv Verif.lib.Unsl.
Local Open Scope Z_scope.

(* ---- constraints ---- *)
Record tinfo := { t_taster : list (Z * option Z); t_strict : bool; t_opens : option (list Z) }.

(* opentype codes *)
Definition oc_list := 1. Definition oc_tuple := 2. Definition oc_set := 3. Definition oc_fset := 4. Definition oc_dict := 5.
Definition oc_unicode := 6. Definition oc_boolean := 7. Definition oc_none := 8. Definition oc_decimal := 9.
Definition oc_reference := 10. Definition oc_copyable := 11. Definition oc_setvocab := 12. Definition oc_addvocab := 13.

Inductive sctr :=
| SAny (t : tinfo)                                   (* constraint.Any *)
| SPrim (t : tinfo)                                  (* ByteString / Integer / Number constraints, Nothing: no sub-structure *)
| SText (t : tinfo) (mx : option Z)                  (* UnicodeConstraint *)
| SBool (t : tinfo) (v : option bool)                (* BooleanConstraint *)
| SList (t : tinfo) (ic : sctr) (mx : option Z)      (* ListConstraint *)
| STuple (t : tinfo) (cs : list sctr)                (* TupleConstraint *)
| SDict (t : tinfo) (k v : sctr) (mk : option Z)     (* DictConstraint *)
| SSet (t : tinfo) (ic : sctr) (mx : option Z)       (* SetConstraint *)
| SChoice (alts : list sctr).                        (* PolyConstraint *)

Fixpoint tassoc (k : Z) (t : list (Z * option Z)) : option (option Z) :=
  match t with [] => None | (k', v) :: r => if k =? k' then Some v else tassoc k r end.

(* the type bytes tokens.tokenNames knows: the rejection messages look the type byte up there (KeyError otherwise) *)
Definition known_tok (ty : Z) : bool :=
  existsb (Z.eqb ty) [tok_LIST; tok_INT; tok_STRING; tok_NEG; tok_FLOAT; tok_LONGINT; tok_LONGNEG; tok_VOCAB; tok_OPEN; tok_CLOSE;
                      tok_ABORT; tok_ERROR; tok_PING; tok_PONG].

(* Constraint.checkToken *)
Definition base_taste (t : tinfo) (ty size : Z) : oc unit :=
  match tassoc ty (t_taster t) with
  | None => if negb (known_tok ty) then OExc 1 else if t_strict t then OBanana else OViol
  | Some None => OOk tt
  | Some (Some l) => if size >? l then OViol else OOk tt
  end.

Definition oc_ok {A} (r : oc A) : bool := match r with OOk _ => true | _ => false end.

Fixpoint staste (c : sctr) (ty size : Z) {struct c} : oc unit :=
  match c with
  | SAny t | SPrim t | SText t _ | SBool t _ | SList t _ _ | STuple t _ | SDict t _ _ _ | SSet t _ _ => base_taste t ty size
  | SChoice alts => if negb (known_tok ty) then OExc 1          (* PolyConstraint.checkToken swallows Violation / BananaError only *)
                     else if existsb (fun a => oc_ok (staste a ty size)) alts then OOk tt else OViol
  end.

Definition tinfo_of (c : sctr) : option tinfo :=
  match c with
  | SAny t | SPrim t | SText t _ | SBool t _ | SList t _ _ | STuple t _ | SDict t _ _ _ | SSet t _ _ => Some t
  | SChoice _ => None
  end.

Fixpoint zmem (k : Z) (l : list Z) : bool := match l with [] => false | x :: r => (k =? x) || zmem k r end.

(* Constraint.checkOpentype on a one-token opentype; code None = a string that names no known opentype *)
Definition scheck_opentype (c : sctr) (code : option Z) : bool :=
  match tinfo_of c with
  | None => true                                                   (* PolyConstraint inherits opentypes = None *)
  | Some t => match t_opens t with
              | None => true
              | Some l => match code with Some k => (k =? oc_reference) || zmem k l | None => false end
              end
  end.

(* ---- unslicer states ---- *)
Inductive sch :=
| HRoot (c : option sctr)
| HList (ic : option sctr) (mx : option Z) | HTuple (cs : option (list sctr))
| HDict (kv : option (sctr * sctr)) (mk : option Z)
| HSet (ic : option sctr) (mx : option Z) | HFset (ic : option sctr) (mx : option Z)
| HText (mx : option (option Z))        (* None: no constraint set; Some mx: UnicodeConstraint with that maxLength *)
| HBool (v : option bool) | HNone
| HRef.                                 (* ReferenceUnslicer: its token check is modelled, the object it resolves to is not *)

Record sfr := { s_ch : sch; s_items : list uval (* newest first; a set keeps distinct members *); s_n : Z }.

Definition mkf (h : sch) : sfr := {| s_ch := h; s_items := []; s_n := 0 |}.
Definition sroot (c : option sctr) : sfr := mkf (HRoot c).

Definition zlen {A} (l : list A) : Z := Z.of_nat (List.length l).
Definition full (mx : option Z) (n : Z) : bool := match mx with Some m => n >=? m | None => false end.

(* the constraint a container applies to its next token: None = "the container is full" -> Violation *)
Definition slot (f : sfr) : option (option sctr) :=
  let n := zlen (s_items f) in
  match s_ch f with
  | HList ic mx => if full mx n then None else Some ic
  | HTuple None => Some None
  | HTuple (Some cs) => match nth_error cs (List.length (s_items f)) with None => None | Some c => Some (Some c) end
  | HDict kv mk => if full mk (n / 2) then None
                   else Some (match kv with None => None | Some (k, v) => Some (if Z.even n then k else v) end)
  | HSet ic mx => if full mx n then None else Some ic
  | HFset ic mx => if full mx n then None else Some ic
  | _ => Some None
  end.

Definition otaste (oc_ : option sctr) (ty size : Z) : oc unit := match oc_ with None => OOk tt | Some c => staste c ty size end.

(* <top>.checkToken(typebyte, size) *)
Definition std_check (f : sfr) (ty size : Z) : oc unit :=
  match s_ch f with
  | HRoot c => otaste c ty size
  | HList _ _ | HTuple _ | HDict _ _ | HSet _ _ | HFset _ _ =>
    match slot f with None => OViol | Some c => otaste c ty size end
  | HText mx =>
    if negb ((ty =? tok_STRING) || (ty =? tok_VOCAB)) then OBanana
    else match mx with
         | Some (Some m) => if (ty =? tok_STRING) && (size >? 6 * m) then OViol else OOk tt
         | _ => OOk tt
         end
  | HBool _ => if negb (ty =? tok_INT) then OBanana else if negb (s_n f =? 0) then OBanana else OOk tt
  | HNone => OBanana
  | HRef => if ty =? tok_INT then OOk tt else OBanana       (* "ReferenceUnslicer only accepts INTs" *)
  end.

(* RootUnslicer.openerCheckToken (every standard unslicer delegates to its parent, hence to the root) *)
Definition str_copyable : list Z := [99; 111; 112; 121; 97; 98; 108; 101].
Definition std_opener (mi lg : Z) (st : list sfr) (ty size : Z) (ot : list (list Z)) : oc unit :=
  if ty =? tok_STRING then
    let limit := match ot with [c] => if list_eqb c str_copyable then Z.max mi lg else mi | _ => mi end in
    if size >? limit then OViol else OOk tt
  else if ty =? tok_VOCAB then OOk tt else OViol.

(* opentype strings *)
Definition otcode (name : list Z) : option Z :=
  if list_eqb name [108; 105; 115; 116] then Some oc_list
  else if list_eqb name [116; 117; 112; 108; 101] then Some oc_tuple
  else if list_eqb name [115; 101; 116] then Some oc_set
  else if list_eqb name [105; 109; 109; 117; 116; 97; 98; 108; 101; 45; 115; 101; 116] then Some oc_fset
  else if list_eqb name [100; 105; 99; 116] then Some oc_dict
  else if list_eqb name [117; 110; 105; 99; 111; 100; 101] then Some oc_unicode
  else if list_eqb name [98; 111; 111; 108; 101; 97; 110] then Some oc_boolean
  else if list_eqb name [110; 111; 110; 101] then Some oc_none
  else if list_eqb name [100; 101; 99; 105; 109; 97; 108] then Some oc_decimal
  else if list_eqb name [114; 101; 102; 101; 114; 101; 110; 99; 101] then Some oc_reference
  else if list_eqb name str_copyable then Some oc_copyable
  else if list_eqb name [115; 101; 116; 45; 118; 111; 99; 97; 98] then Some oc_setvocab
  else if list_eqb name [97; 100; 100; 45; 118; 111; 99; 97; 98] then Some oc_addvocab
  else None.

(* the unslicer for an opentype and what <child>.setConstraint(c) leaves in it.
   OExc 5: the `assert isinstance(constraint, XConstraint)` of setConstraint fails.
   OExc 98: ABSTAINS -- the unslicer that the real code creates here (DecimalUnslicer without a constraint or under Any;
   ReplaceVocabUnslicer / AddVocabUnslicer without a constraint, under Any or under a ByteStringConstraint) is not modelled.
   Under any other constraint DecimalUnslicer.setConstraint is `assert False` and the vocab unslicers' is
   `assert isinstance(constraint, ByteStringConstraint)`: AssertionError, the connection is abandoned. *)
Definition mkchild (code : Z) (c : option sctr) : oc (option sfr) :=
  let some (h : sch) := OOk (Some (mkf h)) in
  let free := match c with None => true | Some (SAny _) => true | _ => false end in
  if code =? oc_none then some HNone
  else if code =? oc_reference then some HRef
  else if code =? oc_decimal then (if free then OExc 98 else OExc 5)
  else if (code =? oc_setvocab) || (code =? oc_addvocab) then
    match c with None | Some (SAny _) | Some (SPrim _) => OExc 98 | _ => OExc 5 end
  else
  if code =? oc_list then (if free then some (HList None None) else match c with Some (SList _ ic mx) => some (HList (Some ic) mx) | _ => OExc 5 end)
  else if code =? oc_tuple then (if free then some (HTuple None) else match c with Some (STuple _ cs) => some (HTuple (Some cs)) | _ => OExc 5 end)
  else if code =? oc_dict then (if free then some (HDict None None) else match c with Some (SDict _ k v mk) => some (HDict (Some (k, v)) mk) | _ => OExc 5 end)
  else if code =? oc_set then (if free then some (HSet None None) else match c with Some (SSet _ ic mx) => some (HSet (Some ic) mx) | _ => OExc 5 end)
  else if code =? oc_fset then (if free then some (HFset None None) else match c with Some (SSet _ ic mx) => some (HFset (Some ic) mx) | _ => OExc 5 end)
  else if code =? oc_unicode then (if free then some (HText None) else match c with Some (SText _ mx) => some (HText (Some mx)) | _ => OExc 5 end)
  else if code =? oc_boolean then (if free then some (HBool None) else match c with Some (SBool _ v) => some (HBool v) | _ => OExc 5 end)
  else OViol.

(* <top>.doOpen(opentype) *)
Definition std_do_open (st : list sfr) (ot : list (list Z)) : oc (option sfr) :=
  match st, ot with
  | top :: rest, [name] =>
    let code := otcode name in
    match s_ch top with
    | HRoot c =>
      (* RootUnslicer.doOpen: only for top-level objects; topRegistries include set-vocab / add-vocab, not copyable *)
      if negb (match c with Some c0 => scheck_opentype c0 code | None => true end) then OViol
      else match code with
           | None => OViol
           | Some k => if k =? oc_copyable then OViol else mkchild k c
           end
    | HList _ _ | HTuple _ | HDict _ _ | HSet _ _ | HFset _ _ =>
      match slot top with
      | None => OViol                                            (* full *)
      | Some c =>
        if negb (match c with Some c0 => scheck_opentype c0 code | None => true end) then OViol
        else match code with
             | None => OViol                                     (* RootUnslicer.open: unknown OPEN type *)
             | Some k => if k =? oc_copyable then OExc 98        (* ABSTAINS: waits for the class name, then a RemoteCopyUnslicer *)
                         else if (k =? oc_setvocab) || (k =? oc_addvocab) then OViol     (* openRegistries: no vocab unslicers *)
                         else mkchild k c
             end
      end
    | _ => OViol                                                 (* LeafUnslicer.doOpen *)
    end
  | _, _ => OExc 98                                              (* unreachable: no modelled doOpen asks for a second index token *)
  end.

Definition std_start (f : sfr) (cnt : Z) : oc sfr := OOk f.

(* hashing / equality of members and keys *)
Fixpoint hashable (v : uval) : bool :=
  match v with
  | UNode t _ items => if (t =? 1) || (t =? 3) || (t =? 5) then false
                       else if t =? 2 then forallb hashable items else true
  | _ => true
  end.
Fixpoint keyable (v : uval) : bool :=      (* equality of such values is equality of their codes *)
  match v with
  | UInt _ | UStr _ => true
  | UFloat _ => false
  | UNode t _ items => if (t =? 6) || (t =? 8) then true else if t =? 2 then forallb keyable items else false
  end.
Definition veqb (a b : uval) : bool := list_eqb (uval_code a) (uval_code b).
Definition vmem (v : uval) (l : list uval) : bool := existsb (veqb v) l.

Fixpoint evens {A} (l : list A) : list A := match l with x :: _ :: r => x :: evens r | [x] => [x] | [] => [] end.
Fixpoint pairs_only {A} (l : list A) : list A := match l with x :: y :: r => x :: y :: pairs_only r | _ => [] end.
Fixpoint dedupe (l : list uval) (seen : list uval) : list uval :=
  match l with [] => [] | x :: r => if vmem x seen then dedupe r seen else x :: dedupe r (x :: seen) end.

Definition push (f : sfr) (v : uval) : sfr := {| s_ch := s_ch f; s_items := v :: s_items f; s_n := s_n f |}.
Definition setn (f : sfr) (v : uval) : sfr := {| s_ch := s_ch f; s_items := [v]; s_n := 1 |}.

(* BananaError("duplicate key '%s'" % key): with a tuple key the % operator takes the tuple as the argument list, and unless
   it has exactly one element the formatting itself raises TypeError *)
Definition key_error (v : uval) : oc sfr :=
  match v with UNode 2 _ items => if (List.length items =? 1)%nat then OBanana else OExc 2 | _ => OBanana end.

(* <top>.receiveChild(obj) *)
Definition std_child (f : sfr) (v : uval) : list uevent * oc sfr :=
  match s_ch f with
  | HRoot _ => ([UDeliver v], OOk f)
  | HList _ mx => if full mx (zlen (s_items f)) then ([], OViol) else ([], OOk (push f v))
  | HTuple _ | HFset _ _ => ([], OOk (push f v))
  | HDict _ _ =>
    if Z.even (zlen (s_items f)) then
      (* receiveKey *)
      if negb (hashable v) then ([], key_error v)                     (* unhashable key *)
      else if negb (keyable v) then ([UUnmodelled], OExc 97)
      else if vmem v (evens (rev (s_items f))) then ([], key_error v) (* duplicate key *)
      else ([], OOk (push f v))
    else ([], OOk (push f v))
  | HSet _ mx =>
    if full mx (zlen (s_items f)) then ([], OViol)
    else if negb (hashable v) then ([], OExc 2)                       (* set.add: TypeError *)
    else if negb (keyable v) then ([UUnmodelled], OExc 97)
    else if vmem v (s_items f) then ([], OOk f) else ([], OOk (push f v))
  | HText _ =>
    if negb (s_n f =? 0) then ([], OBanana)                           (* already received a string *)
    else match v with
         | UStr b => if uascii b then ([], OOk (setn f (UNode 6 b []))) else ([UUnmodelled], OExc 97)
         | _ => ([], OExc 7)
         end
  | HBool cv =>
    match v with
    | UInt z => let b := negb (z =? 0) in
                match cv with
                | Some want => if Bool.eqb b want then ([], OOk (setn f (UNode 7 [if b then 1 else 0] []))) else ([], OViol)
                | None => ([], OOk (setn f (UNode 7 [if b then 1 else 0] [])))
                end
    | _ => ([], OExc 5)
    end
  | HNone => ([], OOk f)
  | HRef => ([UUnmodelled], OExc 97)                                  (* ABSTAINS: Banana.getObject / the scoped object tables *)
  end.

Definition vnone : uval := UNode 8 [] [].

(* <top>.receiveClose() *)
Definition std_close (f : sfr) : oc uval :=
  match s_ch f with
  | HRoot _ => OBanana
  | HList _ _ => OOk (UNode 1 [] (rev (s_items f)))
  | HTuple _ => OOk (UNode 2 [] (rev (s_items f)))
  | HDict _ _ => OOk (UNode 5 [] (pairs_only (rev (s_items f))))
  | HSet _ _ => OOk (UNode 3 [] (rev (s_items f)))
  | HFset _ _ => if negb (forallb hashable (s_items f)) then OExc 2
                 else if negb (forallb keyable (s_items f)) then OOk (UNode 4 [99] (rev (s_items f)))   (* abstains: equality of members not modelled *)
                 else OOk (UNode 4 [] (dedupe (rev (s_items f)) []))
  | HText _ | HBool _ => match s_items f with [v] => OOk v | _ => OOk vnone end
  | HNone => OOk vnone
  | HRef => OExc 97
  end.

Definition std_finish (f : sfr) : oc unit := OOk tt.

(* reportViolation: only the root absorbs (the harness's Banana subclass returns None from reportViolation) *)
Definition std_report (f : sfr) : option (list uevent) :=
  match s_ch f with HRoot _ => Some [UViolation] | _ => None end.

(* ---- the receiver ---- *)
Section Inst.
Variables mi lg : Z.     (* RootUnslicer.maxIndexLength, longest registered Copyable name *)
Definition sfeed := ufeed sfr std_check (std_opener mi lg) std_do_open std_start std_child std_close std_finish std_report.
Definition sfeed_all := ufeed_all sfr std_check (std_opener mi lg) std_do_open std_start std_child std_close std_finish std_report.
Definition stok_apply := utok_apply sfr std_check (std_opener mi lg) std_do_open std_start std_child std_close std_finish std_report.
Definition sapply_all := uapply_all sfr std_check (std_opener mi lg) std_do_open std_start std_child std_close std_finish std_report.

Fixpoint strace (s : rstate (uctx sfr)) (cs : list (list Z)) : list (list Z) * list (list Z) :=
  match cs with
  | [] => ([], [])
  | c :: r => let '(s1, e1) := sfeed s c in
              let '(es, snaps) := strace s1 r in (map uevent_code e1 ++ es, usnapshot sfr s1 :: snaps)
  end.
End Inst.

Definition sctx0 (c : option sctr) : uctx sfr := uctx0 sfr (sroot c) [].

(* ---- the schema's bound on accepted bodies, computed from the taster tables ---- *)
Definition omax (a b : option Z) : option Z := match a, b with Some x, Some y => Some (Z.max x y) | _, _ => None end.

Definition lim_of (t : list (Z * option Z)) (ty : Z) : option Z :=
  match tassoc ty t with None => Some 0 | Some None => None | Some (Some l) => Some (Z.max 0 l) end.

Definition taster_bound (t : tinfo) : option Z :=
  omax (lim_of (t_taster t) tok_STRING) (omax (lim_of (t_taster t) tok_LONGINT) (lim_of (t_taster t) tok_LONGNEG)).

Definition omax_list (l : list (option Z)) : option Z := fold_right omax (Some 0) l.

(* the bound read off the TASTER TABLES alone (the round-5 definition of the schema's bound).  It is NOT a bound on what the
   real receiver holds: props/C11.v C11_taster_only_bound_refuted -- a slot whose opentype check admits OPEN copyable hands the
   following tokens to a RemoteCopyUnslicer, whose checkToken applies no constraint to attribute names. *)
Fixpoint sbound_tasters (c : sctr) : option Z :=
  match c with
  | SAny _ => None
  | SPrim t => taster_bound t
  | SText t mx => omax (taster_bound t) (match mx with Some m => Some (Z.max 0 (6 * m)) | None => None end)
  | SBool t _ => taster_bound t
  | SList t ic _ => omax (taster_bound t) (sbound_tasters ic)
  | STuple t cs => omax (taster_bound t) (omax_list (map sbound_tasters cs))
  | SDict t k v _ => omax (taster_bound t) (omax (sbound_tasters k) (sbound_tasters v))
  | SSet t ic _ => omax (taster_bound t) (sbound_tasters ic)
  | SChoice alts => omax_list (map sbound_tasters alts)
  end.

(* a constraint's opentype list is CLOSED when it is a list (not None = "all types are accepted") that names none of the opentypes
   whose unslicers take no size limit from the schema: copyable, decimal, set-vocab, add-vocab *)
Definition tclosed (t : tinfo) : bool :=
  match t_opens t with
  | None => false
  | Some l => negb (zmem oc_copyable l || zmem oc_decimal l || zmem oc_setvocab l || zmem oc_addvocab l)
  end.

Definition cbound (t : tinfo) : option Z := if tclosed t then taster_bound t else None.

(* THE SCHEMA'S BOUND: the largest STRING / LONGINT / LONGNEG body that can be accepted anywhere under constraint c; None = no
   finite bound.  Finite only if every constraint of the tree has a closed opentype list; a PolyConstraint (which inherits
   opentypes = None: schema.py "TODO: taster/opentypes should be a union of the alternatives'") has a finite bound only as the
   ROOT constraint (inner = false), where RootUnslicer.doOpen looks OPEN copyable up in the top-level registries and refuses it;
   in a container's slot (inner = true) it admits OPEN copyable and nothing bounds the attribute names that follow. *)
Fixpoint sbound_in (inner : bool) (c : sctr) : option Z :=
  match c with
  | SAny _ => None
  | SPrim t => cbound t
  | SText t mx => omax (cbound t) (match mx with Some m => Some (Z.max 0 (6 * m)) | None => None end)
  | SBool t _ => cbound t
  | SList t ic _ => omax (cbound t) (sbound_in true ic)
  | STuple t cs => omax (cbound t) (omax_list (map (sbound_in true) cs))
  | SDict t k v _ => omax (cbound t) (omax (sbound_in true k) (sbound_in true v))
  | SSet t ic _ => omax (cbound t) (sbound_in true ic)
  | SChoice alts => if inner then None else omax_list (map (sbound_in true) alts)
  end.

Definition sbound (c : sctr) : option Z := sbound_in false c.      (* of a root constraint *)
Definition ibound (c : sctr) : option Z := sbound_in true c.       (* of the constraint of a container's slot *)

Definition obound (oc_ : option sctr) : option Z := match oc_ with None => None | Some c => sbound c end.
Definition oibound (oc_ : option sctr) : option Z := match oc_ with None => None | Some c => ibound c end.

(* the same for what setConstraint left in an unslicer *)
Definition fbound (h : sch) : option Z :=
  match h with
  | HRoot c => obound c
  | HList ic _ | HSet ic _ | HFset ic _ => oibound ic
  | HTuple None => None
  | HTuple (Some cs) => omax_list (map ibound cs)
  | HDict None _ => None
  | HDict (Some (k, v)) _ => omax (ibound k) (ibound v)
  | HText None | HText (Some None) => None
  | HText (Some (Some m)) => Some (Z.max 0 (6 * m))
  | HBool _ | HNone | HRef => Some 0
  end.

Definition ole (a : option Z) (B : Z) : Prop := match a with Some x => x <= B | None => False end.

(* did the model abstain in this run? *)
Definition sabstained (es : list uevent) : bool := abstained es.
