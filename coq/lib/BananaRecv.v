(* The Banana-level receive logic of banana.py (the part of handleData between the header
   scan and the token clauses, handleOpen, handleToken, handleClose, handleViolation,
   dataReceived's catch-all) as an instance of the generic tokenizer lib/Recv.v, over the
   *policy unslicers* of harness/c07_impl.py (one-letter kinds chosen by the opentype).
   Model only; theorems in BananaRecvProofs.v. *)
From Coq Require Import ZArith List Bool Lia.
Import ListNotations.
Require Import Verif.lib.PyLite Verif.gen.BananaGen Verif.lib.Token Verif.lib.Recv.
Local Open Scope Z_scope.

Inductive val := VInt (z : Z) | VFloat (b : list Z) | VStr (b : list Z) | VList (kind : Z) (items : list val).

Inductive event :=
| EDeliver (v : val)            (* root.receiveChild: a top-level object is handed to the application *)
| EViolation                    (* root.reportViolation: one top-level object was discarded *)
| EStart (k cnt : Z) | EFinish (k : Z) | EDoOpenViol (k : Z) | EChildViol (k n : Z) | ECloseViol | EAbsorb (k : Z)
| EPong (n : Z)                 (* sendPONG *)
| EErrorSent | ELose            (* sendError: ERROR token written, transport.loseConnection *)
| ERecvErr (code : Z)           (* reportReceiveError: 0 BananaError, 1 KeyError, 2 TypeError/other *)
| EUnmodelled.                  (* the model abstains (non-ASCII index token) *)

Record frame := { f_kind : Z; f_param : Z; f_open : option Z; f_items : list val (* newest first *) }.

Record bctx := {
  discard : Z;                  (* discardCount *)
  inOpen : bool;
  opentype : list (list Z);     (* index tokens so far, oldest first *)
  stack : list frame;           (* receiveStack, top first *)
  objctr : Z; inbObj : Z; inbOpen : Z;
  rootmode : Z;                 (* 0 any | 1 ints only | 2 no floats | 3+n: bodies up to n bytes *)
  vocab : list (Z * list Z)     (* incomingVocabulary *)
}.

Definition with_stack (c : bctx) (d : Z) (st : list frame) : bctx :=
  {| discard := d; inOpen := inOpen c; opentype := opentype c; stack := st; objctr := objctr c;
     inbObj := inbObj c; inbOpen := inbOpen c; rootmode := rootmode c; vocab := vocab c |}.
Definition with_inOpen (c : bctx) (b : bool) : bctx :=
  {| discard := discard c; inOpen := b; opentype := opentype c; stack := stack c; objctr := objctr c;
     inbObj := inbObj c; inbOpen := inbOpen c; rootmode := rootmode c; vocab := vocab c |}.
Definition with_opentype (c : bctx) (o : list (list Z)) : bctx :=
  {| discard := discard c; inOpen := inOpen c; opentype := o; stack := stack c; objctr := objctr c;
     inbObj := inbObj c; inbOpen := inbOpen c; rootmode := rootmode c; vocab := vocab c |}.

(* letters *)
Definition kR := 82. Definition kL := 76. Definition kI := 73. Definition kS := 83. Definition kN := 78.
Definition kC := 67. Definition kX := 88. Definition kT := 84. Definition kF := 70. Definition kP := 80.
Definition kB := 66. Definition kQ := 81. Definition k2 := 50.

Definition root_frame : frame := {| f_kind := kR; f_param := 0; f_open := None; f_items := [] |}.

Definition ctx0 (mode : Z) (voc : list (Z * list Z)) : bctx :=
  {| discard := 0; inOpen := false; opentype := []; stack := [root_frame]; objctr := 0; inbObj := 0; inbOpen := 0;
     rootmode := mode; vocab := voc |}.

Definition fatal (code : Z) : list event := [EErrorSent; ELose; ERecvErr code].

Inductive hr := Ok' (c : bctx) (es : list event) | Fatal' (es : list event).

(* ---- checkToken / openerCheckToken of the policy unslicers ---- *)
Inductive ck := CkOk | CkViol | CkBanana.

Definition is_sized (ty : Z) : bool := (ty =? tok_STRING) || (ty =? tok_LONGINT) || (ty =? tok_LONGNEG).

Definition check_frame (mode : Z) (f : frame) (ty size : Z) : ck :=
  let k := f_kind f in
  if k =? kB then CkBanana
  else if (k =? kI) && negb ((ty =? tok_INT) || (ty =? tok_NEG)) then CkViol
  else if (k =? kS) && is_sized ty && (f_param f <? size) then CkViol
  else if (k =? kN) && (f_param f <=? Z.of_nat (List.length (f_items f))) then CkViol
  else if (k =? kQ) && (ty =? tok_FLOAT) then CkViol
  else if k =? kR then
    if (mode =? 1) && negb ((ty =? tok_INT) || (ty =? tok_NEG) || (ty =? tok_OPEN)) then CkViol
    else if (mode =? 2) && (ty =? tok_FLOAT) then CkViol
    else if (3 <=? mode) && is_sized ty && (mode - 3 <? size) then CkViol
    else CkOk
  else CkOk.

Definition INDEX_MAX := 3.
Definition opener_check (ty size : Z) : ck :=
  if ty =? tok_STRING then (if INDEX_MAX <? size then CkViol else CkOk)
  else if ty =? tok_VOCAB then CkOk else CkViol.

(* ---- handleViolation ---- *)
(* the while loop: ask the top to report; R and P absorb, everyone else is popped *)
Fixpoint hv_loop (st : list frame) (d : Z) (inClose : bool) : option (list frame * Z * list event) :=
  match st with
  | [] => None
  | top :: rest =>
    if f_kind top =? kR then Some (st, d, [EViolation])
    else if f_kind top =? kP then Some (st, d, [EAbsorb kP])
    else
      let d' := if inClose then d else d + 1 in
      match rest with
      | [] => None                                  (* "you killed the RootUnslicer" *)
      | _ => match hv_loop rest d' false with
             | None => None
             | Some (st', d'', es) => Some (st', d'', EFinish (f_kind top) :: es)
             end
      end
  end.

Definition handle_violation (c : bctx) (inOpenFlag inClose : bool) : hr :=
  let d := if inOpenFlag then discard c + 1 else discard c in
  match hv_loop (stack c) d inClose with
  | None => Fatal' (fatal 0)
  | Some (st', d', es) => Ok' (with_stack c d' st') es
  end.

(* ---- handleToken ---- *)
Definition push_item (f : frame) (v : val) : frame :=
  {| f_kind := f_kind f; f_param := f_param f; f_open := f_open f; f_items := v :: f_items f |}.

Definition handle_token (c : bctx) (v : val) : hr :=
  match stack c with
  | [] => Fatal' (fatal 2)
  | top :: rest =>
    if f_kind top =? kR then Ok' c [EDeliver v]
    else if (f_kind top =? kC) && (Z.of_nat (List.length (f_items top)) =? f_param top) then
      match handle_violation c false false with
      | Ok' c' es => Ok' c' (EChildViol kC (f_param top) :: es)
      | Fatal' es => Fatal' (EChildViol kC (f_param top) :: es)
      end
    else Ok' (with_stack c (discard c) (push_item top v :: rest)) []
  end.

(* ---- handleClose ---- *)
Definition handle_close (c : bctx) (count : Z) : hr :=
  match stack c with
  | [] => Fatal' (fatal 2)
  | top :: rest =>
    match f_open top with
    | None => Fatal' (fatal 0)                              (* CLOSE at top level: lost sync *)
    | Some oc =>
      if negb (oc =? count) then Fatal' (fatal 0)           (* lost sync *)
      else if f_kind top =? kX then
        match handle_violation c false true with
        | Ok' c' es => Ok' c' (ECloseViol :: es)
        | Fatal' es => Fatal' (ECloseViol :: es)
        end
      else
        let obj := VList (f_kind top) (rev (f_items top)) in
        if f_kind top =? kF then
          match handle_violation c false true with
          | Ok' c' es => Ok' c' (EFinish kF :: es)
          | Fatal' es => Fatal' (EFinish kF :: es)
          end
        else
          match handle_token (with_stack c (discard c) rest) obj with
          | Ok' c' es => Ok' c' (EFinish (f_kind top) :: es)
          | Fatal' es => Fatal' (EFinish (f_kind top) :: es)
          end
    end
  end.

(* ---- handleOpen ---- *)
Definition is_digit (b : Z) : bool := (48 <=? b) && (b <=? 57).
Fixpoint dec_val (ds : list Z) (acc : Z) : Z := match ds with [] => acc | d :: r => dec_val r (acc * 10 + (d - 48)) end.
Definition known_kind (k : Z) : bool :=
  (k =? kL) || (k =? kI) || (k =? kS) || (k =? kN) || (k =? kC) || (k =? kX) || (k =? kT) || (k =? kF)
  || (k =? kP) || (k =? kB) || (k =? kQ).

Inductive openres := OWait | OViol | OChild (k p : Z).

Definition do_open (top : frame) (ot : list (list Z)) : openres :=
  match ot with
  | [] => OViol
  | head :: more =>
    match head with
    | [] => OViol
    | k :: digits =>
      if k =? k2 then (match more with [] => OWait | _ => if f_kind top =? kI then OViol else OChild kL 0 end)
      else if negb (known_kind k) || negb (forallb is_digit digits) then OViol
      else if f_kind top =? kI then OViol
      else OChild k (dec_val digits 0)
    end
  end.

Definition ascii_only (b : list Z) : bool := forallb (fun x => (0 <=? x) && (x <? 128)) b.

Definition handle_open (c : bctx) (v : val) : hr :=
  match v with
  | VStr b =>
    if negb (ascii_only b) then Fatal' [EUnmodelled]
    else
    let ot := opentype c ++ [b] in
    let c1 := with_opentype c ot in
    match stack c with
    | [] => Fatal' (fatal 2)
    | top :: rest =>
      match do_open top ot with
      | OWait => Ok' c1 []
      | OViol =>
        match handle_violation (with_inOpen c1 false) true false with
        | Ok' c' es => Ok' c' (EDoOpenViol (f_kind top) :: es)
        | Fatal' es => Fatal' (EDoOpenViol (f_kind top) :: es)
        end
      | OChild k p =>
        let child := {| f_kind := k; f_param := p; f_open := Some (inbOpen c); f_items := [] |} in
        let c2 := with_stack (with_inOpen c1 false) (discard c) (child :: stack c) in
        if k =? kT then
          match handle_violation c2 false false with
          | Ok' c' es => Ok' c' (EStart k (inbObj c) :: es)
          | Fatal' es => Fatal' (EStart k (inbObj c) :: es)
          end
        else Ok' c2 [EStart k (inbObj c)]
      end
    end
  | _ => Fatal' (fatal 2)         (* six.ensure_str(int) raises TypeError *)
  end.

(* deliver a complete, accepted primitive *)
Definition deliver (c : bctx) (v : val) : hr := if inOpen c then handle_open c v else handle_token c v.

(* ---- the taste of a token that has a body (STRING / LONGINT / LONGNEG / FLOAT) ---- *)
Definition taste (c : bctx) (ty hdr : Z) : ck :=
  match stack c with
  | [] => CkBanana
  | top :: _ => if inOpen c then opener_check ty hdr else check_frame (rootmode c) top ty hdr
  end.

Definition to_generic (r : hr) : hres2 bctx event :=
  match r with Ok' c es => HCont c es | Fatal' es => HFatal es end.

Definition begin_body (c : bctx) (ty hdr : Z) : bres bctx event :=
  if 0 <? discard c then BReject c []
  else match taste c ty hdr with
       | CkOk => BAccept
       | CkBanana => BFatal (fatal 0)
       | CkViol =>
         match handle_violation c (inOpen c) false with
         | Ok' c' es => BReject (with_inOpen c' false) es
         | Fatal' es => BFatal es
         end
       end.

Definition body_val (ty : Z) (body : list Z) : val :=
  if ty =? tok_STRING then VStr body
  else if ty =? tok_FLOAT then VFloat body
  else if ty =? tok_LONGINT then VInt (be256 body 0)
  else VInt (- be256 body 0).

Definition finish_body (c : bctx) (ty hdr : Z) (body : list Z) : hres2 bctx event :=
  to_generic (deliver c (body_val ty body)).

Fixpoint vocab_get (v : list (Z * list Z)) (i : Z) : option (list Z) :=
  match v with [] => None | (k, w) :: r => if k =? i then Some w else vocab_get r i end.

(* every type byte without a body, except ERROR *)
Definition step_nobody_hr (c : bctx) (ty hdr : Z) : hr :=
  let rejected0 := 0 <? discard c in
  let wasInOpen := inOpen c in
  (* OPEN bookkeeping happens first *)
  let open_fatal := (ty =? tok_OPEN) && inOpen c in
  if open_fatal then Fatal' (fatal 0)
  else
  let c1 := if ty =? tok_OPEN then
              {| discard := discard c; inOpen := true; opentype := opentype c; stack := stack c; objctr := objctr c + 1;
                 inbObj := objctr c; inbOpen := inbOpen c; rootmode := rootmode c; vocab := vocab c |}
            else c in
  let exempt := (ty =? tok_PING) || (ty =? tok_PONG) || (ty =? tok_ABORT) || (ty =? tok_CLOSE) in
  (* the taste *)
  let tasted : option (bctx * list event * bool) :=
    if rejected0 || exempt then Some (c1, [], rejected0)
    else match (match stack c1 with
                | [] => CkBanana
                | top :: _ => if wasInOpen then opener_check ty hdr else check_frame (rootmode c1) top ty hdr
                end) with
         | CkOk => Some (c1, [], false)
         | CkBanana => None
         | CkViol => match handle_violation c1 (inOpen c1) false with
                     | Ok' c' es => Some (with_inOpen c' false, es, true)
                     | Fatal' _ => None
                     end
         end in
  match tasted with
  | None => Fatal' (fatal 0)
  | Some (c2, es, rejected) =>
    let cont (r : hr) : hr := match r with Ok' c' es' => Ok' c' (es ++ es') | Fatal' es' => Fatal' (es ++ es') end in
    if ty =? tok_OPEN then
      let c3 := {| discard := discard c2; inOpen := inOpen c2; opentype := opentype c2; stack := stack c2; objctr := objctr c2;
                   inbObj := inbObj c2; inbOpen := hdr; rootmode := rootmode c2; vocab := vocab c2 |} in
      if rejected then
        if inOpen c3 then Ok' (with_inOpen (with_stack c3 (discard c3 + 1) (stack c3)) false) es
        else Ok' c3 es
      else Ok' (with_opentype (with_inOpen c3 true) []) es
    else if ty =? tok_CLOSE then
      if inOpen c2 && (discard c2 =? 0) then Fatal' (es ++ fatal 0)              (* CLOSE token in the index phase of an OPEN sequence *)
      else if 0 <? discard c2 then Ok' (with_stack c2 (discard c2 - 1) (stack c2)) es
      else cont (handle_close c2 hdr)
    else if ty =? tok_ABORT then
      if rejected then Ok' c2 es
      else cont (match handle_violation c2 (inOpen c2) false with      (* an ABORT in the index phase abandons that OPEN sequence *)
                 | Ok' c' es' => Ok' (with_inOpen c' false) es' | Fatal' es' => Fatal' es' end)
    else if ty =? tok_INT then (if rejected then Ok' c2 es else cont (deliver c2 (VInt hdr)))
    else if ty =? tok_NEG then (if rejected then Ok' c2 es else cont (deliver c2 (VInt (- hdr))))
    else if ty =? tok_VOCAB then
      match vocab_get (vocab c2) hdr with
      | None => Fatal' (es ++ fatal 1)                          (* KeyError, even while discarding *)
      | Some w => if rejected then Ok' c2 es else cont (deliver c2 (VStr w))
      end
    else if ty =? tok_PING then Ok' c2 (es ++ [EPong hdr])
    else if ty =? tok_PONG then Ok' c2 es
    else Fatal' (es ++ fatal 0)                                 (* LIST / invalid type byte *)
  end.

Definition step_nobody (c : bctx) (ty hdr : Z) : hres2 bctx event := to_generic (step_nobody_hr c ty hdr).

(* the complete receiver *)
Definition bfeed := feed bctx event begin_body finish_body step_nobody (fatal 0) (fatal 0) (fun _ => [ELose]).
Definition bfeed_all := feed_all bctx event begin_body finish_body step_nobody (fatal 0) (fatal 0) (fun _ => [ELose]).
Definition brun := run bctx event begin_body finish_body step_nobody (fatal 0) (fatal 0) (fun _ => [ELose]).

(* ---- flattening for the correspondence check ---- *)
Fixpoint val_code (v : val) : list Z :=
  match v with
  | VInt z => [1; z]
  | VFloat b => 2 :: Z.of_nat (List.length b) :: b
  | VStr b => 3 :: Z.of_nat (List.length b) :: b
  | VList k items => 4 :: k :: Z.of_nat (List.length items) :: flat_map val_code items
  end.

Definition event_code (e : event) : list Z :=
  match e with
  | EDeliver v => 10 :: val_code v
  | EViolation => [11]
  | EStart k n => [12; k; n]
  | EFinish k => [13; k]
  | EDoOpenViol k => [14; k]
  | EChildViol k n => [15; k; n]
  | ECloseViol => [16]
  | EAbsorb k => [17; k]
  | EPong n => [18; n]
  | EErrorSent => [19]
  | ELose => [20]
  | ERecvErr c => [21; c]
  | EUnmodelled => [99]
  end.

Definition snapshot (s : rstate bctx) : list Z :=
  [lenZ (r_buf s); r_skip s; discard (r_ctx s); Z.of_nat (List.length (stack (r_ctx s)));
   (if inOpen (r_ctx s) then 1 else 0); (if r_dead s then 1 else 0)].

(* feed chunk by chunk, returning the events and a snapshot after every chunk *)
Fixpoint trace (s : rstate bctx) (cs : list (list Z)) : list (list Z) * list (list Z) :=
  match cs with
  | [] => ([], [])
  | c :: r => let '(s1, e1) := bfeed s c in
              let '(es, snaps) := trace s1 r in (map event_code e1 ++ es, snapshot s1 :: snaps)
  end.

(* ---- token-level view: what one complete token does to the context ---- *)
Definition tok_apply (c : bctx) (ty hdr : Z) (body : list Z) : hr :=
  if has_body ty then
    match begin_body c ty hdr with
    | BAccept => deliver c (body_val ty body)
    | BReject c' es => Ok' c' es
    | BFatal es => Fatal' es
    end
  else step_nobody_hr c ty hdr.

(* nesting depth the receiver believes it is at: discarded levels + live unslicers above the
   root + an OPEN whose index phase is still running *)
Definition open_depth (c : bctx) : Z :=
  discard c + (Z.of_nat (List.length (stack c)) - 1) + (if inOpen c then 1 else 0).

(* how a token changes the nesting depth of the stream *)
Definition tok_delta (ty : Z) : Z := if ty =? tok_OPEN then 1 else if ty =? tok_CLOSE then -1 else 0.

Definition at_top (c : bctx) : Prop := discard c = 0 /\ inOpen c = false /\ stack c = [root_frame].

Fixpoint apply_all (c : bctx) (ts : list (Z * Z * list Z)) : hr :=
  match ts with
  | [] => Ok' c []
  | (ty, hdr, body) :: r =>
    match tok_apply c ty hdr body with
    | Fatal' es => Fatal' es
    | Ok' c' es => match apply_all c' r with Ok' c'' es' => Ok' c'' (es ++ es') | Fatal' es' => Fatal' (es ++ es') end
    end
  end.
