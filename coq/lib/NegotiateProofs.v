(* C13: lemmas and theorems about lib/Negotiate.v (model) and gen/NegotiateGen.v (translated). *)
From Coq Require Import ZArith List String Bool Lia.
Import ListNotations.
Require Import Verif.lib.PyLite Verif.gen.NegotiateGen Verif.lib.Negotiate.
Local Open Scope Z_scope.

(* ------------------------------------------------------------------ *)
(* lemmas on the translated functions                                   *)

Lemma best_overlap_ok a b c d v :
  best_overlap a b c d = Ok v <-> (v = Z.min b d /\ a <= v /\ c <= v).
Proof.
  unfold best_overlap. cbv zeta.
  destruct (Z.ltb_spec (Z.min b d) a); [split; [discriminate | lia]|].
  destruct (Z.ltb_spec (Z.min b d) c); [split; [discriminate | lia]|].
  split; [intros E; inversion E; subst; lia | intros (-> & _ & _); reflexivity].
Qed.

Lemma best_overlap_exc a b c d :
  (exists t, best_overlap a b c d = Exc t) <-> (forall v, ~ (a <= v <= b /\ c <= v <= d)).
Proof.
  unfold best_overlap. cbv zeta.
  destruct (Z.ltb_spec (Z.min b d) a); [split; [intros _ v; lia | intros _; eexists; reflexivity]|].
  destruct (Z.ltb_spec (Z.min b d) c); [split; [intros _ v; lia | intros _; eexists; reflexivity]|].
  split; [intros [t E]; discriminate | intros Hn; exfalso; apply (Hn (Z.min b d)); lia].
Qed.

(* both halves in one statement (C13_best_overlap_spec) *)
Theorem best_overlap_spec a b c d :
  (forall v, best_overlap a b c d = Ok v <-> (v = Z.min b d /\ a <= v /\ c <= v)) /\
  ((exists t, best_overlap a b c d = Exc t) <-> (forall v, ~ (a <= v <= b /\ c <= v <= d))).
Proof. split; [intros v; apply best_overlap_ok | apply best_overlap_exc]. Qed.

(* the result is the greatest common element of the two ranges *)
Lemma best_overlap_greatest a b c d v :
  best_overlap a b c d = Ok v ->
  (a <= v <= b /\ c <= v <= d) /\ forall w, a <= w <= b -> c <= w <= d -> w <= v.
Proof. intros H%best_overlap_ok. destruct H as (-> & Ha & Hc). split; [lia | intros w Hw1 Hw2; lia]. Qed.

Lemma best_overlap_sym a b c d v : best_overlap a b c d = Ok v -> best_overlap c d a b = Ok v.
Proof. intros H%best_overlap_ok. apply best_overlap_ok. lia. Qed.

Lemma best_overlap_sym_exc a b c d t :
  best_overlap a b c d = Exc t -> exists t', best_overlap c d a b = Exc t'.
Proof.
  intros H. apply best_overlap_exc. assert (E : exists t, best_overlap a b c d = Exc t) by eauto.
  pose proof (proj1 (best_overlap_exc a b c d) E) as E'. intros v Hv. apply (E' v). lia.
Qed.

Lemma check_inrange_ok a b v : check_inrange a b v = Ok tt <-> a <= v <= b.
Proof.
  unfold check_inrange.
  destruct (Z.ltb_spec v a); destruct (Z.gtb_spec v b); cbn [orb]; split; intros; try discriminate; try lia; reflexivity.
Qed.

(* ---- string order *)
Lemma str_ltb_irrefl a : str_ltb a a = false.
Proof. induction a as [|x a IH]; cbn [str_ltb]; [reflexivity|]. rewrite Z.ltb_irrefl. exact IH. Qed.

Lemma str_ltb_asym a b : str_ltb a b = true -> str_ltb b a = false.
Proof.
  revert b; induction a as [|x a IH]; intros [|y b]; cbn [str_ltb]; try discriminate; try reflexivity.
  destruct (Z.ltb_spec x y), (Z.ltb_spec y x); try lia; try discriminate; auto.
Qed.

Lemma str_ltb_total a b : a <> b -> str_ltb a b = true \/ str_ltb b a = true.
Proof.
  revert b; induction a as [|x a IH]; intros [|y b] Hne; cbn [str_ltb]; auto; try congruence.
  destruct (Z.ltb_spec x y), (Z.ltb_spec y x); auto; try lia.
  assert (x = y) by lia; subst. apply IH. congruence.
Qed.

(* ------------------------------------------------------------------ *)
(* exactly one decider *)

Definition strict_order_op (op : cmpop) : bool :=
  match op with CmpGt | CmpGe | CmpLt | CmpLe => true | _ => false end.

(* any of the four order comparisons elects exactly one of two distinct ids *)
Lemma one_decider_op op x y :
  strict_order_op op = true -> x <> y ->
  ((if cmp_eval op x y then 1 else 0) + (if cmp_eval op y x then 1 else 0) = 1)%nat.
Proof.
  intros Hop Hne.
  destruct (str_ltb_total _ _ Hne) as [H|H]; pose proof (str_ltb_asym _ _ H) as H';
    destruct op; try discriminate; cbn [cmp_eval]; rewrite H, H'; reflexivity.
Qed.

Theorem one_decider a b : ep_id a <> ep_id b -> masters a b = 1%nat.
Proof. intros Hne. unfold masters, i_am_master. apply one_decider_op; [reflexivity | exact Hne]. Qed.

(* ------------------------------------------------------------------ *)
(* agreement *)

Definition in_range lo hi v := lo <= v <= hi.

(* v is the highest value common to both ranges *)
Definition best_common (alo ahi blo bhi v : Z) : Prop :=
  in_range alo ahi v /\ in_range blo bhi v /\
  forall w, in_range alo ahi w -> in_range blo bhi w -> w <= v.

Definition agreed (a b : endpoint) (p : params) : Prop :=
  best_common (ep_vmin a) (ep_vmax a) (ep_vmin b) (ep_vmax b) (p_version p) /\
  best_common (ep_vocmin a) (ep_vocmax a) (ep_vocmin b) (ep_vocmax b) (p_vocab p) /\
  (hash_checked_from_index <= p_vocab p -> ep_hash a (p_vocab p) = ep_hash b (p_vocab p)).

Lemma best_common_sym alo ahi blo bhi v :
  best_common alo ahi blo bhi v -> best_common blo bhi alo ahi v.
Proof. unfold best_common; intros (H1 & H2 & H3); split; [exact H2|split; [exact H1|intros w Hb Ha; apply H3; assumption]]. Qed.

Lemma agreed_sym a b p : agreed a b p -> agreed b a p.
Proof.
  unfold agreed; intros (H1 & H2 & H3); split; [apply best_common_sym; exact H1|split; [apply best_common_sym; exact H2|]].
  intros H; symmetry; auto.
Qed.

Lemma best_overlap_common a b c d v : best_overlap a b c d = Ok v -> best_common a b c d v.
Proof.
  intros H%best_overlap_greatest. destruct H as ((H1 & H2) & H3).
  unfold best_common, in_range. repeat split; try lia. intros w Hw1 Hw2; apply H3; assumption.
Qed.

(* what the decider computes on its own: the highest common version and the highest common table *)
Definition best_params (a b : endpoint) (p : params) : Prop :=
  best_common (ep_vmin a) (ep_vmax a) (ep_vmin b) (ep_vmax b) (p_version p) /\
  best_common (ep_vocmin a) (ep_vocmax a) (ep_vocmin b) (ep_vocmax b) (p_vocab p).

Lemma best_params_sym a b p : best_params a b p -> best_params b a p.
Proof. intros [H1 H2]; split; apply best_common_sym; assumption. Qed.

Lemma agreed_best_params a b p : agreed a b p -> best_params a b p.
Proof. intros (H1 & H2 & _); split; assumption. Qed.

Lemma master_decide_best m s d : master_decide m s = Ok d -> best_params m s (params_of d) /\ d_hash d = ep_hash m (d_vocab d).
Proof.
  unfold master_decide, eval_hello. destruct (best_overlap (ep_vmin m) _ _ _) as [ver|] eqn:E1; [|discriminate].
  destruct (best_overlap (ep_vocmin m) _ _ _) as [idx|] eqn:E2; [|discriminate]. intros E; inversion E; subst; cbn.
  split; [split; cbn; apply best_overlap_common; assumption|reflexivity].
Qed.

(* the three ways one attempt can end, seen from the decider m and the other end s *)
Definition both_switched (m s : endpoint) (om os : outcome) : Prop := exists p, om = Banana p /\ os = Banana p /\ agreed m s p.
Definition both_abandoned (om os : outcome) : Prop := exists w1 w2, om = Failed w1 /\ os = Failed w2.
Definition decider_switched_alone (m s : endpoint) (om os : outcome) : Prop :=
  exists p w, om = SwitchedThenLost p /\ os = Failed w /\ best_params m s p.

(* the asymmetric core: m is the master *)
Lemma run_agreement m s om os :
  run m s = (om, os) ->
  both_switched m s om os \/ both_abandoned om os \/ decider_switched_alone m s om os.
Proof.
  unfold run. destruct (master_decide m s) as [d|tm] eqn:Ed.
  2:{ destruct (eval_hello s m); intros E; inversion E; right; left; red; eauto. }
  pose proof (master_decide_best _ _ _ Ed) as [Bp Hh].
  destruct (eval_hello s m) as [v0|ts] eqn:Eh.
  2:{ intros E; inversion E; right; right; red; eauto. }
  unfold slave_accept.
  destruct (ep_accepts s (d_version d)); cbn [negb]; [|intros E; inversion E; right; right; red; eauto].
  destruct (check_inrange (ep_vocmin s) (ep_vocmax s) (d_vocab d)) as [u|t3] eqn:Ec; [|intros E; inversion E; right; right; red; eauto].
  destruct ((hash_checked_from_index <=? d_vocab d) && negb (ep_hash s (d_vocab d) =? d_hash d)) eqn:Eg;
    intros E; inversion E; subst; [right; right; red; eauto|].
  left. exists (params_of d). split; [reflexivity|split; [reflexivity|]]. destruct Bp as [B1 B2].
  unfold agreed. split; [exact B1|split; [exact B2|]]. cbn [params_of p_vocab].
  intros Hi. apply andb_false_iff in Eg as [Eg|Eg].
  - apply Z.leb_gt in Eg. lia.
  - apply negb_false_iff, Z.eqb_eq in Eg. congruence.
Qed.

(* "either both switch to the RPC protocol with identical parameters ... or both abandon the connection" is FALSE of the code and
   of the faithful model (agreement_two_way_refuted below); what holds for any two endpoints with distinct ids is the THREE-way
   statement: identical parameters on both sides, or both abandon before anything was created, or -- the non-decider refused after
   the decision had been sent -- the DECIDER ALONE has switched (with the highest common version and table) and then loses the
   connection, while the non-decider abandons with its error.  Never does the non-decider switch alone, never do the two ends run
   with different parameters. *)
Theorem agreement a b oa ob :
  ep_id a <> ep_id b -> negotiate a b = (oa, ob) ->
  both_switched a b oa ob \/ both_abandoned oa ob \/
  (i_am_master (ep_id a) (ep_id b) = true /\ decider_switched_alone a b oa ob) \/
  (i_am_master (ep_id b) (ep_id a) = true /\ decider_switched_alone b a ob oa).
Proof.
  intros Hne. unfold negotiate.
  destruct (i_am_master (ep_id a) (ep_id b)) eqn:Ma.
  - intros E. destruct (run_agreement _ _ _ _ E) as [H|[H|H]]; auto.
  - destruct (i_am_master (ep_id b) (ep_id a)) eqn:Mb.
    + destruct (run b a) as [ob' oa'] eqn:Er. unfold swap; cbn [fst snd]. intros E; inversion E; subst.
      destruct (run_agreement _ _ _ _ Er) as [(p & -> & -> & Hp)|[(w1 & w2 & -> & ->)|H]].
      * left; exists p; split; [reflexivity|split; [reflexivity|]]. apply agreed_sym; exact Hp.
      * right; left; red; eauto.
      * right; right; right; auto.
    + pose proof (one_decider a b Hne) as H1. unfold masters in H1. rewrite Ma, Mb in H1. discriminate.
Qed.

(* non-vacuity: two concrete endpoints with different ranges negotiate (3, 1) *)
Definition ex_a := {| ep_id := [98]; ep_vmin := 1; ep_vmax := 3; ep_vocmin := 0; ep_vocmax := 1;
                      ep_hash := fun i => i * 7; ep_accepts := fun _ => true |}.
Definition ex_b := {| ep_id := [97]; ep_vmin := 2; ep_vmax := 5; ep_vocmin := 1; ep_vocmax := 4;
                      ep_hash := fun i => i * 7; ep_accepts := fun _ => true |}.
Example negotiate_example :
  negotiate ex_a ex_b = (Banana {| p_version := 3; p_vocab := 1 |}, Banana {| p_version := 3; p_vocab := 1 |}).
Proof. vm_compute. reflexivity. Qed.

(* ------------------------------------------------------------------ *)
(* The verdict on a header block, read from Negotiation.dataReceived by symbolic execution (whatever the arrangement of the
   tests in the source), equals the specification: refuse when the terminator lies beyond the cap, or is absent although
   cap + slack bytes are buffered (a terminator that starts within the cap can then no longer be completed); wait when it is
   absent; otherwise split there.  The verdict is a function of where the terminator is and of how many bytes are buffered:
   nothing else -- not the packet boundaries, not what follows the block -- enters. *)
Definition header_spec (eoh buflen : Z) : Z :=
  if (negotiation_header_cap <? eoh) || ((eoh =? -1) && (negotiation_header_cap + negotiation_noterm_slack <=? buflen)) then 0
  else if eoh =? -1 then 1 else 2.

Ltac zcases :=
  repeat (match goal with
          | |- context [Z.ltb ?a ?b] => destruct (Z.ltb_spec a b)
          | |- context [Z.leb ?a ?b] => destruct (Z.leb_spec a b)
          | |- context [Z.eqb ?a ?b] => destruct (Z.eqb_spec a b)
          end; cbn [orb andb negb]).

Theorem header_verdict_spec eoh buflen : header_verdict eoh buflen = header_spec eoh buflen.
Proof.
  unfold header_verdict, header_spec, negotiation_header_cap, negotiation_noterm_slack.
  zcases; try reflexivity; lia.
Qed.

(* the cap, stated over the TRANSLATED verdict (0 = refuse, 1 = wait, 2 = split): *)
Ltac verdict_cases := rewrite header_verdict_spec; unfold header_spec, negotiation_header_cap, negotiation_noterm_slack; zcases.

(* a terminator found beyond 4096 bytes is refused, however much is buffered *)
Theorem header_verdict_beyond_cap eoh buflen : 4096 < eoh -> header_verdict eoh buflen = 0.
Proof. intros H. verdict_cases; try reflexivity; lia. Qed.

(* without a terminator (bytes.find gives -1) the buffer is refused exactly from 4096 + 4 bytes on: 4097..4099 bytes are KEPT,
   because a terminator that starts within the cap may still be completed by the next packet *)
Theorem header_verdict_noterm buflen : header_verdict (-1) buflen = 0 <-> 4100 <= buflen.
Proof. verdict_cases; split; intros; try reflexivity; try discriminate; lia. Qed.

Theorem header_verdict_noterm_waits buflen : header_verdict (-1) buflen = 1 <-> buflen < 4100.
Proof. verdict_cases; split; intros; try reflexivity; try discriminate; lia. Qed.

(* a terminator within the cap is split there, whatever follows it *)
Theorem header_verdict_within_cap eoh buflen : 0 <= eoh <= 4096 -> header_verdict eoh buflen = 2.
Proof. intros H. verdict_cases; try reflexivity; lia. Qed.

(* both halves in one statement (C13_header_cap, C11_negotiation_cap) *)
Theorem header_cap_verdict :
  (forall eoh buflen, 4096 < eoh -> header_verdict eoh buflen = 0) /\
  (forall buflen, header_verdict (-1) buflen = 0 <-> 4100 <= buflen).
Proof. split; [exact header_verdict_beyond_cap | exact header_verdict_noterm]. Qed.

Example header_4097_without_terminator_is_kept : header_verdict (-1) 4097 = 1 /\ header_verdict (-1) 4100 = 0 /\ header_verdict 4097 5000 = 0.
Proof. vm_compute. auto. Qed.

(* ------------------------------------------------------------------ *)
(* Round 5: the decider for ANY two endpoints, "exactly when", the kind of failure, a misbehaving decider *)

Lemma str_ltb_eq_false a b : str_ltb a b = false -> str_ltb b a = false -> a = b.
Proof.
  intros H1 H2. destruct (list_eq_dec Z.eq_dec a b) as [E|N]; [exact E|].
  destruct (str_ltb_total _ _ N) as [H|H]; congruence.
Qed.

(* never two deciders; none exactly when the two ids are equal (both ends then wait for a decision that nobody sends, and the
   attempt ends by the negotiation timeout) *)
Theorem decider_count a b :
  masters a b = (if list_eqb (ep_id a) (ep_id b) then 0 else 1)%nat.
Proof.
  destruct (list_eqb (ep_id a) (ep_id b)) eqn:E.
  - apply list_eqb_eq in E. unfold masters, i_am_master, master_cmp, cmp_eval. rewrite E, str_ltb_irrefl. reflexivity.
  - apply one_decider. intros H. apply list_eqb_eq in H. congruence.
Qed.

Theorem no_decider_iff_equal_ids a b : masters a b = 0%nat <-> ep_id a = ep_id b.
Proof.
  rewrite decider_count. destruct (list_eqb (ep_id a) (ep_id b)) eqn:E.
  - apply list_eqb_eq in E. split; auto.
  - split; [discriminate|]. intros H. apply list_eqb_eq in H. congruence.
Qed.

Theorem equal_ids_both_fail a b : ep_id a = ep_id b -> exists w, negotiate a b = (Failed w, Failed w).
Proof.
  intros E. unfold negotiate, i_am_master, master_cmp, cmp_eval. rewrite E, str_ltb_irrefl. eexists; reflexivity.
Qed.

(* the class invariant asserted by Negotiation.__init__: every version of the own range has its accept method *)
Definition implements_own_range (e : endpoint) : Prop :=
  forall v, ep_vmin e <= v <= ep_vmax e -> ep_accepts e v = true.

Definition compatible (m s : endpoint) : Prop :=
  (exists v, in_range (ep_vmin m) (ep_vmax m) v /\ in_range (ep_vmin s) (ep_vmax s) v) /\
  (exists i, in_range (ep_vocmin m) (ep_vocmax m) i /\ in_range (ep_vocmin s) (ep_vocmax s) i /\
             (forall j, in_range (ep_vocmin m) (ep_vocmax m) j -> in_range (ep_vocmin s) (ep_vocmax s) j -> j <= i) /\
             (hash_checked_from_index <= i -> ep_hash m i = ep_hash s i)).

Lemma compatible_sym m s : compatible m s -> compatible s m.
Proof.
  intros ((v & H1 & H2) & (i & H3 & H4 & H5 & H6)). split; [exists v; auto|].
  exists i. split; [exact H4|split; [exact H3|split; [intros j Ha Hb; apply H5; assumption|intros H; symmetry; auto]]].
Qed.

(* the two exceptions negotiate.py reports as a failed negotiation (tokens.NegotiationError, RemoteNegotiationError).  The loss of an
   established connection is NOT one of them: an end that has switched and then loses the connection is SwitchedThenLost *)
Definition negotiation_error (t : string) : Prop :=
  t = "NegotiationError"%string \/ t = "RemoteNegotiationError"%string.

(* the two pairs of ranges meet: exactly then the decider SENDS a decision (decision_sent_iff) *)
Definition ranges_meet (a b : endpoint) : Prop :=
  (exists v, in_range (ep_vmin a) (ep_vmax a) v /\ in_range (ep_vmin b) (ep_vmax b) v) /\
  (exists i, in_range (ep_vocmin a) (ep_vocmax a) i /\ in_range (ep_vocmin b) (ep_vocmax b) i).

Lemma ranges_meet_sym a b : ranges_meet a b -> ranges_meet b a.
Proof. intros ((v & H1 & H2) & (i & H3 & H4)). split; [exists v|exists i]; auto. Qed.

Lemma compatible_ranges_meet a b : compatible a b -> ranges_meet a b.
Proof. intros (Hv & (i & H3 & H4 & _)). split; [exact Hv|exists i; auto]. Qed.

Lemma best_overlap_some a b c d : (exists v, best_overlap a b c d = Ok v) <-> (exists v, in_range a b v /\ in_range c d v).
Proof.
  split.
  - intros (v & H). apply best_overlap_common in H. destruct H as (H1 & H2 & _). eauto.
  - intros (v & H1 & H2). destruct (best_overlap a b c d) as [w|t] eqn:E; [eauto|]. exfalso.
    assert (X : exists t, best_overlap a b c d = Exc t) by eauto.
    apply (proj1 (best_overlap_exc a b c d) X v). unfold in_range in *. lia.
Qed.

(* the decider sends a decision exactly when both pairs of ranges meet *)
Theorem decision_sent_iff m s : (exists d, master_decide m s = Ok d) <-> ranges_meet m s.
Proof.
  unfold master_decide, eval_hello, ranges_meet. rewrite <- !best_overlap_some. split.
  - intros (d & H). destruct (best_overlap (ep_vmin m) _ _ _) as [ver|]; [|discriminate].
    destruct (best_overlap (ep_vocmin m) _ _ _) as [idx|]; [|discriminate]. eauto.
  - intros ((v & ->) & (i & ->)). eauto.
Qed.

Lemma best_overlap_tag a b c d t : best_overlap a b c d = Exc t -> t = "NegotiationError"%string.
Proof.
  unfold best_overlap. cbv zeta.
  destruct (Z.ltb _ _); [intros E; inversion E; reflexivity|]. destruct (Z.ltb _ _); intros E; inversion E; reflexivity.
Qed.

(* the asymmetric core, exactly, with the class invariant on the non-decider (never the AttributeError of a missing accept method):
   - compatible: both switch with the same parameters;
   - the ranges do not meet (no decision is ever sent): both abandon, each with a negotiation error;
   - the ranges meet but the table chosen differs in content: the decision IS sent, the decider has switched with the highest
     common version / table and only loses the connection; the non-decider abandons with NegotiationError *)
Lemma run_exact m s :
  implements_own_range s ->
  (compatible m s -> exists p, run m s = (Banana p, Banana p)) /\
  (~ ranges_meet m s -> exists w1 w2, run m s = (Failed w1, Failed w2) /\ negotiation_error w1 /\ negotiation_error w2) /\
  (ranges_meet m s -> ~ compatible m s ->
     exists p, best_params m s p /\ run m s = (SwitchedThenLost p, Failed "NegotiationError")).
Proof.
  intros Inv. unfold run, negotiation_error.
  destruct (master_decide m s) as [d|tm] eqn:Ed.
  2:{ assert (NM : ~ ranges_meet m s) by (intros R; apply decision_sent_iff in R as (d & R); congruence).
      assert (Tm : tm = "NegotiationError"%string).
      { revert Ed. unfold master_decide, eval_hello. destruct (best_overlap (ep_vmin m) _ _ _) eqn:E1.
        - destruct (best_overlap (ep_vocmin m) _ _ _) eqn:E2; [discriminate|]. intros E; inversion E; subst. eapply best_overlap_tag; exact E2.
        - intros E; inversion E; subst. eapply best_overlap_tag; exact E1. }
      split; [intros C; exfalso; apply NM, compatible_ranges_meet, C|].
      split; [|intros R; exfalso; exact (NM R)].
      intros _. destruct (eval_hello s m) as [v0|ts] eqn:Eh.
      - do 2 eexists. split; [reflexivity|]. auto.
      - do 2 eexists. split; [reflexivity|]. split; [auto|]. left. eapply best_overlap_tag; exact Eh. }
  assert (RM : ranges_meet m s) by (apply decision_sent_iff; eauto).
  pose proof (master_decide_best _ _ _ Ed) as [[B1 B2] Hh].
  cbn [params_of p_version p_vocab] in B1, B2.
  destruct B1 as (Vm & Vs & Vmax), B2 as (Im & Is & Imax).
  destruct (eval_hello s m) as [v0|ts] eqn:Eh.
  2:{ exfalso. unfold eval_hello in Eh. destruct RM as ((v & H1 & H2) & _).
      assert (X : exists t, best_overlap (ep_vmin s) (ep_vmax s) (ep_vmin m) (ep_vmax m) = Exc t) by eauto.
      apply (proj1 (best_overlap_exc _ _ _ _) X v). unfold in_range in *. lia. }
  unfold slave_accept.
  rewrite (Inv (d_version d)) by (unfold in_range in Vs; lia). cbn [negb].
  rewrite (proj2 (check_inrange_ok (ep_vocmin s) (ep_vocmax s) (d_vocab d)) Is).
  rewrite Hh.
  destruct ((hash_checked_from_index <=? d_vocab d) && negb (ep_hash s (d_vocab d) =? ep_hash m (d_vocab d))) eqn:Eg.
  - apply andb_true_iff in Eg as [G1 G2]. apply Z.leb_le in G1. apply negb_true_iff, Z.eqb_neq in G2.
    assert (NC : ~ compatible m s).
    { intros (_ & (i & Hm & Hs & Hmax & Hh')).
      assert (i = d_vocab d) by (apply Z.le_antisymm; [apply Imax; assumption|apply Hmax; assumption]). subst i.
      apply G2. symmetry. apply Hh'. exact G1. }
    split; [intros C; exfalso; exact (NC C)|]. split; [intros NM; exfalso; exact (NM RM)|].
    intros _ _. exists (params_of d). split; [|reflexivity].
    split; cbn [params_of p_version p_vocab]; (split; [assumption|split; assumption]).
  - assert (C : compatible m s).
    { split; [exists (d_version d); split; assumption|].
      exists (d_vocab d). split; [exact Im|split; [exact Is|split; [exact Imax|]]].
      intros Hi. apply andb_false_iff in Eg as [Eg|Eg]; [apply Z.leb_gt in Eg; lia|].
      apply negb_false_iff, Z.eqb_eq in Eg. congruence. }
    split; [intros _; eexists; reflexivity|]. split; [intros NM; exfalso; exact (NM RM)|].
    intros _ NC. exfalso. exact (NC C).
Qed.

(* the outcome of the attempt with the decider's result first *)
Definition decider_first (a b : endpoint) (r : outcome * outcome) : outcome * outcome :=
  if i_am_master (ep_id a) (ep_id b) then r else swap r.

(* "either both switch ... with identical parameters ... or both abandon the connection with a negotiation error", EXACTLY: for every
   two endpoints with distinct ids that satisfy the class invariant,
   (1) both get the same parameters iff the ranges meet and the table chosen has the same hash on both sides (compatible);
   (2) when the ranges do not meet -- the failure happens BEFORE a decision is sent -- both abandon, each with a negotiation error;
   (3) when the ranges meet but the two are not compatible -- the failure happens AFTER the decision was sent -- the non-decider
       abandons with NegotiationError, and the decider has ALREADY switched with the highest common version and table: it ends
       SwitchedThenLost, not with a negotiation error.  (3) is where the real code departs from the property text (known finding
       oracle/decider-switched-before-refusal). *)
Theorem agreement_exact a b :
  ep_id a <> ep_id b -> implements_own_range a -> implements_own_range b ->
  (compatible a b -> exists p, negotiate a b = (Banana p, Banana p) /\ agreed a b p) /\
  (~ ranges_meet a b -> exists w1 w2, negotiate a b = (Failed w1, Failed w2) /\ negotiation_error w1 /\ negotiation_error w2) /\
  (ranges_meet a b -> ~ compatible a b ->
     exists p, best_params a b p /\ decider_first a b (negotiate a b) = (SwitchedThenLost p, Failed "NegotiationError")).
Proof.
  intros Hne Ia Ib.
  assert (Ag : forall p, negotiate a b = (Banana p, Banana p) -> agreed a b p).
  { intros p E. destruct (agreement a b _ _ Hne E) as [(q & E1 & _ & Hq)|[(w1 & w2 & E1 & _)|[(_ & (q & w & E1 & _))|(_ & (q & w & E1 & _))]]];
      [inversion E1; subst; exact Hq|discriminate|discriminate|discriminate]. }
  unfold decider_first, negotiate in *.
  destruct (i_am_master (ep_id a) (ep_id b)) eqn:Ma.
  - pose proof (run_exact a b Ib) as (R1 & R2 & R3). split; [|split].
    + intros C. destruct (R1 C) as (p & E). exists p. split; [exact E|apply Ag; exact E].
    + exact R2.
    + exact R3.
  - destruct (i_am_master (ep_id b) (ep_id a)) eqn:Mb.
    + pose proof (run_exact b a Ia) as (R1 & R2 & R3). split; [|split].
      * intros C. destruct (R1 (compatible_sym _ _ C)) as (p & E). exists p.
        rewrite E in Ag |- *. split; [reflexivity|apply Ag; reflexivity].
      * intros NM. destruct R2 as (w1 & w2 & E & N1 & N2); [intros R; apply NM, ranges_meet_sym, R|].
        rewrite E. exists w2, w1. auto.
      * intros RM NC. destruct R3 as (p & Bp & E); [apply ranges_meet_sym, RM|intros C; apply NC, compatible_sym, C|].
        exists p. split; [apply best_params_sym, Bp|]. rewrite E. reflexivity.
    + pose proof (one_decider a b Hne) as H1. unfold masters in H1. rewrite Ma, Mb in H1. discriminate.
Qed.

(* "both abandon the connection with a negotiation error" happens exactly when the failure precedes the decision: *)
Theorem both_abandon_iff_no_decision a b :
  ep_id a <> ep_id b -> implements_own_range a -> implements_own_range b ->
  ((exists w1 w2, negotiate a b = (Failed w1, Failed w2)) <-> ~ ranges_meet a b) /\
  ((exists p, negotiate a b = (Banana p, Banana p)) <-> compatible a b).
Proof.
  intros Hne Ia Ib. destruct (agreement_exact a b Hne Ia Ib) as (E1 & E2 & E3).
  assert (Sw : forall p w, decider_first a b (negotiate a b) = (SwitchedThenLost p, Failed w) ->
               (forall w1 w2, negotiate a b <> (Failed w1, Failed w2)) /\ (forall q, negotiate a b <> (Banana q, Banana q))).
  { intros p w. unfold decider_first, swap. destruct (i_am_master (ep_id a) (ep_id b)); destruct (negotiate a b) as [x y]; cbn [fst snd];
      intros E; inversion E; subst; split; intros; discriminate. }
  split; split.
  - intros (w1 & w2 & E) RM.
    assert (NC : ~ compatible a b) by (intros C; destruct (E1 C) as (p & E' & _); congruence).
    destruct (E3 RM NC) as (p & _ & E'). apply Sw in E' as [F _]. exact (F _ _ E).
  - intros NM. destruct (E2 NM) as (w1 & w2 & E & _). eauto.
  - intros (p & E).
    assert (RM : ranges_meet a b).
    { destruct (agreement a b _ _ Hne E) as [(q & E' & _ & Hq)|[(w1 & w2 & E' & _)|[(_ & (q & w & E' & _))|(_ & (q & w & E' & _))]]];
        try discriminate. inversion E'; subst. destruct Hq as ((H1 & H2 & _) & (H3 & H4 & _) & _). split; eexists; eauto. }
    destruct (agreement a b _ _ Hne E) as [(q & E' & _ & Hq)|[(w1 & w2 & E' & _)|[(_ & (q & w & E' & _))|(_ & (q & w & E' & _))]]];
      try discriminate. inversion E'; subst q. destruct Hq as ((H1 & H2 & H2') & (H3 & H4 & H5) & H6).
    split; [eexists; eauto|]. exists (p_vocab p). split; [exact H3|split; [exact H4|split; [exact H5|exact H6]]].
  - intros C. destruct (E1 C) as (p & E & _). eauto.
Qed.

(* the two-way statement of the property text -- for two endpoints with distinct ids that satisfy the class invariant, either both
   switch with the same parameters or both abandon -- is FALSE: both ends offer version 3..3 and table 1..1, and their table 1
   differs (the real code: the same ranges, the hash in the decision rewritten in flight; replayed on every run) *)
Definition ex_ra := {| ep_id := [98]; ep_vmin := 3; ep_vmax := 3; ep_vocmin := 1; ep_vocmax := 1;
                       ep_hash := fun i => i * 7 + 1; ep_accepts := fun v => (1 <=? v) && (v <=? 3) |}.
Definition ex_rb := {| ep_id := [97]; ep_vmin := 3; ep_vmax := 3; ep_vocmin := 1; ep_vocmax := 1;
                       ep_hash := fun i => i * 7; ep_accepts := fun v => (1 <=? v) && (v <=? 3) |}.

Lemma ex_r_inv : implements_own_range ex_ra /\ implements_own_range ex_rb /\ ep_id ex_ra <> ep_id ex_rb.
Proof.
  split; [|split; [|discriminate]]; intros v Hv; cbn in *; assert (v = 3) by lia; subst; reflexivity.
Qed.

Theorem agreement_two_way_refuted :
  exists a b oa ob, ep_id a <> ep_id b /\ implements_own_range a /\ implements_own_range b /\ negotiate a b = (oa, ob) /\
    ~ ((exists p, oa = Banana p /\ ob = Banana p) \/ (exists w1 w2, oa = Failed w1 /\ ob = Failed w2)) /\
    oa = SwitchedThenLost {| p_version := 3; p_vocab := 1 |} /\ ob = Failed "NegotiationError".
Proof.
  exists ex_ra, ex_rb. do 2 eexists. destruct ex_r_inv as (Ia & Ib & Hne).
  split; [exact Hne|split; [exact Ia|split; [exact Ib|split; [vm_compute; reflexivity|split; [|split; reflexivity]]]]].
  intros [(p & E & _)|(w1 & w2 & E & _)]; discriminate.
Qed.

(* the refused-decision region of agreement_exact is inhabited, and so is the region where both abandon *)
Example refused_decision_example : ranges_meet ex_ra ex_rb /\ ~ compatible ex_ra ex_rb.
Proof.
  split.
  - split; [exists 3|exists 1]; unfold in_range; cbn; lia.
  - intros (_ & (i & Hi & _ & _ & Hh)). unfold in_range in Hi. cbn in Hi, Hh. assert (i = 1) by lia. subst.
    assert (X : hash_checked_from_index <= 1) by (unfold hash_checked_from_index; lia). specialize (Hh X). discriminate.
Qed.

Definition ex_na := {| ep_id := [98]; ep_vmin := 1; ep_vmax := 2; ep_vocmin := 0; ep_vocmax := 1;
                       ep_hash := fun i => i * 7; ep_accepts := fun v => (1 <=? v) && (v <=? 3) |}.
Definition ex_nb := {| ep_id := [97]; ep_vmin := 3; ep_vmax := 3; ep_vocmin := 0; ep_vocmax := 1;
                       ep_hash := fun i => i * 7; ep_accepts := fun v => (1 <=? v) && (v <=? 3) |}.
Example no_decision_example :
  ~ ranges_meet ex_na ex_nb /\ negotiate ex_na ex_nb = (Failed "NegotiationError", Failed "NegotiationError").
Proof.
  split; [|vm_compute; reflexivity].
  intros ((v & H1 & H2) & _). unfold in_range in *. cbn in *. lia.
Qed.

(* the non-decider checks the decided version only against the accept methods it HAS, not against the range it offered nor
   against the version it computed itself from the decider's hello: a decider that does not follow the protocol can make it
   run a version outside its own range (the class has acceptDecisionVersion1..3 while minVersion = maxVersion = 3) *)
Theorem slave_checks_own_range_refuted :
  exists s d p, implements_own_range s /\ ~ in_range (ep_vmin s) (ep_vmax s) (d_version d) /\ slave_accept s d = Ok p /\ p_version p = d_version d.
Proof.
  exists {| ep_id := [97]; ep_vmin := 3; ep_vmax := 3; ep_vocmin := 0; ep_vocmax := 1; ep_hash := fun i => i * 7;
            ep_accepts := fun v => (1 <=? v) && (v <=? 3) |},
         {| d_version := 1; d_vocab := 1; d_hash := 7 |}.
  eexists. split; [|split; [|split; [vm_compute; reflexivity|reflexivity]]].
  - intros v Hv. cbn in *. assert (v = 3) by lia. subst. reflexivity.
  - unfold in_range. cbn. lia.
Qed.

(* ... whereas what an honest decider sends is always inside the non-decider's own range *)
Theorem honest_decision_in_range m s d :
  master_decide m s = Ok d -> in_range (ep_vmin s) (ep_vmax s) (d_version d) /\ in_range (ep_vocmin s) (ep_vocmax s) (d_vocab d).
Proof.
  unfold master_decide, eval_hello. destruct (best_overlap (ep_vmin m) _ _ _) as [ver|] eqn:E1; [|discriminate].
  destruct (best_overlap (ep_vocmin m) _ _ _) as [idx|] eqn:E2; [|discriminate]. intros E; inversion E; subst; cbn.
  apply best_overlap_common in E1, E2. destruct E1 as (_ & ? & _), E2 as (_ & ? & _). split; assumption.
Qed.

(* completeness with the hypothesis on the accept methods reduced to the class invariant of Negotiation.__init__ (every version of
   the OWN range has its accept method); `forall v, ep_accepts e v = true` would be false of any endpoint modelling the real class *)
Theorem success_when_compatible a b :
  ep_id a <> ep_id b ->
  (exists v, in_range (ep_vmin a) (ep_vmax a) v /\ in_range (ep_vmin b) (ep_vmax b) v) ->
  (exists i, in_range (ep_vocmin a) (ep_vocmax a) i /\ in_range (ep_vocmin b) (ep_vocmax b) i) ->
  (forall i, ep_hash a i = ep_hash b i) ->
  implements_own_range a -> implements_own_range b ->
  exists p, negotiate a b = (Banana p, Banana p).
Proof.
  intros Hne (v & Hva & Hvb) (i & Hia & Hib) Hh Ia Ib.
  destruct (agreement_exact a b Hne Ia Ib) as [S _].
  destruct S as (p & E & _); [|exists p; exact E].
  split; [exists v; auto|]. unfold in_range in *.
  exists (Z.min (ep_vocmax a) (ep_vocmax b)). repeat split; try lia. intros _. apply Hh.
Qed.

Example compatible_example : compatible ex_a ex_b /\ implements_own_range ex_a /\ implements_own_range ex_b /\ ep_id ex_a <> ep_id ex_b.
Proof.
  split; [|split; [intros v _; reflexivity|split; [intros v _; reflexivity|discriminate]]].
  split; [exists 3; unfold in_range; cbn; lia|]. exists 1. unfold in_range; cbn.
  split; [lia|split; [lia|split; [intros j; lia|reflexivity]]].
Qed.
