(* C01, object layer, the pending-completion mechanism of the receiver (model only; proofs in ObjDeferProofs.v).

   Obj.v's machine `run` hands a reference to a container that is still being built around as a pointer (VPtr k).  The
   implementation cannot do that for immutable containers: TupleUnslicer.start / FrozenSetUnslicer.start /
   RemoteCopyUnslicer.start register a twisted Deferred under the object number, Banana.getObject hands that Deferred
   to ReferenceUnslicer, and every parent that is given a Deferred child
     - list / set / dict value / tuple / frozenset: stores a placeholder and adds its `update` as a callback,
     - dict key: raises BananaError, Copyable (attribute name or value): assert, root: assert,
   TupleUnslicer counts its placeholders (num_unreferenceable_children); receiveClose with placeholders left returns
   the Deferred itself (the tuple stays pending, its parent treats it like a reference to a pending tuple); the last
   `update` of a closed tuple runs checkComplete -> complete: setObject(count, tuple), deferred.callback(tuple), which
   runs the registered callbacks in registration order, depth first (a callback that completes another tuple fires
   that tuple's callbacks before the next one of this tuple runs), each being handed WHAT THE PREVIOUS ONE RETURNED
   (Deferred callback chain: `upd_ret_*`, translated from the four `update` methods).

   This file is that mechanism: `dvalue` adds placeholders (DHole k: waiting for object k) and Deferreds (DDefer k),
   `dstate` adds the pending set, the callback lists and the placeholder counters, `dstep` / `drun` / `dunslice` are
   the receiver.  `erase` forgets the difference (placeholder / Deferred of k |-> pointer to k); ObjDeferProofs.v shows
   that `drun` refines the pointer machine for EVERY token stream and that a run that ends with nothing pending and
   no placeholder left delivers exactly the denoted graph. *)
From Coq Require Import ZArith List String Bool Lia.
Import ListNotations.
Require Import Verif.lib.PyLite Verif.gen.BananaGen Verif.gen.SlicersGen Verif.lib.Token Verif.lib.Obj.
Local Open Scope Z_scope.

(* ------------------------------------------------------------------ the pointer machine without the close-time hazard test *)
(* Obj.step refuses, at CLOSE, a Copyable / dict whose attribute value / key points at an immutable that is still on
   the stack (its approximation of "was given a Deferred").  The Deferred-level machine below makes that test where
   the code makes it (receiveChild), so its reference machine is Obj.step without the test. *)
Definition step0 (st : mstate) (t : token) : option mstate :=
  match s_inopen st, t with
  | None, TClose n =>
    match s_stack st with
    | f :: r =>
      if f_open f =? n then
        match f_kind f with
        | KVocab => if even_len (f_items f)
                    then Some {| s_stack := r; s_inopen := None; s_counter := s_counter st; s_heap := s_heap st |} else None
        | _ =>
          match seal f with
          | Some (v, nd) =>
            match recv r v with
            | Some r' => Some {| s_stack := r'; s_inopen := None; s_counter := s_counter st;
                                 s_heap := match nd with Some x => s_heap st ++ [(f_count f, x)] | None => s_heap st end |}
            | None => None
            end
          | None => None
          end
        end
      else None
    | [] => None
    end
  | _, _ => step st t
  end.

Fixpoint run0 (ts : list token) (st : mstate) : option mstate :=
  match ts with
  | [] => Some st
  | t :: r => match step0 st t with Some st' => run0 r st' | None => None end
  end.

(* ------------------------------------------------------------------ values with placeholders and Deferreds *)
Inductive dvalue :=
| DV (v : value)        (* a real object *)
| DHole (k : Z)         (* the placeholder a container put where object k will go (its `update` is a callback of k) *)
| DDefer (k : Z).       (* the Deferred registered for object k, travelling as a child value *)

Definition erase (d : dvalue) : value := match d with DV v => v | DHole k | DDefer k => VPtr k end.
Definition is_dv (d : dvalue) : bool := match d with DV _ => true | _ => false end.

Record dframe := { df_kind : kind; df_open : Z; df_count : Z; df_items : list dvalue (* newest first *); df_refs : list Z }.
Record dnode := { dn_kind : ckind; dn_items : list dvalue }.

(* one registered callback: Deferred of object cb_of, `update` of container cb_tgt, placeholder at index cb_idx
   (oldest-first position) *)
Record cb := { cb_of : Z; cb_tgt : Z; cb_idx : nat }.

Record dstate := {
  d_stack : list dframe;
  d_inopen : option (Z * Z * list (list Z));
  d_counter : Z;
  d_heap : list (Z * dnode);        (* containers whose CLOSE has been seen, placeholders included *)
  d_pend : list Z;                  (* object numbers whose table entry is a Deferred that has not fired *)
  d_cbs : list cb;                  (* callbacks of all pending Deferreds, in registration order *)
  d_unref : list (Z * Z) }.         (* tuple / frozenset number -> num_unreferenceable_children (absent = 0) *)

Definition erase_frame (f : dframe) : frame :=
  {| f_kind := df_kind f; f_open := df_open f; f_count := df_count f; f_items := map erase (df_items f); f_refs := df_refs f |}.
Definition erase_node (nd : dnode) : node := {| n_kind := dn_kind nd; n_items := map erase (dn_items nd) |}.
Definition erase_heap (h : list (Z * dnode)) : heap := map (fun p => (fst p, erase_node (snd p))) h.
Definition erase_state (st : dstate) : mstate :=
  {| s_stack := map erase_frame (d_stack st); s_inopen := d_inopen st; s_counter := d_counter st; s_heap := erase_heap (d_heap st) |}.

(* ------------------------------------------------------------------ tables *)
Definition dis_scope_frame (f : dframe) : bool := match df_kind f with KRoot b => b | KC c => is_scope c | _ => false end.
Definition dreg1 (ids : list Z) (f : dframe) : dframe :=
  if dis_scope_frame f then {| df_kind := df_kind f; df_open := df_open f; df_count := df_count f; df_items := df_items f;
                               df_refs := df_refs f ++ ids |} else f.
Definition dlookup (k : Z) (s : list dframe) : bool := existsb (fun f => dis_scope_frame f && mem k (df_refs f)) s.

Fixpoint unref_get (k : Z) (l : list (Z * Z)) : Z := match l with [] => 0 | (j, n) :: r => if j =? k then n else unref_get k r end.
Fixpoint unref_add (k d : Z) (l : list (Z * Z)) : list (Z * Z) :=
  match l with [] => [(k, d)] | (j, n) :: r => if j =? k then (j, n + d) :: r else (j, n) :: unref_add k d r end.

Definition dpush (v : dvalue) (f : dframe) : dframe :=
  {| df_kind := df_kind f; df_open := df_open f; df_count := df_count f; df_items := v :: df_items f; df_refs := df_refs f |}.

(* what a parent of kind c does with a Deferred child when it already holds `have` children:
   Some true = placeholder + callback + counter (tuple / frozenset), Some false = placeholder + callback, None = refuses *)
Definition takes_deferred (c : ckind) (have : nat) : option bool :=
  match c with
  | CList | CSet => Some false
  | CTuple | CFrozen => Some true
  | CDict => if Nat.even have then None else Some false      (* key: BananaError; value: callback *)
  | CCopy _ => None                                          (* assert not isinstance(obj, Deferred) *)
  | CScope _ => None                                         (* not modelled: no sender stream puts one there (no immutable ancestor) *)
  end.

(* whose `start` registers a Deferred instead of the object (translated: defers_*; FrozenSetUnslicer inherits TupleUnslicer.start) *)
Definition defers_c (c : ckind) : bool :=
  match c with
  | CList => defers_list | CSet => defers_set | CDict => defers_dict | CTuple | CFrozen => defers_tuple
  | CCopy _ => defers_copyable | CScope _ => false
  end.
Definition defers (k : kind) : bool := match k with KC c => defers_c c | _ => false end.

Definition with_stack (st : dstate) (s : list dframe) : dstate :=
  {| d_stack := s; d_inopen := None; d_counter := d_counter st; d_heap := d_heap st; d_pend := d_pend st;
     d_cbs := d_cbs st; d_unref := d_unref st |}.

(* the container numbered j: a frame still on the stack, else a closed node; oldest-first items and its kind *)
Fixpoint find_frame (j : Z) (s : list dframe) : option dframe :=
  match s with [] => None | f :: r => if (df_count f =? j) && (match df_kind f with KC _ => true | _ => false end) then Some f else find_frame j r end.
Fixpoint dfind (k : Z) (h : list (Z * dnode)) : option dnode :=
  match h with [] => None | (i, nd) :: r => if i =? k then Some nd else dfind k r end.

(* the kind of the container numbered k, open or closed *)
Definition kind_of_obj (k : Z) (st : dstate) : option ckind :=
  match find_frame k (d_stack st) with
  | Some f => match df_kind f with KC c => Some c | _ => None end
  | None => match dfind k (d_heap st) with Some nd => Some (dn_kind nd) | None => None end
  end.
(* a reference to a frozenset is outside the model: TupleUnslicer.complete stores the intermediate TUPLE under the
   frozenset's number (only FrozenSetUnslicer.receiveClose converts what it returns), so such a reference would deliver a
   tuple.  No sender emits one (FrozenSetSlicer.trackReferences = False, translated as tr_frozen; a proof below depends
   on it); the model refuses it rather than pretend it is a pointer to the frozenset. *)
Definition ref_ok (k : Z) (st : dstate) : bool := match kind_of_obj k st with Some CFrozen => false | _ => true end.

(* <top unslicer>.receiveChild(v) *)
Definition drecv (st : dstate) (s : list dframe) (v : dvalue) : option dstate :=
  match s with
  | [] => None
  | f :: r =>
    match df_kind f with
    | KRoot _ => match v with DV _ => Some (with_stack st (dpush v f :: r)) | _ => None end
    | KC c =>
      match v with
      | DV _ => Some (with_stack st (dpush v f :: r))
      | DDefer k =>
        match takes_deferred c (List.length (df_items f)) with
        | Some counts =>
          Some {| d_stack := dpush (DHole k) f :: r; d_inopen := None; d_counter := d_counter st; d_heap := d_heap st;
                  d_pend := d_pend st;
                  d_cbs := d_cbs st ++ [{| cb_of := k; cb_tgt := df_count f; cb_idx := List.length (df_items f) |}];
                  d_unref := if counts then unref_add (df_count f) 1 (d_unref st) else d_unref st |}
        | None => None
        end
      | DHole _ => None
      end
    | KText | KDecimal => match df_items f, v with [], DV (VBytes _) => Some (with_stack st (dpush v f :: r)) | _, _ => None end
    | KBool => match df_items f, v with [], DV (VInt _) => Some (with_stack st (dpush v f :: r)) | _, _ => None end
    | KNone => None
    | KVocab => match v with
                | DV (VInt _) => Some (with_stack st (dpush v f :: r))
                | DV (VBytes s) => if word_ok s then Some (with_stack st (dpush v f :: r)) else None
                | _ => None
                end
    | KRef => match df_items f, v with
              | [], DV (VInt k) =>
                if dlookup k s && ref_ok k st   (* Banana.getObject: the table entry is the object, or its Deferred while pending *)
                then Some (with_stack st (dpush (if mem k (d_pend st) then DDefer k else DV (VPtr k)) f :: r))
                else None
              | _, _ => None
              end
    end
  end.

(* ------------------------------------------------------------------ firing a Deferred *)
Fixpoint set_nth {A} (i : nat) (x : A) (l : list A) : list A :=
  match l, i with
  | [], _ => []
  | _ :: r, O => x :: r
  | a :: r, S j => a :: set_nth j x r
  end.

Definition dvalue_eqb_hole (d : dvalue) (k : Z) : bool := match d with DHole j => j =? k | _ => false end.

(* container j, index i := v, provided the placeholder for k is there (the code assigns unconditionally; that the
   placeholder is always there is an invariant of the code, the model tests it and gives up otherwise) *)
Fixpoint fill_stack (j : Z) (i : nat) (k : Z) (v : dvalue) (s : list dframe) : option (list dframe * ckind) :=
  match s with
  | [] => None
  | f :: r =>
    match df_kind f with
    | KC c =>
      if df_count f =? j then
        let items := rev (df_items f) in
        if dvalue_eqb_hole (nth i items (DV VNone)) k
        then Some ({| df_kind := df_kind f; df_open := df_open f; df_count := df_count f;
                      df_items := rev (set_nth i v items); df_refs := df_refs f |} :: r, c)
        else None
      else match fill_stack j i k v r with Some (r', c') => Some (f :: r', c') | None => None end
    | _ => match fill_stack j i k v r with Some (r', c') => Some (f :: r', c') | None => None end
    end
  end.
Fixpoint fill_heap (j : Z) (i : nat) (k : Z) (v : dvalue) (h : list (Z * dnode)) : option (list (Z * dnode) * ckind) :=
  match h with
  | [] => None
  | (a, nd) :: r =>
    if a =? j then
      if dvalue_eqb_hole (nth i (dn_items nd) (DV VNone)) k
      then Some ((a, {| dn_kind := dn_kind nd; dn_items := set_nth i v (dn_items nd) |}) :: r, dn_kind nd)
      else None
    else match fill_heap j i k v r with Some (r', c') => Some ((a, nd) :: r', c') | None => None end
  end.

Definition upd_returns (c : ckind) : bool :=
  match c with
  | CList => upd_ret_list | CSet => upd_ret_set | CDict => upd_ret_dict | CTuple | CFrozen => upd_ret_tuple
  | CCopy _ | CScope _ => true
  end.

Definition closed (j : Z) (st : dstate) : bool := match dfind j (d_heap st) with Some _ => true | None => false end.
Fixpoint remove_z (k : Z) (l : list Z) : list Z := match l with [] => [] | x :: r => if x =? k then remove_z k r else x :: remove_z k r end.

(* TupleUnslicer.complete / RemoteCopyUnslicer.receiveClose for object k: the table entry becomes the object, the
   Deferred fires.  `fire v cbs st`: the remaining callbacks of k, v = what the previous callback returned. *)
Fixpoint complete (fuel : nat) (k : Z) (st : dstate) {struct fuel} : option dstate :=
  match fuel with
  | O => None
  | S fu =>
    (fix fire (v : dvalue) (cbs : list cb) (st : dstate) {struct cbs} : option dstate :=
       match cbs with
       | [] => Some st
       | c :: rest =>
         let j := cb_tgt c in
         match (match fill_stack j (cb_idx c) k v (d_stack st) with
                | Some (s', kd) => Some ({| d_stack := s'; d_inopen := d_inopen st; d_counter := d_counter st; d_heap := d_heap st;
                                           d_pend := d_pend st; d_cbs := d_cbs st; d_unref := d_unref st |}, kd)
                | None =>
                  match fill_heap j (cb_idx c) k v (d_heap st) with
                  | Some (h', kd) => Some ({| d_stack := d_stack st; d_inopen := d_inopen st; d_counter := d_counter st; d_heap := h';
                                             d_pend := d_pend st; d_cbs := d_cbs st; d_unref := d_unref st |}, kd)
                  | None => None
                  end
                end) with
         | None => None
         | Some (st1, kd) =>
           let v' := if upd_returns kd then v else DV VNone in
           match kd with
           | CTuple | CFrozen =>
             (* TupleUnslicer.update: num_unreferenceable_children -= 1; if self.finished: checkComplete() *)
             let st2 := {| d_stack := d_stack st1; d_inopen := d_inopen st1; d_counter := d_counter st1; d_heap := d_heap st1;
                           d_pend := d_pend st1; d_cbs := d_cbs st1; d_unref := unref_add j (-1) (d_unref st1) |} in
             if closed j st2 && (unref_get j (d_unref st2) =? 0) && mem j (d_pend st2) then
               match complete fu j st2 with Some st3 => fire v' rest st3 | None => None end
             else fire v' rest st2
           | _ => fire v' rest st1
           end
         end
       end)
      (DV (VPtr k))
      (filter (fun c => cb_of c =? k) (d_cbs st))
      {| d_stack := d_stack st; d_inopen := d_inopen st; d_counter := d_counter st; d_heap := d_heap st;
         d_pend := remove_z k (d_pend st); d_cbs := filter (fun c => negb (cb_of c =? k)) (d_cbs st); d_unref := d_unref st |}
  end.

(* ------------------------------------------------------------------ one token *)
Definition dseal_leaf (f : dframe) : option dvalue :=
  let items := rev (df_items f) in
  match df_kind f with
  | KText => match items with [DV (VBytes u)] => Some (DV (VText u)) | _ => None end
  | KDecimal => match items with [DV (VBytes s)] => Some (DV (VDecimal s)) | _ => None end
  | KBool => match items with [DV (VInt z)] => Some (DV (VBool (negb (z =? 0)))) | _ => None end
  | KNone => match items with [] => Some (DV VNone) | _ => None end
  | KRef => match items with [DV (VPtr k)] => Some (DV (VPtr k)) | [DDefer k] => Some (DDefer k) | _ => None end
  | _ => None
  end.

Definition dstep (st : dstate) (t : token) : option dstate :=
  match d_inopen st with
  | Some (hdr, cnt, idx) =>
    match t with
    | TString bs =>
      let idx' := idx ++ [bs] in
      match open_kind (match d_stack st with [_] => true | _ => false end) idx' with
      | None => None
      | Some None => Some {| d_stack := d_stack st; d_inopen := Some (hdr, cnt, idx'); d_counter := d_counter st; d_heap := d_heap st;
                             d_pend := d_pend st; d_cbs := d_cbs st; d_unref := d_unref st |}
      | Some (Some k) =>
        let child := {| df_kind := k; df_open := hdr; df_count := cnt; df_items := []; df_refs := [] |} in
        let stk := child :: d_stack st in
        Some {| d_stack := if kind_registers k then map (dreg1 [cnt]) stk else stk;
                d_inopen := None; d_counter := d_counter st; d_heap := d_heap st;
                (* Tuple / FrozenSet / RemoteCopy .start: setObject(count, self.deferred) *)
                d_pend := if defers k then cnt :: d_pend st else d_pend st; d_cbs := d_cbs st; d_unref := d_unref st |}
      end
    | TPing _ | TPong _ => if keepalive_tokens_ignored then Some st else None     (* keepalive tokens are dealt with in Banana.handleData (`continue`) before handleOpen sees
                                          anything: legal between OPEN and its index tokens too *)
    | _ => None
    end
  | None =>
    match t with
    | TOpen n => Some {| d_stack := d_stack st; d_inopen := Some (n, d_counter st, []); d_counter := d_counter st + 1; d_heap := d_heap st;
                         d_pend := d_pend st; d_cbs := d_cbs st; d_unref := d_unref st |}
    | TInt z => drecv st (d_stack st) (DV (VInt z))
    | TFloat b => drecv st (d_stack st) (DV (VFloat b))
    | TString b => drecv st (d_stack st) (DV (VBytes b))
    | TClose n =>
      match d_stack st with
      | f :: r =>
        if df_open f =? n then
          match df_kind f with
          | KRoot _ => None
          | KVocab => if even_len (df_items f) then Some (with_stack st r) else None
          | KC c =>
            let items := rev (df_items f) in
            let ok := match c with CDict => even_len items | CCopy _ => even_bytes (map erase items) | _ => true end in
            if ok then
              let k := df_count f in
              let st1 := {| d_stack := r; d_inopen := None; d_counter := d_counter st;
                            d_heap := d_heap st ++ [(k, {| dn_kind := c; dn_items := items |})];
                            d_pend := d_pend st; d_cbs := d_cbs st; d_unref := d_unref st |} in
              if defers_c c then
                if 0 <? unref_get k (d_unref st1)
                then drecv st1 r (DDefer k)        (* receiveClose returns self.deferred: still pending *)
                else match complete (S (List.length (d_pend st1))) k st1 with
                     | Some st2 => drecv st2 (d_stack st2) (DV (VPtr k))
                     | None => None
                     end
              else drecv st1 r (DV (VPtr k))
            else None
          | _ => match dseal_leaf f with Some v => drecv (with_stack st r) r v | None => None end
          end
        else None
      | [] => None
      end
    | TPing _ | TPong _ => if keepalive_tokens_ignored then Some st else None
    | TVocab _ | TAbort _ | TError _ => None
    end
  end.

Fixpoint drun (ts : list token) (st : dstate) : option dstate :=
  match ts with
  | [] => Some st
  | t :: r => match dstep st t with Some st' => drun r st' | None => None end
  end.

Definition droot (scoped : bool) : dframe := {| df_kind := KRoot scoped; df_open := -1; df_count := -1; df_items := []; df_refs := [] |}.
Definition dinit (scoped : bool) (n : Z) : dstate :=
  {| d_stack := [droot scoped]; d_inopen := None; d_counter := n; d_heap := []; d_pend := []; d_cbs := []; d_unref := [] |}.

Definition node_clean (p : Z * dnode) : bool := forallb is_dv (dn_items (snd p)).

(* the whole receiver: Some (graph, top-level values) when the stream was consumed, no Deferred is left unfired and
   no placeholder is left anywhere *)
Definition dunslice (scoped : bool) (n : Z) (ts : list token) : option (heap * list value) :=
  match drun ts (dinit scoped n) with
  | Some st =>
    match d_stack st, d_inopen st, d_pend st with
    | [f], None, [] =>
      if forallb node_clean (d_heap st) && forallb is_dv (df_items f)
      then Some (erase_heap (d_heap st), rev (map erase (df_items f))) else None
    | _, _, _ => None
    end
  | None => None
  end.

(* how a run ends, for the correspondence: 0 delivered, 1 refused (the implementation raises), 2 consumed but something
   is still pending / a placeholder is left (the implementation never delivers the object) *)
Definition doutcome (scoped : bool) (n : Z) (ts : list token) : Z :=
  match drun ts (dinit scoped n) with
  | None => 1
  | Some st => match dunslice scoped n ts with Some _ => 0 | None => 2 end
  end.
