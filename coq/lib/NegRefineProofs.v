(* C13: the negotiation on the wire IS the record-level negotiation.  Decimal round trip int("%d" % n) = n, well-formedness of the
   formatted fields, and the refinement  wire_negotiate hf a b = negotiate a b : every message of lib/NegWire.v is formatted
   (sendBlock), framed, cut by the receiver's terminator search and cap, parsed (parseLines, str.split, int) -- all TRANSLATED or
   modelled byte by byte -- and the two ends come out exactly as lib/Negotiate.v says.  So the agreement theorems carry down to
   the bytes. *)
From Coq Require Import ZArith List String Bool Lia Arith.
Import ListNotations.
Require Import Verif.lib.PyLite Verif.gen.NegotiateGen Verif.lib.Negotiate Verif.lib.NegotiateProofs Verif.lib.NegCodec
  Verif.gen.NegCodecGen Verif.lib.NegSplit Verif.lib.NegSplitProofs Verif.lib.NegCodecProofs Verif.lib.NegWire Verif.lib.NegWireProofs.
Local Open Scope Z_scope.

(* ---- tokens: non-empty, printable ASCII without blanks (decimal numbers, hex digests) *)
Definition tokc (c : Z) : Prop := 32 < c < 128.
Definition tok (l : list Z) : Prop := l <> [] /\ Forall tokc l.

Lemma tokc_not_space c : tokc c -> is_space c = false /\ is_uspace c = false.
Proof.
  unfold tokc, is_uspace, is_space. intros H.
  destruct (Z.eqb_spec c 32); [lia|]. destruct (Z.leb_spec 9 c), (Z.leb_spec c 13), (Z.leb_spec 28 c), (Z.leb_spec c 31); cbn; auto; lia.
Qed.

Lemma tok_rev l : tok l -> tok (rev l).
Proof.
  intros [N F]. split; [|apply Forall_rev; exact F]. intros E. apply N. rewrite <- (rev_involutive l), E. reflexivity.
Qed.

Lemma tok_lstrip l : tok l -> bytes_lstrip l = l.
Proof.
  intros [N F]. destruct l as [|c r]; [congruence|]. inversion F; subst. cbn [bytes_lstrip].
  destruct (tokc_not_space c H1) as [E _]. rewrite E. reflexivity.
Qed.

Lemma tok_strip l : tok l -> bytes_strip l = l.
Proof.
  intros T. unfold bytes_strip. rewrite (tok_lstrip l T). rewrite (tok_lstrip _ (tok_rev l T)). apply rev_involutive.
Qed.

Lemma tok_ascii l : Forall tokc l -> existsb (fun c => 128 <=? c) l = false.
Proof.
  induction 1 as [|c r H _ IH]; [reflexivity|]. cbn [existsb]. rewrite IH. unfold tokc in H.
  destruct (Z.leb_spec 128 c); [lia|reflexivity].
Qed.

Lemma ascii_valid f : forall l, (List.length l < f)%nat -> Forall (fun c => c < 128) l -> utf8_valid f l = true.
Proof.
  induction f as [|f IH]; intros l L H; [lia|]. destruct l as [|b r]; [reflexivity|].
  inversion H; subst. cbn [utf8_valid]. destruct (Z.ltb_spec b 128); [|lia]. apply IH; [cbn [List.length] in L; lia|assumption].
Qed.

(* a value made of printable ASCII that does not begin with a blank is a well-formed block value *)
Lemma printable_wf_val l : Forall (fun c => 32 <= c < 128) l -> (forall c r, l = c :: r -> c <> 32) -> wf_val l.
Proof.
  intros F Hd. split; [|split].
  - unfold nocr. eapply Forall_impl; [|exact F]. cbn. intros; lia.
  - destruct l as [|c r]; [reflexivity|]. inversion F; subst. cbn [bytes_lstrip].
    assert (E : is_space c = false).
    { unfold is_space. specialize (Hd c r eq_refl). destruct (Z.eqb_spec c 32); [lia|].
      destruct (Z.leb_spec 9 c), (Z.leb_spec c 13); cbn; auto; lia. }
    rewrite E. reflexivity.
  - unfold ensure_str. rewrite ascii_valid; [reflexivity|lia|]. eapply Forall_impl; [|exact F]. cbn. intros; lia.
Qed.

Lemma tokc_printable l : Forall tokc l -> Forall (fun c => 32 <= c < 128) l.
Proof. intros F. eapply Forall_impl; [|exact F]. unfold tokc. intros; lia. Qed.

Lemma tok_wf_val l : tok l -> wf_val l.
Proof.
  intros [N F]. apply printable_wf_val; [apply tokc_printable; exact F|].
  intros c r ->. inversion F; subst. unfold tokc in *. lia.
Qed.

Lemma tok_pair_wf_val t1 t2 : tok t1 -> tok t2 -> wf_val (t1 ++ 32 :: t2).
Proof.
  intros [N1 F1] [N2 F2]. apply printable_wf_val.
  - apply Forall_app. split; [apply tokc_printable; exact F1|]. constructor; [lia|apply tokc_printable; exact F2].
  - intros c r E. destruct t1 as [|c1 r1]; [congruence|]. inversion E; subst. inversion F1; subst. unfold tokc in *. lia.
Qed.

(* ---- str.split() of two tokens *)
Lemma ws_go_tok t : forall cur rest, Forall tokc t -> ws_split_go cur (t ++ rest) = ws_split_go (rev t ++ cur) rest.
Proof.
  induction t as [|c t IH]; intros cur rest F; [reflexivity|]. inversion F; subst.
  change ((c :: t) ++ rest) with (c :: (t ++ rest)). cbn [ws_split_go].
  destruct (tokc_not_space c H1) as [_ E]. rewrite E. rewrite (IH (c :: cur) rest H2). cbn [rev]. rewrite <- app_assoc. reflexivity.
Qed.

Lemma ws_split_two t1 t2 : tok t1 -> tok t2 -> ws_split (t1 ++ 32 :: t2) = [t1; t2].
Proof.
  intros [N1 F1] [N2 F2]. unfold ws_split. rewrite (ws_go_tok t1 [] _ F1). rewrite app_nil_r.
  cbn [ws_split_go]. change (is_uspace 32) with true. cbv iota.
  destruct (rev t1) as [|x xs] eqn:E1.
  { exfalso. apply N1. rewrite <- (rev_involutive t1), E1. reflexivity. }
  rewrite <- E1, rev_involutive. f_equal.
  rewrite <- (app_nil_r t2). rewrite (ws_go_tok t2 [] [] F2). rewrite app_nil_r. cbn [ws_split_go].
  destruct (rev t2) as [|y ys] eqn:E2.
  { exfalso. apply N2. rewrite <- (rev_involutive t2), E2. reflexivity. }
  rewrite <- E2, rev_involutive, app_nil_r. reflexivity.
Qed.

(* ---- decimal: "%d" % n and back *)
Definition digitP (c : Z) : Prop := 48 <= c <= 57.
Definition dv (acc : Z) (l : list Z) : Z := fold_left (fun a c => a * 10 + (c - 48)) l acc.

Lemma digits_val_all l : forall acc b, Forall digitP l -> (l <> [] \/ b = true) -> digits_val acc b l = Some (dv acc l).
Proof.
  induction l as [|c r IH]; intros acc b F H.
  - destruct H as [H|H]; [congruence|subst; reflexivity].
  - inversion F as [|? ? Hc Hr]; subst. cbn [digits_val]. unfold is_digit. unfold digitP in Hc.
    destruct (Z.leb_spec 48 c), (Z.leb_spec c 57); try lia. cbn [andb].
    unfold dv. cbn [fold_left]. apply IH; [assumption|right; reflexivity].
Qed.

Lemma digits_go_acc f : forall n acc, digits_go f n acc = digits_go f n [] ++ acc.
Proof.
  induction f as [|f IH]; intros n acc; cbn [digits_go]; [reflexivity|].
  destruct (n <? 10); [reflexivity|]. rewrite IH. rewrite (IH _ [_]). rewrite <- app_assoc. reflexivity.
Qed.

Lemma dv_app a l1 l2 : dv a (l1 ++ l2) = dv (dv a l1) l2.
Proof. unfold dv. apply fold_left_app. Qed.

Lemma digits_go_S f n acc :
  digits_go (S f) n acc = if n <? 10 then (48 + n) :: acc else digits_go f (n / 10) ((48 + n mod 10) :: acc).
Proof. reflexivity. Qed.

Lemma digits_go_ok f : forall n, 0 <= n < 2 ^ Z.of_nat (S f) ->
  Forall digitP (digits_go (S f) n []) /\ digits_go (S f) n [] <> [] /\ dv 0 (digits_go (S f) n []) = n.
Proof.
  induction f as [|f IH]; intros n H.
  - change (2 ^ Z.of_nat 1) with 2 in H. cbn [digits_go]. destruct (Z.ltb_spec n 10); [|lia].
    split; [constructor; [unfold digitP; lia|constructor]|]. split; [discriminate|]. unfold dv; cbn [fold_left]; lia.
  - rewrite (digits_go_S (S f)). destruct (Z.ltb_spec n 10) as [L|L].
    + split; [constructor; [unfold digitP; lia|constructor]|]. split; [discriminate|]. unfold dv; cbn [fold_left]; lia.
    + rewrite digits_go_acc.
      assert (B : 0 <= n / 10 < 2 ^ Z.of_nat (S f)).
      { rewrite (Nat2Z.inj_succ (S f)), Z.pow_succ_r in H by lia.
        split; [apply Z.div_pos; lia|]. apply Z.div_lt_upper_bound; lia. }
      destruct (IH (n / 10) B) as (F & N & V).
      pose proof (Z.mod_pos_bound n 10 ltac:(lia)) as M. pose proof (Z.div_mod n 10 ltac:(lia)) as D.
      split; [apply Forall_app; split; [exact F|constructor; [unfold digitP; lia|constructor]]|].
      split; [intros E; apply app_eq_nil in E; destruct E; discriminate|].
      rewrite dv_app, V. unfold dv. cbn [fold_left]. lia.
Qed.

Lemma fmt_nat_ok n : 0 <= n -> Forall digitP (fmt_nat n) /\ fmt_nat n <> [] /\ dv 0 (fmt_nat n) = n.
Proof.
  intros H. unfold fmt_nat. apply digits_go_ok. split; [exact H|].
  rewrite Nat2Z.inj_succ, Z2Nat.id by apply Z.log2_nonneg.
  destruct (Z.eq_dec n 0) as [->|NZ]; [cbn; lia|]. apply Z.log2_spec. lia.
Qed.

Lemma digit_tokc l : Forall digitP l -> Forall tokc l.
Proof. intros F. eapply Forall_impl; [|exact F]. unfold digitP, tokc. intros; lia. Qed.

Theorem fmt_d_tok n : tok (fmt_d n).
Proof.
  unfold fmt_d. destruct (Z.ltb_spec n 0).
  - destruct (fmt_nat_ok (- n) ltac:(lia)) as (F & _ & _). split; [discriminate|].
    constructor; [unfold tokc; lia|apply digit_tokc; exact F].
  - destruct (fmt_nat_ok n H) as (F & N & _). split; [exact N|apply digit_tokc; exact F].
Qed.

(* int("%d" % n) = n, for every integer *)
Theorem py_int_fmt_d n : py_int (fmt_d n) = Ok n.
Proof.
  pose proof (fmt_d_tok n) as T. unfold py_int. rewrite (tok_ascii _ (proj2 T)). rewrite (tok_strip _ T).
  unfold fmt_d. destruct (Z.ltb_spec n 0).
  - destruct (fmt_nat_ok (- n) ltac:(lia)) as (F & N & V). cbn [Z.eqb Pos.eqb].
    rewrite (digits_val_all _ 0 false F (or_introl N)), V. f_equal. lia.
  - destruct (fmt_nat_ok n H) as (F & N & V). destruct (fmt_nat n) as [|c r] eqn:E; [congruence|].
    pose proof (Forall_inv F) as Hc. unfold digitP in Hc.
    destruct (Z.eqb_spec c 45); [lia|]. destruct (Z.eqb_spec c 43); [lia|].
    rewrite (digits_val_all _ 0 false F (or_introl N)), V. reflexivity.
Qed.

Corollary fmt_d_injective a b : fmt_d a = fmt_d b -> a = b.
Proof. intros E. pose proof (py_int_fmt_d a) as A. rewrite E, py_int_fmt_d in A. inversion A. reflexivity. Qed.

(* both forms of range parsing read back what was formatted *)
Lemma fmt_pair_eq a b : fmt_pair a b = fmt_d a ++ 32 :: fmt_d b.
Proof. reflexivity. Qed.

Theorem parse_pair_strict_fmt a b : parse_pair_strict (fmt_pair a b) = Ok (a, b).
Proof.
  unfold parse_pair_strict. rewrite fmt_pair_eq, (ws_split_two _ _ (fmt_d_tok a) (fmt_d_tok b)).
  unfold bind. rewrite !py_int_fmt_d. reflexivity.
Qed.

Theorem parse_pair_lax_fmt a b : parse_pair_lax (fmt_pair a b) = Ok (a, b).
Proof.
  unfold parse_pair_lax. rewrite fmt_pair_eq, (ws_split_two _ _ (fmt_d_tok a) (fmt_d_tok b)).
  unfold bind. rewrite !py_int_fmt_d. reflexivity.
Qed.

(* ---- keys: a decidable check, run on the keys read from the source *)
Definition wf_keyb (k : list Z) : bool :=
  forallb (fun c => negb (c =? 13) && negb (c =? 58)) k && list_eqb (bytes_lower k) k && utf8_valid (S (List.length k)) k.

Lemma wf_keyb_ok k : wf_keyb k = true -> wf_key k.
Proof.
  unfold wf_keyb. intros H. apply andb_true_iff in H as [H H3]. apply andb_true_iff in H as [H1 H2].
  split; [|split].
  - rewrite Forall_forall. rewrite forallb_forall in H1. intros c Hc. specialize (H1 c Hc).
    apply andb_true_iff in H1 as [A B]. apply negb_true_iff in A, B. apply Z.eqb_neq in A, B. auto.
  - apply list_eqb_eq. exact H2.
  - unfold ensure_str. rewrite H3. reflexivity.
Qed.

Lemma wf_pair_intro k v : wf_keyb k = true -> wf_val v -> wf_pair (k, v).
Proof. intros K V. split; [apply wf_keyb_ok; exact K|exact V]. Qed.

(* ---- the blocks *)
Section Refine.
Variable hf : Z -> list Z.

(* how a table hash is written: a token, and different hashes are written differently (four hex digits in the code) *)
Definition token_fmt : Prop := (forall x, tok (hf x)) /\ (forall x y, hf x = hf y -> x = y).
Hypothesis HF : token_fmt.

Definition decision_block (me : endpoint) (idx ver : Z) : list (list Z * list Z) :=
  dset (dset [] decision_key_vocab_written (fmt_d idx ++ [32] ++ hf (ep_hash me idx))) decision_key_version_written (fmt_d ver).

Definition fits (d : list (list Z * list Z)) : Prop := (List.length (header_of d) <= cap)%nat.

Lemma hello_block_list e :
  hello_block e = [(hello_key_version_range_written, fmt_pair (ep_vmin e) (ep_vmax e));
                   (hello_key_vocab_range_written, fmt_pair (ep_vocmin e) (ep_vocmax e));
                   (hello_key_tubid_written, ep_id e)].
Proof. reflexivity. Qed.

Lemma decision_block_list me idx ver :
  decision_block me idx ver = [(decision_key_version_written, fmt_d ver);
                               (decision_key_vocab_written, fmt_d idx ++ 32 :: hf (ep_hash me idx))].
Proof. reflexivity. Qed.

Lemma fmt_pair_wf a b : wf_val (fmt_pair a b).
Proof. rewrite fmt_pair_eq. apply tok_pair_wf_val; apply fmt_d_tok. Qed.

Lemma deliver_hello e : wf_val (ep_id e) -> fits (hello_block e) -> deliver (hello_block e) [] = Ok (hello_block e, []).
Proof.
  intros W L. apply deliver_round_trip; [rewrite hello_block_list; discriminate| | |exact L]; rewrite hello_block_list.
  - cbn [canonical fst]. repeat split; repeat constructor.
  - apply Forall_cons; [apply wf_pair_intro; [vm_compute; reflexivity|apply fmt_pair_wf]|].
    apply Forall_cons; [apply wf_pair_intro; [vm_compute; reflexivity|apply fmt_pair_wf]|].
    apply Forall_cons; [apply wf_pair_intro; [vm_compute; reflexivity|exact W]|]. apply Forall_nil.
Qed.

Lemma deliver_decision me idx ver : fits (decision_block me idx ver) ->
  deliver (decision_block me idx ver) [] = Ok (decision_block me idx ver, []).
Proof.
  intros L. apply deliver_round_trip; [rewrite decision_block_list; discriminate| | |exact L]; rewrite decision_block_list.
  - cbn [canonical fst]. repeat split; repeat constructor.
  - apply Forall_cons; [apply wf_pair_intro; [vm_compute; reflexivity|apply tok_wf_val, fmt_d_tok]|].
    apply Forall_cons; [apply wf_pair_intro; [vm_compute; reflexivity|]|apply Forall_nil].
    apply tok_pair_wf_val; [apply fmt_d_tok|apply (proj1 HF)].
Qed.

Ltac other k := rewrite (dget_dset_other _ _ _ k) by reflexivity.

Lemma dget_hello_error e : dget (hello_block e) error_key = None.
Proof. unfold hello_block. other error_key. other error_key. other error_key. reflexivity. Qed.
Lemma dget_hello_range e : dget (hello_block e) hello_key_version_range_written = Some (fmt_pair (ep_vmin e) (ep_vmax e)).
Proof. unfold hello_block. other hello_key_version_range_written. other hello_key_version_range_written. apply dget_dset_same. Qed.
Lemma dget_hello_vocab e : dget (hello_block e) hello_key_vocab_range_written = Some (fmt_pair (ep_vocmin e) (ep_vocmax e)).
Proof. unfold hello_block. other hello_key_vocab_range_written. apply dget_dset_same. Qed.
Lemma dget_dec_error me idx ver : dget (decision_block me idx ver) error_key = None.
Proof. unfold decision_block. other error_key. other error_key. reflexivity. Qed.
Lemma dget_dec_version me idx ver : dget (decision_block me idx ver) decision_key_version_written = Some (fmt_d ver).
Proof. unfold decision_block. apply dget_dset_same. Qed.
Lemma dget_dec_vocab me idx ver :
  dget (decision_block me idx ver) decision_key_vocab_written = Some (fmt_d idx ++ 32 :: hf (ep_hash me idx)).
Proof. unfold decision_block. other decision_key_vocab_written. apply dget_dset_same. Qed.

(* handleENCRYPTED + evaluateHello on the peer's hello block = eval_hello on the peer's record *)
Lemma eval_hello_wire_eq me peer : eval_hello_wire me (hello_block peer) = eval_hello me peer.
Proof.
  unfold eval_hello_wire. rewrite dget_hello_error, dget_hello_range.
  unfold bind. rewrite parse_pair_strict_fmt. reflexivity.
Qed.

Lemma decide_wire_eq me peer ver :
  decide_wire hf me (hello_block peer) ver =
    match best_overlap (ep_vocmin me) (ep_vocmax me) (ep_vocmin peer) (ep_vocmax peer) with
    | Exc t => Exc t
    | Ok idx => Ok (decision_block me idx ver, {| p_version := ver; p_vocab := idx |})
    end.
Proof.
  unfold decide_wire. rewrite dget_hello_vocab.
  unfold bind. rewrite parse_pair_lax_fmt. cbn [fst snd].
  destruct (best_overlap _ _ _ _); reflexivity.
Qed.

Lemma hf_eqb x y : list_eqb (hf x) (hf y) = (x =? y).
Proof.
  destruct (Z.eqb_spec x y) as [->|N]; [apply list_eqb_eq; reflexivity|].
  destruct (list_eqb (hf x) (hf y)) eqn:E; [|reflexivity]. apply list_eqb_eq in E. apply (proj2 HF) in E. congruence.
Qed.

(* handleDECIDING: acceptDecision + acceptDecisionVersion1 on the decider's block = slave_accept on the decider's record *)
Lemma accept_wire_eq me m idx ver :
  accept_wire hf me (decision_block m idx ver) =
  slave_accept me {| d_version := ver; d_vocab := idx; d_hash := ep_hash m idx |}.
Proof.
  pose proof (fmt_d_tok ver) as Tv. pose proof (fmt_d_tok idx) as Ti. pose proof (proj1 HF (ep_hash m idx)) as Th.
  unfold accept_wire, slave_accept. cbn [d_version d_vocab d_hash].
  rewrite dget_dec_version.
  destruct (fmt_d ver) as [|c r] eqn:Ev; [destruct Tv; congruence|]. cbn [list_is_nil]. rewrite <- Ev.
  unfold bind. rewrite py_int_fmt_d.
  destruct (ep_accepts me ver); cbn [negb]; [|reflexivity].
  rewrite dget_dec_error, dget_dec_vocab.
  destruct (fmt_d idx ++ 32 :: hf (ep_hash m idx)) as [|c2 r2] eqn:Es.
  { exfalso. destruct (fmt_d idx); discriminate. }
  cbn [list_is_nil]. rewrite <- Es. rewrite (ws_split_two _ _ Ti Th). rewrite py_int_fmt_d. cbn [fst snd].
  destruct (check_inrange (ep_vocmin me) (ep_vocmax me) idx) as [u|t]; [|reflexivity].
  rewrite hf_eqb. reflexivity.
Qed.

Definition wire_ok (m s : endpoint) : Prop :=
  wf_val (ep_id m) /\ wf_val (ep_id s) /\ fits (hello_block m) /\ fits (hello_block s) /\
  (forall idx ver, in_range (ep_vocmin m) (ep_vocmax m) idx -> in_range (ep_vmin m) (ep_vmax m) ver -> fits (decision_block m idx ver)).

(* the asymmetric core: every message goes over the wire, and the two ends come out as in the record-level run *)
Lemma wire_run_eq m s : wire_ok m s -> wire_run hf m s = run m s.
Proof.
  intros (Wm & Ws & Fm & Fs & Fd). unfold wire_run, run. cbv zeta.
  assert (Hs : bind (deliver (hello_block m) []) (fun o => eval_hello_wire s (fst o)) = eval_hello s m).
  { rewrite (deliver_hello m Wm Fm). unfold bind. cbn [fst]. apply eval_hello_wire_eq. }
  rewrite Hs. clear Hs.
  rewrite (deliver_hello s Ws Fs). unfold bind at 1. cbn [fst]. rewrite eval_hello_wire_eq.
  unfold master_decide. destruct (eval_hello m s) as [ver|t1] eqn:Em; unfold bind at 1; [|reflexivity].
  rewrite decide_wire_eq.
  destruct (best_overlap (ep_vocmin m) (ep_vocmax m) (ep_vocmin s) (ep_vocmax s)) as [idx|t2] eqn:Ev; [|reflexivity].
  cbn [fst snd d_version d_vocab params_of].
  destruct (eval_hello s m) as [v0|t0]; [|reflexivity].
  unfold eval_hello in Em. apply best_overlap_common in Em. apply best_overlap_common in Ev.
  destruct Em as (Vm & _ & _), Ev as (Im & _ & _).
  rewrite (deliver_decision m idx ver (Fd idx ver Im Vm)). unfold bind. cbn [fst].
  rewrite accept_wire_eq. reflexivity.
Qed.

(* C13: the negotiation on the wire is the record-level negotiation *)
Theorem wire_negotiate_eq a b : wire_ok a b -> wire_ok b a -> wire_negotiate hf a b = negotiate a b.
Proof.
  intros Oab Oba. unfold wire_negotiate, negotiate.
  destruct (i_am_master (ep_id a) (ep_id b)); [apply wire_run_eq; exact Oab|].
  destruct (i_am_master (ep_id b) (ep_id a)); [|reflexivity]. rewrite (wire_run_eq b a Oba). reflexivity.
Qed.

(* ... so the exact three-way statement holds of the bytes: identical parameters iff compatible; both abandon, each with a
   negotiation error, when the ranges do not meet (no decision block is ever written); and when a decision block IS written and
   the non-decider refuses it, the decider has already switched and only loses the connection *)
Theorem wire_agreement_exact a b :
  wire_ok a b -> wire_ok b a ->
  ep_id a <> ep_id b -> implements_own_range a -> implements_own_range b ->
  (compatible a b -> exists p, wire_negotiate hf a b = (Banana p, Banana p) /\ agreed a b p) /\
  (~ ranges_meet a b -> exists w1 w2, wire_negotiate hf a b = (Failed w1, Failed w2) /\ negotiation_error w1 /\ negotiation_error w2) /\
  (ranges_meet a b -> ~ compatible a b ->
     exists p, best_params a b p /\ decider_first a b (wire_negotiate hf a b) = (SwitchedThenLost p, Failed "NegotiationError")).
Proof. intros Oab Oba. rewrite (wire_negotiate_eq a b Oab Oba). apply agreement_exact. Qed.

End Refine.

(* non-vacuity: decimal rendering of the hash is a token format, and two concrete endpoints satisfy wire_ok *)
Example fmt_d_token_fmt : token_fmt fmt_d.
Proof. split; [apply fmt_d_tok|apply fmt_d_injective]. Qed.

Example ex_wire_ok : wire_ok fmt_d ex_a ex_b /\ wire_ok fmt_d ex_b ex_a.
Proof.
  assert (Wa : wf_val (ep_id ex_a)) by (apply tok_wf_val; split; [discriminate|repeat constructor; unfold tokc; cbn; lia]).
  assert (Wb : wf_val (ep_id ex_b)) by (apply tok_wf_val; split; [discriminate|repeat constructor; unfold tokc; cbn; lia]).
  assert (Fa : fits (hello_block ex_a)) by (unfold fits; apply Nat.leb_le; vm_compute; reflexivity).
  assert (Fb : fits (hello_block ex_b)) by (unfold fits; apply Nat.leb_le; vm_compute; reflexivity).
  split; (split; [assumption|split; [assumption|split; [assumption|split; [assumption|]]]]).
  - intros idx ver Hi Hv. unfold in_range in *. cbn in Hi, Hv.
    assert (Ei : idx = 0 \/ idx = 1) by lia. assert (Ev : ver = 1 \/ ver = 2 \/ ver = 3) by lia.
    destruct Ei as [->| ->], Ev as [->|[->| ->]]; unfold fits; apply Nat.leb_le; vm_compute; reflexivity.
  - intros idx ver Hi Hv. unfold in_range in *. cbn in Hi, Hv.
    assert (Ei : idx = 1 \/ idx = 2 \/ idx = 3 \/ idx = 4) by lia. assert (Ev : ver = 2 \/ ver = 3 \/ ver = 4 \/ ver = 5) by lia.
    destruct Ei as [->|[->|[->| ->]]], Ev as [->|[->|[->| ->]]]; unfold fits; apply Nat.leb_le; vm_compute; reflexivity.
Qed.

Example ex_wire_negotiate :
  wire_negotiate fmt_d ex_a ex_b = (Banana {| p_version := 3; p_vocab := 1 |}, Banana {| p_version := 3; p_vocab := 1 |}).
Proof. vm_compute. reflexivity. Qed.
