(* C06, second layer: proofs.  Part T: the dispatcher assembled from the translated source equals the model of lib/Reach.v.
   Part X: reference arguments (my-reference, their-reference), delivered values, proxy table, dial requests. *)
From Coq Require Import ZArith List String Bool Lia Ascii NArith.
Import ListNotations.
Require Import Verif.lib.PyLite Verif.gen.ReachGen Verif.gen.ReachDispGen Verif.lib.Reach Verif.lib.ReachProofs Verif.lib.ReachDeep.
Local Open Scope Z_scope.

(* ------------------------------------------------------------------ the generated file's own copies of the list functions *)
Lemma zget__eq {V} k (l : list (Z * V)) : zget_ k l = zget k l.
Proof. induction l as [|[k' v] l IH]; cbn; [reflexivity|]. destruct (k =? k'); auto. Qed.
Lemma zdel__eq {V} k (l : list (Z * V)) : zdel_ k l = zdel k l.
Proof. induction l as [|[k' v] l IH]; cbn; [reflexivity|]. destruct (k =? k'); [auto | rewrite IH; reflexivity]. Qed.
Lemma mem_str__eq s l : mem_str_ s l = mem_str s l.
Proof. reflexivity. Qed.
Lemma zhas__eq {V} k (l : list (Z * V)) : zhas_ k l = is_some (zget k l).
Proof. unfold zhas_. rewrite zget__eq. destruct (zget k l); reflexivity. Qed.

Lemma zdel_zdel {V} k (l : list (Z * V)) : zdel k (zdel k l) = zdel k l.
Proof.
  induction l as [|[k' v] l IH]; cbn; [reflexivity|]. destruct (k =? k') eqn:E; [exact IH|].
  cbn. rewrite E, IH. reflexivity.
Qed.
Lemma zget_zdel_same {V} k (l : list (Z * V)) : zget k (zdel k l) = None.
Proof. induction l as [|[k' v] l IH]; cbn; [reflexivity|]. destruct (k =? k') eqn:E; [exact IH|]. cbn. rewrite E. exact IH. Qed.

(* ------------------------------------------------------------------ Part T *)
Lemma lookup_T_spec (ex : list (Z * (Z * Z))) k :
  gen_get_my_reference ex k =
  if k =? 0 then XOk TBroker else match @zget (Z * Z) k ex with Some (o, _) => XOk (TObj o) | None => XRaise EKeyError end.
Proof.
  unfold gen_get_my_reference, tracker. rewrite zget__eq. destruct (k =? 0); [reflexivity|].
  destruct (zget k ex) as [[o rc]|]; reflexivity.
Qed.

Definition yourref_exn : exn := match yourref_unknown_clid with RejectR => EViolation | AbortR => EKeyError end.
Lemma yourref_close_spec (ex : list (Z * (Z * Z))) k :
  gen_yourref_close (gen_get_my_reference ex) (Some k) =
  if k =? 0 then XOk TBroker else match @zget (Z * Z) k ex with Some (o, _) => XOk (TObj o) | None => XRaise yourref_exn end.
Proof.
  unfold gen_yourref_close. cbn [is_none_]. rewrite lookup_T_spec.
  destruct (k =? 0); [reflexivity|]. destruct (zget k ex) as [[o rc]|]; reflexivity.
Qed.

Lemma do_args_T_eq copy ex args : forall inst, do_args_T copy ex args inst = do_args copy ex args inst.
Proof.
  induction args as [|a args IH]; intros inst; [reflexivity|].
  cbn [do_args_T do_args]. destruct a as [v|s|k|n|t]; try apply IH.
  - destruct ((k <? 0) && negb yourref_accepts_neg); [reflexivity|].
    rewrite yourref_close_spec. unfold broker_clid.
    destruct (k =? 0); cbn [orb]; [apply IH|].
    destruct (zget k ex) as [[o rc]|]; cbn [is_some]; [apply IH|]. reflexivity.
  - destruct (sget n copy); [apply IH | reflexivity].
  - destruct (mem_type [t] open_types); [apply IH | reflexivity].
Qed.

Lemma kinds_ok_eff w decl cn : kinds_ok w cn -> kinds_ok (eff w decl) cn.
Proof. intros H k o rc Hin. exact (H k o rc Hin). Qed.

(* the dispatcher assembled from the translated receiveChild / _doCall / doRemoteCall is the hand-written obj_call *)
Theorem obj_call_T_eq : forall w copy cn clid m args,
  kinds_ok w cn -> clid <> 0 -> obj_call_T w copy cn clid m args = obj_call w copy cn clid m args.
Proof.
  intros w copy cn clid m args K NZ. unfold obj_call_T, obj_call.
  unfold gen_stage1. rewrite lookup_T_spec.
  destruct (clid =? 0) eqn:Z0; [apply Z.eqb_eq in Z0; contradiction|].
  destruct (zget clid (c_exports cn)) as [[o rc]|] eqn:G; [|reflexivity].
  apply zget_In in G. destruct (K _ _ _ G) as [Kneg Kpos].
  unfold negative_clid_ignores_name, broker_require_schema. rewrite andb_true_r.
  destruct (clid <? 0) eqn:S.
  - apply Z.ltb_lt in S. unfold gen_stage2. cbn [andb]. assert (S' : (clid <? 0) = true) by (apply Z.ltb_lt; exact S). rewrite S'.
    rewrite do_args_T_eq. destruct (do_args copy (c_exports cn) args []) as [i|i r]; [|reflexivity].
    unfold gen_docall, perform, is_callable_T. cbn [is_some_ is_none_]. rewrite !(Kneg S). reflexivity.
  - apply Z.ltb_ge in S. unfold gen_stage2. assert (S' : (clid <? 0) = false) by (apply Z.ltb_ge; exact S). rewrite S'.
    destruct m as [s|]; cbn [tok_of ensure_str]; [|reflexivity].
    unfold iface_enforced, target_iface. cbn [andb].
    destruct (o_iface (w_obj w o)) as [l|] eqn:I; cbn [is_some_].
    + unfold iface_get. rewrite mem_str__eq. destruct (mem_str s l) eqn:M; cbn [is_some_ negb parse_refusal]; [|reflexivity].
      rewrite do_args_T_eq. destruct (do_args copy (c_exports cn) args []) as [i|i r]; [|reflexivity].
      unfold gen_docall, perform, adaptable_T. cbn [is_some_ is_none_]. rewrite !(Kpos S). cbn -[String.append].
      unfold gen_doremotecall. rewrite mem_str__eq. unfold remote_prefix.
      destruct (mem_str ("remote_" ++ s) (o_attrs (w_obj w o))); reflexivity.
    + rewrite do_args_T_eq. destruct (do_args copy (c_exports cn) args []) as [i|i r]; [|reflexivity].
      unfold gen_docall, perform, adaptable_T. cbn [is_some_ is_none_]. rewrite !(Kpos S). cbn -[String.append].
      unfold gen_doremotecall. rewrite mem_str__eq. unfold remote_prefix.
      destruct (mem_str ("remote_" ++ s) (o_attrs (w_obj w o))); reflexivity.
Qed.

Lemma puid_has ex k o rc : In (k, (o, rc)) ex -> is_some (zget o (puid_table ex)) = true.
Proof.
  induction ex as [|[k' [o' rc']] ex IH]; intros H; [destruct H|]. cbn [puid_table map fst snd zget].
  destruct H as [H|H].
  - inversion H; subst. rewrite Z.eqb_refl. reflexivity.
  - destruct (o =? o'); [reflexivity|]. apply IH; exact H.
Qed.

(* the translated Broker.remote_decref does to myReferenceByCLID what the hand-written decref does *)
Theorem decref_T_eq : forall cn k n, decref_T cn k n = decref cn k n.
Proof.
  intros cn k n. unfold decref_T, decref, gen_remote_decref, tracker.
  destruct (k =? 0) eqn:Z0; cbn [negb]; [reflexivity|].
  rewrite zget__eq. destruct (zget k (c_exports cn)) as [[o rc]|] eqn:G.
  2:{ destruct cn; reflexivity. }
  cbn [fst snd]. destruct (tracker_decref n rc) as [[done rc']|tag]; [|reflexivity].
  repeat rewrite zget__eq. repeat rewrite zdel__eq.
  pose proof (puid_has _ _ _ _ (zget_In _ _ _ G)) as PH.
  destruct (zget o (puid_table (c_exports cn))) as [v|] eqn:GP; [|discriminate].
  (* shape-independent: whichever way the source orders the test of `done`, the returns and the two deletions *)
  destruct done; cbv zeta; cbn [negb]; rewrite ?zhas__eq; cbn [zget]; rewrite ?Z.eqb_refl; cbn [is_some];
    repeat rewrite zdel__eq; cbn [zdel]; rewrite ?Z.eqb_refl, ?zdel_zdel; reflexivity.
Qed.

(* ... and removes the object from myReferenceByPUID exactly when it removes the id from myReferenceByCLID *)
Theorem decref_both_tables : forall (ex : list (Z * (Z * Z))) k n byclid bypuid o rc,
  gen_remote_decref tracker_decref ex (puid_table ex) k n = XOk (byclid, bypuid) -> zget k ex = Some (o, rc) ->
  (zget k byclid = None <-> zget o bypuid = None).
Proof.
  intros ex k n byclid bypuid o rc H G. unfold gen_remote_decref, tracker in H.
  destruct (k =? 0); cbn [negb] in H; [discriminate|].
  rewrite zget__eq in H. rewrite G in H. cbn [fst snd] in H.
  destruct (tracker_decref n rc) as [[done rc']|tag]; [|discriminate].
  repeat rewrite zget__eq in H. rewrite ?G in H. repeat rewrite zdel__eq in H.
  pose proof (puid_has _ _ _ _ (zget_In _ _ _ G)) as PH.
  destruct (zget o (puid_table ex)) as [v|] eqn:GP; [|discriminate].
  destruct done; cbv zeta in H; cbn [negb] in H; rewrite ?zhas__eq in H; cbn [zget] in H; rewrite ?Z.eqb_refl in H; cbn [is_some] in H;
    repeat rewrite zdel__eq in H; inversion H; subst; cbn [zdel zget]; rewrite ?Z.eqb_refl, ?zdel_zdel, ?zget_zdel_same;
    split; first [reflexivity | discriminate].
Qed.

(* ------------------------------------------------------------------ the name tables: translated _assignName / getReferenceForName *)
Lemma sget__eq {V} k (l : list (string * V)) : sget_ k l = sget k l.
Proof. induction l as [|[k' v] l IH]; cbn; [reflexivity|]. destruct (String.eqb k k'); auto. Qed.
Lemma sdel__eq {V} k (l : list (string * V)) : sdel_ k l = sdel k l.
Proof. induction l as [|[k' v] l IH]; cbn; [reflexivity|]. destruct (String.eqb k k'); [auto | rewrite IH; reflexivity]. Qed.
Lemma sset__eq {V} k (v : V) l : sset_ k v l = sset k v l.
Proof. unfold sset_, sset. rewrite sdel__eq. reflexivity. Qed.
Lemma zset__eq {V} k (v : V) l : zset_ k v l = zset k v l.
Proof. unfold zset_, zset. rewrite zdel__eq. reflexivity. Qed.
Lemma set_names_id st : set_names st (s_n2r st) (s_r2n st) = st.
Proof. destruct st; reflexivity. Qed.
Lemma truthy_str_empty p : truthy_str p = negb (str_empty p).
Proof. destruct p; reflexivity. Qed.

Theorem assign_name_T_eq : forall st o pref sw, assign_name_T st o pref sw = assign_name st o pref sw.
Proof.
  intros st o pref sw. unfold assign_name_T, assign_name, gen_assign_name. cbn [negb].
  unfold zhas_. repeat rewrite zget__eq. destruct (zget o (s_r2n st)) as [nm|]; cbn [is_some_].
  - apply set_names_id.
  - rewrite truthy_str_empty, negb_involutive. destruct (str_empty pref); rewrite sset__eq, zset__eq; reflexivity.
Qed.

Theorem found_name_T_eq : forall w st n, found_name_T w st n = found_name w st n.
Proof.
  intros w st n. unfold found_name_T, found_name, gen_get_reference_for_name, handler_answers_cached.
  unfold shas_, zhas_. rewrite (sget__eq n (s_n2r st)), (sget__eq n (s_h st)). destruct (sget n (s_n2r st)) as [o|]; cbn [is_some_].
  - rewrite set_names_id. reflexivity.
  - destruct (sget n (s_h st)) as [o|]; [|reflexivity].
    rewrite zget__eq. destruct (zget o (s_r2n st)) as [nm|]; cbn [is_some_ is_some negb].
    + rewrite set_names_id. reflexivity.
    + rewrite zset__eq. reflexivity.
Qed.

Definition all_kinds_ok (w : world) (st : state) : Prop := forall c, kinds_ok w (get_conn st c).

Theorem step_T_eq : forall w st e, all_kinds_ok w st -> step_T w st e = step w st e.
Proof.
  intros w st e K. destruct e as [n o sw|o|n cls|n cls em|o d|n o|n| |c o sw|c req clid m args|c t|c]; try reflexivity.
  { cbn [step_T step]. rewrite assign_name_T_eq. reflexivity. }
  cbn [step_T step]. destruct (negb (c_alive (get_conn st c))) eqn:AL; [reflexivity|].
  destruct (clid =? broker_clid) eqn:BC.
  - destruct (broker_call m args) as [out fx] eqn:B.
    destruct fx; cbn [step]; rewrite ?AL, ?BC, ?B, ?decref_T_eq, ?found_name_T_eq; reflexivity.
  - apply Z.eqb_neq in BC. unfold broker_clid in BC.
    rewrite (obj_call_T_eq _ _ _ _ _ _ (kinds_ok_eff _ _ _ (K c)) BC). reflexivity.
Qed.

(* ------------------------------------------------------------------ every reachable table is well-kinded *)
Lemma kinds_one_conn w st c cn' :
  all_kinds_ok w st -> kinds_ok w cn' -> all_kinds_ok w (set_conn st c cn').
Proof.
  intros H A c'. destruct (cid_dec c c') as [E|E].
  - subst c'. rewrite get_set_same. exact A.
  - rewrite (get_set_other _ _ _ _ E). apply H.
Qed.
Lemma kinds_same_conns w st st' : (forall c, get_conn st' c = get_conn st c) -> all_kinds_ok w st -> all_kinds_ok w st'.
Proof. intros E H c. rewrite E. apply H. Qed.

Lemma grant_kinds w st c o sw st' sent log :
  inv st log -> all_kinds_ok w st -> grant w st c o sw = (st', sent) -> all_kinds_ok w st'.
Proof.
  intros I H G. unfold grant in G.
  destruct (negb (c_alive (get_conn st c))). { inversion G; subst. exact H. }
  destruct (I c) as [[Nx _] _]. pose proof (H c) as Kc.
  set (cn := get_conn st c) in *.
  destruct (match find_obj o (c_exports cn) with
            | Some (k, rc) => (k, rc, c_next cn)
            | None => (match o_kind (w_obj w o) with KObj => c_next cn | KCallable => if callable_clid_negated then - c_next cn else c_next cn end,
                       tracker_initial_refcount, c_next cn + 1)
            end) as [[clid rc] nxt] eqn:F.
  assert (NEW : (clid < 0 -> o_kind (w_obj w o) = KCallable) /\ (0 <= clid -> o_kind (w_obj w o) = KObj)).
  { destruct (find_obj o (c_exports cn)) as [[k rc0]|] eqn:FO.
    - inversion F; subst. apply find_obj_In in FO. exact (Kc _ _ _ FO).
    - unfold callable_clid_negated in F. destruct (o_kind (w_obj w o)); inversion F; subst; split; intros; try reflexivity; lia. }
  set (cn' := {| c_alive := true; c_exports := zset clid (o, rc + tracker_send_incr) (c_exports cn); c_next := nxt |}) in *.
  assert (K' : all_kinds_ok w (set_conn st c cn')).
  { apply kinds_one_conn; [exact H|]. intros k o' rc' Hin. cbn [cn' c_exports] in Hin. apply In_zset in Hin.
    destruct Hin as [E|Hin]; [inversion E; subst; exact NEW | exact (Kc _ _ _ Hin)]. }
  destruct (rc + tracker_send_incr =? 1); inversion G; subst; [|exact K'].
  intros c'. rewrite get_assign. apply K'.
Qed.

Lemma step_kinds w st e st' r log : inv st log -> all_kinds_ok w st -> step w st e = (st', r) -> all_kinds_ok w st'.
Proof.
  intros I H S. destruct e as [n o sw|o|n cls|n cls em|o d|n o|n| |c o sw|c req clid m args|c t|c].
  - cbn [step] in S. inversion S; subst. apply kinds_same_conns with (st := st); [|exact H]. intros c; apply get_assign.
  - cbn [step] in S. inversion S; subst. apply kinds_same_conns with (st := st); [|exact H].
    intros c. destruct (zget o (s_r2n st)); [|reflexivity]. destruct (is_some _); destruct c; reflexivity.
  - cbn [step] in S. inversion S; subst. apply kinds_same_conns with (st := st); [|exact H].
    intros c. destruct (is_some _); destruct c; reflexivity.
  - cbn [step] in S.
    destruct default_registry_test; [|destruct em; [destruct (is_some (sget n (s_copy st)))|]];
      inversion S; subst; first [ exact H | apply kinds_same_conns with (st := st); [intros c; destruct c; reflexivity | exact H] ].
  - cbn [step] in S. inversion S; subst. apply kinds_same_conns with (st := st); [|exact H]. intros c; destruct c; reflexivity.
  - cbn [step] in S. inversion S; subst. apply kinds_same_conns with (st := st); [|exact H]. intros c; destruct c; reflexivity.
  - cbn [step] in S. inversion S; subst. apply kinds_same_conns with (st := st); [|exact H]. intros c; destruct c; reflexivity.
  - cbn [step] in S. inversion S; subst. apply kinds_same_conns with (st := st); [|exact H]. intros c; destruct c; reflexivity.
  - cbn [step] in S. destruct (grant w st c o sw) as [s2 sent] eqn:G. inversion S; subst. eapply grant_kinds; eauto.
  - destruct (step_msg_shape _ _ _ _ _ _ _ _ _ S) as [[_ [E R]]|[[_ [_ [out [fx [B [Ho [_ F]]]]]]]|[_ [_ [inst [out [O [R E]]]]]]]].
    + subst. exact H.
    + destruct fx.
      * destruct F as [E1 E2]. subst. exact H.
      * destruct F as [E1 E2]. subst. apply kinds_one_conn; [exact H | intros ? ? ? []].
      * pose proof (found_name_lookup w st n) as FN. destruct (found_name w st n) as [[o st0]|].
        -- destruct FN as [_ [_ [_ [EA EB]]]].
           assert (K0 : all_kinds_ok w st0). { intros c'. pose proof (H c') as X. destruct c'; cbn [get_conn] in *; rewrite ?EA, ?EB; auto. }
           assert (I0 : inv st0 log). { intros c'. destruct (I c') as [X Y]. destruct c'; cbn [get_conn] in *; rewrite ?EA, ?EB; auto. }
           destruct (req =? 0).
           ++ destruct F as [E1 E2]. subst. exact K0.
           ++ eapply grant_kinds; eauto.
        -- destruct F as [E1 E2]. subst. exact H.
      * destruct F as [E1 E2]. subst. destruct (I c) as [X Y].
        destruct (decref_ok (get_conn st c) clid0 k X) as [D1 D2].
        apply kinds_one_conn; [exact H|]. intros k' o' rc' Hin. destruct (D2 _ _ _ Hin) as [rc0 Hin0]. exact (H c _ _ _ Hin0).
    + destruct out; subst st'; try exact H. apply kinds_one_conn; [exact H | intros ? ? ? []].
  - cbn [step] in S. inversion S; subst. exact H.
  - cbn [step] in S. inversion S; subst. apply kinds_one_conn; [exact H | intros ? ? ? []].
Qed.

Lemma init_kinds w : all_kinds_ok w init.
Proof. intros c k o rc Hin. destruct c; destruct Hin. Qed.

Lemma run_kinds w h : forall st st' rs log, inv st log -> all_kinds_ok w st -> run w st h = (st', rs) -> all_kinds_ok w st'.
Proof.
  induction h as [|e h IH]; intros st st' rs log I K R; cbn [run] in R.
  - inversion R; subst. exact K.
  - destruct (step w st e) as [st1 x] eqn:S. destruct (run w st1 h) as [st2 xs] eqn:R2. inversion R; subst.
    eapply IH; [| |exact R2]; [eapply step_inv; eauto | eapply step_kinds; eauto].
Qed.

(* negative ids denote bound methods / functions, positive ids Referenceables, in every state any history leads to *)
Theorem kinds_reachable : forall w h st rs c k o rc,
  run w init h = (st, rs) -> zget k (c_exports (get_conn st c)) = Some (o, rc) ->
  (k < 0 -> o_kind (w_obj w o) = KCallable) /\ (0 < k -> o_kind (w_obj w o) = KObj).
Proof.
  intros w h st rs c k o rc R G. pose proof (run_kinds w h _ _ _ _ init_inv (init_kinds w) R c) as K.
  apply zget_In in G. destruct (K _ _ _ G) as [A B]. split; [exact A | intros; apply B; lia].
Qed.

(* the translated dispatcher and the model agree on every history *)
Lemma run_T_eq_from w h : forall st log, inv st log -> all_kinds_ok w st -> run_T w st h = run w st h.
Proof.
  induction h as [|e h IH]; intros st log I K; [reflexivity|].
  cbn [run_T run]. rewrite (step_T_eq w st e K). destruct (step w st e) as [st1 x] eqn:S.
  rewrite (IH st1 (log ++ r_sent x)); [reflexivity | eapply step_inv; eauto | eapply step_kinds; eauto].
Qed.
Theorem run_T_eq : forall w h, run_T w init h = run w init h.
Proof. intros w h. exact (run_T_eq_from w h init [] init_inv (init_kinds w)). Qed.

(* ------------------------------------------------------------------ Part X: reference arguments *)
Lemma do_args_T_cons copy ex a r inst :
  do_args_T copy ex (a :: r) inst =
  match do_args_T copy ex [a] [] with
  | ArgsOk i => do_args_T copy ex r (inst ++ i)
  | ArgsFail i rf => ArgsFail (inst ++ i) rf
  end.
Proof.
  cbn [do_args_T]. destruct a as [v|s|k|n|t]; cbn [app]; rewrite ?app_nil_r; try reflexivity.
  - destruct ((k <? 0) && negb yourref_accepts_neg); [rewrite app_nil_r; reflexivity|].
    destruct (gen_yourref_close (gen_get_my_reference ex) (Some k)); rewrite app_nil_r; reflexivity.
  - destruct (sget n copy); [reflexivity | rewrite app_nil_r; reflexivity].
  - destruct (mem_type [t] open_types); rewrite app_nil_r; reflexivity.
Qed.

Lemma strip_cons_core a r : strip (XA a :: r) = a :: strip r.
Proof. reflexivity. Qed.
Lemma strip_cons_my k r : strip (XMyRef k :: r) = strip r.
Proof. reflexivity. Qed.
Lemma strip_cons_their g u ok r : strip (XTheirRef g u ok :: r) = strip r.
Proof. reflexivity. Qed.

(* reference arguments never change what the OTHER arguments do: the core of the extended argument pass is the argument
   pass of the core model on the remaining arguments *)
Lemma xdo_args_core ag copy ex xs : forall acc,
  match xdo_args ag copy ex xs acc with
  | XArgsOk a => do_args_T copy ex (strip xs) (x_inst acc) = ArgsOk (x_inst a)
  | XArgsFail a r => do_args_T copy ex (strip xs) (x_inst acc) = ArgsFail (x_inst a) r
  end.
Proof.
  induction xs as [|x xs IH]; intros acc; [reflexivity|].
  destruct x as [a|k|g u ok]; cbn [xdo_args].
  - rewrite strip_cons_core. pose proof (do_args_T_cons copy ex a (strip xs) (x_inst acc)) as Hc.
    destruct (do_args_T copy ex [a] []) as [i|i rf].
    + specialize (IH {| x_inst := x_inst acc ++ i; x_argv := x_argv acc ++ [val_of ex a i]; x_yours := x_yours acc;
                        x_dial := x_dial acc; x_gifts_ok := x_gifts_ok acc |}). cbn [x_inst] in IH. rewrite Hc. exact IH.
    + cbn [x_inst]. exact Hc.
  - rewrite strip_cons_my. specialize (IH {| x_inst := x_inst acc; x_argv := x_argv acc ++ [VProxy k]; x_yours := x_yours acc ++ [k];
                                            x_dial := x_dial acc; x_gifts_ok := x_gifts_ok acc |}). exact IH.
  - rewrite strip_cons_their.
    specialize (IH {| x_inst := x_inst acc; x_argv := x_argv acc ++ [VGift]; x_yours := x_yours acc;
                      x_dial := if ag then x_dial acc ++ [(g, u)] else x_dial acc;
                      x_gifts_ok := x_gifts_ok acc && ag && ok |}). exact IH.
Qed.

(* what each accepted argument position delivers to the entered method, and why *)
Definition justified (copy : list (string * Z)) (ex : list (Z * (Z * Z))) (x : xarg) (v : argval) : Prop :=
  match x, v with
  | XMyRef k, VProxy k' => k = k'                                              (* a proxy for the PEER's object: never a local one *)
  | XTheirRef _ _ _, VGift => True
  | XA (AYourRef k), VBrokerSelf => k = 0
  | XA (AYourRef k), VLocal o => k <> 0 /\ exists rc, zget k ex = Some (o, rc)  (* a local object: only through this connection's table *)
  | XA (ACopyable n), VCopy c => sget n copy = Some c
  | XA (AInt _), VData | XA (ABytes _), VData | XA (AOpen _), VData => True
  | _, _ => False
  end.

Lemma single_arg_justified copy ex a i : do_args_T copy ex [a] [] = ArgsOk i -> justified copy ex (XA a) (val_of ex a i).
Proof.
  rewrite do_args_T_eq. cbn [do_args]. destruct a as [v|s|k|n|t]; cbn [justified val_of]; auto.
  - destruct ((k <? 0) && negb yourref_accepts_neg); [discriminate|].
    unfold broker_clid. destruct (k =? 0) eqn:Z0; cbn [orb].
    + intros _. apply Z.eqb_eq; exact Z0.
    + destruct (zget k ex) as [[o rc]|] eqn:G; cbn [is_some].
      * intros _. split; [apply Z.eqb_neq; exact Z0 | exists rc; reflexivity].
      * destruct clid_lookup; discriminate.
  - destruct (sget n copy) as [c|] eqn:G; [|discriminate]. cbn [app]. intros H; inversion H; subst. reflexivity.
Qed.

Lemma xdo_args_argv ag copy ex xs : forall acc a,
  xdo_args ag copy ex xs acc = XArgsOk a -> exists l, x_argv a = x_argv acc ++ l /\ Forall2 (justified copy ex) xs l.
Proof.
  induction xs as [|x xs IH]; intros acc a H; cbn [xdo_args] in H.
  - inversion H; subst. exists []. rewrite app_nil_r. split; [reflexivity | constructor].
  - destruct x as [a0|k|g u ok].
    + destruct (do_args_T copy ex [a0] []) as [i|i rf] eqn:D; [|discriminate].
      destruct (IH _ _ H) as [l [E F]]. cbn [x_argv] in E. exists (val_of ex a0 i :: l). split.
      * rewrite E, <- app_assoc. reflexivity.
      * constructor; [apply single_arg_justified; exact D | exact F].
    + destruct (IH _ _ H) as [l [E F]]. cbn [x_argv] in E. exists (VProxy k :: l). split.
      * rewrite E, <- app_assoc. reflexivity.
      * constructor; [reflexivity | exact F].
    + destruct (IH _ _ H) as [l [E F]]. cbn [x_argv] in E. exists (VGift :: l). split.
      * rewrite E, <- app_assoc. reflexivity.
      * constructor; [exact I | exact F].
Qed.

(* proxies and dial requests come only from the reference arguments of that very message; a gift that is not accepted or
   cannot be resolved leaves the flag down *)
Lemma xdo_args_effects ag copy ex xs : forall acc a,
  (xdo_args ag copy ex xs acc = XArgsOk a \/ exists r, xdo_args ag copy ex xs acc = XArgsFail a r) ->
  (forall k, In k (x_yours a) -> In k (x_yours acc) \/ In (XMyRef k) xs) /\
  (forall g u, In (g, u) (x_dial a) -> In (g, u) (x_dial acc) \/ (ag = true /\ exists ok, In (XTheirRef g u ok) xs)) /\
  (x_gifts_ok a = true -> x_gifts_ok acc = true).
Proof.
  induction xs as [|x xs IH]; intros acc a H; cbn [xdo_args] in H.
  - destruct H as [H|[r H]]; [|discriminate]. inversion H; subst. repeat split; auto.
  - destruct x as [a0|k|g u ok].
    + destruct (do_args_T copy ex [a0] []) as [i|i rf] eqn:D.
      * destruct (IH _ _ H) as [A [B C]]. cbn [x_yours x_dial x_gifts_ok] in *. split; [|split].
        -- intros k Hk. destruct (A k Hk) as [?|?]; [left; auto | right; right; auto].
        -- intros g u Hg. destruct (B g u Hg) as [?|[? [ok ?]]]; [left; auto | right; split; [auto | exists ok; right; auto]].
        -- exact C.
      * destruct H as [H|[r H]]; [discriminate|]. inversion H; subst. cbn. repeat split; auto.
    + destruct (IH _ _ H) as [A [B C]]. cbn [x_yours x_dial x_gifts_ok] in *. split; [|split].
      * intros k' Hk. destruct (A k' Hk) as [Hin|?]; [|right; right; auto].
        apply in_app_or in Hin. destruct Hin as [?|[E|[]]]; [left; auto | subst; right; left; reflexivity].
      * intros g u Hg. destruct (B g u Hg) as [?|[? [ok ?]]]; [left; auto | right; split; [auto | exists ok; right; auto]].
      * exact C.
    + destruct (IH _ _ H) as [A [B C]]. cbn [x_yours x_dial x_gifts_ok] in *. split; [|split].
      * intros k' Hk. destruct (A k' Hk) as [?|?]; [left; auto | right; right; auto].
      * intros g' u' Hg. destruct (B g' u' Hg) as [Hin|[? [ok' ?]]]; [|right; split; [auto | exists ok'; right; auto]].
        destruct ag; [|left; exact Hin].
        apply in_app_or in Hin. destruct Hin as [?|[E|[]]]; [left; auto|].
        inversion E; subst. right. split; [reflexivity | exists ok; left; reflexivity].
      * intros Hok. apply C in Hok. apply andb_true_iff in Hok. destruct Hok as [Hok _].
        apply andb_true_iff in Hok. destruct Hok as [Hok _]. exact Hok.
Qed.

Lemma xdo_args_gift_flag ag copy ex xs : forall acc a g u ok,
  xdo_args ag copy ex xs acc = XArgsOk a -> In (XTheirRef g u ok) xs -> x_gifts_ok a = true -> ag = true /\ ok = true.
Proof.
  induction xs as [|x xs IH]; intros acc a g u ok H Hin Hok; [destruct Hin|]. cbn [xdo_args] in H.
  destruct x as [a0|k|g0 u0 ok0].
  - destruct Hin as [E|Hin]; [discriminate|]. destruct (do_args_T copy ex [a0] []); [|discriminate]. eapply IH; eauto.
  - destruct Hin as [E|Hin]; [discriminate|]. eapply IH; eauto.
  - destruct Hin as [E|Hin]; [|eapply IH; eauto]. inversion E; subst.
    destruct (xdo_args_effects _ _ _ _ _ _ (or_introl H)) as [_ [_ C]]. apply C in Hok. cbn [x_gifts_ok] in Hok.
    apply andb_true_iff in Hok. destruct Hok as [Hok O]. apply andb_true_iff in Hok. destruct Hok as [_ A]. auto.
Qed.

(* -- an inbound call with arbitrary arguments: what it enters is what the same call WITHOUT its reference arguments enters *)
Theorem xcall_enter_core : forall ag w copy cn clid m xs e,
  r_out (xr_core (xobj_call ag w copy cn clid m xs)) = Enter e ->
  obj_call_T w copy cn clid m (strip xs) = (r_inst (xr_core (xobj_call ag w copy cn clid m xs)), Enter e).
Proof.
  intros ag w copy cn clid m xs e. unfold xobj_call, obj_call_T.
  destruct (gen_stage1 _ _ clid) as [[[[objID obj] interface] stg]|ex1]; [|destruct ex1; cbn; discriminate].
  destruct (gen_stage2 objID interface (tok_of m) broker_require_schema None) as [[[stg2 methodname] schema]|ex2];
    [|destruct ex2; cbn; discriminate].
  pose proof (xdo_args_core ag copy (c_exports cn) xs xacc0) as C.
  destruct (xdo_args ag copy (c_exports cn) xs xacc0) as [a|a r]; cbn [x_inst xacc0] in C; rewrite C.
  - destruct (x_gifts_ok a); cbn [xr_core r_out r_inst]; [|discriminate]. intros H. rewrite H. reflexivity.
  - cbn [xr_core r_out]. destruct r; cbn; discriminate.
Qed.

(* -- classes are instantiated only for (copyable n) arguments with a registered n, whatever else the message carries *)
Theorem xcall_classes : forall ag w copy cn clid m xs cls,
  In cls (r_inst (xr_core (xobj_call ag w copy cn clid m xs))) ->
  exists n, In (XA (ACopyable n)) xs /\ sget n copy = Some cls.
Proof.
  intros ag w copy cn clid m xs cls. unfold xobj_call.
  destruct (gen_stage1 _ _ clid) as [[[[objID obj] interface] stg]|ex1]; [|intros []].
  destruct (gen_stage2 objID interface (tok_of m) broker_require_schema None) as [[[stg2 methodname] schema]|ex2]; [|intros []].
  pose proof (xdo_args_core ag copy (c_exports cn) xs xacc0) as C.
  assert (S : forall n, In (ACopyable n) (strip xs) -> In (XA (ACopyable n)) xs).
  { intros n Hn. unfold strip in Hn. apply in_flat_map in Hn. destruct Hn as [x [Hx Hn]].
    destruct x as [a|k|g u ok]; [|destruct Hn|destruct Hn]. destruct Hn as [E|[]]. subst. exact Hx. }
  destruct (xdo_args ag copy (c_exports cn) xs xacc0) as [a|a r]; cbn [x_inst xacc0] in C; rewrite do_args_T_eq in C.
  - assert (Hi : In cls (x_inst a) -> exists n, In (XA (ACopyable n)) xs /\ sget n copy = Some cls).
    { intros Hin. destruct (do_args_inst _ _ _ _ _ (or_introl C) cls Hin) as [[]|[n [A B]]]. exists n; split; auto. }
    destruct (x_gifts_ok a); cbn [xr_core r_inst]; exact Hi.
  - cbn [xr_core r_inst]. intros Hin.
    destruct (do_args_inst _ _ _ _ _ (or_intror (ex_intro _ r C)) cls Hin) as [[]|[n [A B]]]. exists n; split; auto.
Qed.

(* -- "my-reference arguments create RemoteReference proxies: they cannot alias a local object"; "a their-reference reaches no
      local object": position by position, the entered method receives a local object only for a your-reference that THIS
      connection's table resolves, a proxy of this connection for a my-reference, the dialled reference for a gift *)
Theorem xcall_argv_justified : forall ag w copy cn clid m xs e,
  r_out (xr_core (xobj_call ag w copy cn clid m xs)) = Enter e ->
  Forall2 (justified copy (c_exports cn)) xs (xr_argv (xobj_call ag w copy cn clid m xs)).
Proof.
  intros ag w copy cn clid m xs e. unfold xobj_call.
  destruct (gen_stage1 _ _ clid) as [[[[objID obj] interface] stg]|ex1]; [|destruct ex1; cbn; discriminate].
  destruct (gen_stage2 objID interface (tok_of m) broker_require_schema None) as [[[stg2 methodname] schema]|ex2];
    [|destruct ex2; cbn; discriminate].
  destruct (xdo_args ag copy (c_exports cn) xs xacc0) as [a|a r] eqn:D.
  - destruct (x_gifts_ok a); cbn [xr_core r_out xr_argv]; [|discriminate]. intros H. rewrite H.
    destruct (xdo_args_argv _ _ _ _ _ _ D) as [l [E F]]. cbn [x_argv xacc0 app] in E. rewrite E. exact F.
  - cbn [xr_core r_out]. destruct r; cbn; discriminate.
Qed.

(* -- the proxies a message creates and the dial requests it causes are those of its own reference arguments; the Tub dials
      only when gifts are accepted *)
Theorem xcall_effects_justified : forall ag w copy cn clid m xs,
  (forall k, In k (xr_yours (xobj_call ag w copy cn clid m xs)) -> In (XMyRef k) xs) /\
  (forall g u, In (g, u) (xr_dial (xobj_call ag w copy cn clid m xs)) -> ag = true /\ exists ok, In (XTheirRef g u ok) xs).
Proof.
  intros ag w copy cn clid m xs. unfold xobj_call.
  destruct (gen_stage1 _ _ clid) as [[[[objID obj] interface] stg]|ex1].
  2:{ split; [intros ? [] | intros ? ? []]. }
  destruct (gen_stage2 objID interface (tok_of m) broker_require_schema None) as [[[stg2 methodname] schema]|ex2].
  2:{ split; [intros ? [] | intros ? ? []]. }
  destruct (xdo_args ag copy (c_exports cn) xs xacc0) as [a|a r] eqn:D.
  - destruct (xdo_args_effects _ _ _ _ _ _ (or_introl D)) as [A [B _]].
    destruct (x_gifts_ok a); cbn [xr_yours xr_dial]; (split; [intros k Hk; destruct (A k Hk) as [[]|?]; auto
                                                             | intros g u Hg; destruct (B g u Hg) as [[]|?]; auto]).
  - destruct (xdo_args_effects _ _ _ _ _ _ (or_intror (ex_intro _ r D))) as [A [B _]].
    cbn [xr_yours xr_dial]. split; [intros k Hk; destruct (A k Hk) as [[]|?]; auto | intros g u Hg; destruct (B g u Hg) as [[]|?]; auto].
Qed.

(* -- "every other object id fails that request without side effects": a call to an id this connection's table does not hold is
      refused at the id, before any argument is unsliced: nothing instantiated, no proxy, no dial *)
Theorem xcall_unheld_id_inert : forall ag w copy cn clid m xs,
  clid <> 0 -> zget clid (c_exports cn) = None ->
  xobj_call ag w copy cn clid m xs = {| xr_core := res0 Reject; xr_argv := []; xr_yours := []; xr_dial := [] |}.
Proof.
  intros ag w copy cn clid m xs NZ G. unfold xobj_call, gen_stage1. rewrite lookup_T_spec.
  destruct (clid =? 0) eqn:Z0; [apply Z.eqb_eq in Z0; contradiction|]. rewrite G. reflexivity.
Qed.

(* -- a call that carries a gift enters nothing unless gifts are accepted AND the dial succeeded *)
Theorem xcall_gift_gate : forall ag w copy cn clid m xs e g u ok,
  r_out (xr_core (xobj_call ag w copy cn clid m xs)) = Enter e -> In (XTheirRef g u ok) xs -> ag = true /\ ok = true.
Proof.
  intros ag w copy cn clid m xs e g u ok. unfold xobj_call.
  destruct (gen_stage1 _ _ clid) as [[[[objID obj] interface] stg]|ex1]; [|destruct ex1; cbn; discriminate].
  destruct (gen_stage2 objID interface (tok_of m) broker_require_schema None) as [[[stg2 methodname] schema]|ex2];
    [|destruct ex2; cbn; discriminate].
  destruct (xdo_args ag copy (c_exports cn) xs xacc0) as [a|a r] eqn:D.
  - destruct (x_gifts_ok a) eqn:Gk; cbn [xr_core r_out]; [|discriminate]. intros _ Hin.
    eapply xdo_args_gift_flag; eauto.
  - cbn [xr_core r_out]. destruct r; cbn; discriminate.
Qed.

(* ------------------------------------------------------------------ Part X at the level of one step *)
Lemma core_set_yours x c l : xs_core (set_yours x c l) = xs_core x.
Proof. destruct c; reflexivity. Qed.

Lemma xobj_call_sent ag w copy cn clid m xs : r_sent (xr_core (xobj_call ag w copy cn clid m xs)) = [].
Proof.
  unfold xobj_call. destruct (gen_stage1 _ _ clid) as [[[[objID obj] interface] stg]|ex1]; [|reflexivity].
  destruct (gen_stage2 objID interface (tok_of m) broker_require_schema None) as [[[stg2 methodname] schema]|ex2]; [|reflexivity].
  destruct (xdo_args ag copy (c_exports cn) xs xacc0) as [a|a r]; [destruct (x_gifts_ok a)|]; reflexivity.
Qed.

(* SIMULATION: a call with arbitrary reference arguments that enters anything is, for the core model (and hence for every
   theorem about it: which object, which attribute, which interface, which classes), the same call without them *)
Theorem xcall_simulates : forall w x c req clid m xs x' r e,
  all_kinds_ok w (xs_core x) -> clid <> 0 ->
  xstep w x (XMsg c req clid m xs) = (x', r) -> r_out (xr_core r) = Enter e ->
  step w (xs_core x) (Msg c req clid m (strip xs)) = (xs_core x', xr_core r).
Proof.
  intros w x c req clid m xs x' r e K NZ H Hout. cbn [xstep] in H.
  destruct (negb (c_alive (get_conn (xs_core x) c))) eqn:AL. { inversion H; subst. discriminate. }
  destruct (clid =? broker_clid) eqn:BC. { apply Z.eqb_eq in BC. unfold broker_clid in BC. contradiction. }
  set (r0 := xobj_call (xs_accept_gifts x) (eff w (s_decl (xs_core x))) (s_copy (xs_core x)) (get_conn (xs_core x) c) clid m xs) in *.
  assert (R : r = r0). { destruct (r_out (xr_core r0)); inversion H; reflexivity. }
  subst r. rewrite Hout in H. inversion H; subst x'. rewrite core_set_yours.
  pose proof (xcall_enter_core _ _ _ _ _ _ _ _ Hout) as C. fold r0 in C.
  rewrite (obj_call_T_eq _ _ _ _ _ _ (kinds_ok_eff _ _ _ (K c)) NZ) in C.
  cbn [step]. rewrite AL, BC, C.
  pose proof (xobj_call_sent (xs_accept_gifts x) (eff w (s_decl (xs_core x))) (s_copy (xs_core x)) (get_conn (xs_core x) c) clid m xs) as S.
  fold r0 in S. destruct (xr_core r0) as [i o s]. cbn in *. subst. reflexivity.
Qed.

(* "without side effects", against the Tub-wide tables: whatever arguments a call to an application object carries -- proxies,
   gifts, copyables -- and whether it is entered or refused, it leaves the name table, the registry, the instance declarations
   and BOTH export tables as they were; only dropping its own connection empties its own table *)
Theorem xcall_tables_unchanged : forall w x c req clid m xs x' r,
  clid <> 0 -> xstep w x (XMsg c req clid m xs) = (x', r) ->
  (r_out (xr_core r) <> Aborted /\ xs_core x' = xs_core x) \/
  (r_out (xr_core r) = Aborted /\ xs_core x' = set_conn (xs_core x) c (drop_conn (get_conn (xs_core x) c))).
Proof.
  intros w x c req clid m xs x' r NZ H. cbn [xstep] in H.
  destruct (negb (c_alive (get_conn (xs_core x) c))). { inversion H; subst. left. split; [discriminate | reflexivity]. }
  destruct (clid =? broker_clid) eqn:BC. { apply Z.eqb_eq in BC. unfold broker_clid in BC. contradiction. }
  set (r0 := xobj_call _ _ _ _ clid m xs) in *.
  destruct (r_out (xr_core r0)) eqn:O; inversion H; subst; rewrite ?core_set_yours;
    first [ right; split; [exact O | reflexivity] | left; split; [rewrite O; discriminate | reflexivity] ].
Qed.

(* ... and the proxy table of the OTHER connection is never touched *)
Theorem xcall_other_proxies_unchanged : forall w x c req clid m xs x' r c',
  c' <> c -> xstep w x (XMsg c req clid m xs) = (x', r) -> get_yours x' c' = get_yours x c'.
Proof.
  intros w x c req clid m xs x' r c' NE H. cbn [xstep] in H.
  assert (SY : forall y l, get_yours (set_yours y c l) c' = get_yours y c').
  { intros y l. destruct c, c'; try reflexivity; contradiction. }
  destruct (negb (c_alive (get_conn (xs_core x) c))). { inversion H; subst. reflexivity. }
  destruct (clid =? broker_clid).
  - destruct (forallb is_core xs); [|inversion H; subst; reflexivity].
    unfold xstep_core in H. destruct (step_T w (xs_core x) (Msg c req clid m (strip xs))) as [st' r1].
    cbn [on_conn] in H. destruct (c_alive (get_conn st' c)); inversion H; subst; rewrite ?SY; destruct c'; reflexivity.
  - set (r0 := xobj_call _ _ _ _ clid m xs) in *.
    destruct (r_out (xr_core r0)); inversion H; subst; rewrite SY; destruct c'; reflexivity.
Qed.

(* The FULL statement "a refused request changes no state of the broker at all" is FALSE of the faithful model: arguments are
   unsliced before the request is known to be deliverable, so a request that is refused because of a LATER argument has already
   created a proxy in yourReferenceByCLID, made the Tub dial the gift's URL, and instantiated a registered class. *)
Definition rf_world : world :=
  {| w_obj := fun o => {| o_kind := KObj; o_attrs := ["remote_hi"%string]; o_iface := None |} |}.
Definition rf_hist : list xevent :=
  [XE (Grant CA 1 "sw0");
   XMsg CA 1 1 (MStr "hi") [XMyRef 5; XTheirRef 1 UForeign true; XA (ACopyable "foolscap.SturdyRef"); XA (AOpen "instance")]].
Theorem refusal_pure_full_refuted :
  exists w x c req clid m xs x' r,
    xstep w x (XMsg c req clid m xs) = (x', r) /\ r_out (xr_core r) = Reject /\
    xs_core x' = xs_core x /\                                         (* the tables of C06_refusal_pure are untouched, but: *)
    get_yours x c = [] /\ get_yours x' c = [5] /\ xr_dial r = [(1, UForeign)] /\ r_inst (xr_core r) = [-1].
Proof.
  exists rf_world, (fst (xrun rf_world (xinit true) [XE (Grant CA 1 "sw0")])), CA, 1, 1, (MStr "hi"),
         [XMyRef 5; XTheirRef 1 UForeign true; XA (ACopyable "foolscap.SturdyRef"); XA (AOpen "instance")].
  eexists. eexists. split; [vm_compute; reflexivity|]. vm_compute. repeat split; reflexivity.
Qed.

(* non-vacuity: a call with a proxy, a resolvable gift, a your-reference and a copyable is entered and delivers exactly those *)
Example ex_xcall_enters :
  let x := fst (xrun rf_world (xinit true) [XE (Grant CA 1 "sw0"); XE (Grant CA 2 "sw1")]) in
  let r := snd (xstep rf_world x (XMsg CA 1 1 (MStr "hi")
                  [XMyRef (-7); XTheirRef 1 (UOwn "sw1") true; XA (AYourRef 2); XA (AYourRef 0); XA (ACopyable "foolscap.SturdyRef")])) in
  r_out (xr_core r) = Enter (EObj 1 "remote_hi") /\ xr_argv r = [VProxy (-7); VGift; VLocal 2; VBrokerSelf; VCopy (-1)] /\
  all_kinds_ok rf_world (xs_core x).
Proof.
  vm_compute. split; [reflexivity|]. split; [reflexivity|].
  intros c k o rc Hin. destruct c; cbn in Hin.
  - destruct Hin as [E|[E|[]]]; inversion E; subst; split; intros X; try reflexivity; discriminate X.
  - destruct Hin.
Qed.

Example ex_gift_gate : 
  let x := fst (xrun rf_world (xinit false) [XE (Grant CA 1 "sw0")]) in
  r_out (xr_core (snd (xstep rf_world x (XMsg CA 1 1 (MStr "hi") [XTheirRef 1 UForeign true])))) = Reject /\
  xr_dial (snd (xstep rf_world x (XMsg CA 1 1 (MStr "hi") [XTheirRef 1 UForeign true]))) = [].
Proof. vm_compute. split; reflexivity. Qed.

(* ------------------------------------------------------------------ statements of props/C06.v that used to carry a script there *)
Lemma registry_origin : forall w h n cls,
  sget n (s_copy (fst (run w init h))) = Some cls -> In n copyable_names \/ In (RegisterCopy n cls) h.
Proof.
  intros w h n cls H. destruct (copy_origin w h init n cls H) as [H'|H']; [left; eapply init_copy_names; eauto | right; exact H'].
Qed.
Lemma open_types_closed_all :
  forallb (fun k => mem_type k data_types) open_types = true /\
  forallb (fun t => negb (mem_type [t] open_types))
          ["instance"; "class"; "module"; "function"; "method"; "call"; "answer"; "error"; "copyable"]%string = true /\
  top_types = [["answer"]; ["call"]; ["error"]]%string.
Proof. split; [exact open_types_closed | split; [exact no_code_types | exact top_types_pinned]]. Qed.

(* ------------------------------------------------------------------ what still drops a connection *)
Lemma do_args_abort copy ex args : forall inst i,
  do_args copy ex args inst = ArgsFail i AbortR -> exists k, In (AYourRef k) args /\ k < 0.
Proof.
  induction args as [|a args IH]; intros inst i H; cbn [do_args] in H; [discriminate|].
  destruct a as [v|s|k|n|t].
  - destruct (IH _ _ H) as [k [A B]]. exists k; split; [right; exact A | exact B].
  - destruct (IH _ _ H) as [k [A B]]. exists k; split; [right; exact A | exact B].
  - unfold yourref_accepts_neg in H. cbn [negb] in H. rewrite andb_true_r in H. destruct (k <? 0) eqn:N.
    + exists k. split; [left; reflexivity | apply Z.ltb_lt; exact N].
    + destruct ((k =? broker_clid) || is_some (zget k ex)).
      * destruct (IH _ _ H) as [k' [A B]]. exists k'; split; [right; exact A | exact B].
      * destruct clid_lookup; discriminate.
  - destruct (sget n copy).
    + destruct (IH _ _ H) as [k [A B]]. exists k; split; [right; exact A | exact B].
    + discriminate.
  - destruct (mem_type [t] open_types).
    + destruct (IH _ _ H) as [k [A B]]. exists k; split; [right; exact A | exact B].
    + discriminate.
Qed.

(* the ONLY inbound call that still costs the peer its connection is a protocol error: a NEG token inside a your-reference
   (YourReferenceUnslicer.checkToken: BananaError).  Unknown ids -- as target or as argument --, unknown names, classes, OPEN types
   and method names that are not UTF-8 all fail just that request. *)
Theorem dropped_only_for_protocol_error : forall w st c req clid m args st' r,
  step w st (Msg c req clid m args) = (st', r) -> r_out r = Aborted ->
  clid <> 0 /\ exists k, In (AYourRef k) args /\ k < 0.
Proof.
  intros w st c req clid m args st' r H Hout.
  destruct (step_msg_shape _ _ _ _ _ _ _ _ _ H) as [[_ [E R]]|[[_ [B0 [out [fx [B [Ho [_ F]]]]]]]|[_ [NB [inst [out [O [R E]]]]]]]].
  - subst. discriminate.
  - exfalso. rewrite Ho in Hout. subst out. unfold broker_call in B.
    destruct m as [s|]; [|unfold methodname_undecodable in B; discriminate].
    destruct (iface_enforced && negb (mem_str s broker_methods)); [discriminate|].
    destruct (negb (mem_str (remote_prefix ++ s) broker_remote_attrs)); [discriminate|].
    destruct (String.eqb s "getReferenceByName"). { destruct args as [|[v|b|k|n|t] [|? ?]]; discriminate. }
    destruct (String.eqb s "decref"). { destruct args as [|[v|b|k|n|t] [|[v2|b2|k2|n2|t2] [|? ?]]]; discriminate. }
    destruct (String.eqb s "decgift"). { destruct args as [|[v|b|k|n|t] [|[v2|b2|k2|n2|t2] [|? ?]]]; discriminate. }
    discriminate.
  - split; [exact NB|]. subst r. cbn [r_out] in Hout. subst out. unfold obj_call in O.
    destruct (zget clid (c_exports (get_conn st c))) as [[o rc]|].
    2:{ destruct clid_lookup; [unfold call_unknown_clid in O|]; discriminate. }
    assert (D : forall i, do_args (s_copy st) (c_exports (get_conn st c)) args [] = ArgsFail i AbortR ->
                          exists k, In (AYourRef k) args /\ k < 0) by (intros i; apply do_args_abort).
    destruct ((clid <? 0) && negative_clid_ignores_name).
    { destruct (do_args (s_copy st) (c_exports (get_conn st c)) args []) as [i|i rf] eqn:DA; [discriminate|].
      destruct rf; [discriminate | eapply D; reflexivity]. }
    destruct m as [s|]; [|unfold methodname_undecodable in O; discriminate].
    destruct (iface_enforced && _); [discriminate|].
    destruct (do_args (s_copy st) (c_exports (get_conn st c)) args []) as [i|i rf] eqn:DA.
    + destruct (mem_str _ _); discriminate.
    + destruct rf; [discriminate | eapply D; reflexivity].
Qed.

(* "every other object id ... fails THAT request", for a your-reference ARGUMENT naming an id the connection's table does not
   hold (since 0058e18): exactly that request is refused -- the connection stays, no table changes, nothing is sent *)
Theorem unknown_yourref_fails_only_that_request : forall w st c req clid m args st' r k,
  step w st (Msg c req clid m args) = (st', r) -> clid <> 0 -> c_alive (get_conn st c) = true ->
  In (AYourRef k) args -> k <> 0 -> zget k (c_exports (get_conn st c)) = None ->
  (forall k', In (AYourRef k') args -> 0 <= k') ->
  r_out r = Reject /\ st' = st /\ r_sent r = [] /\ c_alive (get_conn st' c) = true.
Proof.
  intros w st c req clid m args st' r k H NZ AL Hin KZ G NN.
  assert (R : r_out r = Reject).
  { destruct (r_out r) as [e| | | |] eqn:O; [| reflexivity | | |].
    - exfalso. destruct (bad_argument_never_enters _ _ _ _ _ _ _ _ _ _ H O NZ) as [_ [_ C]].
      destruct (C k Hin) as [?|[o [rc E]]]; [contradiction|]. rewrite G in E. discriminate.
    - exfalso. destruct (dropped_only_for_protocol_error _ _ _ _ _ _ _ _ _ H O) as [_ [k' [A B]]]. specialize (NN k' A). lia.
    - exfalso. destruct (step_msg_shape _ _ _ _ _ _ _ _ _ H) as [[A _]|[[_ [B0 _]]|[_ [_ [inst [out [OC [Rr E]]]]]]]].
      + rewrite AL in A. discriminate.
      + unfold broker_clid in B0. contradiction.
      + subst r. cbn [r_out] in O. subst out. destruct (obj_call_kinds _ _ _ _ _ _ _ _ OC) as [X _]. contradiction.
    - exfalso. destruct (step_msg_shape _ _ _ _ _ _ _ _ _ H) as [[A _]|[[_ [B0 _]]|[_ [_ [inst [out [OC [Rr E]]]]]]]].
      + rewrite AL in A. discriminate.
      + unfold broker_clid in B0. contradiction.
      + subst r. cbn [r_out] in O. subst out. destruct (obj_call_kinds _ _ _ _ _ _ _ _ OC) as [_ X]. contradiction. }
  destruct (refusal_pure _ _ _ _ _ _ _ _ _ H (or_introl R)) as [E S]. subst st'. auto.
Qed.

Definition yr_hist : list event :=
  [Grant CA 1 "sw0"; Grant CA 2 "sw1"; Msg CA 5 1 (MStr "hi") [AYourRef 99]; Msg CA 6 2 (MStr "hi") []].
Example ex_unknown_yourref :
  map r_out (snd (run rf_world init yr_hist)) = [Local; Local; Reject; Enter (EObj 2 "remote_hi")] /\
  List.length (c_exports (get_conn (fst (run rf_world init yr_hist)) CA)) = 2%nat.
Proof. vm_compute. split; reflexivity. Qed.
