(* C10: proofs about lib/Relay.v *)
From Coq Require Import ZArith List Bool Lia.
Import ListNotations.
Require Import Verif.lib.PyLite Verif.lib.Utf8 Verif.gen.FailureGen Verif.lib.Failure Verif.lib.FailureProofs.
Require Import Verif.gen.SendGen Verif.lib.Send Verif.lib.SendProofs Verif.lib.Relay.
Local Open Scope Z_scope.

Lemma fc_parts s : failure_constraint_ok s = true ->
  bytestring_ok fc_limit_type (s_type s) = true /\ bytestring_ok fc_limit_value (s_value s) = true /\
  bytestring_ok fc_limit_traceback (s_traceback s) = true /\
  (forallb (bytestring_ok fc_limit_parents) (s_parents s)
   && match fc_parents_maxlen with None => true | Some m => Z.of_nat (List.length (s_parents s)) <=? m end) = true.
Proof.
  unfold failure_constraint_ok. intros H.
  apply andb_true_iff in H as [H H5]. apply andb_true_iff in H as [H H4]. apply andb_true_iff in H as [H H3].
  apply andb_true_iff in H as [H1 H2]. rewrite H4, H5. auto.
Qed.

(* a name with a dot is relayed unchanged, so a relayed failure that fitted still fits, and type / message / ancestry are the
   ones C sent *)
Theorem relay_fits unsafe s : In type_name_separator (s_type s) -> failure_constraint_ok s = true ->
  failure_constraint_ok (relay_state unsafe s) = true /\
  s_type (relay_state unsafe s) = s_type s /\ s_value (relay_state unsafe s) = s_value s /\
  s_parents (relay_state unsafe s) = s_parents s.
Proof.
  intros D OK. destruct (fc_parts s OK) as (T & V & TB & P).
  assert (E : requal type_name_separator (s_type s) = s_type s) by (apply type_name_identified; exact D).
  split; [|cbn [relay_state s_type s_value s_parents]; rewrite E; auto].
  unfold failure_constraint_ok. cbn [relay_state s_type s_value s_traceback s_parents]. rewrite E, T, V. cbn [andb].
  assert (TB' : bytestring_ok fc_limit_traceback (if unsafe then s_traceback s else copied_default_traceback) = true).
  { destruct unsafe; [exact TB|vm_compute; reflexivity]. }
  rewrite TB'. cbn [andb]. apply andb_true_iff in P as [P1 P2]. rewrite P1, P2. reflexivity.
Qed.

(* every type name that getStateToCopy sends for a class whose qualified name has a dot (reflect.qual: module + "." + name,
   always) has a dot: the name itself (escaping and UTF-8 keep '.'), or a prefix followed by ".." *)
Lemma in_utf8 c t : 0 <= c < 128 -> In c t -> In c (utf8 t).
Proof.
  intros R I. unfold utf8. apply in_flat_map. exists c. split; [exact I|].
  unfold enc1. destruct (c <? 128) eqn:E; [left; reflexivity|apply Z.ltb_ge in E; lia].
Qed.

Lemma in_escape c t : 0 <= c < 128 -> In c t -> In c (escape t).
Proof.
  intros R I. unfold escape. apply in_flat_map. exists c. split; [exact I|].
  unfold esc1. rewrite (scalarb_ascii c R). left. reflexivity.
Qed.

Lemma field_has_dot orig lim b : In 46 orig -> field_of orig lim b -> In 46 b.
Proof.
  intros I [[E _]|(_ & p & rest & _ & _ & E)]; subst b.
  - apply in_utf8; [lia|exact I].
  - rewrite utf8_app. apply in_or_app. right. left. reflexivity.
Qed.

Theorem sent_type_has_dot unsafe e s ty : get_state unsafe e = Ok s -> e_type e = Ok ty -> In 46 ty -> In type_name_separator (s_type s).
Proof.
  intros G HT I. destruct (nameable_inv e (get_state_ok_nameable _ _ _ G)) as (ty' & pa & HT' & HP).
  rewrite HT in HT'. inversion HT'; subst ty'.
  destruct (failure_fits unsafe e ty pa HT HP) as (s' & G' & _ & _ & FT & _). rewrite G in G'. inversion G'; subst s'.
  apply (field_has_dot _ _ _ (in_escape 46 _ ltac:(lia) I) FT).
Qed.

(* C10_relay_end_to_end: for EVERY exception of a class with a qualified name, both tracebacks settings at C and at B and
   both expose settings at A: the relayed report reaches A's Deferred (B's slicer does not raise, A's FailureConstraint
   accepts), and A sees the type name, the message and the ancestry that C sent *)
Theorem relay_end_to_end unsafe_c unsafe_b expose_a e ty pa : e_type e = Ok ty -> e_parents e = Ok pa -> In 46 ty ->
  exists s, get_state unsafe_c e = Ok s /\
    relayed_report unsafe_c unsafe_b expose_a e = Ok (deliver expose_a (relay_state unsafe_b s)) /\
    s_type (relay_state unsafe_b s) = s_type s /\ s_value (relay_state unsafe_b s) = s_value s /\
    s_parents (relay_state unsafe_b s) = s_parents s.
Proof.
  intros HT HP I. destruct (failure_fits unsafe_c e ty pa HT HP) as (s & G & OK & _). exists s. split; [exact G|].
  destruct (relay_fits unsafe_b s (sent_type_has_dot _ _ _ _ G HT I) OK) as (OK' & T & V & P).
  split; [unfold relayed_report; rewrite G, OK, OK'; reflexivity|]. auto.
Qed.

(* without the dot the statement is false of the model: the stand-in class's qual() prepends "." (its __module__ is ""),
   one byte more than was received -- a 200-byte dotless name no longer fits.  reflect.qual never produces such a name; a
   peer that is not foolscap's FailureSlicer could. *)
Theorem relay_dotless_refuted : exists s, failure_constraint_ok s = true /\ failure_constraint_ok (relay_state true s) = false.
Proof.
  exists {| s_type := repeat 120 200; s_value := [118]; s_traceback := [116]; s_parents := [] |}.
  split; vm_compute; reflexivity.
Qed.

Example ex_relay : In 46 [97; 46; 66] /\
  relay_state false {| s_type := [97; 46; 66]; s_value := [118]; s_traceback := [116]; s_parents := [[97; 46; 66]] |}
  = {| s_type := [97; 46; 66]; s_value := [118]; s_traceback := copied_default_traceback; s_parents := [[97; 46; 66]] |}.
Proof. split; [right; left; reflexivity|reflexivity]. Qed.
