(* C01: the in-band vocabulary switch, proved for every interleaving of tokens and table replacements.
   Sender: `sender_wire cur items` (Banana.sendToken abbreviates with the table in force; ReplaceVocabSlicer sends
   OPEN set-vocab (index string)* CLOSE unabbreviated and installs the new table when it is done).
   Receiver: `receiver_view` (VOCAB expanded with the table in force; a set-vocab sequence replaces the table).
   Theorem: the receiver's object layer sees exactly the sender's plain tokens, whatever the tables and wherever they
   are replaced. *)
From Coq Require Import ZArith List String Bool Lia.
Import ListNotations.
Require Import Verif.lib.PyLite Verif.gen.BananaGen Verif.gen.SlicersGen Verif.lib.Token Verif.lib.TokenProofs
        Verif.lib.Obj Verif.lib.ObjProofs.
Local Open Scope Z_scope.

Definition sv : list Z := hd [] ot_set_vocab.

(* hypotheses on the sender's queue:
   - no object token is a VOCAB token already (the object layer produces INT/FLOAT/STRING/OPEN/CLOSE);
   - no object sequence is itself OPEN "set-vocab" (that opentype belongs to the table replacement);
   - every table has distinct indices (it is dict(zip(words, range))) *)
Fixpoint items_ok (items : list item) : bool :=
  match items with
  | [] => true
  | ITok t :: r =>
    no_vocab t
    && (match t, r with
        | TOpen _, ITok (TString s) :: _ => negb (list_eqb s sv)
        | _, _ => true
        end)
    && items_ok r
  | ISetVocab _ tbl :: r => items_ok r
  end.
Fixpoint tables_nodup (items : list item) : Prop :=
  match items with
  | [] => True
  | ITok _ :: r => tables_nodup r
  | ISetVocab _ tbl :: r => NoDup (map snd tbl) /\ tables_nodup r
  end.

(* - every word of every table that is installed fits the receiver's limit (ReplaceVocabUnslicer.valueConstraint =
     ByteStringConstraint(vocab_word_limit), translated): a longer word is a Violation at the receiver, which then KEEPS ITS OLD
     TABLE while the sender goes on with the new one -- vocab_switch_long_word_refuted *)
Fixpoint tables_words_ok (items : list item) : bool :=
  match items with
  | [] => true
  | ITok _ :: r => tables_words_ok r
  | ISetVocab _ tbl :: r => forallb word_ok (map fst tbl) && tables_words_ok r
  end.

Lemma list_eqb_refl a : list_eqb a a = true.
Proof. apply list_eqb_eq. reflexivity. Qed.

Lemma devocab_envocab1 tbl t : NoDup (map snd tbl) -> no_vocab t = true -> devocab1 tbl (envocab1 tbl t) = Some t.
Proof.
  intros ND NV. destruct t; try discriminate; cbn [envocab1 devocab1]; try reflexivity.
  destruct (vfind bs tbl) as [i|] eqn:F; cbn [devocab1]; [|reflexivity]. rewrite (vfind_inv_vfind tbl ND bs i F). reflexivity.
Qed.

Lemma setvocab_view fuel cur n tbl rest out :
  forallb word_ok (map fst tbl) = true ->
  receiver_view fuel tbl rest = Some out ->
  receiver_view (S fuel) cur (setvocab_tokens n tbl ++ rest) = Some (setvocab_tokens n tbl ++ out).
Proof.
  intros WK H. unfold setvocab_tokens.
  change (strs ot_set_vocab) with [TString sv]. cbn [app receiver_view].
  change (hd [] ot_set_vocab) with sv. rewrite list_eqb_refl.
  rewrite <- app_assoc. cbn [app]. rewrite (parse_table_tokens _ WK). cbn [app]. rewrite H. reflexivity.
Qed.

Theorem vocab_switch_in_band : forall items cur fuel,
  NoDup (map snd cur) -> tables_nodup items -> items_ok items = true -> tables_words_ok items = true ->
  (List.length (sender_wire cur items) <= fuel)%nat ->
  receiver_view fuel cur (sender_wire cur items) = Some (plain_tokens items).
Proof.
  induction items as [|it r IH]; intros cur fuel ND TN OK WK L.
  - destruct fuel; reflexivity.
  - destruct it as [t|n tbl].
    + cbn [items_ok] in OK. apply andb_true_iff in OK as [OK OK3]. apply andb_true_iff in OK as [NV OK2].
      cbn [sender_wire plain_tokens tables_nodup tables_words_ok] in *. cbn [List.length] in L.
      destruct fuel as [|fu]; [lia|].
      assert (IHr : receiver_view fu cur (sender_wire cur r) = Some (plain_tokens r)) by (apply IH; auto; lia).
      destruct t; try discriminate; try (cbn [envocab1 receiver_view devocab1]; rewrite IHr; reflexivity).
      * (* STRING: possibly abbreviated *)
        cbn [envocab1]. destruct (vfind bs cur) as [i|] eqn:F.
        -- cbn [receiver_view devocab1]. rewrite (vfind_inv_vfind cur ND bs i F), IHr. reflexivity.
        -- cbn [receiver_view devocab1]. rewrite IHr. reflexivity.
      * (* OPEN: the receiver looks at the next token *)
        cbn [envocab1].
        destruct r as [|[t2|n2 tbl2] r2].
        -- cbn [sender_wire receiver_view devocab1] in *. rewrite IHr. reflexivity.
        -- cbn [sender_wire] in *.
           destruct (envocab1 cur t2) eqn:EV; try (cbn [receiver_view devocab1] in *; rewrite IHr; reflexivity).
           (* the next wire token is a plain STRING: it is t2 itself, and it is not "set-vocab" *)
           assert (T2 : t2 = TString bs).
           { destruct t2; cbn [envocab1] in EV; try discriminate; try (inversion EV; reflexivity).
             destruct (vfind bs0 cur); [discriminate|exact EV]. }
           subst t2. cbn [receiver_view]. change (hd [] ot_set_vocab) with sv.
           apply negb_true_iff in OK2. rewrite OK2.
           rewrite IHr. reflexivity.
        -- (* OPEN directly followed by a table replacement: cannot be a sender's queue, but harmless *)
           cbn [sender_wire] in *. unfold setvocab_tokens in *. cbn [app receiver_view devocab1] in *. rewrite IHr. reflexivity.
    + cbn [sender_wire plain_tokens tables_nodup items_ok tables_words_ok] in *. destruct TN as [ND2 TN].
      apply andb_true_iff in WK as [WK1 WK2].
      rewrite app_length in L. unfold setvocab_tokens in L. cbn [List.length] in L.
      destruct fuel as [|fu]; [lia|].
      apply setvocab_view; [exact WK1|]. apply IH; auto. lia.
Qed.

(* non-vacuity: a list sent, the table replaced by one with a gap (a word listed twice), the same list sent again *)
Example ex_switch :
  let w := [TOpen 0; TString [108; 105; 115; 116]; TInt 1; TClose 0] in
  let items := map ITok w ++ [ISetVocab 1 [([108; 105; 115; 116], 1); ([100], 2)]] ++ map ITok [TOpen 2; TString [108; 105; 115; 116]; TClose 2] in
  items_ok items = true /\ tables_words_ok items = true /\
  sender_wire [] items = w ++ setvocab_tokens 1 [([108; 105; 115; 116], 1); ([100], 2)] ++ [TOpen 2; TVocab 1; TClose 2] /\
  receiver_view 20 [] (sender_wire [] items) = Some (plain_tokens items).
Proof. vm_compute. repeat split; reflexivity. Qed.

(* ------------------------------------------------------------------ a table word over the receiver's limit (FINDING, review 2) *)
(* table [tuple] in force; [1] sent; setOutgoingVocabulary([b"list", b"x"*101]); [2] sent.  Every other hypothesis of
   vocab_switch_in_band holds.  The receiver raises a Violation on the 101-byte word, drops the whole set-vocab sequence and
   KEEPS [tuple]; the sender installs the new table and abbreviates "list" as VOCAB 0, which the receiver expands to "tuple":
   the list [2] is delivered as the tuple (2,) -- replayed on the code (harness: vocab-switch/word-length family).
   With a 100-byte word everything is fine. *)
Definition long_word (k : nat) : list Z := List.repeat 120 k.
Definition w_tuple : list Z := [116; 117; 112; 108; 101].
Definition w_list : list Z := [108; 105; 115; 116].
Definition long_word_items (k : nat) : list item :=
  map ITok (slice 0 (OList [OInt 1])) ++ [ISetVocab 1 [(w_list, 0); (long_word k, 1)]] ++ map ITok (slice 2 (OList [OInt 2])).
Theorem vocab_switch_long_word_refuted :
  let cur := [(w_tuple, 0)] in
  let items := long_word_items 101 in
  items_ok items = true /\ tables_words_ok items = false /\
  receiver_view 100 cur (sender_wire cur items) = None /\
  (exists toks, receiver_view_v 100 cur (sender_wire cur items) = Some (toks, 1) /\
     unslice true 0 toks = Some ([(0, {| n_kind := CList; n_items := [VInt 1] |}); (2, {| n_kind := CTuple; n_items := [VInt 2] |})],
                                 [VPtr 0; VPtr 2])) /\
  (* inside the guard: a 100-byte word *)
  tables_words_ok (long_word_items 100) = true /\
  (exists toks, receiver_view 100 cur (sender_wire cur (long_word_items 100)) = Some toks /\
     unslice true 0 toks = Some ([(0, {| n_kind := CList; n_items := [VInt 1] |}); (2, {| n_kind := CList; n_items := [VInt 2] |})],
                                 [VPtr 0; VPtr 2])).
Proof.
  cbv zeta. split; [vm_compute; reflexivity|]. split; [vm_compute; reflexivity|]. split; [vm_compute; reflexivity|].
  split; [eexists; split; vm_compute; reflexivity|]. split; [vm_compute; reflexivity|].
  eexists; split; vm_compute; reflexivity.
Qed.
