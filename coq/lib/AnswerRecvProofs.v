(* C03 -- theorems about the byte-level receive path of lib/AnswerRecv.v.  Everything is proved for EVERY oracle
   (taste, after): whatever the result constraint and the unslicers below an answer / error do with a token. *)
From Coq Require Import ZArith List Bool Lia.
Import ListNotations.
Require Import Verif.lib.PyLite Verif.gen.BananaGen Verif.lib.Token Verif.lib.Recv Verif.lib.RecvProofs.
Require Import Verif.gen.RequestsGen Verif.lib.Requests Verif.lib.RequestsProofs Verif.lib.AnswerRecv.
Local Open Scope Z_scope.

Section Proofs.
Variable C : Type.
Variable taste : C -> utop -> bool -> Z -> Z -> ck.
Variable after : C -> utop -> bool -> Z -> Z -> list Z -> dres * C.

Notation actx := (actx C).
Notation violation := (violation C).
Notation fatal := (fatal C).
Notation emit := (emit C).
Notation oracle_open := (oracle_open C after).
Notation handle_open := (handle_open C after).
Notation handle_token := (handle_token C after).
Notation handle_close := (handle_close C after).
Notation deliver := (deliver C after).
Notation taste_of := (taste_of C taste).
Notation clauses := (clauses C after).
Notation abort_violation := (abort_violation C).
Notation step_nobody_a := (step_nobody_a C taste after).
Notation begin_body_a := (begin_body_a C taste).
Notation finish_body_a := (finish_body_a C after).
Notation afeed := (afeed C taste after).
Notation afeed_all := (afeed_all C taste after).
Notation jstep := (jstep C taste after).
Notation jrun := (jrun C taste after).
Notation jinit := (jinit C).
Notation jst := (jst C).
Notation japply := (japply C).
Notation fb := (fun c ty hdr body => to_h C (finish_body_a c ty hdr body)).
Notation sn := (fun c ty hdr => to_h C (step_nobody_a c ty hdr)).
Notation atok := (Recv.tok_step actx op begin_body_a fb sn [] [] (fun _ => [])).
Notation aloop := (Recv.loop actx op begin_body_a fb sn [] [] (fun _ => [])).

Lemma run_from_app s a b : run_from s (a ++ b) = run_from (run_from s a) b.
Proof. unfold run_from. apply fold_left_app. Qed.

(* ------------------------------------------------------------------------------------------------------------
   1. The request state changes only through operations of lib/Requests.v: coherence of every handler *)
Definition coh (c : actx) (r : actx * list op) : Prop := a_st (fst r) = run_from (a_st c) (snd r).

Ltac stc := cbn [a_st a_disc a_inopen a_first a_inbopen a_top a_cs a_vocab a_dead
                 set_st set_disc set_inopen set_first set_inbopen set_top set_cs set_dead fst snd
                 AnswerRecv.emit AnswerRecv.fatal run_from fold_left app] in *.

Lemma coh_refl c : coh c (c, []).
Proof. reflexivity. Qed.

Lemma coh_emit c es : coh c (emit c es).
Proof. reflexivity. Qed.

Lemma coh_st c c' r : a_st c' = a_st c -> coh c' r -> coh c r.
Proof. unfold coh. intros E H. rewrite H, E. reflexivity. Qed.

Lemma coh_violation c io ic : coh c (violation c io ic).
Proof.
  unfold coh, AnswerRecv.violation. destruct (a_top c); stc; try reflexivity.
Qed.

Lemma coh_fatal c : coh c (fatal c).
Proof. reflexivity. Qed.

Lemma coh_oracle_open c ty hdr body : coh c (oracle_open c ty hdr body).
Proof.
  unfold AnswerRecv.oracle_open. destruct (after (a_cs c) (a_top c) true ty hdr body) as [r cs'].
  destruct r; try reflexivity;
    try (destruct (a_top c); reflexivity).
  eapply coh_st; [|apply coh_violation]. reflexivity.
Qed.

Lemma coh_handle_open c ty hdr body v : coh c (handle_open c ty hdr body v).
Proof.
  unfold AnswerRecv.handle_open.
  assert (O : coh c (oracle_open (set_first C c false) ty hdr body))
    by (eapply coh_st; [|apply coh_oracle_open]; reflexivity).
  destruct (a_top c); try exact O. destruct v; try exact O.
  destruct (a_first c && list_eqb b answer_opentype); [reflexivity|].
  destruct (a_first c && list_eqb b error_opentype); [reflexivity|]. exact O.
Qed.

Lemma coh_handle_token c ty hdr body v : coh c (handle_token c ty hdr body v).
Proof.
  unfold AnswerRecv.handle_token.
  assert (O : coh c (let '(r, cs') := after (a_cs c) (a_top c) false ty hdr body in
                     let c2 := set_cs C c cs' in
                     match r with DViol => violation c2 false false | DBanana => fatal c2 | _ => (c2, []) end)).
  { destruct (after (a_cs c) (a_top c) false ty hdr body) as [r cs']. destruct r; try reflexivity.
    eapply coh_st; [|apply coh_violation]. reflexivity. }
  destruct (a_top c) as [|err oc|err h hv oc kids|oc kids]; try exact O.
  - reflexivity.
  - destruct v; try reflexivity. destruct (tbl_find z (table (a_st c))); [reflexivity|apply coh_violation].
  - destruct kids; [reflexivity|exact O].
Qed.

Lemma coh_deliver c ty hdr body v : coh c (deliver c ty hdr body v).
Proof. unfold AnswerRecv.deliver. destruct (a_inopen c); [apply coh_handle_open|apply coh_handle_token]. Qed.

Lemma coh_handle_close c n : coh c (handle_close c n).
Proof.
  unfold AnswerRecv.handle_close.
  destruct (a_top c) as [|err oc|err h hv oc kids|oc kids]; try reflexivity.
  - destruct kids as [|k kids].
    + destruct (negb (oc =? n)); [reflexivity|]. destruct (negb hv); [reflexivity|].
      destruct err; [reflexivity|].
      destruct (after _ _ _ _ _ _) as [r cs']. destruct r; reflexivity.
    + destruct (negb (k =? n)); [reflexivity|].
      destruct (after _ _ _ _ _ _) as [r cs']. destruct r; try reflexivity.
      eapply coh_st; [|apply coh_violation]. reflexivity.
  - destruct (negb (_ =? n)); [reflexivity|].
    destruct (after _ _ _ _ _ _) as [r cs']. destruct r; try reflexivity.
    eapply coh_st; [|apply coh_violation]. reflexivity.
Qed.

Lemma coh_abort_violation c : coh c (abort_violation c).
Proof.
  unfold AnswerRecv.abort_violation. destruct abort_in_index_phase_abandons_sequence; [|apply coh_violation].
  pose proof (coh_violation c (a_inopen c) false) as H. unfold coh in *. exact H.
Qed.

Lemma coh_cont c c2 es r : a_st c2 = run_from (a_st c) es -> coh c2 r -> coh c (fst r, es ++ snd r).
Proof. unfold coh. cbn [fst snd]. intros E H. rewrite H, E, run_from_app. reflexivity. Qed.

Lemma coh_clauses c c2 es rej ty hdr : a_st c2 = run_from (a_st c) es -> coh c (clauses c2 es rej ty hdr).
Proof.
  intros E. unfold AnswerRecv.clauses.
  assert (K : forall c3, a_st c3 = a_st c2 -> coh c (c3, es)) by (intros c3 E3; unfold coh; cbn [fst snd]; congruence).
  destruct (ty =? tok_OPEN).
  { destruct rej; [destruct (a_inopen _)|]; apply K; reflexivity. }
  destruct (ty =? tok_CLOSE).
  { destruct (close_in_index_phase_is_fatal && a_inopen c2 && negb (0 <? a_disc c2)); [apply K; reflexivity|].
    destruct (0 <? a_disc c2); [apply K; reflexivity|]. apply (coh_cont c c2); [exact E|apply coh_handle_close]. }
  destruct (ty =? tok_ABORT).
  { destruct rej; [apply K; reflexivity|]. apply (coh_cont c c2); [exact E|apply coh_abort_violation]. }
  destruct (ty =? tok_INT).
  { destruct rej; [apply K; reflexivity|]. apply (coh_cont c c2); [exact E|apply coh_deliver]. }
  destruct (ty =? tok_NEG).
  { destruct rej; [apply K; reflexivity|]. apply (coh_cont c c2); [exact E|apply coh_deliver]. }
  destruct (ty =? tok_VOCAB).
  { destruct (vocab_get (a_vocab c2) hdr); [|apply K; reflexivity].
    destruct rej; [apply K; reflexivity|]. apply (coh_cont c c2); [exact E|apply coh_deliver]. }
  destruct ((ty =? tok_PING) || (ty =? tok_PONG)); apply K; reflexivity.
Qed.

Lemma coh_step_nobody c ty hdr : coh c (step_nobody_a c ty hdr).
Proof.
  unfold AnswerRecv.step_nobody_a.
  destruct (a_dead c); [reflexivity|].
  destruct ((ty =? tok_OPEN) && a_inopen c); [reflexivity|].
  set (c1 := if ty =? tok_OPEN then set_inopen C c true else c).
  assert (E1 : a_st c1 = a_st c) by (unfold c1; destruct (ty =? tok_OPEN); reflexivity).
  destruct ((0 <? a_disc c) || _).
  { apply coh_clauses. exact E1. }
  destruct (taste_of c1 (a_inopen c) ty hdr).
  - apply coh_clauses. exact E1.
  - destruct (violation c1 (a_inopen c1) false) as [c' es] eqn:V.
    apply coh_clauses. pose proof (coh_violation c1 (a_inopen c1) false) as H. rewrite V in H.
    unfold coh in H. cbn [fst snd] in H. stc. rewrite H, E1. reflexivity.
  - unfold coh. cbn [fst snd AnswerRecv.fatal run_from fold_left]. stc. exact E1.
Qed.

Lemma coh_finish_body c ty hdr body : coh c (finish_body_a c ty hdr body).
Proof. apply coh_deliver. Qed.

Lemma begin_body_cases c ty hdr :
  begin_body_a c ty hdr = BAccept \/ exists c' es, begin_body_a c ty hdr = BReject c' es /\ coh c (c', es).
Proof.
  unfold AnswerRecv.begin_body_a.
  destruct (a_dead c); [right; eexists _, _; split; [reflexivity|reflexivity]|].
  destruct (0 <? a_disc c); [right; eexists _, _; split; [reflexivity|reflexivity]|].
  destruct (taste_of c (a_inopen c) ty hdr).
  - left; reflexivity.
  - destruct (violation c (a_inopen c) false) as [c' es] eqn:V. right. eexists _, _. split; [reflexivity|].
    pose proof (coh_violation c (a_inopen c) false) as H. rewrite V in H. exact H.
  - right; eexists _, _; split; [reflexivity|reflexivity].
Qed.

(* one pass of the tokenizer loop *)
Lemma atok_cases c b :
  match atok c b with
  | TNeed _ _ => True
  | TSkip _ _ c' es _ => coh c (c', es)
  | TCont _ _ c' es _ => coh c (c', es)
  | TDead _ _ es => es = []
  end.
Proof.
  unfold Recv.tok_step. destruct (scan_header 64 [] b) as [| |ds ty rest]; [exact I|reflexivity|].
  destruct (ty =? tok_ERROR).
  { destruct (SIZE_LIMIT <? le128 ds); [reflexivity|]. destruct (lenZ rest <? le128 ds); [exact I|reflexivity]. }
  destruct (has_body ty).
  - destruct (begin_body_cases c ty (le128 ds)) as [B|(c' & es & B & H)]; rewrite B.
    + destruct (lenZ rest <? _); [exact I|]. unfold to_h. apply coh_finish_body.
    + destruct (lenZ rest <? _); exact H.
  - unfold to_h. apply coh_step_nobody.
Qed.

Lemma aloop_coh f : forall c b, coh c (r_ctx (fst (aloop f c b)), snd (aloop f c b)).
Proof.
  induction f as [|f IH]; intros c b; cbn [Recv.loop]; [reflexivity|].
  destruct b as [|x b]; [reflexivity|].
  pose proof (atok_cases c (x :: b)) as T.
  destruct (atok c (x :: b)) as [|c' es n|c' es rest|es]; try reflexivity.
  - exact T.
  - specialize (IH c' rest). destruct (aloop f c' rest) as [s es']. cbn [fst snd] in *.
    unfold coh in *. cbn [fst snd] in *. rewrite IH, T, run_from_app. reflexivity.
  - subst es. reflexivity.
Qed.

Lemma afeed_coh s ch : a_st (r_ctx (fst (afeed s ch))) = run_from (a_st (r_ctx s)) (snd (afeed s ch)).
Proof.
  unfold AnswerRecv.afeed, Recv.feed. destruct (r_dead s); [reflexivity|].
  destruct ((0 <? r_skip s) && _); [reflexivity|]. apply aloop_coh.
Qed.

(* ------------------------------------------------------------------------------------------------------------
   2. REFINEMENT: the request state after any history of operations and received chunks is the state of lib/Requests.v
      after the operations the history performed (those issued from outside and those the bytes caused), in order *)
Lemma jstep_coh s j : jst (fst (jstep s j)) = run_from (jst s) (snd (jstep s j)).
Proof. destruct j as [x|ch]; [reflexivity|apply afeed_coh]. Qed.

Theorem jrun_coh js : forall s, jst (fst (jrun s js)) = run_from (jst s) (snd (jrun s js)).
Proof.
  induction js as [|j js IH]; intros s; cbn [AnswerRecv.jrun]; [reflexivity|].
  pose proof (jstep_coh s j) as H. destruct (jstep s j) as [s1 e1]. cbn [fst snd] in H.
  specialize (IH s1). destruct (jrun s1 js) as [s2 e2]. cbn [fst snd] in *.
  rewrite IH, H, run_from_app. reflexivity.
Qed.

Theorem bytes_refine_operations cs voc js :
  jst (fst (jrun (jinit cs voc) js)) = run (snd (jrun (jinit cs voc) js)).
Proof. apply jrun_coh. Qed.

Lemma jrun_app a : forall s b,
  jrun s (a ++ b) = let '(s1, e1) := jrun s a in let '(s2, e2) := jrun s1 b in (s2, e1 ++ e2).
Proof.
  induction a as [|j a IH]; intros s b; cbn [app AnswerRecv.jrun].
  - destruct (jrun s b). reflexivity.
  - destruct (jstep s j) as [s1 e1]. rewrite IH. destruct (jrun s1 a) as [s2 e2]. destruct (jrun s2 b) as [s3 e3].
    rewrite app_assoc. reflexivity.
Qed.

(* ------------------------------------------------------------------------------------------------------------
   3. The sentences of the property, for histories that contain received bytes *)

(* "nothing fires twice", whatever bytes arrive in whatever chunks between whatever operations *)
Theorem bytes_at_most_once cs voc js h c :
  get (jst (fst (jrun (jinit cs voc) js))) h = Some c -> (List.length (c_fires c) <= 1)%nat.
Proof. rewrite bytes_refine_operations. apply at_most_once. Qed.

Theorem bytes_table_iff_pending cs voc js rid :
  In rid (map fst (table (jst (fst (jrun (jinit cs voc) js))))) <->
  exists h c, get (jst (fst (jrun (jinit cs voc) js))) h = Some c /\ c_tracked c = true /\ c_rid c = rid /\ c_fires c = [].
Proof. rewrite bytes_refine_operations. apply table_iff_pending. Qed.

(* the first outcome is final under every continuation, including any further bytes *)
Theorem bytes_first_outcome_is_final cs voc js1 js2 h c o :
  get (jst (fst (jrun (jinit cs voc) js1))) h = Some c -> c_fires c = [o] ->
  exists c', get (jst (fst (jrun (jinit cs voc) (js1 ++ js2)))) h = Some c' /\ c_fires c' = [o].
Proof.
  intros G F. rewrite jrun_app. pose proof (bytes_refine_operations cs voc js1) as R1.
  destruct (jrun (jinit cs voc) js1) as [s1 e1]. cbn [fst snd] in *.
  pose proof (jrun_coh js2 s1) as R2. destruct (jrun s1 js2) as [s2 e2]. cbn [fst snd] in *.
  rewrite R1 in G. destruct (first_outcome_is_final e1 e2 h c o G F) as [c' [G' [F' _]]].
  exists c'. split; [|exact F']. rewrite R2, R1. unfold run in G'. unfold run, run_from in *. rewrite fold_left_app in G'. exact G'.
Qed.

(* "for every interleaving of calls, answers ... and connection loss at any byte position": after ANY history -- any
   operations interleaved with any received byte chunks, i.e. the answer stream cut after any number of bytes, with the
   parser and the unslicers in whatever state that leaves them -- connectionLost / shutdown followed by the turns of the
   eventual queue leaves no request pending and every callRemote fired exactly once *)
Theorem bytes_cut_anywhere_then_loss cs voc js r :
  let s1 := jst (fst (jrun (jinit cs voc) (js ++ [JOp (Finish r)]))) in
  let s2 := run_from s1 (repeat Turn (List.length (evq s1))) in
  disconnected s2 = true /\ evq s2 = [] /\ table s2 = [] /\
  forall h c, get s2 h = Some c -> c_twoway c = true -> List.length (c_fires c) = 1%nat.
Proof.
  assert (E : jst (fst (jrun (jinit cs voc) (js ++ [JOp (Finish r)]))) = run (snd (jrun (jinit cs voc) js) ++ [Finish r])).
  { rewrite bytes_refine_operations. rewrite jrun_app. destruct (jrun (jinit cs voc) js) as [s1 e1].
    cbn [AnswerRecv.jrun AnswerRecv.jstep snd]. rewrite app_nil_r. reflexivity. }
  cbv zeta. rewrite E.
  destruct (loss_then_drain (snd (jrun (jinit cs voc) js)) r) as (H1 & H2 & H3 & _ & H5).
  split; [exact H1|split; [exact H2|split; [exact H3|exact H5]]].
Qed.

(* ... and the bytes that arrive AFTER the loss (shutdown first, data later) change nothing about that: in every state in
   which the broker is disconnected and the eventual queue is empty, everything has fired exactly once *)
Theorem bytes_drained_after_loss cs voc js :
  let s := jst (fst (jrun (jinit cs voc) js)) in
  disconnected s = true -> evq s = [] ->
  table s = [] /\ forall h c, get s h = Some c -> c_twoway c = true -> List.length (c_fires c) = 1%nat.
Proof. cbv zeta. rewrite bytes_refine_operations. apply drained_after_loss. Qed.

(* ------------------------------------------------------------------------------------------------------------
   4. Chunk independence of the whole caller: between two operations only the concatenation of the received chunks
      matters (generic theorem of lib/RecvProofs.v, instantiated), and an operation does not disturb a partly received
      token *)
Notation jstable := (RecvProofs.stable actx op begin_body_a fb sn [] [] (fun _ => [])).

Lemma taste_of_st c s' w ty hdr : taste_of (set_st C c s') w ty hdr = taste_of c w ty hdr.
Proof. reflexivity. Qed.

Lemma begin_body_accept_st c s' ty hdr : begin_body_a c ty hdr = BAccept -> begin_body_a (set_st C c s') ty hdr = BAccept.
Proof.
  unfold AnswerRecv.begin_body_a. rewrite taste_of_st. stc.
  destruct (a_dead c); [discriminate|]. destruct (0 <? a_disc c); [discriminate|].
  destruct (taste_of c (a_inopen c) ty hdr); try discriminate; [reflexivity|].
  destruct (violation c (a_inopen c) false). discriminate.
Qed.

Lemma atok_need_st c s' b : atok c b = TNeed _ _ -> atok (set_st C c s') b = TNeed _ _.
Proof.
  unfold Recv.tok_step. destruct (scan_header 64 [] b) as [| |ds ty rest]; try (intros; assumption).
  destruct (ty =? tok_ERROR); [intros; assumption|].
  destruct (has_body ty).
  - destruct (begin_body_cases c ty (le128 ds)) as [B|(c' & es & B & _)]; rewrite B.
    + rewrite (begin_body_accept_st c s' _ _ B). destruct (lenZ rest <? _); [reflexivity|]. unfold to_h. discriminate.
    + destruct (lenZ rest <? _); discriminate.
  - unfold to_h. discriminate.
Qed.

Lemma japply_stable s x : jstable s -> jstable (japply s x).
Proof.
  unfold RecvProofs.stable, AnswerRecv.japply, Recv.mk. cbn [r_dead r_skip r_buf r_ctx].
  intros [D|[S|(D & K & [B|T])]]; [left; exact D|right; left; exact S|right; right|right; right].
  - split; [exact D|split; [exact K|left; exact B]].
  - split; [exact D|split; [exact K|right; apply atok_need_st; exact T]].
Qed.

Lemma jstep_stable s j : jstable s -> jstable (fst (jstep s j)).
Proof. destruct j as [x|ch]; [apply japply_stable|apply RecvProofs.feed_stable]. Qed.

Theorem jrun_stable js : forall s, jstable s -> jstable (fst (jrun s js)).
Proof.
  induction js as [|j js IH]; intros s St; cbn [AnswerRecv.jrun]; [exact St|].
  pose proof (jstep_stable s j St) as S1. destruct (jstep s j) as [s1 e1]. cbn [fst] in S1.
  specialize (IH s1 S1). destruct (jrun s1 js) as [s2 e2]. exact IH.
Qed.

Lemma jinit_stable cs voc : jstable (jinit cs voc).
Proof. apply RecvProofs.init_stable. Qed.

Lemma jrun_data s chunks : jrun s (map JData chunks) = afeed_all s chunks.
Proof.
  revert s; induction chunks as [|ch chunks IH]; intros s; cbn [map AnswerRecv.jrun AnswerRecv.jstep]; [reflexivity|].
  unfold AnswerRecv.afeed_all. cbn [Recv.feed_all]. fold (afeed s ch). destruct (afeed s ch) as [s1 e1].
  rewrite IH. reflexivity.
Qed.

(* after ANY history, a stretch of received data acts as its concatenation: where the transport cuts it is irrelevant *)
Theorem bytes_chunking_irrelevant cs voc js chunks :
  let s := fst (jrun (jinit cs voc) js) in
  jrun s (map JData chunks) = afeed s (concat chunks).
Proof.
  cbv zeta. rewrite jrun_data. apply RecvProofs.feed_all_concat. apply jrun_stable. apply jinit_stable.
Qed.

Corollary bytes_chunk_independent cs voc js chunks1 chunks2 :
  concat chunks1 = concat chunks2 ->
  let s := fst (jrun (jinit cs voc) js) in
  jrun s (map JData chunks1) = jrun s (map JData chunks2).
Proof. intros E. cbv zeta. rewrite !bytes_chunking_irrelevant, E. reflexivity. Qed.

(* ------------------------------------------------------------------------------------------------------------
   5. What one token can do to the requests.  It performs at most ONE operation; that operation is complete() or fail()
      of the request bound to the Answer/ErrorUnslicer that is on the stack, and afterwards that unslicer is gone -- so an
      answer or error sequence can fire nothing but the request whose id it carried, and that at most once. *)
Definition emits_ok (c : actx) (r : actx * list op) : Prop :=
  snd r = [] \/
  exists err h hv oc kids, a_top c = UBody err h hv oc kids /\ a_top (fst r) = URoot /\
    (snd r = [Complete h] \/ exists o, snd r = [Fail h o]).

Lemma eo_top c c' r : a_top c' = a_top c -> emits_ok c' r -> emits_ok c r.
Proof. unfold emits_ok. intros E [H|H]; [left; exact H|right]. rewrite <- E. exact H. Qed.

Lemma eo_violation c io ic : emits_ok c (violation c io ic).
Proof.
  unfold emits_ok, AnswerRecv.violation. destruct (a_top c) as [|err oc|err h hv oc kids|oc kids] eqn:T;
    try (left; reflexivity).
  unfold report_emits. destruct (if err then error_reportViolation else answer_reportViolation); [|left; reflexivity].
  right. exists err, h, hv, oc, kids. split; [reflexivity|]. split; [reflexivity|]. right. eexists. reflexivity.
Qed.

Lemma top_violation c io ic : a_top (fst (violation c io ic)) = URoot.
Proof. unfold AnswerRecv.violation. destruct (a_top c) eqn:T; stc; try reflexivity. exact T. Qed.

Lemma eo_oracle_open c ty hdr body : emits_ok c (oracle_open c ty hdr body).
Proof.
  unfold AnswerRecv.oracle_open. destruct (after (a_cs c) (a_top c) true ty hdr body) as [r cs'].
  destruct r; try (left; reflexivity); try (destruct (a_top c); left; reflexivity).
  eapply eo_top; [|apply eo_violation]. reflexivity.
Qed.

Lemma eo_handle_open c ty hdr body v : emits_ok c (handle_open c ty hdr body v).
Proof.
  unfold AnswerRecv.handle_open.
  assert (O : emits_ok c (oracle_open (set_first C c false) ty hdr body))
    by (eapply eo_top; [|apply eo_oracle_open]; reflexivity).
  destruct (a_top c); try exact O. destruct v; try exact O.
  destruct (a_first c && list_eqb b answer_opentype); [left; reflexivity|].
  destruct (a_first c && list_eqb b error_opentype); [left; reflexivity|]. exact O.
Qed.

Lemma eo_handle_token c ty hdr body v : emits_ok c (handle_token c ty hdr body v).
Proof.
  unfold AnswerRecv.handle_token.
  assert (O : emits_ok c (let '(r, cs') := after (a_cs c) (a_top c) false ty hdr body in
                     let c2 := set_cs C c cs' in
                     match r with DViol => violation c2 false false | DBanana => fatal c2 | _ => (c2, []) end)).
  { destruct (after (a_cs c) (a_top c) false ty hdr body) as [r cs']. destruct r; try (left; reflexivity).
    eapply eo_top; [|apply eo_violation]. reflexivity. }
  destruct (a_top c) as [|err oc|err h hv oc kids|oc kids] eqn:T; try exact O.
  - left; reflexivity.
  - destruct v; try (left; reflexivity). destruct (tbl_find z (table (a_st c))); [left; reflexivity|].
    left. unfold AnswerRecv.violation. rewrite T. reflexivity.
  - destruct kids; [left; reflexivity|exact O].
Qed.

Lemma eo_deliver c ty hdr body v : emits_ok c (deliver c ty hdr body v).
Proof. unfold AnswerRecv.deliver. destruct (a_inopen c); [apply eo_handle_open|apply eo_handle_token]. Qed.

Lemma eo_handle_close c n : emits_ok c (handle_close c n).
Proof.
  unfold AnswerRecv.handle_close.
  destruct (a_top c) as [|err oc|err h hv oc kids|oc kids] eqn:T; try (left; reflexivity).
  - destruct kids as [|k kids].
    + destruct (negb (oc =? n)); [left; reflexivity|]. destruct (negb hv); [left; reflexivity|].
      destruct err.
      * right. exists true, h, hv, oc, []. split; [exact T|]. split; [reflexivity|]. right. eexists. reflexivity.
      * destruct (after _ _ _ _ _ _) as [r cs'].
        destruct r; try (left; reflexivity);
          (right; exists false, h, hv, oc, []; split; [exact T|]; split; [reflexivity|]; left; reflexivity).
    + destruct (negb (k =? n)); [left; reflexivity|].
      destruct (after _ _ _ _ _ _) as [r cs']. destruct r; try (left; reflexivity).
      eapply eo_top; [|apply eo_violation]. reflexivity.
  - destruct (negb (_ =? n)); [left; reflexivity|].
    destruct (after _ _ _ _ _ _) as [r cs']. destruct r; try (left; reflexivity).
    eapply eo_top; [|apply eo_violation]. reflexivity.
Qed.

Lemma eo_abort_violation c : emits_ok c (abort_violation c).
Proof.
  unfold AnswerRecv.abort_violation. destruct abort_in_index_phase_abandons_sequence; [|apply eo_violation].
  pose proof (eo_violation c (a_inopen c) false) as V. pose proof (top_violation c (a_inopen c) false) as TV.
  unfold emits_ok in *. cbn [fst snd]. destruct V as [V|(err & h & hv & oc & kids & V1 & _ & V3)]; [left; exact V|right].
  exists err, h, hv, oc, kids. split; [exact V1|split; [exact TV|exact V3]].
Qed.

Lemma eo_cont c r : emits_ok c r -> emits_ok c (fst r, [] ++ snd r).
Proof. destruct r. exact (fun H => H). Qed.

Lemma eo_clauses_nil c rej ty hdr : emits_ok c (clauses c [] rej ty hdr).
Proof.
  unfold AnswerRecv.clauses.
  destruct (ty =? tok_OPEN). { destruct rej; [destruct (a_inopen _)|]; left; reflexivity. }
  destruct (ty =? tok_CLOSE).
  { destruct (close_in_index_phase_is_fatal && a_inopen c && negb (0 <? a_disc c)); [left; reflexivity|].
    destruct (0 <? a_disc c); [left; reflexivity|]. apply eo_cont, eo_handle_close. }
  destruct (ty =? tok_ABORT). { destruct rej; [left; reflexivity|]. apply eo_cont, eo_abort_violation. }
  destruct (ty =? tok_INT). { destruct rej; [left; reflexivity|]. apply eo_cont, eo_deliver. }
  destruct (ty =? tok_NEG). { destruct rej; [left; reflexivity|]. apply eo_cont, eo_deliver. }
  destruct (ty =? tok_VOCAB).
  { destruct (vocab_get (a_vocab c) hdr); [|left; reflexivity]. destruct rej; [left; reflexivity|]. apply eo_cont, eo_deliver. }
  destruct ((ty =? tok_PING) || (ty =? tok_PONG)); left; reflexivity.
Qed.

(* a token that was rejected by the taste does nothing more than the Violation already did *)
Lemma clauses_rejected c es ty hdr : (ty =? tok_CLOSE) = false -> a_top c = URoot ->
  snd (clauses c es true ty hdr) = es /\ a_top (fst (clauses c es true ty hdr)) = URoot.
Proof.
  intros NC T. unfold AnswerRecv.clauses. rewrite NC.
  destruct (ty =? tok_OPEN). { destruct (a_inopen _); split; try reflexivity; exact T. }
  destruct (ty =? tok_ABORT); [split; [reflexivity|exact T]|].
  destruct (ty =? tok_INT); [split; [reflexivity|exact T]|].
  destruct (ty =? tok_NEG); [split; [reflexivity|exact T]|].
  destruct (ty =? tok_VOCAB). { destruct (vocab_get (a_vocab c) hdr); split; try reflexivity; exact T. }
  destruct ((ty =? tok_PING) || (ty =? tok_PONG)); split; try reflexivity; exact T.
Qed.

Theorem token_emits_at_most_one_nobody c ty hdr : emits_ok c (step_nobody_a c ty hdr).
Proof.
  unfold AnswerRecv.step_nobody_a.
  destruct (a_dead c); [left; reflexivity|].
  destruct ((ty =? tok_OPEN) && a_inopen c); [left; reflexivity|].
  set (c1 := if ty =? tok_OPEN then set_inopen C c true else c).
  assert (E1 : a_top c1 = a_top c) by (unfold c1; destruct (ty =? tok_OPEN); reflexivity).
  destruct ((0 <? a_disc c) || _) eqn:RX.
  { eapply eo_top; [exact E1|apply eo_clauses_nil]. }
  destruct (taste_of c1 (a_inopen c) ty hdr).
  - eapply eo_top; [exact E1|apply eo_clauses_nil].
  - apply orb_false_iff in RX as [_ RX]. apply orb_false_iff in RX as [_ NC].
    pose proof (eo_violation c1 (a_inopen c1) false) as V. pose proof (top_violation c1 (a_inopen c1) false) as TV.
    destruct (violation c1 (a_inopen c1) false) as [c' es]. cbn [fst snd] in *.
    destruct (clauses_rejected (set_inopen C c' false) es ty hdr NC TV) as [S T].
    eapply eo_top; [exact E1|]. unfold emits_ok in *. rewrite S, T. cbn [fst snd] in V.
    destruct V as [V|(err & h & hv & oc & kids & V1 & _ & V3)]; [left; exact V|right].
    exists err, h, hv, oc, kids. split; [exact V1|split; [reflexivity|exact V3]].
  - left; reflexivity.
Qed.

Theorem token_emits_at_most_one_body c ty hdr body : emits_ok c (finish_body_a c ty hdr body).
Proof. apply eo_deliver. Qed.

Theorem token_emits_at_most_one_rejected c ty hdr c' es : begin_body_a c ty hdr = BReject c' es -> emits_ok c (c', es).
Proof.
  unfold AnswerRecv.begin_body_a.
  destruct (a_dead c); [intros E; inversion E; left; reflexivity|].
  destruct (0 <? a_disc c); [intros E; inversion E; left; reflexivity|].
  destruct (taste_of c (a_inopen c) ty hdr); [discriminate| |intros E; inversion E; left; reflexivity].
  pose proof (eo_violation c (a_inopen c) false) as V. pose proof (top_violation c (a_inopen c) false) as TV.
  destruct (violation c (a_inopen c) false) as [c2 es2]. intros E; inversion E; subst.
  unfold emits_ok in *. cbn [fst snd] in *.
  destruct V as [V|(err & h & hv & oc & kids & V1 & _ & V3)]; [left; exact V|right].
  exists err, h, hv, oc, kids. split; [exact V1|split; [exact TV|exact V3]].
Qed.

(* while a sequence is being discarded (discardCount > 0), and once the connection is abandoned, tokens do nothing *)
Theorem discarding_emits_nothing c ty hdr : 0 < a_disc c ->
  snd (step_nobody_a c ty hdr) = [] /\ (forall c' es, begin_body_a c ty hdr = BReject c' es -> es = []) /\
  begin_body_a c ty hdr <> BAccept.
Proof.
  intros D. apply Z.ltb_lt in D. split; [|split].
  - unfold AnswerRecv.step_nobody_a. destruct (a_dead c); [reflexivity|].
    destruct ((ty =? tok_OPEN) && a_inopen c); [reflexivity|]. rewrite D. cbn [orb].
    set (c1 := if ty =? tok_OPEN then set_inopen C c true else c).
    assert (D1 : (0 <? a_disc c1) = true) by (unfold c1; destruct (ty =? tok_OPEN); exact D).
    unfold AnswerRecv.clauses.
    destruct (ty =? tok_OPEN). { destruct (a_inopen _); reflexivity. }
    destruct (ty =? tok_CLOSE). { rewrite D1. cbn [negb]. rewrite andb_false_r. reflexivity. }
    destruct (ty =? tok_ABORT); [reflexivity|]. destruct (ty =? tok_INT); [reflexivity|].
    destruct (ty =? tok_NEG); [reflexivity|].
    destruct (ty =? tok_VOCAB). { destruct (vocab_get _ _); reflexivity. }
    destruct ((ty =? tok_PING) || (ty =? tok_PONG)); reflexivity.
  - unfold AnswerRecv.begin_body_a. destruct (a_dead c); [intros ? ? E; inversion E; reflexivity|].
    rewrite D. intros ? ? E; inversion E; reflexivity.
  - unfold AnswerRecv.begin_body_a. destruct (a_dead c); [discriminate|]. rewrite D. discriminate.
Qed.

Theorem abandoned_connection_is_inert c ty hdr : a_dead c = true ->
  step_nobody_a c ty hdr = (c, []) /\ begin_body_a c ty hdr = BReject c [].
Proof. intros D. unfold AnswerRecv.step_nobody_a, AnswerRecv.begin_body_a. rewrite D. split; reflexivity. Qed.

(* a request is bound to an unslicer only by the request-id token, through the table (Broker.getRequest) *)
Theorem reqid_token_binds_through_table c ty hdr body rid err oc : a_top c = UWantId err oc ->
  match tbl_find rid (table (a_st c)) with
  | Some h => handle_token c ty hdr body (VInt rid) = (set_top C c (UBody err h false oc []), [])
  | None => snd (handle_token c ty hdr body (VInt rid)) = [] /\ a_top (fst (handle_token c ty hdr body (VInt rid))) = URoot /\
            a_disc (fst (handle_token c ty hdr body (VInt rid))) = a_disc c + 1
  end.
Proof.
  intros T. unfold AnswerRecv.handle_token. rewrite T.
  destruct (tbl_find rid (table (a_st c))); [reflexivity|].
  unfold AnswerRecv.violation. rewrite T. stc. repeat split; lia.
Qed.

(* ------------------------------------------------------------------------------------------------------------
   6. What the tokens of an answer / error sequence DO (functional half): the CLOSE of a complete answer completes the
      bound request, the CLOSE of an error fails it with the remote failure, a Violation anywhere below fails exactly it. *)
Theorem close_of_answer_completes c h oc : a_top c = UBody false h true oc [] ->
  fst (after (a_cs c) (a_top c) false tok_CLOSE oc []) <> DLate ->
  snd (handle_close c oc) = [Complete h] /\ a_top (fst (handle_close c oc)) = URoot /\
  a_st (fst (handle_close c oc)) = step (a_st c) (Complete h).
Proof.
  intros T NL. unfold AnswerRecv.handle_close. rewrite T in *. rewrite Z.eqb_refl. cbn [negb].
  destruct (after (a_cs c) (UBody false h true oc []) false tok_CLOSE oc []) as [r cs']. cbn [fst] in NL.
  destruct r; try (repeat split; reflexivity). congruence.
Qed.

Theorem close_of_error_fails c h oc : a_top c = UBody true h true oc [] ->
  snd (handle_close c oc) = [Fail h ORemoteError] /\ a_top (fst (handle_close c oc)) = URoot /\
  a_st (fst (handle_close c oc)) = step (a_st c) (Fail h ORemoteError).
Proof. intros T. unfold AnswerRecv.handle_close. rewrite T, Z.eqb_refl. repeat split; reflexivity. Qed.

(* (uses the translated reportViolation of both unslicers: ReportFailsBound) *)
Theorem violation_fails_bound_request c err h hv oc kids io ic : a_top c = UBody err h hv oc kids ->
  snd (violation c io ic) = [Fail h OViolation] /\ a_top (fst (violation c io ic)) = URoot /\
  a_st (fst (violation c io ic)) = step (a_st c) (Fail h OViolation) /\
  a_disc (fst (violation c io ic)) = a_disc c + (if io then 1 else 0) + lenZ kids + 1 - (if ic then 1 else 0).
Proof.
  intros T. unfold AnswerRecv.violation. rewrite T.
  assert (R : report_emits err h = [Fail h OViolation]) by (destruct err; reflexivity).
  rewrite R. repeat split; reflexivity.
Qed.

(* a Violation before the request id is known fails nothing *)
Theorem violation_without_request_fails_nothing c err oc io ic : a_top c = UWantId err oc ->
  snd (violation c io ic) = [] /\ a_top (fst (violation c io ic)) = URoot.
Proof. intros T. unfold AnswerRecv.violation. rewrite T. split; reflexivity. Qed.

End Proofs.

(* ------------------------------------------------------------------------------------------------------------
   Non-vacuity: concrete byte strings through the concrete oracle of the correspondence *)
Definition o0 (tasters : list (option taster)) : coracle :=
  {| co_tasters := tasters; co_max_index := 15; co_copyable := [99; 111; 112; 121; 97; 98; 108; 101];
     co_max_copyable := 30; co_second := false;
     co_known := [[108; 105; 115; 116]; [117; 110; 105; 99; 111; 100; 101]]; co_copyables := [[70]] |}.
Definition go0 tasters js := jrun coracle c_taste c_after (jinit coracle (o0 tasters) []) js.
Definition fires0 tasters js := map (fun c => map ocode (c_fires c)) (calls (jst coracle (fst (go0 tasters js)))).
(* OPEN(0) "answer" INT 1 INT 5 CLOSE(0) *)
Definition answer1 : list Z := [0; 136; 6; 130; 97; 110; 115; 119; 101; 114; 1; 129; 5; 129; 0; 137].
(* OPEN(0) "error" INT 1 OPEN(1) "copyable" "F" "value" "x" CLOSE(1) CLOSE(0) *)
Definition error1 : list Z := [0; 136; 5; 130; 101; 114; 114; 111; 114; 1; 129; 1; 136; 8; 130; 99; 111; 112; 121; 97; 98; 108; 101;
                               1; 130; 70; 5; 130; 118; 97; 108; 117; 101; 1; 130; 120; 1; 137; 0; 137].

(* the answer arrives byte by byte: the callRemote fires with the result, exactly when the CLOSE token arrives *)
Example ex_answer_bytewise :
  fires0 [None] (JOp (Call KTwoWay) :: map (fun b => JData [b]) answer1) = [[1]] /\
  fires0 [None] (JOp (Call KTwoWay) :: map (fun b => JData [b]) (removelast answer1)) = [[]] /\
  snd (go0 [None] (JOp (Call KTwoWay) :: [JData answer1])) = [Call KTwoWay; Complete 0%nat].
Proof. vm_compute. repeat split. Qed.

(* the same answer cut after 12 of its 16 bytes, then connectionLost and the turn of the eventual queue: DeadReferenceError, once;
   if the rest of the answer still arrives after a shutdown and before the queued failure runs, the request completes with the
   result and the queued failure fires nothing: once, either way *)
Example ex_cut_then_loss :
  fires0 [None] [JOp (Call KTwoWay); JData (firstn 12 answer1); JOp (Finish (RListed ConnectionLostC)); JOp Turn] = [[4]] /\
  fires0 [None] [JOp (Call KTwoWay); JData (firstn 12 answer1); JOp (Finish (RListed ConnectionLostC)); JData (skipn 12 answer1); JOp Turn] = [[1]].
Proof. vm_compute. split; reflexivity. Qed.

(* the result constraint (taster: STRING up to 10 bytes only) rejects the INT: the request fails with the Violation at that
   token, the rest of the sequence is discarded and the next answer is processed normally *)
Example ex_violation_then_next :
  fires0 [Some [(130, Some 10)]; None]
         [JOp (Call KTwoWay); JOp (Call KTwoWay); JData (answer1 ++ [1; 136; 6; 130; 97; 110; 115; 119; 101; 114; 2; 129; 7; 129; 1; 137])]
  = [[3]; [1]].
Proof. vm_compute. reflexivity. Qed.

(* an answer for a request id that is not pending fires nothing and is skipped; an error sequence fails its request *)
Example ex_unknown_id_and_error :
  fires0 [None] [JOp (Call KTwoWay); JData [0; 136; 6; 130; 97; 110; 115; 119; 101; 114; 9; 129; 5; 129; 0; 137]; JData error1] = [[2]].
Proof. vm_compute. reflexivity. Qed.

(* garbage: 65 header bytes without a type byte abandon the connection; later bytes are ignored; the loss still drains *)
Example ex_garbage :
  let js := [JOp (Call KTwoWay); JData (repeat 0 65); JData answer1] in
  jdead coracle (fst (go0 [None] js)) = true /\ fires0 [None] js = [[]] /\
  fires0 [None] (js ++ [JOp (Finish (RListed ConnectionDoneC)); JOp Turn]) = [[4]].
Proof. vm_compute. repeat split. Qed.
