(* C19 -- two uploads at the same time (model only, no proofs).

   remote_putfile is asynchronous: while one call waits for its next block another call may run.  Both calls work on ONE
   file system (names, inodes, contents, `next`), each has its OWN file object (handle + unflushed text) and its own
   "a statement raised" flag.  open(p, "wb") on an existing path truncates the inode that is there -- also when another
   call holds it open --, rename moves the directory entry, and f.close() writes the buffered text at the file object's
   own position (0 .. |text|) INTO THE INODE AS IT IS THEN (`overlay`): what lies beyond stays. *)
From Coq Require Import NArith List Bool Arith.
Import ListNotations.
Require Import Verif.lib.UploadShape Verif.gen.UploadGen Verif.lib.Paths Verif.lib.Upload Verif.lib.UploadHist.

Inductive who := WA | WB.

Record st2 := mkst2 {
  n2 : str -> option ent; d2 : nat -> list N; nx2 : nat;
  hA : option (nat * list N); hB : option (nat * list N);
  fA : bool; fB : bool; fo2 : bool }.

Definition hd2 (s : st2) (w : who) := match w with WA => hA s | WB => hB s end.
Definition fl2 (s : st2) (w : who) := match w with WA => fA s | WB => fB s end.

(* the file system as one of the two calls sees it *)
Definition as1 (w : who) (s : st2) : st := mkst (n2 s) (d2 s) (nx2 s) (hd2 s w) (fl2 s w) (fo2 s).
Definition put (w : who) (s : st2) (s1 : st) : st2 :=
  match w with
  | WA => mkst2 (names s1) (data s1) (next s1) (handle s1) (hB s) (failed s1) (fB s) (followed s1)
  | WB => mkst2 (names s1) (data s1) (next s1) (hA s) (handle s1) (fA s) (failed s1) (followed s1)
  end.

Definition overlay (pend old : list N) : list N := pend ++ skipn (List.length pend) old.

(* `step`, except that close() writes INTO the inode as it is now (for a single writer the inode is empty then and the two
   coincide: UploadConcProofs.step_o_single) *)
Definition step_o (s : st) (o : op) : st :=
  match o with
  | Close _ =>
    if failed s then s else
    match handle s with
    | Some (i, pend) => mkst (names s) (updn (data s) i (overlay pend (data s i))) (next s) None false (followed s)
    | None => fail s
    end
  | _ => step s o
  end.

Definition step2 (s : st2) (wo : who * op) : st2 := put (fst wo) s (step_o (as1 (fst wo) s) (snd wo)).
Definition run2 (s : st2) (l : list (who * op)) : st2 := fold_left step2 l s.
Definition look2 (s : st2) (p : str) : view := look (as1 WA s) p.
Definition lift2 (s : st) : st2 := mkst2 (names s) (data s) (next s) None None false false (followed s).

(* the operations the services use while a file object may be open elsewhere *)
Definition okop (o : op) : bool :=
  match o with Rename _ _ | RenameRetry _ _ | UnlinkIfExists _ => false | _ => true end.

(* every schedule: kA operations of call A and kB of call B, each call's in its own order *)
Inductive sched (opsA opsB : list op) : nat -> nat -> list (who * op) -> Prop :=
| sched_nil : sched opsA opsB 0 0 []
| sched_A : forall kA kB l o, sched opsA opsB kA kB l -> nth_error opsA kA = Some o ->
            sched opsA opsB (S kA) kB (l ++ [(WA, o)])
| sched_B : forall kA kB l o, sched opsA opsB kA kB l -> nth_error opsB kB = Some o ->
            sched opsA opsB kA (S kB) (l ++ [(WB, o)]).

(* A delivers its blocks, B runs from start to end, A finishes: the schedule of the finding *)
Definition tear_schedule (final : str) (a b : list (list N)) : list (who * op) :=
  let oa := upload_ops final a Done in
  map (pair WA) (firstn (2 + List.length a) oa) ++ map (pair WB) (upload_ops final b Done) ++
  map (pair WA) (skipn (2 + List.length a) oa).

(* correspondence: the final name (and the kind of entry at the temporary) after each of the three phases *)
Definition tear_views (s0 : st) (final : str) (a b : list (list N)) : list (list N) :=
  let oa := upload_ops final a Done in
  let l1 := map (pair WA) (firstn (2 + List.length a) oa) in
  let l2 := l1 ++ map (pair WB) (upload_ops final b Done) in
  let l3 := l2 ++ map (pair WA) (skipn (2 + List.length a) oa) in
  flat_map (fun l => let s := run2 (lift2 s0) l in [code_view (look2 s final); kind_of (look2 s (final ++ putfile_tmp_ext))]) [l1; l2; l3]
  ++ [[b2n (fA (run2 (lift2 s0) l3)); b2n (fB (run2 (lift2 s0) l3))]].
