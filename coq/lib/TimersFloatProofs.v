(* C15: the rounding hypotheses of lib/TimersRoundProofs.v hold for IEEE binary64 with delta = 2^-23 s (all times below
   2^31 s), proved on the exact integer model of lib/TimersFloat.v; the robust theorems instantiated with it. *)
From Coq Require Import ZArith List Bool Lia.
Import ListNotations.
Require Import Verif.lib.PyLite Verif.gen.BananaGen Verif.gen.TimersGen Verif.lib.Timers Verif.lib.TimersProofs
               Verif.lib.TimersRound Verif.lib.TimersRoundProofs Verif.lib.TimersFloat.
Local Open Scope Z_scope.

(* rounding to the grid 2^e moves a value by at most half a grid step *)
Lemma rnd_to_err e x : 1 <= e -> Z.abs (rnd_to e x - x) <= 2 ^ (e - 1).
Proof.
  intros He. unfold rnd_to.
  assert (P : 2 ^ e = 2 * 2 ^ (e - 1)) by (rewrite <- Z.pow_succ_r by lia; f_equal; lia).
  assert (H0 : 0 < 2 ^ (e - 1)) by (apply Z.pow_pos_nonneg; lia).
  set (h := 2 ^ (e - 1)) in *. set (p := 2 ^ e) in *.
  pose proof (Z.div_mod x p ltac:(lia)) as D. pose proof (Z.mod_pos_bound x p ltac:(lia)) as B.
  set (q := x / p) in *. set (r := x mod p) in *.
  destruct (Z.ltb_spec (2 * r) p); [lia|]. destruct (Z.ltb_spec p (2 * r)); [lia|]. destruct (Z.even q); lia.
Qed.

(* ... and lands on the grid *)
Lemma rnd_to_grid e x : 0 <= e -> exists k, rnd_to e x = 2 ^ e * k.
Proof.
  intros He. unfold rnd_to. set (p := 2 ^ e). set (q := x / p).
  destruct (_ <? _); [exists q; reflexivity|]. destruct (_ <? _); [exists (q + 1); lia|].
  destruct (Z.even q); [exists q; reflexivity|exists (q + 1); lia].
Qed.

(* binary64: a result of magnitude below 2^M is off by at most half an ulp of the binade below 2^M *)
Theorem rnd53_err M x : 54 <= M -> Z.abs x < 2 ^ M -> Z.abs (rnd53 x - x) <= 2 ^ (M - 54).
Proof.
  intros HM Hx. unfold rnd53. destruct (Z.ltb_spec (Z.abs x) (2 ^ 53)) as [|Hbig].
  - replace (x - x) with 0 by lia. cbn [Z.abs]. apply Z.pow_nonneg. lia.
  - assert (Hpos : 0 < Z.abs x) by (pose proof (Z.pow_pos_nonneg 2 53); lia).
    assert (L1 : 53 <= Z.log2 (Z.abs x)) by (apply Z.log2_le_pow2; lia).
    assert (L2 : Z.log2 (Z.abs x) < M) by (apply Z.log2_lt_pow2; lia).
    pose proof (rnd_to_err (Z.log2 (Z.abs x) - 52) x ltac:(lia)) as E.
    assert (Z.pow 2 (Z.log2 (Z.abs x) - 52 - 1) <= 2 ^ (M - 54)) by (apply Z.pow_le_mono_r; lia). lia.
Qed.

(* values that already have at most 53 significant bits are not changed: sums of time stamps, small ages ... are exact *)
Lemma rnd53_exact x : Z.abs x < 2 ^ 53 -> rnd53 x = x.
Proof. intros H. unfold rnd53. destruct (Z.ltb_spec (Z.abs x) (2 ^ 53)); [reflexivity|lia]. Qed.

Lemma fadd_is_binary64 U a b : Z.abs (a + b) < horizon U -> fadd U a b = rnd53 (a + b).
Proof. intros H. unfold fadd. cbv zeta. destruct (Z.ltb_spec (Z.abs (a + b)) (horizon U)); [reflexivity|lia]. Qed.

Lemma fsub_is_binary64 U a b : Z.abs (a - b) < horizon U -> fsub U a b = rnd53 (a - b).
Proof. intros H. unfold fsub. cbv zeta. destruct (Z.ltb_spec (Z.abs (a - b)) (horizon U)); [reflexivity|lia]. Qed.

Lemma delta64_nonneg U : 0 <= delta64 U.
Proof. unfold delta64. apply Z.pow_nonneg. lia. Qed.

(* delta = 2^-23 s: in units of 2^-U s (U >= 23) that is 2^(U-23) *)
Theorem fadd_within U : 23 <= U -> within (delta64 U) (fadd U) Z.add.
Proof.
  intros HU a b. unfold fadd. cbv zeta. destruct (Z.ltb_spec (Z.abs (a + b)) (horizon U)) as [H|H].
  - unfold delta64. replace (U - 23) with (31 + U - 54) by lia. apply rnd53_err; [lia|exact H].
  - replace (a + b - (a + b)) with 0 by lia. apply delta64_nonneg.
Qed.

Theorem fsub_within U : 23 <= U -> within (delta64 U) (fsub U) Z.sub.
Proof.
  intros HU a b. unfold fsub. cbv zeta. destruct (Z.ltb_spec (Z.abs (a - b)) (horizon U)) as [H|H].
  - unfold delta64. replace (U - 23) with (31 + U - 54) by lia. apply rnd53_err; [lia|exact H].
  - replace (a - b - (a - b)) with 0 by lia. apply delta64_nonneg.
Qed.

(* ---- the robust theorems for binary64 arithmetic: time unit 2^-U s, any U >= 23; eps = the double EPSILON in that unit *)

Theorem idle_torn_down_binary64 U eps : 23 <= U -> 0 <= eps ->
  forall c tc T d pre post,
  cT c = Some T -> 0 <= T -> 0 <= d ->
  sorted_from tc pre -> no_close pre ->
  let s := runR (fadd U) (fsub U) eps c (initR (fadd U) (fsub U) eps c tc) pre in
  only_ticks post -> sorted_from (now s) post -> punctualR (fadd U) (fsub U) eps c d s post ->
  let s' := runR (fadd U) (fsub U) eps c s post in
  now s + 2 * T + eps + 3 * delta64 U + d < now s' ->
  exists x, In x (torn s') /\ x <= now s + 2 * T + eps + 3 * delta64 U + d.
Proof.
  intros HU He. apply (idle_torn_down_rounded (fadd U) (fsub U) eps (delta64 U) (delta64_nonneg U) He (fadd_within U HU) (fsub_within U HU)).
Qed.

Theorem ping_within_binary64 U eps : 23 <= U -> 0 <= eps ->
  forall c tc K d pre post,
  cK c = Some K -> 0 <= K -> 0 <= d ->
  sorted_from tc pre -> no_close pre ->
  let s := runR (fadd U) (fsub U) eps c (initR (fadd U) (fsub U) eps c tc) pre in
  only_ticks post -> sorted_from (now s) post -> punctualR (fadd U) (fsub U) eps c d s post ->
  let s' := runR (fadd U) (fsub U) eps c s post in
  now s + 2 * K + eps + 3 * delta64 U + d < now s' ->
  exists new p, pings s' = new ++ pings s /\ In p new /\ now s <= p <= now s + 2 * K + eps + 3 * delta64 U + d.
Proof.
  intros HU He. apply (ping_within_rounded (fadd U) (fsub U) eps (delta64 U) (delta64_nonneg U) He (fadd_within U HU) (fsub_within U HU)).
Qed.

Theorem active_kept_binary64 U eps : 23 <= U -> 0 <= eps ->
  forall c tc T evs, cT c = Some T ->
  (forall pre t post, evs = pre ++ Tick t :: post -> t - last_arrival tc false pre <= T - delta64 U) ->
  torn (runR (fadd U) (fsub U) eps c (initR (fadd U) (fsub U) eps c tc) evs) = [].
Proof.
  intros HU He. apply (active_kept_rounded (fadd U) (fsub U) eps (delta64 U) (delta64_nonneg U) He (fadd_within U HU) (fsub_within U HU)).
Qed.

Theorem torn_only_when_idle_binary64 U eps : 23 <= U -> 0 <= eps ->
  forall c tc T evs x, cT c = Some T ->
  In x (torn (runR (fadd U) (fsub U) eps c (initR (fadd U) (fsub U) eps c tc) evs)) ->
  exists pre post, evs = pre ++ Tick x :: post /\ T - delta64 U < x - last_arrival tc false pre.
Proof.
  intros HU He. apply (torn_only_when_idle_rounded (fadd U) (fsub U) eps (delta64 U) (delta64_nonneg U) He (fadd_within U HU) (fsub_within U HU)).
Qed.

(* ---- concrete: unit 2^-60 s.  EPSILON = 0.1 is the double 3602879701896397 * 2^-55; delta = 2^37 units = 2^-23 s *)
Definition U60 : Z := 60.
Definition eps60 : Z := 3602879701896397 * 2 ^ 5.
Definition sec60 (n : Z) : Z := n * 2 ^ 60.

Example ex_binary64 :
  delta64 U60 = 2 ^ 37 /\
  (* 0.1 + 0.2 = 0.30000000000000004 (the doubles nearest 0.1, 0.2: m * 2^-55, m * 2^-54) *)
  fadd U60 (3602879701896397 * 2 ^ 5) (3602879701896397 * 2 ^ 6) = 5404319552844596 * 2 ^ 6 /\
  (* time.time() = 1.7e9 + 2^-22 s, last = 1.7e9 s: the age is exact (Sterbenz) *)
  fsub U60 (sec60 1700000000 + 2 ^ 38) (sec60 1700000000) = 2 ^ 38 /\
  (* now + (T + EPSILON) with now = 1.7e9 s, T = 3 s: rounded to the 2^-22 s grid of the binade of now *)
  fadd U60 (sec60 1700000000) (fadd U60 (sec60 3) eps60) = sec60 1700000003 + 419430 * 2 ^ 38 /\
  Z.abs (fadd U60 (sec60 1700000000) (fadd U60 (sec60 3) eps60) - (sec60 1700000003 + eps60)) <= 2 * delta64 U60.
Proof. vm_compute. repeat split; try reflexivity; discriminate. Qed.
