From Coq Require Import ZArith List String Bool Lia.
Import ListNotations.
Require Import Verif.lib.PyLite Verif.gen.BananaGen Verif.gen.SlicersGen Verif.lib.Token Verif.lib.TokenProofs Verif.lib.Obj.
Local Open Scope Z_scope.

Lemma placeholder_self_list : unslice true 0 (slice 0 (OList [ORef 0])) = Some (heap_of 0 (OList [ORef 0]), [VPtr 0]).
Proof. vm_compute. reflexivity. Qed.
