(* C01, object layer: proofs about Obj.v.
   Main result `run_slice`: for every well-formed canonical term t (any nesting, back-references, cycles, nested
   scopes), the receiver machine started in any admissible state consumes exactly `slice n t` and ends in the state
   `adv st ..`: the value `val_of n t` handed to the unslicer on top, the heap extended by `heap_of n t`, the
   scope tables extended by `regs_of n t`, the counter advanced by `opens t`. *)
From Coq Require Import ZArith List String Bool Lia.
Import ListNotations.
Require Import Verif.lib.PyLite Verif.gen.BananaGen Verif.gen.SlicersGen Verif.lib.Token Verif.lib.TokenProofs Verif.lib.Obj.
Local Open Scope Z_scope.

(* ------------------------------------------------------------------ induction over nested terms *)
Definition is_cont (t : obj) : bool := match t with OCont _ _ => true | _ => false end.

Fixpoint obj_ind' (P : obj -> Prop)
         (Hleaf : forall t, is_cont t = false -> P t)
         (Hcont : forall c xs, Forall P xs -> P (OCont c xs)) (t : obj) {struct t} : P t :=
  match t as t0 return P t0 with
  | OCont c xs =>
    Hcont c xs ((fix go (l : list obj) : Forall P l :=
                   match l with
                   | [] => Forall_nil P
                   | x :: r => Forall_cons x (obj_ind' P Hleaf Hcont x) (go r)
                   end) xs)
  | OInt z => Hleaf (OInt z) eq_refl
  | OFloat b => Hleaf (OFloat b) eq_refl
  | OBytes b => Hleaf (OBytes b) eq_refl
  | OText u => Hleaf (OText u) eq_refl
  | OBool b => Hleaf (OBool b) eq_refl
  | ONone => Hleaf ONone eq_refl
  | ODecimal s => Hleaf (ODecimal s) eq_refl
  | ORef k => Hleaf (ORef k) eq_refl
  end.

(* ------------------------------------------------------------------ unfolding of the nested fixpoints *)
Lemma slice_cont n c xs : slice n (OCont c xs) = TOpen n :: strs (opentype_of c) ++ slice_list (n + 1) xs ++ [TClose n].
Proof. reflexivity. Qed.
Lemma opens_cont c xs : opens (OCont c xs) = 1 + opens_list xs.
Proof. reflexivity. Qed.
Lemma heap_of_cont n c xs :
  heap_of n (OCont c xs) = heap_list (n + 1) xs ++ [(n, {| n_kind := c; n_items := vals_list (n + 1) xs |})].
Proof. reflexivity. Qed.
Lemma regs_of_cont n c xs : regs_of n (OCont c xs) = (if registers c then [n] else []) ++ regs_list (n + 1) xs.
Proof. reflexivity. Qed.
Lemma wf_at_cont sc vis imm n c xs :
  wf_at sc vis imm n (OCont c xs) =
  let imm' := if is_imm_c c then n :: imm else imm in
  if shape_ok c xs && negb (hazard_pos c false (vals_list (n + 1) xs) (fun k => mem k imm'))
     && negb (match c with CTuple | CFrozen => existsb (ref_into imm') xs | _ => false end) then
    let sc' := sc || is_scope c in
    let vis1 := if sc' && tracked c then n :: vis else vis in
    match wf_list sc' imm' vis1 (n + 1) xs with
    | Some v => Some (if is_scope c then vis else v)
    | None => None
    end
  else None.
Proof. reflexivity. Qed.
Lemma slice_list_cons n x r : slice_list n (x :: r) = slice n x ++ slice_list (n + opens x) r.
Proof. reflexivity. Qed.
Lemma wf_list_cons sc imm v m x r :
  wf_list sc imm v m (x :: r) = match wf_at sc v imm m x with Some v' => wf_list sc imm v' (m + opens x) r | None => None end.
Proof. reflexivity. Qed.

(* ------------------------------------------------------------------ frames and states *)
Definition set_items (f : frame) (l : list value) : frame :=
  {| f_kind := f_kind f; f_open := f_open f; f_count := f_count f; f_items := l; f_refs := f_refs f |}.
Definition push_many (vs : list value) (s : list frame) : list frame :=
  match s with [] => [] | f :: r => set_items f (rev vs ++ f_items f) :: r end.

(* the state after a complete object (or several) has gone by *)
Definition adv (st : mstate) (vs : list value) (ids : list Z) (h : heap) (k : Z) : mstate :=
  {| s_stack := push_many vs (reg_many ids (s_stack st)); s_inopen := None; s_counter := s_counter st + k; s_heap := s_heap st ++ h |}.

Definition top_ok (s : list frame) : bool :=
  match s with f :: _ => match f_kind f with KRoot _ | KC _ => true | _ => false end | [] => false end.

Lemma reg1_nil f : reg1 [] f = f.
Proof. unfold reg1. destruct (is_scope_frame f); [|reflexivity]. destruct f; cbn. rewrite app_nil_r. reflexivity. Qed.
Lemma reg_many_nil s : reg_many [] s = s.
Proof. unfold reg_many. induction s as [|f r IH]; cbn; [reflexivity|]. rewrite reg1_nil, IH. reflexivity. Qed.
Lemma is_scope_reg1 a f : is_scope_frame (reg1 a f) = is_scope_frame f.
Proof. unfold reg1. destruct (is_scope_frame f) eqn:E; [|exact E]. unfold is_scope_frame in *. cbn. exact E. Qed.
Lemma reg1_app a b f : reg1 b (reg1 a f) = reg1 (a ++ b) f.
Proof.
  unfold reg1 at 1. rewrite is_scope_reg1. unfold reg1. destruct (is_scope_frame f); [|reflexivity].
  cbn. rewrite app_assoc. reflexivity.
Qed.
Lemma reg_many_app a b s : reg_many b (reg_many a s) = reg_many (a ++ b) s.
Proof. unfold reg_many. rewrite map_map. apply map_ext. intros f. apply reg1_app. Qed.
Lemma reg1_set_items a f l : reg1 a (set_items f l) = set_items (reg1 a f) l.
Proof. unfold reg1, set_items, is_scope_frame. cbn. destruct (match f_kind f with KRoot b => b | KC c => is_scope c | _ => false end); reflexivity. Qed.
Lemma kind_reg1 a f : f_kind (reg1 a f) = f_kind f.
Proof. unfold reg1. destruct (is_scope_frame f); reflexivity. Qed.
Lemma count_reg1 a f : f_count (reg1 a f) = f_count f.
Proof. unfold reg1. destruct (is_scope_frame f); reflexivity. Qed.
Lemma items_reg1 a f : f_items (reg1 a f) = f_items f.
Proof. unfold reg1. destruct (is_scope_frame f); reflexivity. Qed.
Lemma open_reg1 a f : f_open (reg1 a f) = f_open f.
Proof. unfold reg1. destruct (is_scope_frame f); reflexivity. Qed.

Lemma push_reg_comm vs ids s : reg_many ids (push_many vs s) = push_many vs (reg_many ids s).
Proof.
  destruct s as [|f r]; [reflexivity|]. cbn [push_many reg_many map]. rewrite reg1_set_items, items_reg1. reflexivity.
Qed.
Lemma push_many_app a b s : push_many b (push_many a s) = push_many (a ++ b) s.
Proof.
  destruct s as [|f r]; [reflexivity|]. cbn [push_many]. unfold set_items. cbn. rewrite rev_app_distr, app_assoc. reflexivity.
Qed.

Lemma adv_adv st a i h k b j g l : adv (adv st a i h k) b j g l = adv st (a ++ b) (i ++ j) (h ++ g) (k + l).
Proof.
  unfold adv. cbn [s_stack s_counter s_heap]. f_equal.
  - rewrite push_reg_comm, reg_many_app, push_many_app. reflexivity.
  - lia.
  - rewrite app_assoc. reflexivity.
Qed.

Lemma run_app a b st : run (a ++ b) st = match run a st with Some st' => run b st' | None => None end.
Proof. revert st. induction a as [|t a IH]; intros st; cbn [app run]; [reflexivity|]. destruct (step st t); [apply IH|reflexivity]. Qed.

(* --- what stays the same under adv *)
Lemma top_ok_adv st vs ids h k : top_ok (s_stack (adv st vs ids h k)) = top_ok (s_stack st).
Proof. unfold adv. cbn [s_stack]. destruct (s_stack st) as [|f r]; [reflexivity|]. cbn. rewrite kind_reg1. reflexivity. Qed.

Lemma has_scope_push vs s : has_scope (push_many vs s) = has_scope s.
Proof. destruct s as [|f r]; reflexivity. Qed.
Lemma has_scope_reg ids s : has_scope (reg_many ids s) = has_scope s.
Proof. unfold has_scope, reg_many. induction s as [|f r IH]; [reflexivity|]. cbn. rewrite is_scope_reg1, IH. reflexivity. Qed.

Lemma mem_app k a b : mem k (a ++ b) = mem k a || mem k b.
Proof. induction a as [|x a IH]; cbn; [reflexivity|]. rewrite IH, orb_assoc. reflexivity. Qed.

Lemma lookup_push k vs s : lookup k (push_many vs s) = lookup k s.
Proof. destruct s as [|f r]; reflexivity. Qed.
Lemma lookup_reg k ids s : lookup k (reg_many ids s) = lookup k s || (has_scope s && mem k ids).
Proof.
  unfold lookup, has_scope, reg_many. induction s as [|f r IH]; [reflexivity|]. cbn [map existsb].
  rewrite IH, is_scope_reg1. unfold reg1. destruct (is_scope_frame f) eqn:E; cbn [f_refs andb orb].
  - rewrite mem_app. destruct (mem k (f_refs f)), (mem k ids), (existsb _ r), (existsb is_scope_frame r); reflexivity.
  - reflexivity.
Qed.
Lemma open_imm_push vs s k : open_imm (push_many vs s) k = open_imm s k.
Proof. destruct s as [|f r]; reflexivity. Qed.
Lemma open_imm_reg ids s k : open_imm (reg_many ids s) k = open_imm s k.
Proof. unfold open_imm, reg_many. induction s as [|f r IH]; [reflexivity|]. cbn. rewrite kind_reg1, count_reg1, IH. reflexivity. Qed.

(* ------------------------------------------------------------------ admissible states *)
Record okst (sc : bool) (vis imm : list Z) (n : Z) (st : mstate) : Prop := {
  ok_in : s_inopen st = None;
  ok_cnt : s_counter st = n;
  ok_top : top_ok (s_stack st) = true;
  ok_sc : sc = true -> has_scope (s_stack st) = true;
  ok_vis : forall k, mem k vis = true -> lookup k (s_stack st) = true;
  ok_imm : forall k, open_imm (s_stack st) k = true -> mem k imm = true }.

Lemma okst_adv sc vis vis' imm n st vs ids h k :
  okst sc vis imm n st ->
  (forall j, mem j vis' = true -> mem j vis = true \/ (sc = true /\ mem j ids = true)) ->
  okst sc vis' imm (n + k) (adv st vs ids h k).
Proof.
  intros [Hi Hc Ht Hs Hv Hm] Hsub. split.
  - reflexivity.
  - unfold adv; cbn [s_counter]. lia.
  - rewrite top_ok_adv. exact Ht.
  - intros E. unfold adv; cbn [s_stack]. rewrite has_scope_push, has_scope_reg. auto.
  - intros j Hj. unfold adv; cbn [s_stack]. rewrite lookup_push, lookup_reg. destruct (Hsub j Hj) as [H|[H1 H2]].
    + rewrite (Hv j H). reflexivity.
    + rewrite (Hs H1), H2. apply orb_true_r.
  - intros j. unfold adv; cbn [s_stack]. rewrite open_imm_push, open_imm_reg. apply Hm.
Qed.

(* ------------------------------------------------------------------ single steps *)
Lemma adv_one st v k :
  adv st [v] [] [] k =
  {| s_stack := match s_stack st with f :: r => push_item v f :: r | [] => [] end;
     s_inopen := None; s_counter := s_counter st + k; s_heap := s_heap st |}.
Proof.
  unfold adv. rewrite reg_many_nil, app_nil_r. destruct (s_stack st) as [|f r]; reflexivity.
Qed.

Lemma recv_top s v : top_ok s = true -> recv s v = Some (match s with f :: r => push_item v f :: r | [] => [] end).
Proof. destruct s as [|f r]; cbn; [discriminate|]. destruct (f_kind f); try discriminate; reflexivity. Qed.

Definition atom_tok (t : obj) : bool := match t with OInt _ | OFloat _ | OBytes _ => true | _ => false end.

Lemma run_atom t n st : atom_tok t = true -> s_inopen st = None -> top_ok (s_stack st) = true ->
  run (slice n t) st = Some (adv st [val_of n t] [] [] 0).
Proof.
  intros A Hi Ht. rewrite adv_one. destruct t; try discriminate; cbn [slice run val_of]; unfold step; rewrite Hi;
    rewrite (recv_top _ _ Ht); rewrite Z.add_0_r; reflexivity.
Qed.

Lemma step_open st n : s_inopen st = None ->
  step st (TOpen n) = Some {| s_stack := s_stack st; s_inopen := Some (n, s_counter st, []); s_counter := s_counter st + 1; s_heap := s_heap st |}.
Proof. intros H. unfold step. rewrite H. reflexivity. Qed.

Definition newframe (k : kind) (hdr cnt : Z) : frame := {| f_kind := k; f_open := hdr; f_count := cnt; f_items := []; f_refs := [] |}.

Lemma step_index st hdr cnt idx bs k :
  s_inopen st = Some (hdr, cnt, idx) ->
  (forall top, open_kind top (idx ++ [bs]) = Some (Some k)) ->
  step st (TString bs) =
  Some {| s_stack := if kind_registers k then reg_many [cnt] (newframe k hdr cnt :: s_stack st) else newframe k hdr cnt :: s_stack st;
          s_inopen := None; s_counter := s_counter st; s_heap := s_heap st |}.
Proof. intros H O. unfold step. rewrite H, O. reflexivity. Qed.

Lemma step_index_more st hdr cnt idx bs :
  s_inopen st = Some (hdr, cnt, idx) ->
  (forall top, open_kind top (idx ++ [bs]) = Some None) ->
  step st (TString bs) = Some {| s_stack := s_stack st; s_inopen := Some (hdr, cnt, idx ++ [bs]); s_counter := s_counter st; s_heap := s_heap st |}.
Proof. intros H O. unfold step. rewrite H, O. reflexivity. Qed.

(* the opentype strings the slicers send select the matching unslicer (generated constants: by computation) *)
Lemma open_kind_leaf top :
  open_kind top ot_unicode = Some (Some KText) /\ open_kind top ot_boolean = Some (Some KBool) /\
  open_kind top ot_none = Some (Some KNone) /\ open_kind top ot_decimal = Some (Some KDecimal) /\
  open_kind top ot_reference = Some (Some KRef).
Proof. destruct top; vm_compute; repeat split; reflexivity. Qed.

Lemma open_kind_cont top c : shape_ok c [] = true -> (forall nm, c <> CCopy nm) -> open_kind top (opentype_of c) = Some (Some (KC c)).
Proof.
  intros S NC. destruct c as [| | | | |nm|nm]; try (destruct top; vm_compute; reflexivity).
  cbn [shape_ok] in S. unfold scoped_opentypes in S. cbn [existsb] in S.
  repeat (apply orb_true_iff in S; destruct S as [S|S]); try discriminate;
    apply list_eqb_eq in S; subst nm; destruct top; vm_compute; reflexivity.
Qed.

Lemma open_kind_copy1 top : open_kind top [ot_copyable_head] = Some None.
Proof. destruct top; vm_compute; reflexivity. Qed.
Lemma open_kind_copy2 top nm : open_kind top [ot_copyable_head; nm] = Some (Some (KC (CCopy nm))).
Proof. destruct top; vm_compute; reflexivity. Qed.

Lemma shape_ok_nil c xs : shape_ok c xs = true -> shape_ok c [] = true.
Proof. destruct c; cbn; auto. Qed.

Lemma tracked_registers c : tracked c = true -> registers c = true.
Proof. destruct c; vm_compute; intros H; try exact H; try reflexivity; discriminate. Qed.
Lemma registers_not_scope c : registers c = true -> is_scope c = false.
Proof. destruct c; cbn; auto; discriminate. Qed.

(* OPEN n followed by the opentype strings of container kind c: the new unslicer is on the stack, registered *)
Lemma run_open c xs st n : shape_ok c xs = true -> s_inopen st = None -> s_counter st = n ->
  run (TOpen n :: strs (opentype_of c)) st =
  Some {| s_stack := newframe (KC c) n n :: (if registers c then reg_many [n] (s_stack st) else s_stack st);
          s_inopen := None; s_counter := n + 1; s_heap := s_heap st |}.
Proof.
  intros S Hi Hc. cbn [run]. rewrite (step_open _ _ Hi), Hc.
  assert (R : forall s, (if kind_registers (KC c) then reg_many [n] (newframe (KC c) n n :: s) else newframe (KC c) n n :: s)
                        = newframe (KC c) n n :: (if registers c then reg_many [n] s else s)).
  { intros s. cbn [kind_registers]. destruct (registers c) eqn:R; [|reflexivity].
    cbn [reg_many map]. unfold reg1 at 1. unfold is_scope_frame. cbn [newframe f_kind]. rewrite (registers_not_scope _ R). reflexivity. }
  destruct c as [| | | | |nm|nm].
  1-5,7: (cbn [opentype_of]; match goal with |- context [strs ?o] => change (strs o) with [TString (hd [] o)] end;
          cbn [run]; erewrite step_index;
          [cbn [s_stack s_counter s_heap]; rewrite R; reflexivity | reflexivity |
           intros top; cbn [app hd]; apply (open_kind_cont top _ (shape_ok_nil _ _ S)); intros nm'; discriminate]).
  cbn [opentype_of strs map run].
  erewrite step_index_more; [|reflexivity|intros top; apply open_kind_copy1].
  erewrite step_index; [|reflexivity|intros top; apply open_kind_copy2].
  cbn [s_stack s_counter s_heap]. rewrite R. reflexivity.
Qed.

(* ------------------------------------------------------------------ boxed leaves: OPEN opentype body CLOSE *)
Definition boxed (t : obj) : bool := match t with OText _ | OBool _ | ONone | ODecimal _ => true | _ => false end.

Lemma bool_toks : (bool_true_tok =? 0) = false /\ (bool_false_tok =? 0) = true.
Proof. vm_compute. split; reflexivity. Qed.

Lemma run_boxed t n st : boxed t = true -> s_inopen st = None -> s_counter st = n -> top_ok (s_stack st) = true ->
  run (slice n t) st = Some (adv st [val_of n t] [] [] 1).
Proof.
  intros B Hi Hc Ht. rewrite adv_one. destruct (open_kind_leaf true) as (_ & _ & _ & _ & _).
  destruct t; try discriminate; cbn [slice val_of].
  - (* text *)
    change (strs ot_unicode) with [TString (hd [] ot_unicode)]. cbn [app run]. rewrite (step_open _ _ Hi).
    erewrite step_index; [|reflexivity|intros top; apply (open_kind_leaf top)].
    cbn. rewrite Z.eqb_refl. cbn. rewrite (recv_top _ _ Ht). rewrite Hc. reflexivity.
  - (* bool *)
    change (strs ot_boolean) with [TString (hd [] ot_boolean)]. cbn [app run]. rewrite (step_open _ _ Hi).
    erewrite step_index; [|reflexivity|intros top; apply (open_kind_leaf top)].
    cbn. rewrite Z.eqb_refl. cbn. rewrite (recv_top _ _ Ht). rewrite Hc. reflexivity.
  - (* none *)
    change (strs ot_none) with [TString (hd [] ot_none)]. cbn [app run]. rewrite (step_open _ _ Hi).
    erewrite step_index; [|reflexivity|intros top; apply (open_kind_leaf top)].
    cbn. rewrite Z.eqb_refl. cbn. rewrite (recv_top _ _ Ht). rewrite Hc. reflexivity.
  - (* decimal *)
    change (strs ot_decimal) with [TString (hd [] ot_decimal)]. cbn [app run]. rewrite (step_open _ _ Hi).
    erewrite step_index; [|reflexivity|intros top; apply (open_kind_leaf top)].
    cbn. rewrite Z.eqb_refl. cbn. rewrite (recv_top _ _ Ht). rewrite Hc. reflexivity.
Qed.

Lemma run_ref k n st : s_inopen st = None -> s_counter st = n -> top_ok (s_stack st) = true -> lookup k (s_stack st) = true ->
  run (slice n (ORef k)) st = Some (adv st [VPtr k] [] [] 1).
Proof.
  intros Hi Hc Ht Hl. rewrite adv_one. cbn [slice].
  change (strs ot_reference) with [TString (hd [] ot_reference)]. cbn [app run]. rewrite (step_open _ _ Hi).
  erewrite step_index; [|reflexivity|intros top; apply (open_kind_leaf top)].
  cbn. unfold lookup in Hl. rewrite Hl. cbn. rewrite Z.eqb_refl. cbn. rewrite (recv_top _ _ Ht). rewrite Hc. reflexivity.
Qed.
