(* C01, object layer: proofs about Obj.v.
   Main result `run_slice`: for every well-formed canonical term t (any nesting, back-references, cycles, nested
   scopes), the receiver machine started in any admissible state consumes exactly `slice n t` and ends in the state
   `adv st ..`: the value `val_of n t` handed to the unslicer on top, the heap extended by `heap_of n t`, the
   scope tables extended by `regs_of n t`, the counter advanced by `opens t`. *)
From Coq Require Import ZArith List String Bool Lia.
Import ListNotations.
Require Import Verif.lib.PyLite Verif.gen.BananaGen Verif.gen.SlicersGen Verif.lib.Token Verif.lib.TokenProofs Verif.lib.Obj.
Local Open Scope Z_scope.

(* ------------------------------------------------------------------ induction over nested terms *)
Definition is_cont (t : obj) : bool := match t with OCont _ _ => true | _ => false end.

Fixpoint obj_ind' (P : obj -> Prop)
         (Hleaf : forall t, is_cont t = false -> P t)
         (Hcont : forall c xs, Forall P xs -> P (OCont c xs)) (t : obj) {struct t} : P t :=
  match t as t0 return P t0 with
  | OCont c xs =>
    Hcont c xs ((fix go (l : list obj) : Forall P l :=
                   match l with
                   | [] => Forall_nil P
                   | x :: r => Forall_cons x (obj_ind' P Hleaf Hcont x) (go r)
                   end) xs)
  | OInt z => Hleaf (OInt z) eq_refl
  | OFloat b => Hleaf (OFloat b) eq_refl
  | OBytes b => Hleaf (OBytes b) eq_refl
  | OText u => Hleaf (OText u) eq_refl
  | OBool b => Hleaf (OBool b) eq_refl
  | ONone => Hleaf ONone eq_refl
  | ODecimal s => Hleaf (ODecimal s) eq_refl
  | ORef k => Hleaf (ORef k) eq_refl
  end.

(* ------------------------------------------------------------------ unfolding of the nested fixpoints *)
Lemma slice_cont n c xs : slice n (OCont c xs) = TOpen n :: strs (opentype_of c) ++ slice_list (n + 1) xs ++ [TClose n].
Proof. reflexivity. Qed.
Lemma opens_cont c xs : opens (OCont c xs) = 1 + opens_list xs.
Proof. reflexivity. Qed.
Lemma heap_of_cont n c xs :
  heap_of n (OCont c xs) = heap_list (n + 1) xs ++ [(n, {| n_kind := c; n_items := vals_list (n + 1) xs |})].
Proof. reflexivity. Qed.
Lemma regs_of_cont n c xs : regs_of n (OCont c xs) = (if registers c then [n] else []) ++ regs_list (n + 1) xs.
Proof. reflexivity. Qed.
Lemma wf_at_cont s sc vis imm n c xs :
  wf_gen s sc vis imm n (OCont c xs) =
  let imm' := if is_imm_c c then n :: imm else imm in
  if shape_ok c xs && negb (hazard_pos c false (vals_list (n + 1) xs) (fun k => mem k imm'))
     && negb (s && match c with CTuple | CFrozen => existsb (ref_into imm') xs | _ => false end) then
    let sc' := sc || is_scope c in
    let vis1 := if sc' && tracked c then n :: vis else vis in
    match wf_list_gen s sc' imm' vis1 (n + 1) xs with
    | Some v => Some (if is_scope c then vis else v)
    | None => None
    end
  else None.
Proof. reflexivity. Qed.
Lemma slice_list_cons n x r : slice_list n (x :: r) = slice n x ++ slice_list (n + opens x) r.
Proof. reflexivity. Qed.
Lemma wf_list_cons s sc imm v m x r :
  wf_list_gen s sc imm v m (x :: r) = match wf_gen s sc v imm m x with Some v' => wf_list_gen s sc imm v' (m + opens x) r | None => None end.
Proof. reflexivity. Qed.

(* ------------------------------------------------------------------ frames and states *)
Definition set_items (f : frame) (l : list value) : frame :=
  {| f_kind := f_kind f; f_open := f_open f; f_count := f_count f; f_items := l; f_refs := f_refs f |}.
Definition push_many (vs : list value) (s : list frame) : list frame :=
  match s with [] => [] | f :: r => set_items f (rev vs ++ f_items f) :: r end.

(* the state after a complete object (or several) has gone by *)
Definition adv (st : mstate) (vs : list value) (ids : list Z) (h : heap) (k : Z) : mstate :=
  {| s_stack := push_many vs (reg_many ids (s_stack st)); s_inopen := None; s_counter := s_counter st + k; s_heap := s_heap st ++ h |}.

Definition top_ok (s : list frame) : bool :=
  match s with f :: _ => match f_kind f with KRoot _ | KC _ => true | _ => false end | [] => false end.

Lemma reg1_nil f : reg1 [] f = f.
Proof. unfold reg1. destruct (is_scope_frame f); [|reflexivity]. destruct f; cbn. rewrite app_nil_r. reflexivity. Qed.
Lemma reg_many_nil s : reg_many [] s = s.
Proof. unfold reg_many. induction s as [|f r IH]; cbn; [reflexivity|]. rewrite reg1_nil, IH. reflexivity. Qed.
Lemma is_scope_reg1 a f : is_scope_frame (reg1 a f) = is_scope_frame f.
Proof. unfold reg1. destruct (is_scope_frame f) eqn:E; [|exact E]. unfold is_scope_frame in *. cbn. exact E. Qed.
Lemma reg1_app a b f : reg1 b (reg1 a f) = reg1 (a ++ b) f.
Proof.
  unfold reg1 at 1. rewrite is_scope_reg1. unfold reg1. destruct (is_scope_frame f); [|reflexivity].
  cbn. rewrite app_assoc. reflexivity.
Qed.
Lemma reg_many_app a b s : reg_many b (reg_many a s) = reg_many (a ++ b) s.
Proof. unfold reg_many. rewrite map_map. apply map_ext. intros f. apply reg1_app. Qed.
Lemma reg1_set_items a f l : reg1 a (set_items f l) = set_items (reg1 a f) l.
Proof. unfold reg1, set_items, is_scope_frame. cbn. destruct (match f_kind f with KRoot b => b | KC c => is_scope c | _ => false end); reflexivity. Qed.
Lemma kind_reg1 a f : f_kind (reg1 a f) = f_kind f.
Proof. unfold reg1. destruct (is_scope_frame f); reflexivity. Qed.
Lemma count_reg1 a f : f_count (reg1 a f) = f_count f.
Proof. unfold reg1. destruct (is_scope_frame f); reflexivity. Qed.
Lemma items_reg1 a f : f_items (reg1 a f) = f_items f.
Proof. unfold reg1. destruct (is_scope_frame f); reflexivity. Qed.
Lemma open_reg1 a f : f_open (reg1 a f) = f_open f.
Proof. unfold reg1. destruct (is_scope_frame f); reflexivity. Qed.

Lemma push_reg_comm vs ids s : reg_many ids (push_many vs s) = push_many vs (reg_many ids s).
Proof.
  destruct s as [|f r]; [reflexivity|]. cbn [push_many reg_many map]. rewrite reg1_set_items, items_reg1. reflexivity.
Qed.
Lemma push_many_app a b s : push_many b (push_many a s) = push_many (a ++ b) s.
Proof.
  destruct s as [|f r]; [reflexivity|]. cbn [push_many]. unfold set_items. cbn. rewrite rev_app_distr, app_assoc. reflexivity.
Qed.

Lemma adv_adv st a i h k b j g l : adv (adv st a i h k) b j g l = adv st (a ++ b) (i ++ j) (h ++ g) (k + l).
Proof.
  unfold adv. cbn [s_stack s_counter s_heap]. f_equal.
  - rewrite push_reg_comm, reg_many_app, push_many_app. reflexivity.
  - lia.
  - rewrite app_assoc. reflexivity.
Qed.

Lemma run_app a b st : run (a ++ b) st = match run a st with Some st' => run b st' | None => None end.
Proof. revert st. induction a as [|t a IH]; intros st; cbn [app run]; [reflexivity|]. destruct (step st t); [apply IH|reflexivity]. Qed.

(* --- what stays the same under adv *)
Lemma top_ok_adv st vs ids h k : top_ok (s_stack (adv st vs ids h k)) = top_ok (s_stack st).
Proof. unfold adv. cbn [s_stack]. destruct (s_stack st) as [|f r]; [reflexivity|]. cbn. rewrite kind_reg1. reflexivity. Qed.

Lemma has_scope_push vs s : has_scope (push_many vs s) = has_scope s.
Proof. destruct s as [|f r]; reflexivity. Qed.
Lemma has_scope_reg ids s : has_scope (reg_many ids s) = has_scope s.
Proof. unfold has_scope, reg_many. induction s as [|f r IH]; [reflexivity|]. cbn. rewrite is_scope_reg1, IH. reflexivity. Qed.

Lemma mem_app k a b : mem k (a ++ b) = mem k a || mem k b.
Proof. induction a as [|x a IH]; cbn; [reflexivity|]. rewrite IH, orb_assoc. reflexivity. Qed.

Lemma lookup_push k vs s : lookup k (push_many vs s) = lookup k s.
Proof. destruct s as [|f r]; reflexivity. Qed.
Lemma lookup_reg k ids s : lookup k (reg_many ids s) = lookup k s || (has_scope s && mem k ids).
Proof.
  unfold lookup, has_scope, reg_many. induction s as [|f r IH]; [reflexivity|]. cbn [map existsb].
  rewrite IH, is_scope_reg1. unfold reg1. destruct (is_scope_frame f) eqn:E; cbn [f_refs andb orb].
  - rewrite mem_app. destruct (mem k (f_refs f)), (mem k ids), (existsb _ r), (existsb is_scope_frame r); reflexivity.
  - reflexivity.
Qed.
Lemma open_imm_push vs s k : open_imm (push_many vs s) k = open_imm s k.
Proof. destruct s as [|f r]; reflexivity. Qed.
Lemma open_imm_reg ids s k : open_imm (reg_many ids s) k = open_imm s k.
Proof. unfold open_imm, reg_many. induction s as [|f r IH]; [reflexivity|]. cbn. rewrite kind_reg1, count_reg1, IH. reflexivity. Qed.

(* ------------------------------------------------------------------ admissible states *)
Record okst (sc : bool) (vis imm : list Z) (n : Z) (st : mstate) : Prop := {
  ok_in : s_inopen st = None;
  ok_cnt : s_counter st = n;
  ok_top : top_ok (s_stack st) = true;
  ok_sc : sc = true -> has_scope (s_stack st) = true;
  ok_vis : forall k, mem k vis = true -> lookup k (s_stack st) = true;
  ok_imm : forall k, open_imm (s_stack st) k = true -> mem k imm = true }.

Lemma okst_adv sc vis vis' imm n st vs ids h k :
  okst sc vis imm n st ->
  (forall j, mem j vis' = true -> mem j vis = true \/ (sc = true /\ mem j ids = true)) ->
  okst sc vis' imm (n + k) (adv st vs ids h k).
Proof.
  intros [Hi Hc Ht Hs Hv Hm] Hsub. split.
  - reflexivity.
  - unfold adv; cbn [s_counter]. lia.
  - rewrite top_ok_adv. exact Ht.
  - intros E. unfold adv; cbn [s_stack]. rewrite has_scope_push, has_scope_reg. auto.
  - intros j Hj. unfold adv; cbn [s_stack]. rewrite lookup_push, lookup_reg. destruct (Hsub j Hj) as [H|[H1 H2]].
    + rewrite (Hv j H). reflexivity.
    + rewrite (Hs H1), H2. apply orb_true_r.
  - intros j. unfold adv; cbn [s_stack]. rewrite open_imm_push, open_imm_reg. apply Hm.
Qed.

(* ------------------------------------------------------------------ single steps *)
Lemma adv_one st v k :
  adv st [v] [] [] k =
  {| s_stack := match s_stack st with f :: r => push_item v f :: r | [] => [] end;
     s_inopen := None; s_counter := s_counter st + k; s_heap := s_heap st |}.
Proof.
  unfold adv. rewrite reg_many_nil, app_nil_r. destruct (s_stack st) as [|f r]; reflexivity.
Qed.

Lemma recv_top s v : top_ok s = true -> recv s v = Some (match s with f :: r => push_item v f :: r | [] => [] end).
Proof. destruct s as [|f r]; cbn; [discriminate|]. destruct (f_kind f); try discriminate; reflexivity. Qed.

Definition atom_tok (t : obj) : bool := match t with OInt _ | OFloat _ | OBytes _ => true | _ => false end.

Lemma run_atom t n st : atom_tok t = true -> s_inopen st = None -> top_ok (s_stack st) = true ->
  run (slice n t) st = Some (adv st [val_of n t] [] [] 0).
Proof.
  intros A Hi Ht. rewrite adv_one. destruct t; try discriminate; cbn [slice run val_of]; unfold step; rewrite Hi;
    rewrite (recv_top _ _ Ht); rewrite Z.add_0_r; reflexivity.
Qed.

Lemma step_open st n : s_inopen st = None ->
  step st (TOpen n) = Some {| s_stack := s_stack st; s_inopen := Some (n, s_counter st, []); s_counter := s_counter st + 1; s_heap := s_heap st |}.
Proof. intros H. unfold step. rewrite H. reflexivity. Qed.

Definition newframe (k : kind) (hdr cnt : Z) : frame := {| f_kind := k; f_open := hdr; f_count := cnt; f_items := []; f_refs := [] |}.

Lemma step_index st hdr cnt idx bs k :
  s_inopen st = Some (hdr, cnt, idx) ->
  (forall top, open_kind top (idx ++ [bs]) = Some (Some k)) ->
  step st (TString bs) =
  Some {| s_stack := if kind_registers k then reg_many [cnt] (newframe k hdr cnt :: s_stack st) else newframe k hdr cnt :: s_stack st;
          s_inopen := None; s_counter := s_counter st; s_heap := s_heap st |}.
Proof. intros H O. unfold step. rewrite H, O. reflexivity. Qed.

Lemma step_index_more st hdr cnt idx bs :
  s_inopen st = Some (hdr, cnt, idx) ->
  (forall top, open_kind top (idx ++ [bs]) = Some None) ->
  step st (TString bs) = Some {| s_stack := s_stack st; s_inopen := Some (hdr, cnt, idx ++ [bs]); s_counter := s_counter st; s_heap := s_heap st |}.
Proof. intros H O. unfold step. rewrite H, O. reflexivity. Qed.

(* the opentype strings the slicers send select the matching unslicer (generated constants: by computation) *)
Lemma open_kind_leaf top :
  open_kind top ot_unicode = Some (Some KText) /\ open_kind top ot_boolean = Some (Some KBool) /\
  open_kind top ot_none = Some (Some KNone) /\ open_kind top ot_decimal = Some (Some KDecimal) /\
  open_kind top ot_reference = Some (Some KRef).
Proof. destruct top; vm_compute; repeat split; reflexivity. Qed.

Lemma open_kind_cont top c : shape_ok c [] = true -> (forall nm, c <> CCopy nm) -> open_kind top (opentype_of c) = Some (Some (KC c)).
Proof.
  intros S NC. destruct c as [| | | | |nm|nm]; try (destruct top; vm_compute; reflexivity).
  cbn [shape_ok] in S. unfold scoped_opentypes in S. cbn [existsb] in S.
  repeat (apply orb_true_iff in S; destruct S as [S|S]); try discriminate;
    apply list_eqb_eq in S; subst nm; destruct top; vm_compute; reflexivity.
Qed.

Lemma open_kind_copy1 top : open_kind top [ot_copyable_head] = Some None.
Proof. destruct top; vm_compute; reflexivity. Qed.
Lemma open_kind_copy2 top nm : open_kind top [ot_copyable_head; nm] = Some (Some (KC (CCopy nm))).
Proof. destruct top; vm_compute; reflexivity. Qed.

Lemma shape_ok_nil c xs : shape_ok c xs = true -> shape_ok c [] = true.
Proof. destruct c; cbn; auto. Qed.

Lemma tracked_registers c : tracked c = true -> registers c = true.
Proof. destruct c; vm_compute; intros H; try exact H; try reflexivity; discriminate. Qed.
Lemma registers_not_scope c : registers c = true -> is_scope c = false.
Proof. destruct c; cbn; auto; discriminate. Qed.

(* OPEN n followed by the opentype strings of container kind c: the new unslicer is on the stack, registered *)
Lemma run_open c xs st n : shape_ok c xs = true -> s_inopen st = None -> s_counter st = n ->
  run (TOpen n :: strs (opentype_of c)) st =
  Some {| s_stack := newframe (KC c) n n :: (if registers c then reg_many [n] (s_stack st) else s_stack st);
          s_inopen := None; s_counter := n + 1; s_heap := s_heap st |}.
Proof.
  intros S Hi Hc. cbn [run]. rewrite (step_open _ _ Hi), Hc.
  assert (R : forall s, (if kind_registers (KC c) then reg_many [n] (newframe (KC c) n n :: s) else newframe (KC c) n n :: s)
                        = newframe (KC c) n n :: (if registers c then reg_many [n] s else s)).
  { intros s. cbn [kind_registers]. destruct (registers c) eqn:R; [|reflexivity].
    cbn [reg_many map]. unfold reg1 at 1. unfold is_scope_frame. cbn [newframe f_kind]. rewrite (registers_not_scope _ R). reflexivity. }
  destruct c as [| | | | |nm|nm].
  1-5,7: (cbn [opentype_of]; match goal with |- context [strs ?o] => change (strs o) with [TString (hd [] o)] end;
          cbn [run]; erewrite step_index;
          [cbn [s_stack s_counter s_heap]; rewrite R; reflexivity | reflexivity |
           intros top; cbn [app hd]; apply (open_kind_cont top _ (shape_ok_nil _ _ S)); intros nm'; discriminate]).
  cbn [opentype_of strs map run].
  erewrite step_index_more; [|reflexivity|intros top; apply open_kind_copy1].
  erewrite step_index; [|reflexivity|intros top; apply open_kind_copy2].
  cbn [s_stack s_counter s_heap]. rewrite R. reflexivity.
Qed.

(* ------------------------------------------------------------------ boxed leaves: OPEN opentype body CLOSE *)
Definition boxed (t : obj) : bool := match t with OText _ | OBool _ | ONone | ODecimal _ => true | _ => false end.

Lemma bool_toks : (bool_true_tok =? 0) = false /\ (bool_false_tok =? 0) = true.
Proof. vm_compute. split; reflexivity. Qed.

Lemma run_boxed t n st : boxed t = true -> s_inopen st = None -> s_counter st = n -> top_ok (s_stack st) = true ->
  run (slice n t) st = Some (adv st [val_of n t] [] [] 1).
Proof.
  intros B Hi Hc Ht. rewrite adv_one. destruct (open_kind_leaf true) as (_ & _ & _ & _ & _).
  destruct t; try discriminate; cbn [slice val_of].
  - (* text *)
    change (strs ot_unicode) with [TString (hd [] ot_unicode)]. cbn [app run]. rewrite (step_open _ _ Hi).
    erewrite step_index; [|reflexivity|intros top; apply (open_kind_leaf top)].
    cbn. rewrite Z.eqb_refl. cbn. rewrite (recv_top _ _ Ht). rewrite Hc. reflexivity.
  - (* bool *)
    change (strs ot_boolean) with [TString (hd [] ot_boolean)]. cbn [app run]. rewrite (step_open _ _ Hi).
    erewrite step_index; [|reflexivity|intros top; apply (open_kind_leaf top)].
    cbn. rewrite Z.eqb_refl. cbn. rewrite (recv_top _ _ Ht). rewrite Hc. reflexivity.
  - (* none *)
    change (strs ot_none) with [TString (hd [] ot_none)]. cbn [app run]. rewrite (step_open _ _ Hi).
    erewrite step_index; [|reflexivity|intros top; apply (open_kind_leaf top)].
    cbn. rewrite Z.eqb_refl. cbn. rewrite (recv_top _ _ Ht). rewrite Hc. reflexivity.
  - (* decimal *)
    change (strs ot_decimal) with [TString (hd [] ot_decimal)]. cbn [app run]. rewrite (step_open _ _ Hi).
    erewrite step_index; [|reflexivity|intros top; apply (open_kind_leaf top)].
    cbn. rewrite Z.eqb_refl. cbn. rewrite (recv_top _ _ Ht). rewrite Hc. reflexivity.
Qed.

Lemma run_ref k n st : s_inopen st = None -> s_counter st = n -> top_ok (s_stack st) = true -> lookup k (s_stack st) = true ->
  run (slice n (ORef k)) st = Some (adv st [VPtr k] [] [] 1).
Proof.
  intros Hi Hc Ht Hl. rewrite adv_one. cbn [slice].
  change (strs ot_reference) with [TString (hd [] ot_reference)]. cbn [app run]. rewrite (step_open _ _ Hi).
  erewrite step_index; [|reflexivity|intros top; apply (open_kind_leaf top)].
  cbn. unfold lookup in Hl. rewrite Hl. cbn. rewrite Z.eqb_refl. cbn. rewrite (recv_top _ _ Ht). rewrite Hc. reflexivity.
Qed.

(* ------------------------------------------------------------------ the main induction *)
Definition PA (t : obj) : Prop :=
  forall s n sc vis imm vis' st, wf_gen s sc vis imm n t = Some vis' -> okst sc vis imm n st ->
    run (slice n t) st = Some (adv st [val_of n t] (regs_of n t) (heap_of n t) (opens t))
    /\ (forall k, mem k vis' = true -> mem k vis = true \/ (sc = true /\ mem k (regs_of n t) = true)).

Lemma adv_id st : s_inopen st = None -> adv st [] [] [] 0 = st.
Proof.
  intros H. destruct st as [s i c h]. cbn in H. subst i. unfold adv. cbn [s_stack s_counter s_heap].
  rewrite reg_many_nil, app_nil_r, Z.add_0_r. f_equal. destruct s as [|f r]; [reflexivity|]. destruct f; reflexivity.
Qed.

Lemma run_list xs : Forall PA xs -> forall s n sc vis imm vis' st,
  wf_list_gen s sc imm vis n xs = Some vis' -> okst sc vis imm n st ->
  run (slice_list n xs) st = Some (adv st (vals_list n xs) (regs_list n xs) (heap_list n xs) (opens_list xs))
  /\ (forall k, mem k vis' = true -> mem k vis = true \/ (sc = true /\ mem k (regs_list n xs) = true)).
Proof.
  induction 1 as [|x r Hx Hr IH]; intros s n sc vis imm vis' st W O.
  - cbn in W. inversion W; subst vis'. split; [|auto].
    cbn [slice_list run vals_list regs_list heap_list opens_list]. rewrite (adv_id _ (ok_in _ _ _ _ _ O)). reflexivity.
  - rewrite wf_list_cons in W. destruct (wf_gen s sc vis imm n x) as [v1|] eqn:W1; [|discriminate].
    destruct (Hx s n sc vis imm v1 st W1 O) as [R1 S1].
    assert (O2 : okst sc v1 imm (n + opens x) (adv st [val_of n x] (regs_of n x) (heap_of n x) (opens x))).
    { apply okst_adv with (vis := vis); [exact O|exact S1]. }
    destruct (IH s (n + opens x) sc v1 imm vis' _ W O2) as [R2 S2].
    split.
    + rewrite slice_list_cons, run_app, R1, R2, adv_adv. reflexivity.
    + intros k Hk. change (regs_list n (x :: r)) with (regs_of n x ++ regs_list (n + opens x) r). rewrite mem_app.
      destruct (S2 k Hk) as [H1|[H1 H2]].
      * destruct (S1 k H1) as [H3|[H3 H4]]; [left; exact H3|right; split; [exact H3|rewrite H4; reflexivity]].
      * right. split; [exact H1|rewrite H2; apply orb_true_r].
Qed.

Lemma hazard_mono c l (P1 P2 : Z -> bool) : (forall k, P1 k = true -> P2 k = true) ->
  forall o, hazard_pos c o l P2 = false -> hazard_pos c o l P1 = false.
Proof.
  intros M. induction l as [|v r IH]; intros o H; [reflexivity|]. cbn [hazard_pos] in *.
  apply orb_false_iff in H as [H1 H2]. rewrite (IH _ H2), orb_false_r.
  destruct c, o, v; try reflexivity; destruct (P1 k) eqn:E; try reflexivity; rewrite (M _ E) in H1; discriminate.
Qed.

Lemma even_len_vals xs : forall m, even_len (vals_list m xs) = even_len xs.
Proof.
  assert (G : forall k xs, (List.length xs <= k)%nat -> forall m, even_len (vals_list m xs) = even_len xs).
  { induction k as [|k IH]; intros l L m.
    - destruct l; [reflexivity|cbn in L; lia].
    - destruct l as [|a [|b l]]; [reflexivity|reflexivity|]. cbn [vals_list even_len]. apply IH. cbn in L. lia. }
  intros m. apply (G (List.length xs)). lia.
Qed.
Lemma even_bytes_vals xs : forall m, even_attr xs = true -> even_bytes (vals_list m xs) = true.
Proof.
  assert (G : forall k xs, (List.length xs <= k)%nat -> forall m, even_attr xs = true -> even_bytes (vals_list m xs) = true).
  { induction k as [|k IH]; intros l L m E.
    - destruct l; [reflexivity|cbn in L; lia].
    - destruct l as [|a [|b l]]; [reflexivity|destruct a; discriminate|].
      destruct a; try discriminate. cbn [vals_list even_bytes val_of is_bytes andb]. cbn [even_attr] in E. apply IH; [cbn in L; lia|exact E]. }
  intros m. apply (G (List.length xs)). lia.
Qed.

Lemma step_close f r cnt hp n c :
  f_kind f = KC c -> f_open f = n ->
  (match c with CDict => even_len (rev (f_items f)) | CCopy _ => even_bytes (rev (f_items f)) | _ => true end) = true ->
  frame_hazard f r = false -> top_ok r = true ->
  step {| s_stack := f :: r; s_inopen := None; s_counter := cnt; s_heap := hp |} (TClose n) =
  Some {| s_stack := match r with g :: q => push_item (VPtr (f_count f)) g :: q | [] => [] end;
          s_inopen := None; s_counter := cnt;
          s_heap := hp ++ [(f_count f, {| n_kind := c; n_items := rev (f_items f) |})] |}.
Proof.
  intros K Op Sh Hz Tp. unfold step. cbn [s_inopen s_stack s_counter s_heap]. rewrite Op, Z.eqb_refl, K, Hz.
  unfold seal. rewrite K. rewrite Sh. rewrite (recv_top _ _ Tp). reflexivity.
Qed.

Lemma mem_self n l : mem n (n :: l) = true.
Proof. cbn. rewrite Z.eqb_refl. reflexivity. Qed.

Lemma run_cont c xs : Forall PA xs -> PA (OCont c xs).
Proof.
  intros F s n sc vis imm vis' st W O.
  rewrite wf_at_cont in W. cbv zeta in W.
  set (imm' := if is_imm_c c then n :: imm else imm) in *.
  set (sc' := sc || is_scope c) in *.
  set (vis1 := if sc' && tracked c then n :: vis else vis) in *.
  destruct (shape_ok c xs && negb (hazard_pos c false (vals_list (n + 1) xs) (fun k => mem k imm'))
            && negb (s && match c with CTuple | CFrozen => existsb (ref_into imm') xs | _ => false end)) eqn:G; [|discriminate].
  apply andb_true_iff in G as [G _]. apply andb_true_iff in G as [S Hz]. apply negb_true_iff in Hz.
  destruct (wf_list_gen s sc' imm' vis1 (n + 1) xs) as [v|] eqn:WL; [|discriminate]. inversion W; subst vis'; clear W.
  destruct O as [Hi Hc Ht Hs Hv Hm].
  set (S' := if registers c then reg_many [n] (s_stack st) else s_stack st).
  set (st1 := {| s_stack := newframe (KC c) n n :: S'; s_inopen := None; s_counter := n + 1; s_heap := s_heap st |}).
  assert (HS' : S' = reg_many (if registers c then [n] else []) (s_stack st)).
  { unfold S'. destruct (registers c); [reflexivity|rewrite reg_many_nil; reflexivity]. }
  assert (Himm : forall k, open_imm (newframe (KC c) n n :: S') k = true -> mem k imm' = true).
  { intros k. unfold open_imm at 1. cbn [existsb newframe f_kind f_count is_imm]. fold (open_imm S' k).
    rewrite HS', open_imm_reg. unfold imm'. intros H. apply orb_true_iff in H as [H|H].
    - apply andb_true_iff in H as [H1 H2]. rewrite H1. apply Z.eqb_eq in H2. subst k. apply mem_self.
    - apply Hm in H. destruct (is_imm_c c); [cbn; rewrite H; apply orb_true_r|exact H]. }
  assert (O1 : okst sc' vis1 imm' (n + 1) st1).
  { split; try reflexivity.
    - intros E. unfold st1. cbn [s_stack]. unfold has_scope. cbn [existsb]. fold (has_scope S').
      rewrite HS', has_scope_reg. unfold is_scope_frame at 1. cbn [newframe f_kind]. unfold sc' in E.
      apply orb_true_iff in E as [E|E]; [rewrite (Hs E); apply orb_true_r|rewrite E; reflexivity].
    - intros k Hk. unfold st1. cbn [s_stack]. unfold lookup. cbn [existsb]. fold (lookup k S').
      rewrite HS', lookup_reg. unfold vis1 in Hk.
      destruct (sc' && tracked c) eqn:T.
      + apply andb_true_iff in T as [T1 T2]. pose proof (tracked_registers _ T2) as Rg. rewrite Rg.
        pose proof (registers_not_scope _ Rg) as NS. unfold sc' in T1. rewrite NS, orb_false_r in T1.
        cbn [mem] in Hk. apply orb_true_iff in Hk as [Hk|Hk].
        * rewrite (Hs T1). cbn [mem]. rewrite Hk. cbn. rewrite !orb_true_r. reflexivity.
        * rewrite (Hv _ Hk). cbn. apply orb_true_r.
      + rewrite (Hv _ Hk). cbn. apply orb_true_r.
    - exact Himm. }
  destruct (run_list xs F s (n + 1) sc' vis1 imm' v st1 WL O1) as [R Sub].
  split.
  - rewrite slice_cont.
    change (TOpen n :: strs (opentype_of c) ++ slice_list (n + 1) xs ++ [TClose n])
      with ((TOpen n :: strs (opentype_of c)) ++ slice_list (n + 1) xs ++ [TClose n]).
    rewrite run_app, (run_open c xs st n S Hi Hc). fold S'. fold st1. rewrite run_app, R. cbn [run].
    unfold adv at 1. unfold st1 at 1 2 3. cbn [s_stack s_counter s_heap].
    cbn [reg_many map push_many].
    destruct (s_stack st) as [|g q] eqn:Es; [discriminate|].
    assert (Tp : top_ok (map (reg1 (regs_list (n + 1) xs)) S') = true).
    { rewrite HS'. cbn [reg_many map top_ok]. rewrite !kind_reg1. exact Ht. }
    erewrite step_close with (c := c).
    + cbn [set_items f_count f_items]. rewrite count_reg1, items_reg1. cbn [newframe f_count f_items].
      rewrite app_nil_r, rev_involutive.
      rewrite regs_of_cont, heap_of_cont, opens_cont. unfold adv. cbn [s_stack s_counter s_heap]. rewrite Es.
      f_equal. f_equal.
      * fold (reg_many (regs_list (n + 1) xs) S'). rewrite HS', reg_many_app.
        cbn [reg_many map push_many]. unfold push_item, set_items. cbn [rev app]. reflexivity.
      * lia.
      * rewrite app_assoc. reflexivity.
    + cbn [set_items f_kind]. rewrite kind_reg1. reflexivity.
    + cbn [set_items f_open]. rewrite open_reg1. reflexivity.
    + cbn [set_items f_items]. rewrite items_reg1. cbn [newframe f_items]. rewrite app_nil_r, rev_involutive.
      destruct c; try reflexivity; cbn [shape_ok] in S.
      * rewrite even_len_vals. exact S.
      * apply even_bytes_vals. exact S.
    + unfold frame_hazard. cbn [set_items f_kind f_items]. rewrite kind_reg1, items_reg1. cbn [newframe f_kind f_items].
      rewrite app_nil_r, rev_involutive. apply hazard_mono with (P2 := fun k => mem k imm'); [|exact Hz].
      intros k Hk. apply Himm. revert Hk. unfold open_imm. cbn [existsb set_items f_kind f_count].
      rewrite kind_reg1, count_reg1. cbn [newframe f_kind f_count].
      fold (open_imm (map (reg1 (regs_list (n + 1) xs)) S') k). fold (reg_many (regs_list (n + 1) xs) S'). rewrite open_imm_reg.
      fold (open_imm S' k). auto.
    + exact Tp.
  - intros k Hk. rewrite regs_of_cont, mem_app. destruct (is_scope c) eqn:Sc; [left; exact Hk|].
    assert (Esc : sc' = sc) by (unfold sc'; try rewrite Sc; apply orb_false_r).
    destruct (Sub k Hk) as [H|[H1 H2]].
    + unfold vis1 in H. destruct (sc' && tracked c) eqn:T; [|left; exact H].
      apply andb_true_iff in T as [T1 T2]. cbn [mem] in H. apply orb_true_iff in H as [H|H]; [|left; exact H].
      right. rewrite <- Esc. split; [exact T1|]. rewrite (tracked_registers _ T2). cbn [mem]. rewrite H. reflexivity.
    + right. rewrite <- Esc. split; [exact H1|]. rewrite H2. apply orb_true_r.
Qed.

Theorem run_slice : forall t, PA t.
Proof.
  apply obj_ind'.
  - intros t L s n sc vis imm vis' st W O. destruct O as [Hi Hc Ht Hs Hv Hm].
    destruct t; try discriminate.
    1-3: (cbn in W; inversion W; subst vis'; split; [apply run_atom; auto|auto]).
    1-4: (cbn in W; inversion W; subst vis'; split; [apply run_boxed; auto|auto]).
    cbn [wf_gen] in W. destruct (sc && mem k vis) eqn:E; [|discriminate]. inversion W; subst vis'.
    apply andb_true_iff in E as [_ E]. split; [apply run_ref; auto|auto].
  - intros c xs F. apply run_cont. exact F.
Qed.

(* ------------------------------------------------------------------ whole messages *)
Lemma okst_init scoped n : okst scoped [] [] n (init scoped n).
Proof.
  split; try reflexivity.
  - intros E. subst scoped. reflexivity.
  - intros k H. discriminate.
  - intros k H. cbn in H. discriminate.
Qed.

Lemma unslice_of_run scoped n ts vs ids h k :
  run ts (init scoped n) = Some (adv (init scoped n) vs ids h k) -> unslice scoped n ts = Some (h, vs).
Proof.
  intros R. unfold unslice. rewrite R. unfold adv, init. cbn [s_stack s_inopen s_heap reg_many map push_many].
  cbn [set_items f_items]. rewrite items_reg1. cbn [root_frame f_items]. rewrite app_nil_r, rev_involutive. reflexivity.
Qed.

(* Stage 1+3 (one object): every well-formed term -- any nesting, bool vs int, bytes vs text, list vs tuple vs set vs
   frozenset, back-references, a container inside itself, nested scopes -- is rebuilt as exactly the graph it denotes *)
Theorem slice_unslice scoped n t : wf_obj scoped n t = true ->
  unslice scoped n (slice n t) = Some (heap_of n t, [val_of n t]).
Proof.
  unfold wf_obj. destruct (wf_at scoped [] [] n t) as [v|] eqn:W; [|discriminate]. intros _.
  destruct (run_slice t true n scoped [] [] v (init scoped n) W (okst_init scoped n)) as [R _].
  apply unslice_of_run with (ids := regs_of n t) (k := opens t). exact R.
Qed.

(* the same for the wide guard (wf_gen false: the strict guard without its last clause): tuples / frozensets that directly
   hold a reference to an immutable still being built -- cycles through nested tuples -- are handled by this machine too *)
Theorem slice_unslice_wide scoped n t : wf_obj_wide scoped n t = true ->
  unslice scoped n (slice n t) = Some (heap_of n t, [val_of n t]).
Proof.
  unfold wf_obj_wide, wf_wide. destruct (wf_gen false scoped [] [] n t) as [v|] eqn:W; [|discriminate]. intros _.
  destruct (run_slice t false n scoped [] [] v (init scoped n) W (okst_init scoped n)) as [R _].
  apply unslice_of_run with (ids := regs_of n t) (k := opens t). exact R.
Qed.

Theorem run_slice_wide t n sc vis imm vis' st : wf_wide sc vis imm n t = Some vis' -> okst sc vis imm n st ->
  run (slice n t) st = Some (adv st [val_of n t] (regs_of n t) (heap_of n t) (opens t)).
Proof. intros W O. exact (proj1 (run_slice t false n sc vis imm vis' st W O)). Qed.

Lemma Forall_PA xs : Forall PA xs.
Proof. apply Forall_forall. intros x _. apply run_slice. Qed.

(* several top-level objects in a row (successive calls / answers on a connection; several objects on one storage Banana) *)
Theorem slice_unslice_list scoped n ts v : wf_list scoped [] [] n ts = Some v ->
  unslice scoped n (slice_list n ts) = Some (heap_list n ts, vals_list n ts).
Proof.
  intros W. destruct (run_list ts (Forall_PA ts) true n scoped [] [] v (init scoped n) W (okst_init scoped n)) as [R _].
  apply unslice_of_run with (ids := regs_list n ts) (k := opens_list ts). exact R.
Qed.

Theorem slice_unslice_list_wide scoped n ts v : wf_list_wide scoped [] [] n ts = Some v ->
  unslice scoped n (slice_list n ts) = Some (heap_list n ts, vals_list n ts).
Proof.
  intros W. destruct (run_list ts (Forall_PA ts) false n scoped [] [] v (init scoped n) W (okst_init scoped n)) as [R _].
  apply unslice_of_run with (ids := regs_list n ts) (k := opens_list ts). exact R.
Qed.

(* Stage 2: composition with the byte layer (TokenProofs.stream_roundtrip) *)
Theorem bytes_roundtrip scoped n t bs : wf_obj scoped n t = true -> forallb wf_token (slice n t) = true ->
  encode_stream (slice n t) = Ok bs ->
  exists toks, decode bs = (toks, EndClean) /\ unslice scoped n toks = Some (heap_of n t, [val_of n t]).
Proof.
  intros W T E. exists (slice n t). split; [apply stream_roundtrip; assumption|apply slice_unslice; exact W].
Qed.

Theorem bytes_roundtrip_wide scoped n t bs : wf_obj_wide scoped n t = true -> forallb wf_token (slice n t) = true ->
  encode_stream (slice n t) = Ok bs ->
  exists toks, decode bs = (toks, EndClean) /\ unslice scoped n toks = Some (heap_of n t, [val_of n t]).
Proof.
  intros W T E. exists (slice n t). split; [apply stream_roundtrip; assumption|apply slice_unslice_wide; exact W].
Qed.

(* ------------------------------------------------------------------ Stage 4: scope isolation *)
(* all references of a term point at or above lo *)
Fixpoint refs_ge (lo : Z) (t : obj) : bool :=
  match t with
  | ORef k => lo <=? k
  | OCont _ xs => (fix go (l : list obj) : bool := match l with [] => true | x :: r => refs_ge lo x && go r end) xs
  | _ => true
  end.
Definition refs_ge_list (lo : Z) := fix go (l : list obj) : bool := match l with [] => true | x :: r => refs_ge lo x && go r end.

Definition all_ge (lo : Z) (l : list Z) : Prop := forall k, mem k l = true -> lo <= k.

Definition PR (t : obj) : Prop :=
  forall s lo sc vis imm n vis', wf_gen s sc vis imm n t = Some vis' -> all_ge lo vis -> lo <= n ->
    refs_ge lo t = true /\ all_ge lo vis'.

Lemma opens_nonneg : forall t, 0 <= opens t.
Proof.
  apply obj_ind'.
  - intros t L. destruct t; try discriminate; cbn; lia.
  - intros c xs F. rewrite opens_cont. assert (0 <= opens_list xs); [|lia].
    induction F as [|x r Hx _ IH]; cbn; lia.
Qed.

Lemma refs_list xs : Forall PR xs -> forall s lo sc vis imm n vis',
  wf_list_gen s sc imm vis n xs = Some vis' -> all_ge lo vis -> lo <= n -> refs_ge_list lo xs = true /\ all_ge lo vis'.
Proof.
  induction 1 as [|x r Hx _ IH]; intros s lo sc vis imm n vis' W A L.
  - cbn in W. inversion W; subst. split; [reflexivity|exact A].
  - rewrite wf_list_cons in W. destruct (wf_gen s sc vis imm n x) as [v1|] eqn:W1; [|discriminate].
    destruct (Hx s lo sc vis imm n v1 W1 A L) as [R1 A1].
    pose proof (opens_nonneg x).
    destruct (IH s lo sc v1 imm (n + opens x) vis' W A1 ltac:(lia)) as [R2 A2].
    split; [cbn [refs_ge_list]; rewrite R1; exact R2|exact A2].
Qed.

Theorem refs_in_range : forall t, PR t.
Proof.
  apply obj_ind'.
  - intros t L s lo sc vis imm n vis' W A Ln. destruct t; try discriminate; try (cbn in W; inversion W; subst; split; [reflexivity|exact A]).
    cbn [wf_gen] in W. destruct (sc && mem k vis) eqn:E; [|discriminate]. inversion W; subst.
    apply andb_true_iff in E as [_ E]. split; [cbn; apply Z.leb_le; apply A; exact E|exact A].
  - intros c xs F s lo sc vis imm n vis' W A Ln. rewrite wf_at_cont in W. cbv zeta in W.
    match type of W with (if ?b then _ else _) = _ => destruct b; [|discriminate] end.
    match type of W with match ?w with _ => _ end = _ => destruct w as [v|] eqn:WL; [|discriminate] end.
    inversion W; subst vis'; clear W.
    assert (A1 : all_ge lo (if (sc || is_scope c) && tracked c then n :: vis else vis)).
    { destruct ((sc || is_scope c) && tracked c); [|exact A]. intros k H. cbn [mem] in H.
      apply orb_true_iff in H as [H|H]; [apply Z.eqb_eq in H; lia|apply A; exact H]. }
    destruct (refs_list xs F s lo _ _ _ (n + 1) v WL A1 ltac:(lia)) as [R A2].
    split; [exact R|destruct (is_scope c); assumption].
Qed.

(* a scoped sequence that the sender can produce at OPEN number n when nothing is visible from outside
   (successive calls on a Broker: the root slicer keeps no table) refers only to objects opened inside itself *)
Theorem scope_refs_are_local s nm xs imm n vis' :
  wf_gen s false [] imm n (OCont (CScope nm) xs) = Some vis' -> refs_ge_list (n + 1) xs = true /\ vis' = [].
Proof.
  intros W. split.
  - rewrite wf_at_cont in W. cbv zeta in W.
    match type of W with (if ?b then _ else _) = _ => destruct b; [|discriminate] end.
    match type of W with match ?w with _ => _ end = _ => destruct w as [v|] eqn:WL; [|discriminate] end.
    cbn [is_scope tracked andb orb] in WL. try rewrite andb_false_r in WL.
    assert (FP : Forall PR xs) by (apply Forall_forall; intros x _; apply refs_in_range).
    destruct (refs_list xs FP s (n + 1) _ _ _ (n + 1) v WL) as [R _];
      [intros k H; discriminate|lia|exact R].
  - rewrite wf_at_cont in W. cbv zeta in W.
    match type of W with (if ?b then _ else _) = _ => destruct b; [|discriminate] end.
    match type of W with match ?w with _ => _ end = _ => destruct w; [|discriminate] end.
    cbn [is_scope] in W. inversion W. reflexivity.
Qed.

(* the receiver: once a call has been closed on a connection whose root keeps no table, no number resolves any more:
   a reference arriving in the next call to anything outside that call is a dangling reference, whatever the number *)
Theorem scope_isolation_receiver s nm1 xs1 nm2 n k v :
  wf_list_gen s false [] [] n [OCont (CScope nm1) xs1] = Some v ->
  shape_ok (CScope nm2) [] = true ->
  unslice false n (slice_list n [OCont (CScope nm1) xs1; OCont (CScope nm2) [ORef k]]) = None.
Proof.
  intros W S2.
  destruct (run_list _ (Forall_PA _) s n false [] [] v (init false n) W (okst_init false n)) as [R _].
  unfold unslice. rewrite slice_list_cons, run_app.
  change (slice_list n [OCont (CScope nm1) xs1]) with (slice n (OCont (CScope nm1) xs1) ++ []) in R. rewrite app_nil_r in R.
  rewrite R. cbn [slice_list]. rewrite app_nil_r, slice_cont.
  set (st := adv (init false n) _ _ _ _).
  change (TOpen (n + opens (OCont (CScope nm1) xs1)) :: strs (opentype_of (CScope nm2)) ++ slice_list (n + opens (OCont (CScope nm1) xs1) + 1) [ORef k] ++ [TClose (n + opens (OCont (CScope nm1) xs1))])
    with ((TOpen (n + opens (OCont (CScope nm1) xs1)) :: strs (opentype_of (CScope nm2))) ++ slice_list (n + opens (OCont (CScope nm1) xs1) + 1) [ORef k] ++ [TClose (n + opens (OCont (CScope nm1) xs1))]).
  rewrite run_app, (run_open (CScope nm2) [] st (n + opens (OCont (CScope nm1) xs1)) S2 eq_refl).
  2: { unfold st, adv. cbn [s_counter init vals_list opens_list]. lia. }
  cbn [registers slice_list slice app].
  change (strs ot_reference) with [TString (hd [] ot_reference)]. cbn [app run].
  rewrite step_open; [|reflexivity].
  erewrite step_index; [|reflexivity|intros top; apply (open_kind_leaf top)].
  cbn [kind_registers]. unfold step at 1. cbn [s_inopen s_stack recv newframe f_kind f_items].
  unfold st, adv, init. cbn [s_stack reg_many map push_many root_frame].
  unfold lookup. cbn [existsb]. unfold is_scope_frame at 1 2. cbn [newframe set_items f_kind f_refs is_scope mem andb orb].
  unfold is_scope_frame. cbn [set_items f_kind]. rewrite kind_reg1. cbn [f_kind]. reflexivity.
Qed.

(* ------------------------------------------------------------------ Stage 5: vocabulary transparency *)
Definition no_vocab (t : token) : bool := match t with TVocab _ => false | _ => true end.

Lemma vfind_in bs tbl i : vfind bs tbl = Some i -> In i (map snd tbl).
Proof.
  induction tbl as [|[s j] r IH]; cbn; [discriminate|]. destruct (list_eqb s bs); intros H.
  - inversion H. left. reflexivity.
  - right. apply IH. exact H.
Qed.

Lemma vfind_inv_vfind tbl : NoDup (map snd tbl) -> forall bs i, vfind bs tbl = Some i -> vfind_inv i tbl = Some bs.
Proof.
  induction tbl as [|[s j] r IH]; intros ND bs i H; cbn in *; [discriminate|].
  inversion ND as [|? ? Hn ND']; subst.
  destruct (list_eqb s bs) eqn:E.
  - inversion H; subst. rewrite Z.eqb_refl. apply list_eqb_eq in E. subst. reflexivity.
  - destruct (j =? i) eqn:J.
    + apply Z.eqb_eq in J. subst j. exfalso. apply Hn. eapply vfind_in. exact H.
    + apply IH; assumption.
Qed.

(* whatever table is in force (indices distinct), the receiver's expansion undoes the sender's abbreviation, for
   every token sequence (opentype strings, user byte strings, text bodies alike) *)
Theorem vocab_transparent tbl ts : NoDup (map snd tbl) -> forallb no_vocab ts = true ->
  devocab tbl (envocab tbl ts) = Some ts.
Proof.
  intros ND. induction ts as [|t r IH]; intros NV; [reflexivity|].
  cbn [forallb] in NV. apply andb_true_iff in NV as [N1 N2]. cbn [envocab map devocab]. fold (envocab tbl r). rewrite (IH N2).
  destruct t; try discriminate; cbn [envocab1 devocab1]; try reflexivity.
  destruct (vfind bs tbl) as [i|] eqn:F; cbn [devocab1]; [|reflexivity].
  rewrite (vfind_inv_vfind tbl ND bs i F). reflexivity.
Qed.

Lemma slice_no_vocab : forall t n, forallb no_vocab (slice n t) = true.
Proof.
  apply (obj_ind' (fun t => forall n, forallb no_vocab (slice n t) = true)).
  - intros t L n. destruct t; try discriminate; reflexivity.
  - intros c xs F n. rewrite slice_cont. cbn [forallb no_vocab andb]. rewrite forallb_app. apply andb_true_iff. split.
    + unfold strs. induction (opentype_of c); [reflexivity|cbn; assumption].
    + rewrite forallb_app. apply andb_true_iff. split; [|reflexivity].
      generalize (n + 1). induction F as [|x r Hx _ IH]; intros m; [reflexivity|].
      rewrite slice_list_cons, forallb_app, Hx, IH. reflexivity.
Qed.

(* the property's "whatever vocabulary table is in force": object -> tokens -> abbreviated -> expanded -> object *)
Theorem roundtrip_any_vocab scoped n t tbl : wf_obj scoped n t = true -> NoDup (map snd tbl) ->
  exists toks, devocab tbl (envocab tbl (slice n t)) = Some toks /\ unslice scoped n toks = Some (heap_of n t, [val_of n t]).
Proof.
  intros W ND. exists (slice n t). split; [apply vocab_transparent; [exact ND|apply slice_no_vocab]|apply slice_unslice; exact W].
Qed.

Theorem roundtrip_any_vocab_wide scoped n t tbl : wf_obj_wide scoped n t = true -> NoDup (map snd tbl) ->
  exists toks, devocab tbl (envocab tbl (slice n t)) = Some toks /\ unslice scoped n toks = Some (heap_of n t, [val_of n t]).
Proof.
  intros W ND. exists (slice n t). split; [apply vocab_transparent; [exact ND|apply slice_no_vocab]|apply slice_unslice_wide; exact W].
Qed.

(* the in-band table replacement is consumed by the receiver machine at top level and leaves no object behind *)
Lemma parse_table_tokens tbl : forallb word_ok (map fst tbl) = true ->
  forall acc n rest, parse_table (table_tokens tbl ++ TClose n :: rest) acc = Some (Some (acc ++ tbl), rest).
Proof.
  induction tbl as [|[s i] r IH]; intros WK acc n rest; cbn [table_tokens app parse_table].
  - rewrite app_nil_r. reflexivity.
  - cbn [map fst forallb] in WK. apply andb_true_iff in WK as [W1 W2]. rewrite W1, (IH W2), <- app_assoc. reflexivity.
Qed.

(* ------------------------------------------------------------------ the known-defective region, on the model *)
Definition nmA : list Z := [118;101;114;105;102;46;99;48;49;46;65].    (* "verif.c01.A" *)
(* c = C(); K = (c,); c.x = K *)
Definition witness_copy_attr : obj := OTuple [OCopy nmA [([120], ORef 0)]].
(* c = C(); K = (c,); c.d = {K: 1} *)
Definition witness_dict_key : obj := OTuple [OCopy nmA [([100], ODict [(ORef 0, OInt 1)])]].

(* both are terms a sender produces (all references resolve; shapes fine) ... *)
Definition sender_ok (t : obj) : bool :=
  match run (slice 0 t) (init true 0) with Some _ => true | None => false end.

Theorem refuted_copy_attr : unslice true 0 (slice 0 witness_copy_attr) = None /\ wf_obj true 0 witness_copy_attr = false.
Proof. vm_compute. split; reflexivity. Qed.
Theorem refuted_dict_key : unslice true 0 (slice 0 witness_dict_key) = None /\ wf_obj true 0 witness_dict_key = false.
Proof. vm_compute. split; reflexivity. Qed.

(* ------------------------------------------------------------------ non-vacuity *)
Example ex_self_list : wf_obj true 0 (OList [ORef 0]) = true /\ unslice true 0 (slice 0 (OList [ORef 0])) = Some ([(0, {| n_kind := CList; n_items := [VPtr 0] |})], [VPtr 0]).
Proof. vm_compute. split; reflexivity. Qed.
Example ex_tuple_twice_through_dict :
  wf_obj true 0 (ODict [(OInt 1, OTuple [OInt 1; OInt 2]); (OInt 2, ORef 1)]) = true.
Proof. vm_compute. reflexivity. Qed.
Example ex_cycle_through_tuple_and_list : wf_obj true 0 (OTuple [OList [ORef 0; OFrozen [OInt 1]]]) = true.
Proof. vm_compute. reflexivity. Qed.
Example ex_copy_in_cycle : wf_obj true 0 (OList [OCopy nmA [([120], ORef 0)]]) = true.
Proof. vm_compute. reflexivity. Qed.
Example ex_boundaries : forallb wf_token (slice 0 (OList [OInt (- 2 ^ 31); OInt (2 ^ 31); OInt (2 ^ 64); OInt (- 2 ^ 8192);
                                                        OFloat [127; 240; 0; 0; 0; 0; 0; 1]; OBool true; OInt 1; OText [240; 159; 152; 128]])) = true.
Proof. vm_compute. reflexivity. Qed.
Example ex_two_calls :
  let c1 := OCont (CScope [99; 97; 108; 108]) [OInt 1; OList [ORef 1]] in
  let c2 := OCont (CScope [99; 97; 108; 108]) [OInt 2; OList [ORef 4]] in
  wf_list false [] [] 0 [c1; c2] = Some [] /\
  unslice false 0 (slice_list 0 [c1; OCont (CScope [99; 97; 108; 108]) [OInt 2; OList [ORef 1]]]) = None.
Proof. vm_compute. split; reflexivity. Qed.
Example ex_vocab : NoDup (map snd [([108; 105; 115; 116], 0); ([97], 1)]).
Proof. repeat constructor; cbn; intuition discriminate. Qed.

(* ------------------------------------------------------------------ rejected messages: discarding keeps the numbering in step *)
Lemma ocd : open_counts_when_discarded = true.
Proof. reflexivity. Qed.

Lemma discard_strs l rest d cnt : 0 < d -> discard (strs l ++ rest) d cnt = discard rest d cnt.
Proof.
  intros D. induction l as [|a l IH]; [reflexivity|]. cbn [strs map app discard].
  destruct (d <=? 0) eqn:E; [apply Z.leb_le in E; lia|]. exact IH.
Qed.

Definition PD (t : obj) : Prop :=
  forall n d cnt rest, 0 < d -> discard (slice n t ++ rest) d cnt = discard rest d (cnt + opens t).

Lemma discard_list xs : Forall PD xs -> forall n d cnt rest, 0 < d ->
  discard (slice_list n xs ++ rest) d cnt = discard rest d (cnt + opens_list xs).
Proof.
  induction 1 as [|x r Hx _ IH]; intros n d cnt rest D.
  - cbn [slice_list app opens_list]. rewrite Z.add_0_r. reflexivity.
  - rewrite slice_list_cons, <- app_assoc, (Hx n d cnt _ D), (IH _ d _ rest D).
    change (opens_list (x :: r)) with (opens x + opens_list r). rewrite Z.add_assoc. reflexivity.
Qed.

Ltac dstep D := cbn [app discard]; match goal with |- context [?d <=? 0] =>
  let E := fresh in destruct (d <=? 0) eqn:E; [apply Z.leb_le in E; lia|clear E] end.

(* whatever object lies in the discarded part -- any nesting, references, scopes -- its OPENs are counted and nothing else
   changes: the discard depth is back where it was *)
Theorem discard_slice : forall t, PD t.
Proof.
  apply obj_ind'.
  - intros t L n d cnt rest D. destruct t; try discriminate; cbn [slice opens].
    1-3: (dstep D; rewrite Z.add_0_r; reflexivity).
    + (* text *) dstep D. rewrite ocd. rewrite <- app_assoc, discard_strs by lia. dstep D. try dstep D.
      replace (d + 1 - 1) with d by lia. reflexivity.
    + dstep D. rewrite ocd. rewrite <- app_assoc, discard_strs by lia. dstep D. try dstep D.
      replace (d + 1 - 1) with d by lia. reflexivity.
    + dstep D. rewrite ocd. rewrite <- app_assoc, discard_strs by lia. dstep D.
      replace (d + 1 - 1) with d by lia. reflexivity.
    + dstep D. rewrite ocd. rewrite <- app_assoc, discard_strs by lia. dstep D. try dstep D.
      replace (d + 1 - 1) with d by lia. reflexivity.
    + dstep D. rewrite ocd. rewrite <- app_assoc, discard_strs by lia. dstep D. try dstep D.
      replace (d + 1 - 1) with d by lia. reflexivity.
  - intros c xs F n d cnt rest D. rewrite slice_cont, opens_cont. dstep D. rewrite ocd.
    rewrite <- !app_assoc, discard_strs by lia. rewrite (discard_list xs F (n + 1) (d + 1) (cnt + 1) _ ltac:(lia)).
    dstep D. replace (d + 1 - 1) with d by lia. f_equal. lia.
Qed.

(* a receiver that rejects a container part-way (discardCount = 1) and drops the rest of its children up to its CLOSE ends
   with discardCount 0, the unread input untouched, and its object counter advanced by exactly the OPENs the sender
   spent on the dropped children: the two numberings stay in step, so the references of every later message resolve *)
Theorem discard_rest_of_rejected xs n k cnt rest :
  discard (slice_list n xs ++ TClose k :: rest) 1 cnt = (0, cnt + opens_list xs, rest).
Proof.
  assert (F : Forall PD xs) by (apply Forall_forall; intros x _; apply discard_slice).
  rewrite (discard_list xs F n 1 cnt _ ltac:(lia)). cbn [discard]. cbn. destruct rest; reflexivity.
Qed.

(* every token sequence: the counter moves by the number of OPENs among the tokens consumed, discarded or not *)
Lemma slice_count_opens : forall t n, count_opens (slice n t) = opens t.
Proof.
  assert (S : forall l r, count_opens (strs l ++ r) = count_opens r).
  { induction l as [|a l IH]; intros r; [reflexivity|exact (IH r)]. }
  assert (A : forall a b, count_opens (a ++ b) = count_opens a + count_opens b).
  { induction a as [|t a IH]; intros b; [reflexivity|]. cbn [app count_opens]. destruct t; rewrite ?IH; lia. }
  apply (obj_ind' (fun t => forall n, count_opens (slice n t) = opens t)).
  - intros t L n. destruct t; try discriminate; cbn [slice opens count_opens]; rewrite ?S; reflexivity.
  - intros c xs F n. rewrite slice_cont, opens_cont. cbn [count_opens]. rewrite S, A. cbn [count_opens]. f_equal.
    rewrite Z.add_0_r. revert n. generalize 1. induction F as [|x r Hx _ IH]; intros z n; [reflexivity|].
    rewrite slice_list_cons, A, Hx. change (opens_list (x :: r)) with (opens x + opens_list r). f_equal.
    replace (n + z + opens x) with (n + opens x + z) by lia. apply IH.
Qed.
