(* C10: proofs about lib/Utf8.v and lib/Failure.v *)
From Coq Require Import ZArith List String Bool Lia.
Import ListNotations.
Require Import Verif.lib.PyLite Verif.lib.Utf8 Verif.gen.FailureGen Verif.lib.Failure.
Local Open Scope Z_scope.

(* ------------------------------------------------------------------ UTF-8 *)
Lemma scalarb_range c : scalarb c = true -> 0 <= c < 1114112 /\ ~ (55296 <= c < 57344).
Proof.
  unfold scalarb. intros H. apply andb_true_iff in H as [H1 H3]. apply andb_true_iff in H1 as [H1 H2].
  apply Z.leb_le in H1. apply Z.ltb_lt in H2. split; [lia|].
  intros [A B]. apply negb_true_iff in H3. apply andb_false_iff in H3 as [H3|H3].
  - apply Z.leb_gt in H3. lia.
  - apply Z.ltb_ge in H3. lia.
Qed.

Lemma dec_ascii b l : 0 <= b < 128 -> dec [] 0 (b :: l) = b :: dec [] 0 l.
Proof. intros H. cbn [dec]. destruct (b <? 128) eqn:E; [reflexivity|]. apply Z.ltb_ge in E. lia. Qed.

Lemma dec_lead2 b l : 194 <= b < 224 -> dec [] 0 (b :: l) = dec [b] 1 l.
Proof.
  intros H. cbn [dec]. destruct (b <? 128) eqn:E; [apply Z.ltb_lt in E; lia|].
  replace ((194 <=? b) && (b <? 224)) with true; [reflexivity|].
  symmetry. apply andb_true_iff. split; [apply Z.leb_le|apply Z.ltb_lt]; lia.
Qed.

Lemma dec_lead3 b l : 224 <= b < 240 -> dec [] 0 (b :: l) = dec [b] 2 l.
Proof.
  intros H. cbn [dec]. destruct (b <? 128) eqn:E; [apply Z.ltb_lt in E; lia|].
  replace ((194 <=? b) && (b <? 224)) with false.
  2:{ symmetry. apply andb_false_iff. right. apply Z.ltb_ge. lia. }
  replace ((224 <=? b) && (b <? 240)) with true; [reflexivity|].
  symmetry. apply andb_true_iff. split; [apply Z.leb_le|apply Z.ltb_lt]; lia.
Qed.

Lemma dec_lead4 b l : 240 <= b < 245 -> dec [] 0 (b :: l) = dec [b] 3 l.
Proof.
  intros H. cbn [dec]. destruct (b <? 128) eqn:E; [apply Z.ltb_lt in E; lia|].
  replace ((194 <=? b) && (b <? 224)) with false.
  2:{ symmetry. apply andb_false_iff. right. apply Z.ltb_ge. lia. }
  replace ((224 <=? b) && (b <? 240)) with false.
  2:{ symmetry. apply andb_false_iff. right. apply Z.ltb_ge. lia. }
  replace ((240 <=? b) && (b <? 245)) with true; [reflexivity|].
  symmetry. apply andb_true_iff. split; [apply Z.leb_le|apply Z.ltb_lt]; lia.
Qed.

Lemma is_cont_true b : 128 <= b < 192 -> is_cont b = true.
Proof. intros H. unfold is_cont. apply andb_true_iff. split; [apply Z.leb_le|apply Z.ltb_lt]; lia. Qed.

Lemma dec_cont_last p b l : 128 <= b < 192 -> dec p 1 (b :: l) = (p ++ [b]) ++ dec [] 0 l.
Proof. intros H. cbn [dec]. rewrite is_cont_true by exact H. reflexivity. Qed.

Lemma dec_cont_more p n b l : 128 <= b < 192 -> dec p (S (S n)) (b :: l) = dec (p ++ [b]) (S n) l.
Proof. intros H. cbn [dec]. rewrite is_cont_true by exact H. reflexivity. Qed.

Lemma dec_nil p n : dec p n [] = [].
Proof. destruct n; reflexivity. Qed.

Ltac divmod_bounds c :=
  pose proof (Z.mod_pos_bound c 64 ltac:(lia));
  pose proof (Z.mod_pos_bound (c / 64) 64 ltac:(lia));
  pose proof (Z.mod_pos_bound (c / 4096) 64 ltac:(lia)).

Lemma enc1_cases c : scalarb c = true ->
  (0 <= c < 128 /\ enc1 c = [c]) \/
  (exists a b, enc1 c = [a; b] /\ 194 <= a < 224 /\ 128 <= b < 192) \/
  (exists a b d, enc1 c = [a; b; d] /\ 224 <= a < 240 /\ 128 <= b < 192 /\ 128 <= d < 192) \/
  (exists a b d e, enc1 c = [a; b; d; e] /\ 240 <= a < 245 /\ 128 <= b < 192 /\ 128 <= d < 192 /\ 128 <= e < 192).
Proof.
  intros H. apply scalarb_range in H as [R _]. unfold enc1. divmod_bounds c.
  destruct (c <? 128) eqn:E1.
  { apply Z.ltb_lt in E1. left. split; [lia|reflexivity]. }
  apply Z.ltb_ge in E1. right.
  destruct (c <? 2048) eqn:E2.
  { apply Z.ltb_lt in E2. left. eexists _, _. split; [reflexivity|].
    assert (2 <= c / 64 < 32) by (split; [apply Z.div_le_lower_bound; lia | apply Z.div_lt_upper_bound; lia]). lia. }
  apply Z.ltb_ge in E2. right.
  destruct (c <? 65536) eqn:E3.
  { apply Z.ltb_lt in E3. left. eexists _, _, _. split; [reflexivity|].
    assert (0 <= c / 4096 < 16) by (split; [apply Z.div_le_lower_bound; lia | apply Z.div_lt_upper_bound; lia]). lia. }
  apply Z.ltb_ge in E3. right. eexists _, _, _, _. split; [reflexivity|].
  assert (0 <= c / 262144 < 5) by (split; [apply Z.div_le_lower_bound; lia | apply Z.div_lt_upper_bound; lia]). lia.
Qed.

(* a complete well-formed character is kept *)
Lemma dec_char c x : scalarb c = true -> dec [] 0 (enc1 c ++ x) = enc1 c ++ dec [] 0 x.
Proof.
  intros H. destruct (enc1_cases c H) as [[R E]|[(a&b&E&Ra&Rb)|[(a&b&d&E&Ra&Rb&Rd)|(a&b&d&e&E&Ra&Rb&Rd&Re)]]]; rewrite E; cbn [app].
  - apply dec_ascii. exact R.
  - rewrite dec_lead2 by exact Ra. rewrite dec_cont_last by exact Rb. reflexivity.
  - rewrite dec_lead3 by exact Ra. rewrite dec_cont_more by exact Rb. rewrite dec_cont_last by exact Rd. reflexivity.
  - rewrite dec_lead4 by exact Ra. rewrite dec_cont_more by exact Rb. rewrite dec_cont_more by exact Rd.
    rewrite dec_cont_last by exact Re. reflexivity.
Qed.

(* a character cut anywhere inside its encoding is dropped *)
Lemma dec_cut c k : scalarb c = true -> (k < List.length (enc1 c))%nat -> dec [] 0 (firstn k (enc1 c)) = [].
Proof.
  intros H K. destruct (enc1_cases c H) as [[R E]|[(a&b&E&Ra&Rb)|[(a&b&d&E&Ra&Rb&Rd)|(a&b&d&e&E&Ra&Rb&Rd&Re)]]];
    rewrite E in *; cbn [List.length] in K.
  - destruct k; [reflexivity|lia].
  - destruct k as [|[|k]]; cbn [firstn]; [reflexivity| |lia].
    rewrite dec_lead2 by exact Ra. apply dec_nil.
  - destruct k as [|[|[|k]]]; cbn [firstn]; [reflexivity| | |lia].
    + rewrite dec_lead3 by exact Ra. apply dec_nil.
    + rewrite dec_lead3 by exact Ra. rewrite dec_cont_more by exact Rb. apply dec_nil.
  - destruct k as [|[|[|[|k]]]]; cbn [firstn]; [reflexivity| | | |lia].
    + rewrite dec_lead4 by exact Ra. apply dec_nil.
    + rewrite dec_lead4 by exact Ra. rewrite dec_cont_more by exact Rb. apply dec_nil.
    + rewrite dec_lead4 by exact Ra. rewrite dec_cont_more by exact Rb. rewrite dec_cont_more by exact Rd. apply dec_nil.
Qed.

Lemma forallb_cons {A} (f : A -> bool) x l : forallb f (x :: l) = true -> f x = true /\ forallb f l = true.
Proof. cbn [forallb]. intros H. apply andb_true_iff in H. exact H. Qed.

(* decode("utf-8","ignore") of the first n bytes of a well-formed encoding = the whole characters that fit in n bytes *)
Theorem decode_prefix cps : forallb scalarb cps = true ->
  forall n, utf8_decode_ignore (firstn n (utf8 cps)) = utf8 (take_fit n cps).
Proof.
  unfold utf8_decode_ignore, utf8. induction cps as [|c r IH]; intros V n.
  - cbn. rewrite firstn_nil. reflexivity.
  - apply forallb_cons in V as [Vc Vr]. cbn [flat_map take_fit].
    rewrite firstn_app.
    destruct (Nat.leb_spec (List.length (enc1 c)) n) as [L|L].
    + rewrite firstn_all2 by lia. rewrite dec_char by exact Vc. cbn [flat_map]. rewrite IH by exact Vr. reflexivity.
    + replace (n - List.length (enc1 c))%nat with 0%nat by lia. cbn [firstn]. rewrite app_nil_r.
      cbn [flat_map]. apply dec_cut; [exact Vc|lia].
Qed.

Lemma dec_length p n l : (List.length (dec p n l) <= List.length p + List.length l)%nat.
Proof.
  revert p n. induction l as [|b l IH]; intros p n; [rewrite dec_nil; cbn; lia|].
  cbn [dec]. destruct n as [|n].
  - destruct (b <? 128).
    { cbn [List.length]. specialize (IH [] 0%nat). cbn [List.length] in IH. lia. }
    destruct ((194 <=? b) && (b <? 224)); [specialize (IH [b] 1%nat); cbn [List.length] in *; lia|].
    destruct ((224 <=? b) && (b <? 240)); [specialize (IH [b] 2%nat); cbn [List.length] in *; lia|].
    destruct ((240 <=? b) && (b <? 245)); [specialize (IH [b] 3%nat); cbn [List.length] in *; lia|].
    specialize (IH [] 0%nat); cbn [List.length] in *; lia.
  - destruct (is_cont b).
    + destruct n as [|n].
      * rewrite !app_length. cbn [List.length]. specialize (IH [] 0%nat). cbn [List.length] in IH. lia.
      * specialize (IH (p ++ [b]) (S n)). rewrite app_length in IH. cbn [List.length] in *. lia.
    + specialize (IH [] 0%nat). cbn [List.length] in *. lia.
Qed.

Lemma take_fit_prefix n cps : exists rest, cps = take_fit n cps ++ rest.
Proof.
  revert n. induction cps as [|c r IH]; intros n; [exists []; reflexivity|].
  cbn [take_fit]. destruct (List.length (enc1 c) <=? n)%nat.
  - destruct (IH (n - List.length (enc1 c))%nat) as [rest E]. exists rest. cbn [app]. f_equal. exact E.
  - exists (c :: r). reflexivity.
Qed.

Lemma forallb_app_l {A} (f : A -> bool) a b : forallb f (a ++ b) = true -> forallb f a = true.
Proof. rewrite forallb_app. intros H. apply andb_true_iff in H. tauto. Qed.

Lemma utf8_app a b : utf8 (a ++ b) = utf8 a ++ utf8 b.
Proof. unfold utf8. apply flat_map_app. Qed.

(* ------------------------------------------------------------------ truncate (the translated function) *)
Definition fits (lim : Z) (b : list Z) : Prop := blen b <= lim.

Lemma py_slice_prefix (s : list Z) k : 0 <= k -> py_slice s None (Some k) = firstn (Z.to_nat k) s.
Proof.
  intros K. unfold py_slice, norm_idx.
  destruct (k <? 0) eqn:E; [apply Z.ltb_lt in E; lia|].
  rewrite Z.sub_0_r. cbn [skipn Z.to_nat].
  destruct (Z.le_ge_cases (Z.of_nat (List.length s)) k) as [L|L].
  - rewrite Z.min_l by lia. rewrite Z.max_r by lia. rewrite Nat2Z.id.
    rewrite firstn_all. symmetry. apply firstn_all2. lia.
  - rewrite Z.min_r by lia. rewrite Z.max_r by lia. reflexivity.
Qed.

(* truncate never raises when limit > 3, and its result obeys the limit, for EVERY byte string *)
Theorem truncate_fits s lim : 3 < lim -> exists r, truncate s lim = Ok r /\ blen r <= lim.
Proof.
  intros L. unfold truncate. cbv zeta. destruct (lim >? 3) eqn:E; [|rewrite Z.gtb_ltb in E; apply Z.ltb_ge in E; lia].
  destruct (negb (list_is_nil s) && (Z.of_nat (List.length s) >? lim)) eqn:C.
  - eexists. split; [reflexivity|]. unfold blen. rewrite app_length. cbn [List.length].
    rewrite py_slice_prefix by lia. unfold utf8_decode_ignore.
    pose proof (dec_length [] 0 (firstn (Z.to_nat (lim - 3)) s)) as D. cbn [List.length] in D.
    pose proof (firstn_le_length (Z.to_nat (lim - 3)) s). rewrite firstn_length in D. lia.
  - eexists. split; [reflexivity|]. unfold blen. apply andb_false_iff in C as [C|C].
    + destruct s; [cbn; lia|discriminate].
    + rewrite Z.gtb_ltb in C. apply Z.ltb_ge in C. exact C.
Qed.

(* on the encoding of well-formed text: either unchanged, or a prefix of whole characters followed by ".." *)
Theorem truncate_text cps lim : 3 < lim -> forallb scalarb cps = true ->
  (blen (utf8 cps) <= lim /\ truncate (utf8 cps) lim = Ok (utf8 cps)) \/
  (lim < blen (utf8 cps) /\ exists p rest, cps = p ++ rest /\ rest <> [] /\
     truncate (utf8 cps) lim = Ok (utf8 (p ++ dots)) /\ p = take_fit (Z.to_nat (lim - 3)) cps).
Proof.
  intros L V. unfold truncate. cbv zeta. destruct (lim >? 3) eqn:E; [|rewrite Z.gtb_ltb in E; apply Z.ltb_ge in E; lia].
  destruct (negb (list_is_nil (utf8 cps)) && (Z.of_nat (List.length (utf8 cps)) >? lim)) eqn:C.
  - right. apply andb_true_iff in C as [_ C]. rewrite Z.gtb_ltb in C. apply Z.ltb_lt in C.
    split; [exact C|]. rewrite py_slice_prefix by lia. rewrite decode_prefix by exact V.
    destruct (take_fit_prefix (Z.to_nat (lim - 3)) cps) as [rest R].
    exists (take_fit (Z.to_nat (lim - 3)) cps), rest. split; [exact R|]. split.
    + intros ->. rewrite app_nil_r in R.
      assert (X : utf8_decode_ignore (firstn (Z.to_nat (lim - 3)) (utf8 cps)) = utf8 cps).
      { rewrite decode_prefix by exact V. rewrite <- R. reflexivity. }
      pose proof (dec_length [] 0 (firstn (Z.to_nat (lim - 3)) (utf8 cps))) as D. cbn [List.length] in D.
      unfold utf8_decode_ignore in X. rewrite X in D. rewrite firstn_length in D. lia.
    + split; [|reflexivity]. rewrite utf8_app. reflexivity.
  - left. apply andb_false_iff in C as [C|C].
    + destruct (utf8 cps) eqn:U; [|discriminate]. split; [cbn; lia|reflexivity].
    + rewrite Z.gtb_ltb in C. apply Z.ltb_ge in C. split; [exact C|reflexivity].
Qed.

(* ------------------------------------------------------------------ backslashreplace *)
Lemma scalarb_ascii c : 0 <= c < 128 -> scalarb c = true.
Proof.
  intros H. unfold scalarb. apply andb_true_iff. split; [apply andb_true_iff; split; [apply Z.leb_le|apply Z.ltb_lt]; lia|].
  apply negb_true_iff. apply andb_false_iff. left. apply Z.leb_gt. lia.
Qed.

Lemma hexdigit_ascii d : 0 <= d < 16 -> 0 <= hexdigit d < 128.
Proof. intros H. unfold hexdigit. destruct (d <? 10); lia. Qed.

Definition wf_text (t : text) : Prop := forallb scalarb t = true.

Lemma esc1_wf c : wf_text (esc1 c).
Proof.
  unfold esc1, wf_text. destruct (scalarb c) eqn:E; cbn [forallb]; [rewrite E; reflexivity|].
  rewrite !scalarb_ascii; try reflexivity; try lia; apply hexdigit_ascii; apply Z.mod_pos_bound; lia.
Qed.

(* whatever the text, its escaped form is well-formed: encoding with backslashreplace cannot fail *)
Lemma escape_wf t : wf_text (escape t).
Proof.
  unfold escape, wf_text. induction t as [|c t IH]; [reflexivity|].
  change (flat_map esc1 (c :: t)) with (esc1 c ++ flat_map esc1 t). rewrite forallb_app, IH.
  pose proof (esc1_wf c) as W. unfold wf_text in W. rewrite W. reflexivity.
Qed.

(* and ordinary text is not changed by it *)
Lemma escape_id t : wf_text t -> escape t = t.
Proof.
  unfold escape, wf_text. induction t as [|c t IH]; intros H; [reflexivity|]. apply forallb_cons in H as [H1 H2].
  change (flat_map esc1 (c :: t)) with (esc1 c ++ flat_map esc1 t). rewrite IH by exact H2.
  unfold esc1. rewrite H1. reflexivity.
Qed.

(* ------------------------------------------------------------------ getStateToCopy *)
(* what one transmitted field is, relative to the original text *)
Definition field_of (orig : text) (lim : Z) (b : list Z) : Prop :=
  (b = utf8 orig /\ blen (utf8 orig) <= lim) \/
  (lim < blen (utf8 orig) /\ exists p rest, orig = p ++ rest /\ rest <> [] /\ b = utf8 (p ++ dots)).

Lemma trunc_wf t lim : 3 < lim -> wf_text t ->
  exists b, truncate (utf8 t) lim = Ok b /\ blen b <= lim /\ field_of t lim b.
Proof.
  intros L V.
  destruct (truncate_fits (utf8 t) lim L) as (r & R & F).
  exists r. split; [exact R|]. split; [exact F|].
  destruct (truncate_text t lim L V) as [[A B]|(A & p & rest & E & NE & B & _)]; rewrite B in R; inversion R; subst r.
  - left. split; [reflexivity|exact A].
  - right. split; [exact A|]. exists p, rest. repeat split; assumption.
Qed.

(* with the error handler the source uses, EVERY text gets through: the field is (a truncation of) its escaped form *)
Lemma trunc_field_spec t lim : 3 < lim ->
  exists b, trunc_field t lim = Ok b /\ blen b <= lim /\ field_of (escape t) lim b.
Proof.
  intros L. unfold trunc_field, encode_text, text_encode_errors. apply trunc_wf; [exact L|apply escape_wf].
Qed.

Lemma forallb_firstn {A} (f : A -> bool) n l : forallb f l = true -> forallb f (firstn n l) = true.
Proof.
  revert n. induction l as [|x l IH]; intros n H; [rewrite firstn_nil; reflexivity|].
  destruct n; [reflexivity|]. cbn [firstn forallb] in *. apply andb_true_iff in H as [H1 H2].
  rewrite H1. cbn. apply IH. exact H2.
Qed.

Lemma bytestring_ok_of_le lim b : blen b <= lim -> bytestring_ok lim b = true.
Proof.
  intros H. unfold bytestring_ok, token_size_rejects, bytestring_object_rejects, rejects.
  rewrite Z.gtb_ltb. destruct (lim <? blen b) eqn:E; [apply Z.ltb_lt in E; lia|reflexivity].
Qed.

Lemma map_res_spec (ps : list text) lim : 3 < lim ->
  exists bs, map_res (fun p => trunc_field p lim) ps = Ok bs /\
             Forall2 (fun p b => blen b <= lim /\ field_of (escape p) lim b) ps bs.
Proof.
  intros L. induction ps as [|p ps IH]; [exists []; split; [reflexivity|constructor]|].
  destruct IH as (bs & E & F). destruct (trunc_field_spec p lim L) as (b & Eb & Fb).
  exists (b :: bs). cbn [map_res]. rewrite Eb, E. split; [reflexivity|]. constructor; assumption.
Qed.

Lemma parents_ok (l : list text) ps :
  Forall2 (fun (p : text) (b : list Z) => blen b <= trunc_limit_parents /\ field_of (escape p) trunc_limit_parents b) l ps ->
  forallb (bytestring_ok fc_limit_parents) ps = true.
Proof.
  induction 1 as [|p b l l' [Lb _] _ IH]; [reflexivity|].
  cbn [forallb]. rewrite IH. rewrite bytestring_ok_of_le; [reflexivity|].
  unfold fc_limit_parents; unfold trunc_limit_parents in Lb; lia.
Qed.

Lemma parents_fields (l : list text) ps :
  Forall2 (fun (p : text) (b : list Z) => blen b <= trunc_limit_parents /\ field_of (escape p) trunc_limit_parents b) l ps ->
  Forall2 (fun p b => field_of (escape p) trunc_limit_parents b) l ps.
Proof. induction 1 as [|p b l l' [_ Fb] _ IH]; constructor; assumption. Qed.

(* the text that becomes state['value']: with reflect.safe_str there always is one *)
Definition rendered (e : exc) : text := match e_str e with Ok v => v | Exc _ => e_fallback e end.

Lemma render_total e : render e = Ok (rendered e).
Proof. reflexivity. Qed.

Lemma render_safe_total e : render_safe e = Ok (rendered e).
Proof. reflexivity. Qed.

(* the translated getStateToCopy, whatever the order of its statements: once the four truncations are known to succeed the
   whole function reduces to the record of their results *)
(* (the occurrence in the goal is found by its limit and replaced through an equation that is checked up to conversion:
   `text` / `list Z` annotations of the generated term may differ from the specification's) *)
Ltac step_tf E :=
  match type of E with
  | trunc_field _ ?l = ?r =>
    match goal with
    | |- context [trunc_field ?x l] => let H := fresh "Hs" in assert (H : trunc_field x l = r) by exact E; rewrite H; clear H
    end
  end.

(* HT : e_type e = Ok ty, HP : e_parents e = Ok ps -- reflect.qual returned for the class and for every ancestor *)
Ltac run_get_state HT HP E1 E2 E3 E4 :=
  unfold get_state, get_state_src; cbv zeta; rewrite ?render_safe_total, ?HT, ?HP; cbn [sbind];
  repeat (first [step_tf E1 | step_tf E2 | step_tf E3 | rewrite E4 | rewrite HP | rewrite HT]; cbn [sbind]).

Lemma nameable_inv e : nameable e = true -> exists ty pa, e_type e = Ok ty /\ e_parents e = Ok pa.
Proof. unfold nameable. destruct (e_type e) as [ty|]; [|discriminate]. destruct (e_parents e) as [pa|]; [|discriminate]. eauto. Qed.

Lemma nameable_intro e ty pa : e_type e = Ok ty -> e_parents e = Ok pa -> nameable e = true.
Proof. unfold nameable. intros -> ->. reflexivity. Qed.

(* whatever the order of its statements: getStateToCopy returns only if it could name the class and every ancestor *)
Lemma get_state_ok_nameable unsafe e s : get_state unsafe e = Ok s -> nameable e = true.
Proof.
  unfold nameable. destruct (e_type e) as [ty|t] eqn:HT; [destruct (e_parents e) as [pa|t] eqn:HP; [reflexivity|]|];
    unfold get_state, get_state_src; cbv zeta; rewrite ?render_safe_total, ?HT, ?HP; cbn [sbind]; intros G; exfalso;
    repeat match type of G with
           | sbind (e_parents e) _ = Ok _ => rewrite HP in G; cbn [sbind] in G
           | sbind (e_type e) _ = Ok _ => rewrite HT in G; cbn [sbind] in G
           | sbind ?r _ = Ok _ => destruct r; cbn [sbind] in G
           end; discriminate G.
Qed.

(* the region C10_failure_fits excludes: a class that cannot be named (its own __module__, or an ancestor's, is not a string).
   getStateToCopy RAISES -- inside Banana.produce, where anything but a Violation means sendFailed: the connection is dropped
   (lib/Callee.v send_error; finding oracle/sibling-affected/exception-class-without-module) *)
Theorem failure_unnameable_raises unsafe e : nameable e = false -> exists t, get_state unsafe e = Exc t.
Proof.
  intros N. destruct (get_state unsafe e) as [s|t] eqn:G; [|eauto].
  rewrite (get_state_ok_nameable _ _ _ G) in N. discriminate N.
Qed.

(* getStateToCopy returns exactly for the nameable classes *)
Theorem get_state_returns_iff unsafe e : (exists s, get_state unsafe e = Ok s) <-> nameable e = true.
Proof.
  split; [intros (s & G); exact (get_state_ok_nameable _ _ _ G)|].
  intros N. destruct (get_state unsafe e) as [s|t] eqn:G; [eauto|].
  exfalso. revert G. unfold get_state.
  destruct (nameable_inv e N) as (ty & pa & HT & HP).
  destruct (trunc_field_spec (rendered e) trunc_limit_value ltac:(vm_compute; reflexivity)) as (bv & E1 & _).
  destruct (trunc_field_spec ty trunc_limit_type ltac:(vm_compute; reflexivity)) as (bt & E2 & _).
  destruct (trunc_field_spec (elide (if unsafe then e_stack e else default_traceback)) trunc_limit_traceback ltac:(vm_compute; reflexivity))
    as (btb & E3 & _). unfold elide in E3.
  destruct (map_res_spec pa trunc_limit_parents ltac:(vm_compute; reflexivity)) as (ps & E4 & _).
  run_get_state HT HP E1 E2 E3 E4. discriminate.
Qed.

(* the witness: type("NoMod", (Exception,), {"__module__": None}) -- qual(obj.type) raises TypeError; and a class WITH a module whose
   base class has none: obj.parents raises *)
Example ex_unnameable :
  get_state false {| e_type := Exc "TypeError"%string; e_str := Ok [109]; e_fallback := []; e_stack := []; e_parents := Exc "TypeError"%string |}
    = Exc "TypeError"%string /\
  get_state true {| e_type := Ok [109; 46; 69]; e_str := Ok [109]; e_fallback := []; e_stack := []; e_parents := Exc "TypeError"%string |}
    = Exc "TypeError"%string.
Proof. split; vm_compute; reflexivity. Qed.

(* C10_failure_fits: the ONE hypothesis on the exception is that its class can be named -- reflect.qual returns for the class (ty)
   and for every class of its MRO (pa); nothing on the message, the rendering, the traceback.  Outside it: failure_unnameable_raises *)
Theorem failure_fits unsafe e ty pa : e_type e = Ok ty -> e_parents e = Ok pa ->
  exists s, get_state unsafe e = Ok s /\ failure_constraint_ok s = true /\
    field_of (escape (rendered e)) trunc_limit_value (s_value s) /\
    field_of (escape ty) trunc_limit_type (s_type s) /\
    field_of (escape (elide (if unsafe then e_stack e else default_traceback))) trunc_limit_traceback (s_traceback s) /\
    Forall2 (fun p b => field_of (escape p) trunc_limit_parents b) pa (s_parents s).
Proof.
  intros HT HP.
  destruct (trunc_field_spec (rendered e) trunc_limit_value ltac:(vm_compute; reflexivity)) as (bv & E1 & L1 & F1).
  destruct (trunc_field_spec ty trunc_limit_type ltac:(vm_compute; reflexivity)) as (bt & E2 & L2 & F2).
  destruct (trunc_field_spec (elide (if unsafe then e_stack e else default_traceback)) trunc_limit_traceback ltac:(vm_compute; reflexivity))
    as (btb & E3 & L3 & F3). unfold elide in E3.
  destruct (map_res_spec pa trunc_limit_parents ltac:(vm_compute; reflexivity)) as (ps & E4 & F4).
  exists {| s_type := bt; s_value := bv; s_traceback := btb; s_parents := ps |}.
  split; [run_get_state HT HP E1 E2 E3 E4; reflexivity|]. cbn [s_type s_value s_traceback s_parents].
  split; [|split; [exact F1|split; [exact F2|split; [exact F3|]]]].
  - unfold failure_constraint_ok. cbn [s_type s_value s_traceback s_parents].
    rewrite (bytestring_ok_of_le fc_limit_type bt) by (unfold fc_limit_type; unfold trunc_limit_type in L2; lia).
    rewrite (bytestring_ok_of_le fc_limit_value bv) by (unfold fc_limit_value; unfold trunc_limit_value in L1; lia).
    rewrite (bytestring_ok_of_le fc_limit_traceback btb) by (unfold fc_limit_traceback; unfold trunc_limit_traceback in L3; lia).
    cbn [andb]. rewrite (parents_ok _ _ F4). reflexivity.
  - exact (parents_fields _ _ F4).
Qed.

(* ... and that holds whichever fields travel as VOCAB tokens (any negotiated table) *)
Lemma bytestring_ok_enc_of_le vocab lim b : blen b <= lim -> bytestring_ok_enc vocab lim b = true.
Proof.
  intros H. unfold bytestring_ok_enc, bytestring_taster_accepts_vocab, token_size_rejects, bytestring_object_rejects, rejects.
  rewrite Z.gtb_ltb. destruct (lim <? blen b) eqn:E; [apply Z.ltb_lt in E; lia|]. destruct (vocab b); reflexivity.
Qed.

Theorem failure_fits_any_encoding unsafe e vocab : nameable e = true ->
  exists s, get_state unsafe e = Ok s /\ failure_constraint_ok_enc vocab s = true.
Proof.
  intros N. destruct (nameable_inv e N) as (ty & pa & HT & HP).
  destruct (trunc_field_spec (rendered e) trunc_limit_value ltac:(vm_compute; reflexivity)) as (bv & E1 & L1 & _).
  destruct (trunc_field_spec ty trunc_limit_type ltac:(vm_compute; reflexivity)) as (bt & E2 & L2 & _).
  destruct (trunc_field_spec (elide (if unsafe then e_stack e else default_traceback)) trunc_limit_traceback ltac:(vm_compute; reflexivity))
    as (btb & E3 & L3 & _). unfold elide in E3.
  destruct (map_res_spec pa trunc_limit_parents ltac:(vm_compute; reflexivity)) as (ps & E4 & F4).
  exists {| s_type := bt; s_value := bv; s_traceback := btb; s_parents := ps |}.
  split; [run_get_state HT HP E1 E2 E3 E4; reflexivity|]. unfold failure_constraint_ok_enc. cbn [s_type s_value s_traceback s_parents].
  rewrite (bytestring_ok_enc_of_le vocab fc_limit_type bt) by (unfold fc_limit_type; unfold trunc_limit_type in L2; lia).
  rewrite (bytestring_ok_enc_of_le vocab fc_limit_value bv) by (unfold fc_limit_value; unfold trunc_limit_value in L1; lia).
  rewrite (bytestring_ok_enc_of_le vocab fc_limit_traceback btb) by (unfold fc_limit_traceback; unfold trunc_limit_traceback in L3; lia).
  cbn [andb]. replace (forallb (bytestring_ok_enc vocab fc_limit_parents) ps) with true; [reflexivity|].
  symmetry. clear E4 HP. revert F4. generalize pa. induction ps as [|b ps IH]; intros l F; [reflexivity|].
  inversion F as [|p b' l' ps' [Lb _] F']; subst. cbn [forallb]. rewrite (IH _ F').
  rewrite bytestring_ok_enc_of_le; [reflexivity|]. unfold fc_limit_parents; unfold trunc_limit_parents in Lb; lia.
Qed.

(* every transmitted field is itself well-formed UTF-8 (so six.ensure_str on the receiving side cannot fail) *)
Lemma field_is_utf8 orig lim b : wf_text orig -> field_of orig lim b -> exists t, wf_text t /\ b = utf8 t.
Proof.
  intros V [[E _]|(_ & p & rest & E & _ & B)].
  - exists orig. split; assumption.
  - exists (p ++ dots). split; [|exact B]. unfold wf_text. rewrite forallb_app. subst orig.
    rewrite (forallb_app_l _ _ _ V). reflexivity.
Qed.

(* faithful delivery: the caller sees the transmitted fields, wrapped iff exception types are hidden *)
Theorem deliver_spec expose s :
  (expose = true -> deliver expose s = Copied s) /\ (expose = false -> deliver expose s = Wrapped s).
Proof. split; intros ->; reflexivity. Qed.

(* non-vacuity of "whatever its class": a failure that itself claims to be a RemoteException is wrapped like any other *)
Example ex_remote_exception_wrapped :
  let s := {| s_type := remote_exception_name; s_value := [120]; s_traceback := []; s_parents := [remote_exception_name; [111]] |} in
  claims_remote_exception s = true /\ deliver false s = Wrapped s.
Proof. split; reflexivity. Qed.

(* ---- non-vacuity *)
Example ex_surrogate_and_badstr :
  get_state false {| e_type := Ok [86]; e_str := Exc "RuntimeError"%string; e_fallback := [60; 56580; 62]; e_stack := []; e_parents := Ok [[86; 55296]] |}
  = Ok {| s_type := [86]; s_value := [60; 92; 117; 100; 100; 48; 52; 62]; s_traceback := utf8 default_traceback;
          s_parents := [[86; 92; 117; 100; 56; 48; 48]] |}.
Proof. vm_compute. reflexivity. Qed.

Example ex_truncated :
  truncate (utf8 (repeat 233 1000)) 1000 = Ok (utf8 (repeat 233 498 ++ dots)).
Proof. vm_compute. reflexivity. Qed.

Example ex_cut_inside_char :       (* limit-3 falls inside a 4-byte character: it is dropped entirely *)
  truncate (utf8 (120 :: repeat 128512 300)) 1000 = Ok (utf8 (120 :: repeat 128512 249 ++ dots)).
Proof. vm_compute. reflexivity. Qed.

(* ------------------------------------------------------------------ ancestry, type identification, uniform wrapping *)
Lemma existsb_list_eqb n l : existsb (list_eqb n) l = true <-> In n l.
Proof.
  rewrite existsb_exists. split.
  - intros (x & I & E). apply list_eqb_eq in E. subst. exact I.
  - intros I. exists n. split; [exact I|]. apply list_eqb_eq. reflexivity.
Qed.

(* a field whose (escaped) original fits its limit is transmitted exactly *)
Lemma field_of_fits orig lim b : field_of orig lim b -> blen (utf8 orig) <= lim -> b = utf8 orig.
Proof. intros [[E _]|(L & _)] F; [exact E|lia]. Qed.

Lemma forall2_in_l {A B} (R : A -> B -> Prop) l l' x : Forall2 R l l' -> In x l -> exists y, In y l' /\ R x y.
Proof.
  induction 1 as [|a b l l' Rab _ IH]; intros I; [destruct I|]. destruct I as [->|I].
  - exists b. split; [left; reflexivity|exact Rab].
  - destruct (IH I) as (y & Iy & Ry). exists y. split; [right; exact Iy|exact Ry].
Qed.

Lemma forall2_in_r {A B} (R : A -> B -> Prop) l l' y : Forall2 R l l' -> In y l' -> exists x, In x l /\ R x y.
Proof.
  induction 1 as [|a b l l' Rab _ IH]; intros I; [destruct I|]. destruct I as [->|I].
  - exists a. split; [left; reflexivity|exact Rab].
  - destruct (IH I) as (x & Ix & Rx). exists x. split; [right; exact Ix|exact Rx].
Qed.

Lemma forall2_length {A B} (R : A -> B -> Prop) l l' : Forall2 R l l' -> List.length l = List.length l'.
Proof. induction 1; cbn; congruence. Qed.

(* "identifies the remote exception's type (by class name ...)": a class name that UTF-8 can encode and that fits the
   limit arrives byte for byte *)
Theorem type_exact unsafe e s ty : get_state unsafe e = Ok s -> e_type e = Ok ty -> wf_text ty ->
  blen (utf8 ty) <= trunc_limit_type -> s_type s = utf8 ty.
Proof.
  intros G HT W L. destruct (nameable_inv e (get_state_ok_nameable _ _ _ G)) as (ty' & pa & HT' & HP).
  rewrite HT in HT'. inversion HT'; subst ty'.
  destruct (failure_fits unsafe e ty pa HT HP) as (s' & G' & _ & _ & FT & _). rewrite G in G'. inversion G'; subst s'.
  rewrite (escape_id _ W) in FT. exact (field_of_fits _ _ _ FT L).
Qed.

(* "... carries a prefix of its message": a message that fits arrives byte for byte *)
Theorem value_exact unsafe e s : get_state unsafe e = Ok s -> wf_text (rendered e) ->
  blen (utf8 (rendered e)) <= trunc_limit_value -> s_value s = utf8 (rendered e).
Proof.
  intros G W L. destruct (nameable_inv e (get_state_ok_nameable _ _ _ G)) as (ty & pa & HT & HP).
  destruct (failure_fits unsafe e ty pa HT HP) as (s' & G' & _ & FV & _). rewrite G in G'. inversion G'; subst s'.
  rewrite (escape_id _ W) in FV. exact (field_of_fits _ _ _ FV L).
Qed.

(* "(... and ancestry)": the transmitted ancestry has the length and the order of the original one (Forall2 is positional);
   every ancestor whose name fits is found by check(), whatever happened to the other entries; and nothing is invented:
   every transmitted entry is the field of the ancestor at its position *)
Theorem ancestry_preserved unsafe e s pa : get_state unsafe e = Ok s -> e_parents e = Ok pa ->
  List.length (s_parents s) = List.length pa /\
  (forall n, In n pa -> wf_text n -> blen (utf8 n) <= trunc_limit_parents ->
             delivered_check (Copied s) (utf8 n) = true) /\
  (forall b, delivered_check (Copied s) b = true ->
             exists p, In p pa /\ field_of (escape p) trunc_limit_parents b).
Proof.
  intros G HP. destruct (nameable_inv e (get_state_ok_nameable _ _ _ G)) as (ty & pa' & HT & HP').
  rewrite HP in HP'. inversion HP'; subst pa'.
  destruct (failure_fits unsafe e ty pa HT HP) as (s' & G' & _ & _ & _ & _ & FP). rewrite G in G'. inversion G'; subst s'.
  split; [symmetry; exact (forall2_length _ _ _ FP)|]. split.
  - intros n I W L. unfold delivered_check, check_names. apply existsb_list_eqb.
    destruct (forall2_in_l _ _ _ _ FP I) as (b & Ib & Fb). rewrite (escape_id _ W) in Fb.
    rewrite <- (field_of_fits _ _ _ Fb L). exact Ib.
  - intros b C. unfold delivered_check, check_names in C. apply existsb_list_eqb in C.
    exact (forall2_in_r _ _ _ _ FP C).
Qed.

(* truncation keeps the ancestry a list of the same shape for EVERY prefix: cutting the original ancestry after k classes
   and transmitting gives the first k transmitted entries (map_res is a map: no entry depends on another) *)
Lemma map_res_firstn {A B} (f : A -> res B) l bs k : map_res f l = Ok bs -> map_res f (firstn k l) = Ok (firstn k bs).
Proof.
  revert bs k. induction l as [|x l IH]; intros bs k H; cbn [map_res] in H.
  - inversion H; subst. rewrite !firstn_nil. reflexivity.
  - destruct (f x) as [y|] eqn:E; [|discriminate]. destruct (map_res f l) as [ys|] eqn:E2; [|discriminate].
    inversion H; subst. destruct k; [reflexivity|]. cbn [firstn map_res]. rewrite E, (IH ys k eq_refl). reflexivity.
Qed.

Theorem ancestry_prefix_closed unsafe e s k pa : get_state unsafe e = Ok s -> e_parents e = Ok pa ->
  exists s', get_state unsafe {| e_type := e_type e; e_str := e_str e; e_fallback := e_fallback e; e_stack := e_stack e;
                                 e_parents := Ok (firstn k pa) |} = Ok s' /\
             s_parents s' = firstn k (s_parents s) /\ s_type s' = s_type s /\ s_value s' = s_value s /\
             s_traceback s' = s_traceback s.
Proof.
  intros G HP. destruct (nameable_inv e (get_state_ok_nameable _ _ _ G)) as (ty & pa' & HT & HP').
  rewrite HP in HP'. inversion HP'; subst pa'. clear HP'.
  destruct (trunc_field_spec (rendered e) trunc_limit_value ltac:(vm_compute; reflexivity)) as (bv & E1 & _).
  destruct (trunc_field_spec ty trunc_limit_type ltac:(vm_compute; reflexivity)) as (bt & E2 & _).
  destruct (trunc_field_spec (elide (if unsafe then e_stack e else default_traceback)) trunc_limit_traceback ltac:(vm_compute; reflexivity))
    as (btb & E3 & _). unfold elide in E3.
  destruct (map_res_spec pa trunc_limit_parents ltac:(vm_compute; reflexivity)) as (ps & E4 & _).
  assert (G' : get_state unsafe e = Ok {| s_type := bt; s_value := bv; s_traceback := btb; s_parents := ps |})
    by (run_get_state HT HP E1 E2 E3 E4; reflexivity).
  rewrite G in G'. inversion G'; subst s. clear G G'.
  pose proof (map_res_firstn _ _ _ k E4) as E4'.
  exists {| s_type := bt; s_value := bv; s_traceback := btb; s_parents := firstn k ps |}.
  split; [|cbn; auto].
  unfold get_state, get_state_src; cbv zeta; rewrite ?render_safe_total; cbn [sbind e_type e_str e_fallback e_stack e_parents].
  change (rendered {| e_type := e_type e; e_str := e_str e; e_fallback := e_fallback e; e_stack := e_stack e;
                      e_parents := Ok (firstn k pa) |}) with (rendered e).
  rewrite ?HT; cbn [sbind].
  repeat (first [step_tf E1 | step_tf E2 | step_tf E3 | rewrite E4' | rewrite HT]; cbn [sbind]). reflexivity.
Qed.

(* "or is uniformly wrapped when the Tub is configured to hide remote exception types": with types hidden, what the caller
   can learn from check()/trap() and from f.type is the same for EVERY transmitted failure -- a Violation, a
   RemoteException raised or relayed by the far side, anything -- namely RemoteException and its own ancestry *)
Theorem hidden_is_uniform s1 s2 n :
  delivered_check (deliver false s1) n = delivered_check (deliver false s2) n /\
  delivered_type (deliver false s1) = delivered_type (deliver false s2) /\
  delivered_check (deliver false s1) remote_exception_name = true /\
  delivered_type (deliver false s1) = remote_exception_name.
Proof. repeat split; reflexivity. Qed.

(* and with types exposed nothing is wrapped: the caller's view is the transmitted one *)
Theorem exposed_is_transparent s n :
  delivered_check (deliver true s) n = existsb (list_eqb n) (s_parents s) /\ delivered_type (deliver true s) = s_type s.
Proof. split; reflexivity. Qed.

(* the whole path, composed: for EVERY exception and both settings of both options the report reaches the caller's
   Deferred (never an exception in the callee's slicer, never a local Violation from the caller's FailureConstraint),
   wrapped iff types are hidden; when exposed, the type name and every ancestor that fit are identified *)
Theorem report_end_to_end unsafe expose e ty pa : e_type e = Ok ty -> e_parents e = Ok pa ->
  exists s, get_state unsafe e = Ok s /\
    report unsafe expose e = Ok (if expose then Copied s else Wrapped s) /\
    (expose = true -> wf_text ty -> blen (utf8 ty) <= trunc_limit_type ->
       delivered_type (deliver expose s) = utf8 ty) /\
    (expose = true -> forall n, In n pa -> wf_text n -> blen (utf8 n) <= trunc_limit_parents ->
       delivered_check (deliver expose s) (utf8 n) = true) /\
    (expose = false -> delivered_type (deliver expose s) = remote_exception_name /\
       forall n, delivered_check (deliver expose s) n = existsb (list_eqb n) remote_exception_parents).
Proof.
  intros HT HP. destruct (failure_fits unsafe e ty pa HT HP) as (s & G & OK & _). exists s. split; [exact G|].
  split; [unfold report; rewrite G, OK; destruct expose; reflexivity|].
  split; [intros -> W L; exact (type_exact _ _ _ _ G HT W L)|].
  split; [intros -> n I W L; destruct (ancestry_preserved _ _ _ _ G HP) as (_ & A & _); exact (A n I W L)|].
  intros ->. split; reflexivity.
Qed.

Example ex_ancestry :
  let e := {| e_type := Ok [77; 46; 69]; e_str := Ok [109]; e_fallback := []; e_stack := [];
              e_parents := Ok [[77; 46; 69]; repeat 233 150; [111]] |} in
  exists s, get_state true e = Ok s /\ List.length (s_parents s) = 3%nat /\
    delivered_check (deliver true s) (utf8 [77; 46; 69]) = true /\ delivered_check (deliver true s) (utf8 [111]) = true /\
    delivered_check (deliver true s) (utf8 (repeat 233 150)) = false /\
    delivered_check (deliver false s) (utf8 [77; 46; 69]) = false /\
    delivered_check (deliver false s) remote_exception_name = true.
Proof. eexists. split; [vm_compute; reflexivity|]. vm_compute. auto 10. Qed.

(* statements in the form props/C10.v uses *)
Theorem escape_spec t : wf_text (escape t) /\ (wf_text t -> escape t = t).
Proof. split; [apply escape_wf|apply escape_id]. Qed.

Theorem type_and_message_exact unsafe e s ty : get_state unsafe e = Ok s -> e_type e = Ok ty ->
  (wf_text ty -> blen (utf8 ty) <= trunc_limit_type -> s_type s = utf8 ty) /\
  (wf_text (rendered e) -> blen (utf8 (rendered e)) <= trunc_limit_value -> s_value s = utf8 (rendered e)).
Proof. intros G HT. split; [apply (type_exact _ _ _ _ G HT)|apply (value_exact _ _ _ G)]. Qed.
