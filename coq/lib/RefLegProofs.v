(* C14, second leg of Tub.getReference: proofs over C03's request-table model (lib/Requests.v, lib/RequestsProofs.v).
   "After the Broker exists the lookup fires iff the answer arrives or the connection is lost." *)
From Coq Require Import ZArith List Bool Lia.
Import ListNotations.
Require Import Verif.gen.RequestsGen Verif.lib.Requests Verif.lib.RequestsProofs Verif.lib.RefLeg.
Local Open Scope Z_scope.

Lemma run_snoc ops o : run (ops ++ [o]) = step (run ops) o.
Proof. unfold run. rewrite fold_left_app. reflexivity. Qed.

Lemma complete_closed_other s h' h : h' <> h -> get (complete_closed s h') h = get s h.
Proof.
  intros N. unfold complete_closed. destruct (get s h') as [d|]; [|reflexivity].
  destruct (c_tracked d); [destruct (tbl_has (c_rid d) (table s))|]; try destruct (c_active d); try reflexivity;
    rewrite get_fire; (destruct (Nat.eqb_spec h' h); [congruence|reflexivity]).
Qed.

Lemma fail_closed_other s h' o h : h' <> h -> get (fail_closed s h' o) h = get s h.
Proof.
  intros N. unfold fail_closed. destruct (get s h') as [d|]; [|reflexivity].
  destruct (c_active d); [|reflexivity].
  destruct (c_tracked d); [destruct (tbl_has (c_rid d) (table s))|]; try reflexivity;
    rewrite get_fire; (destruct (Nat.eqb_spec h' h); [congruence|reflexivity]).
Qed.

(* one operation that cannot concern the request leaves it pending and the Broker connected *)
Lemma inert_step s o h rid : Inv s -> disconnected s = false -> pending s h rid -> inert rid h o = true ->
  pending (step s o) h rid /\ disconnected (step s o) = false.
Proof.
  intros [I [D Q]] Hd (c & G & Tw & R & F) Hi.
  assert (KEEP : forall s', get s' h = Some c -> disconnected s' = false -> pending s' h rid /\ disconnected s' = false).
  { intros s' G' D'. split; [exists c; auto|exact D']. }
  assert (other : forall r h', r <> rid -> tbl_find r (table s) = Some h' -> h' <> h).
  { intros r h' Nr E Eh. subst h'. apply tbl_find_some in E. destruct (I_tbl _ I _ _ E) as [c' [G' [R' _]]].
    rewrite G in G'. inversion G'. subst c'. congruence. }
  destruct o as [k|r|r|r|h'|h' o'|r|b|]; cbn [step inert] in *.
  - apply KEEP; [apply call_extends; exact G|]. destruct (frame_call s k) as [E _]. rewrite E. exact Hd.
  - apply negb_true_iff, Z.eqb_neq in Hi. destruct (tbl_find r (table s)) as [h'|] eqn:E; [|apply KEEP; assumption].
    rewrite complete_step_closed. apply KEEP; [rewrite complete_closed_other; [exact G|eapply other; eauto]|].
    destruct (frame_complete s h') as [E1 _]. rewrite E1. exact Hd.
  - apply negb_true_iff, Z.eqb_neq in Hi. destruct (tbl_find r (table s)) as [h'|] eqn:E; [|apply KEEP; assumption].
    rewrite fail_step_closed. apply KEEP; [rewrite fail_closed_other; [exact G|eapply other; eauto]|].
    destruct (frame_fail s h' ORemoteError) as [E1 _]. rewrite E1. exact Hd.
  - apply negb_true_iff, Z.eqb_neq in Hi. destruct (tbl_find r (table s)) as [h'|] eqn:E; [|apply KEEP; assumption].
    rewrite fail_step_closed. apply KEEP; [rewrite fail_closed_other; [exact G|eapply other; eauto]|].
    destruct (frame_fail s h' OViolation) as [E1 _]. rewrite E1. exact Hd.
  - apply negb_true_iff, Nat.eqb_neq in Hi. rewrite complete_step_closed.
    apply KEEP; [rewrite complete_closed_other; [exact G|exact Hi]|]. destruct (frame_complete s h') as [E1 _]. rewrite E1. exact Hd.
  - apply negb_true_iff, Nat.eqb_neq in Hi. rewrite fail_step_closed.
    apply KEEP; [rewrite fail_closed_other; [exact G|exact Hi]|]. destruct (frame_fail s h' o') as [E1 _]. rewrite E1. exact Hd.
  - discriminate.
  - apply KEEP; [exact G|exact Hd].
  - destruct (turn_cases s) as [[_ ->]|[[h' [o' [q [b [E ->]]]]]|[r [q [b [E ->]]]]]].
    + apply KEEP; [exact G|exact Hd].
    + exfalso. apply (Q Hd h' o'). rewrite E. left. reflexivity.
    + apply KEEP; [exact G|exact Hd].
Qed.

Lemma inert_run post : forall pre h rid, disconnected (run pre) = false -> pending (run pre) h rid ->
  Forall (fun o => inert rid h o = true) post ->
  pending (run (pre ++ post)) h rid /\ disconnected (run (pre ++ post)) = false.
Proof.
  induction post as [|o post IH]; intros pre h rid Hd P Fo.
  - rewrite app_nil_r. auto.
  - inversion Fo as [|? ? Ho Fo']; subst.
    replace (pre ++ o :: post) with ((pre ++ [o]) ++ post) by (rewrite <- app_assoc; reflexivity).
    destruct (inert_step (run pre) o h rid (inv_run pre) Hd P Ho) as [P' D']. rewrite <- run_snoc in P', D'.
    apply IH; assumption.
Qed.

(* "only if": WITHOUT an answer / error / violation for this request, complete()/fail() on it, or Broker.finish, the
   second leg stays exactly as it is -- whatever else the Broker does, however many turns the eventual queue takes.
   (There is no time in lib/Requests.v: nothing in the request table is driven by a timer.) *)
Theorem leg_silent pre post h rid :
  disconnected (run pre) = false -> pending (run pre) h rid ->
  Forall (fun o => inert rid h o = true) post ->
  pending (run (pre ++ post)) h rid /\ disconnected (run (pre ++ post)) = false /\
  ~ (exists o, In (EFail h o) (evq (run (pre ++ post)))).
Proof.
  intros Hd P Fo. destruct (inert_run post pre h rid Hd P Fo) as [P' D']. split; [exact P'|]. split; [exact D'|].
  intros [o Ho]. destruct (inv_run (pre ++ post)) as [_ [_ Q]]. exact (Q D' h o Ho).
Qed.

(* one of the remaining operations ends it *)
Lemma resolving_step ops o h rid :
  disconnected (run ops) = false -> pending (run ops) h rid -> inert rid h o = false -> done (step (run ops) o) h.
Proof.
  intros Hd (c & G & Tw & R & F) Hi.
  destruct (pending_is_in_table ops h c G Tw F) as [Hin Hfind]. rewrite R in Hin, Hfind.
  destruct (step_extends (run ops) o h c G) as [c2 [G2 [_ [E2 _]]]].
  assert (RES : forall o', resolves (run ops) (step (run ops) o) h rid o' -> done (step (run ops) o) h).
  { intros o' [(c0 & c' & _ & _ & _ & G' & F' & _) _]. exists c2. split; [exact G2|]. split; [congruence|].
    left. rewrite G2 in G'. inversion G'. subst c'. rewrite F'. discriminate. }
  destruct o as [k|r|r|r|h'|h' o'|r|b|]; cbn [inert] in Hi; try discriminate.
  - apply negb_false_iff, Z.eqb_eq in Hi. subst r. apply (RES OResult). apply answer_fires_result. exact Hfind.
  - apply negb_false_iff, Z.eqb_eq in Hi. subst r. apply (RES ORemoteError). apply error_fires_remote_failure. exact Hfind.
  - apply negb_false_iff, Z.eqb_eq in Hi. subst r. apply (RES OViolation). apply violation_fires_violation. exact Hfind.
  - apply negb_false_iff, Nat.eqb_eq in Hi. subst h'. apply (RES OResult). apply (fail_on_pending_fires ops rid h OOther Hin).
  - apply negb_false_iff, Nat.eqb_eq in Hi. subst h'. apply (RES o'). apply (fail_on_pending_fires ops rid h o' Hin).
  - exists c2. split; [exact G2|]. split; [congruence|]. right. exists (reason_outcome r).
    cbn [step]. rewrite finish_step_closed. unfold finish_closed. rewrite Hd. cbn [evq set_evq].
    apply in_or_app. right. apply in_map_iff. exists (rid, h). split; [reflexivity|exact Hin].
Qed.

(* ... and once it is over it stays over *)
Lemma done_step s o h : Inv s -> done s h -> done (step s o) h.
Proof.
  intros [I [D Q]] (c & G & Tw & H).
  destruct (step_extends s o h c G) as [c2 [G2 [_ [E2 [_ [ex Ex]]]]]].
  assert (FIRED : c_fires c <> [] -> done (step s o) h).
  { intros Hf. exists c2. split; [exact G2|]. split; [congruence|]. left. rewrite Ex. destruct (c_fires c); [contradiction|discriminate]. }
  destruct H as [Hf|[o0 Hq]]; [apply FIRED; exact Hf|].
  destruct (c_fires c) as [|f0 fl] eqn:F; [|apply FIRED; discriminate].
  assert (QUEUED : (exists o1, In (EFail h o1) (evq (step s o))) -> done (step s o) h).
  { intros Hq'. exists c2. split; [exact G2|]. split; [congruence|]. right. exact Hq'. }
  destruct o as [k|r|r|r|h'|h' o'|r|b|]; cbn [step] in *.
  - apply QUEUED. exists o0. destruct (frame_call s k) as [_ [E _]]. rewrite E. exact Hq.
  - apply QUEUED. exists o0. destruct (tbl_find r (table s)) as [h'|]; [|exact Hq].
    rewrite complete_step_closed. destruct (frame_complete s h') as [_ [E _]]. rewrite E. exact Hq.
  - apply QUEUED. exists o0. destruct (tbl_find r (table s)) as [h'|]; [|exact Hq].
    rewrite fail_step_closed. destruct (frame_fail s h' ORemoteError) as [_ [E _]]. rewrite E. exact Hq.
  - apply QUEUED. exists o0. destruct (tbl_find r (table s)) as [h'|]; [|exact Hq].
    rewrite fail_step_closed. destruct (frame_fail s h' OViolation) as [_ [E _]]. rewrite E. exact Hq.
  - apply QUEUED. exists o0. rewrite complete_step_closed. destruct (frame_complete s h') as [_ [E _]]. rewrite E. exact Hq.
  - apply QUEUED. exists o0. rewrite fail_step_closed. destruct (frame_fail s h' o') as [_ [E _]]. rewrite E. exact Hq.
  - apply QUEUED. exists o0. rewrite finish_step_closed. unfold finish_closed. destruct (disconnected s); [exact Hq|].
    cbn [evq set_evq]. apply in_or_app. left. exact Hq.
  - apply QUEUED. exists o0. cbn [evq set_evq]. apply in_or_app. left. exact Hq.
  - destruct (turn_cases s) as [[E _]|[[h' [o' [q [b [E Et]]]]]|[r [q [b [E Et]]]]]].
    + rewrite E in Hq. destruct Hq.
    + rewrite E in Hq. destruct Hq as [Hq|Hq].
      * inversion Hq. subst h' o'. set (s1 := set_batch (set_evq s q) b) in *.
        assert (I1 : Inv0 s1) by (apply inv0_set_batch, inv0_set_evq, I).
        destruct (I_calls _ I _ _ G) as [_ [_ [K3 [_ K5]]]].
        assert (A : c_active c = true).
        { destruct (c_active c); [reflexivity|]. specialize (K3 eq_refl Tw). rewrite F in K3. discriminate. }
        pose proof (I_pend _ I _ _ G (K5 Tw A) A) as P.
        destruct (fail_pending s1 (c_rid c) h o0 I1 P) as [(c0 & c' & _ & _ & _ & G' & F' & _) _].
        exists c2. split; [exact G2|]. split; [congruence|]. left. rewrite Et in G2. rewrite G2 in G'. inversion G'. subst c'.
        rewrite F'. discriminate.
      * apply QUEUED. exists o0. rewrite Et. destruct (frame_fail (set_batch (set_evq s q) b) h' o') as [_ [E1 _]]. rewrite E1. exact Hq.
    + rewrite E in Hq. destruct Hq as [Hq|Hq]; [discriminate|]. apply QUEUED. exists o0. rewrite Et. exact Hq.
Qed.

Lemma done_run post : forall pre h, done (run pre) h -> done (run (pre ++ post)) h.
Proof.
  induction post as [|o post IH]; intros pre h Dn; [rewrite app_nil_r; exact Dn|].
  replace (pre ++ o :: post) with ((pre ++ [o]) ++ post) by (rewrite <- app_assoc; reflexivity).
  apply IH. rewrite run_snoc. apply done_step; [apply inv_run|exact Dn].
Qed.

Lemma leg_cases post : forall pre h rid, disconnected (run pre) = false -> pending (run pre) h rid ->
  (Forall (fun o => inert rid h o = true) post /\ pending (run (pre ++ post)) h rid /\ disconnected (run (pre ++ post)) = false) \/
  (Exists (fun o => inert rid h o = false) post /\ done (run (pre ++ post)) h).
Proof.
  induction post as [|o post IH]; intros pre h rid Hd P.
  - left. rewrite app_nil_r. auto.
  - replace (pre ++ o :: post) with ((pre ++ [o]) ++ post) by (rewrite <- app_assoc; reflexivity).
    destruct (inert rid h o) eqn:Ei.
    + destruct (inert_step (run pre) o h rid (inv_run pre) Hd P Ei) as [P' D']. rewrite <- run_snoc in P', D'.
      destruct (IH (pre ++ [o]) h rid D' P') as [[Fo R]|[Ex Dn]]; [left|right]; split; auto.
    + right. split; [left; exact Ei|]. apply done_run. rewrite run_snoc. apply (resolving_step pre o h rid Hd P Ei).
Qed.

(* THE second-leg theorem.  The Broker is connected and the call is pending after `pre` (= when the Broker lookup was
   answered and the callback made the call).  For EVERY continuation `post` of that Broker's request table:
   the getReference Deferred has fired, or its failure has been queued by Broker.finish,
   IF AND ONLY IF  post contains an answer / error / violation for this request id, complete()/fail() on this request
   object, or Broker.finish (connectionLost / shutdown). *)
Theorem leg_fires_iff pre post h rid :
  disconnected (run pre) = false -> pending (run pre) h rid ->
  (done (run (pre ++ post)) h <-> Exists (fun o => inert rid h o = false) post).
Proof.
  intros Hd P. destruct (leg_cases post pre h rid Hd P) as [[Fo [P' D']]|[Ex Dn]]; split; intros H; auto.
  - exfalso. destruct H as (c' & G' & _ & [Hf|[o Hq]]).
    + destruct P' as (c & G & _ & _ & F). rewrite G in G'. inversion G'. subst c'. contradiction.
    + destruct (inv_run (pre ++ post)) as [_ [_ Q]]. exact (Q D' h o Hq).
  - exfalso. apply Exists_exists in H as [o [Hin Ho]]. rewrite Forall_forall in Fo. rewrite (Fo o Hin) in Ho. discriminate.
Qed.

(* pending and over exclude each other on a connected Broker *)
Lemma pending_not_done s h rid : Inv s -> disconnected s = false -> pending s h rid -> ~ done s h.
Proof.
  intros [_ [_ Q]] Hd (c & G & _ & _ & F) (c' & G' & _ & [Hf|[o Hq]]).
  - rewrite G in G'. inversion G'. subst c'. contradiction.
  - exact (Q Hd h o Hq).
Qed.

(* the callback's call on a connected Broker IS such a pending request: handle = number of calls made before, request id =
   the Broker's next id *)
Theorem leg_call_starts ops :
  disconnected (run ops) = false ->
  pending (run (ops ++ [leg_call])) (List.length (calls (run ops))) (nextid (run ops)).
Proof.
  intros Hd. rewrite run_snoc. unfold leg_call. cbn [step]. unfold call_step. rewrite Hd. cbn [andb].
  eexists. split; [rewrite get_set_table; apply (get_push_new (take_id (run ops)))|]. cbn. auto.
Qed.

(* the answer fires it with the result ... *)
Theorem leg_answer_fires ops h rid : pending (run ops) h rid ->
  exists c', get (step (run ops) (Answer rid)) h = Some c' /\ c_fires c' = [OResult].
Proof.
  intros (c & G & Tw & R & F). destruct (pending_is_in_table ops h c G Tw F) as [_ Hfind]. rewrite R in Hfind.
  destruct (answer_fires_result ops rid h Hfind) as [(c0 & c' & _ & _ & _ & G' & F' & _) _]. exists c'. auto.
Qed.

(* ... and the loss of the connection fires it with what the reason maps to (DeadReferenceError for every
   lost-connection reason: RequestsProofs.lost_reason_is_DeadReferenceError), as many turns of the eventual queue later as
   there are entries in it *)
Theorem leg_loss_fires ops r h rid : disconnected (run ops) = false -> pending (run ops) h rid ->
  let s1 := run (ops ++ [Finish r]) in
  let s2 := run_from s1 (repeat Turn (List.length (evq s1))) in
  exists c', get s2 h = Some c' /\ c_fires c' = [reason_outcome r].
Proof. intros Hd (c & G & Tw & _ & F). exact (loss_outcome ops r h c Hd G Tw F). Qed.

(* non-vacuity: a Broker that has already made two calls (one answered); the getReference callback makes the third;
   other traffic and turns do nothing to it; its answer fires it; so does a loss *)
Example leg_example :
  let pre := [Call KTwoWay; Call KTwoWay; Answer 1; leg_call] in
  disconnected (run pre) = false /\ pending (run pre) 2%nat 3 /\
  pending (run (pre ++ [Answer 2; Call KOneWay; Enqueue true; Turn; Turn; Error 7])) 2%nat 3 /\
  done (run (pre ++ [Turn; Answer 3])) 2%nat /\ done (run (pre ++ [Finish (RListed ConnectionLostC)])) 2%nat.
Proof.
  cbn zeta. split; [vm_compute; reflexivity|]. split; [eexists; vm_compute; repeat split; reflexivity|].
  split; [eexists; vm_compute; repeat split; reflexivity|].
  split; eexists; (split; [vm_compute; reflexivity|]); (split; [reflexivity|]).
  - left. vm_compute. discriminate.
  - right. exists ODeadRef. vm_compute. auto.
Qed.
