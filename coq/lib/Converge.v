(* C14: model of two Tubs M (the higher tubID: always the negotiation master) and S, and of all the
   connections between them.  Follows negotiate.py (evaluateNegotiationVersion1 master side,
   acceptDecisionVersion1, switchToBanana, negotiationFailed), broker.py (shutdown/finish/connectionLost),
   pb.py (getBrokerForTubRef, brokerAttached, brokerDetached, connectionFailed) and connection.py
   (TubConnector: connect, connectorNegotiationComplete/Failed, checkForFailure, connectionTimedOut).
   The decision `compare_offer` is the TRANSLATED compareOfferAndExisting (gen/ConvergeGen.v), called with the
   master's handle-old-duplicate-connections setting and the age of its existing Broker.
   Virtual time: `now`; every TubConnector has a deadline (CONNECTION_TIMEOUT after connect()), the listening end of
   every connection has its own negotiation timer (SERVER_TIMEOUT after connectionMade); `Advance dt` lets time pass
   up to the next armed timer and fires what is due.  Lookups are identified: every getBrokerForTubRef of a Tub
   incarnation gets the next number; waitingForBrokers is the list of (number, time it was made), and every answer is
   recorded with the time and the kind (callback / errback).
   Definitions only; proofs are in ConvergeProofs.v. *)
From Coq Require Import ZArith List Bool Arith.
Import ListNotations.
Require Import Verif.lib.PyLite Verif.gen.ConvergeGen.

Inductive tubname := TM | TS.
Definition tub_eqb (a b : tubname) : bool :=
  match a, b with TM, TM => true | TS, TS => true | _, _ => false end.

(* state of one end of a connection:
   ENeg    negotiating, the peer's hello not yet received (receive_phase ENCRYPTED)
   EDec    (non-master only) hello received, waiting for the decision (DECIDING)
   EBrk    switched to Banana: a live Broker
   ECloNeg loseConnection() called while negotiating, own connectionLost not yet delivered
   ECloBrk Broker.shutdown() called (already detached from the Tub), connectionLost not yet delivered
   ELost   connectionLost delivered *)
Inductive est := ENeg | EDec | EBrk | ECloNeg | ECloBrk | ELost.

Inductive msg :=
| Hello (inc : Z) (last : option (Z * Z))   (* my-incarnation, last-connection (clients only) *)
| Decision (inc seq : Z)                    (* current-connection: master incarnation, seqnum *)
| ErrorBlk
| Fin.

Record conn := mkconn {
  c_client : tubname;          (* who dialled *)
  c_gen : nat;                 (* which TubConnector of the client it belongs to *)
  c_m : est; c_s : est;
  c_qms : list msg;            (* in flight M -> S, head first *)
  c_qsm : list msg;            (* in flight S -> M *)
  c_cut : bool                 (* the network dropped it: nothing can be written any more *)
}.

(* an answered lookup: its number, when it was made, when it was answered, callback (true) or errback (false) *)
Record fired_rec := mkfired { f_id : nat; f_reg : Z; f_at : Z; f_ok : bool }.

Record tub := mktub {
  t_inc : Z;                   (* incarnation (1, 2, ...; 0 is reserved for "none") *)
  t_broker : option nat;       (* Tub.brokers[peer]: which connection *)
  t_bir : option Z;            (* that Broker's current_slave_IR (master side) *)
  t_bseq : Z;                  (*               current_seqnum *)
  t_bcreated : Z;              (*               creation_timestamp *)
  t_master : Z;                (* master_table[peer] (0 = absent) *)
  t_slave : option (Z * Z);    (* slave_table[peer] *)
  t_connector : option nat;    (* tubConnectors[peer]: generation of the live TubConnector (active, timer armed) *)
  t_deadline : Z;              (* when that TubConnector's timer fires (meaningful while t_connector is Some) *)
  t_gen : nat;                 (* next connector generation *)
  t_waiters : list (nat * Z);  (* waitingForBrokers[peer], in order: (lookup number, time it was made) *)
  t_fired : list fired_rec;    (* lookups answered so far (this incarnation), in the order they were answered *)
  t_issued : nat;              (* lookups made so far (this incarnation) = the next lookup number *)
  t_retry : bool               (* the application's next errback synchronously calls getReference again (instant retry) *)
}.

(* now: virtual time; ho: the master's handle-old-duplicate-connections option (None = off);
   sdl c: when the negotiation timer of the listening end of connection c fires *)
Record state := mkstate { tm : tub; ts : tub; conns : nat -> conn; nconn : nat; now : Z; ho : option Z; sdl : nat -> Z }.

Definition dead_conn : conn := mkconn TM 0 ELost ELost [] [] false.
Definition new_tub (inc : Z) (gen : nat) : tub := mktub inc None None 0 0 0 None None 0 gen [] [] 0 false.
Definition init : state := mkstate (new_tub 1 0) (new_tub 1 0) (fun _ => dead_conn) 0 0 None (fun _ => 0%Z).

Definition tubof (x : tubname) (s : state) : tub := match x with TM => tm s | TS => ts s end.
Definition set_tub (x : tubname) (t : tub) (s : state) : state :=
  match x with TM => mkstate t (ts s) (conns s) (nconn s) (now s) (ho s) (sdl s)
             | TS => mkstate (tm s) t (conns s) (nconn s) (now s) (ho s) (sdl s) end.
Definition set_conns (f : nat -> conn) (s : state) : state := mkstate (tm s) (ts s) f (nconn s) (now s) (ho s) (sdl s).
Definition set_now (n : Z) (s : state) : state := mkstate (tm s) (ts s) (conns s) (nconn s) n (ho s) (sdl s).
Definition set_ho (o : option Z) (s : state) : state := mkstate (tm s) (ts s) (conns s) (nconn s) (now s) o (sdl s).
Definition upd {A} (f : nat -> A) (c : nat) (k : A) : nat -> A := fun i => if Nat.eqb i c then k else f i.

Definition set_broker (b : option nat) (t : tub) : tub :=
  mktub (t_inc t) b (t_bir t) (t_bseq t) (t_bcreated t) (t_master t) (t_slave t) (t_connector t) (t_deadline t) (t_gen t)
        (t_waiters t) (t_fired t) (t_issued t) (t_retry t).
Definition set_connector (c : option nat) (t : tub) : tub :=
  mktub (t_inc t) (t_broker t) (t_bir t) (t_bseq t) (t_bcreated t) (t_master t) (t_slave t) c (t_deadline t) (t_gen t)
        (t_waiters t) (t_fired t) (t_issued t) (t_retry t).
Definition set_bcreated (n : Z) (t : tub) : tub :=
  mktub (t_inc t) (t_broker t) (t_bir t) (t_bseq t) n (t_master t) (t_slave t) (t_connector t) (t_deadline t) (t_gen t)
        (t_waiters t) (t_fired t) (t_issued t) (t_retry t).
Definition set_slave (r : option (Z * Z)) (t : tub) : tub :=
  mktub (t_inc t) (t_broker t) (t_bir t) (t_bseq t) (t_bcreated t) (t_master t) r (t_connector t) (t_deadline t) (t_gen t)
        (t_waiters t) (t_fired t) (t_issued t) (t_retry t).
(* the master records the connection it accepts: Broker parameters and master_table *)
Definition set_accept (ir : Z) (seq : Z) (t : tub) : tub :=
  mktub (t_inc t) (t_broker t) (Some ir) seq (t_bcreated t) seq (t_slave t) (t_connector t) (t_deadline t) (t_gen t)
        (t_waiters t) (t_fired t) (t_issued t) (t_retry t).
(* every waiting Deferred is fired at time n (callback: ok = true, errback: ok = false), in list order *)
Definition fire (n : Z) (ok : bool) (t : tub) : tub :=
  mktub (t_inc t) (t_broker t) (t_bir t) (t_bseq t) (t_bcreated t) (t_master t) (t_slave t) (t_connector t) (t_deadline t) (t_gen t)
        [] (t_fired t ++ map (fun w => mkfired (fst w) (snd w) n ok) (t_waiters t)) (t_issued t) (t_retry t).

(* ---- one end *)
Definition cend (x : tubname) (k : conn) : est := match x with TM => c_m k | TS => c_s k end.
Definition set_end (x : tubname) (e : est) (k : conn) : conn :=
  match x with
  | TM => mkconn (c_client k) (c_gen k) e (c_s k) (c_qms k) (c_qsm k) (c_cut k)
  | TS => mkconn (c_client k) (c_gen k) (c_m k) e (c_qms k) (c_qsm k) (c_cut k)
  end.
(* transport.write from x's end: lost when the link was cut *)
Definition enq (x : tubname) (m : msg) (k : conn) : conn :=
  if c_cut k then k else
  match x with
  | TM => mkconn (c_client k) (c_gen k) (c_m k) (c_s k) (c_qms k ++ [m]) (c_qsm k) (c_cut k)
  | TS => mkconn (c_client k) (c_gen k) (c_m k) (c_s k) (c_qms k) (c_qsm k ++ [m]) (c_cut k)
  end.
Definition negotiating (e : est) : bool := match e with ENeg | EDec => true | _ => false end.
Definition closed (e : est) : bool := match e with ECloNeg | ECloBrk | ELost => true | _ => false end.
(* transport.loseConnection() at x's end *)
Definition lose (x : tubname) (k : conn) : conn :=
  match cend x k with
  | ENeg | EDec => enq x Fin (set_end x ECloNeg k)
  | EBrk => enq x Fin (set_end x ECloBrk k)
  | _ => k
  end.
Definition is_fin (m : msg) : bool := match m with Fin => true | _ => false end.
Definition is_dec (m : msg) : bool := match m with Decision _ _ => true | _ => false end.
Definition has_fin (q : list msg) : bool := existsb is_fin q.
Definition has_dec (q : list msg) : bool := existsb is_dec q.

(* TubConnector.cancelRemainingConnections of x's connector g: loseConnection on every pending negotiation *)
Definition cancel (x : tubname) (g : nat) (k : conn) : conn :=
  if tub_eqb (c_client k) x && Nat.eqb (c_gen k) g && negotiating (cend x k) then lose x k else k.
Definition map_conns (f : conn -> conn) (s : state) : state := set_conns (fun i => f (conns s i)) s.

(* pendingNegotiations of x's connector g is non-empty *)
Definition is_pending (x : tubname) (g : nat) (k : conn) : bool :=
  tub_eqb (c_client k) x && Nat.eqb (c_gen k) g &&
  match cend x k with ENeg | EDec | ECloNeg => true | _ => false end.
Definition any_pending (x : tubname) (g : nat) (s : state) : bool :=
  existsb (fun i => is_pending x g (conns s i)) (seq 0 (nconn s)).

(* Tub.getBrokerForTubRef at time n, on the Tub's own state: the lookup gets the next number *)
Definition getref_tub (n : Z) (t : tub) : tub :=
  let w := t_issued t in
  match t_broker t with
  | Some _ => mktub (t_inc t) (t_broker t) (t_bir t) (t_bseq t) (t_bcreated t) (t_master t) (t_slave t) (t_connector t)
                    (t_deadline t) (t_gen t) (t_waiters t) (t_fired t ++ [mkfired w n n true]) (S w) (t_retry t)
  | None =>
    match t_connector t with
    | Some _ => mktub (t_inc t) None (t_bir t) (t_bseq t) (t_bcreated t) (t_master t) (t_slave t) (t_connector t)
                      (t_deadline t) (t_gen t) (t_waiters t ++ [(w, n)]) (t_fired t) (S w) (t_retry t)
    | None => mktub (t_inc t) None (t_bir t) (t_bseq t) (t_bcreated t) (t_master t) (t_slave t) (Some (t_gen t))
                    (n + CONNECTION_TIMEOUT)%Z (S (t_gen t)) (t_waiters t ++ [(w, n)]) (t_fired t) (S w) (t_retry t)
    end
  end.

Definition set_retry (b : bool) (t : tub) : tub :=
  mktub (t_inc t) (t_broker t) (t_bir t) (t_bseq t) (t_bcreated t) (t_master t) (t_slave t) (t_connector t) (t_deadline t) (t_gen t)
        (t_waiters t) (t_fired t) (t_issued t) b.

(* every waiter is errbacked; application errbacks run synchronously: if armed, the first one calls
   getReference for the same Tub again, from inside the errback *)
Definition errback_all (n : Z) (t : tub) : tub :=
  let t' := fire n false t in
  if t_retry t && negb (Nat.eqb (List.length (t_waiters t)) 0)
  then getref_tub n (set_retry false t')
  else t'.

(* TubConnector.failed -> Tub.connectionFailed: forget the connector; unless an inbound connection made it,
   errback everyone waiting.  The order of the two effects is read from the source. *)
Definition connector_gone (n : Z) (t : tub) : tub :=
  if connection_failed_forgets_first then
    let t1 := set_connector None t in
    match t_broker t1 with Some _ => t1 | None => errback_all n t1 end
  else
    set_connector None (match t_broker t with Some _ => t | None => errback_all n t end).

(* connectorNegotiationFailed (after the negotiation was popped): checkForFailure *)
Definition connector_failed (x : tubname) (g : nat) (s : state) : state :=
  let t := tubof x s in
  match t_connector t with
  | Some g' => if Nat.eqb g g' && negb (any_pending x g s) then set_tub x (connector_gone (now s) t) s else s
  | None => s
  end.

(* Tub.getBrokerForTubRef at x *)
Definition do_getref (x : tubname) (s : state) : state := set_tub x (getref_tub (now s) (tubof x s)) s.

(* one location hint of x's live connector: TCP connect + GET + 101; both hellos are then in flight.
   Only the client's hello carries last-connection (initClient), default ("none", 0).
   connectionMadeServer arms the listening end's negotiation timer. *)
Definition do_dial (x : tubname) (s : state) : state :=
  match t_connector (tubof x s) with
  | None => s
  | Some g =>
    let last := match x with
                | TS => Some (match t_slave (ts s) with Some r => r | None => (IR_NONE, 0%Z) end)
                | TM => None end in
    let k := mkconn x g ENeg ENeg [Hello (t_inc (tm s)) None] [Hello (t_inc (ts s)) last] false in
    mkstate (tm s) (ts s) (upd (conns s) (nconn s) k) (S (nconn s)) (now s) (ho s)
            (upd (sdl s) (nconn s) (now s + SERVER_TIMEOUT)%Z)
  end.

(* Negotiation.switchToBanana at x on connection c (x's end already EBrk):
   client: connectorNegotiationComplete (cancel the sibling attempts); Tub.brokerAttached: an inbound
   winner shuts the outbound connector down; the connector is forgotten; brokers[peer] := c; waiters fire *)
Definition attach (x : tubname) (c : nat) (s : state) : state :=
  let k := conns s c in
  let t := tubof x s in
  let s1 := if tub_eqb (c_client k) x then map_conns (cancel x (c_gen k)) s
            else match t_connector t with Some g' => map_conns (cancel x g') s | None => s end in
  let t1 := tubof x s1 in
  set_tub x (fire (now s) true (set_bcreated (now s) (set_broker (Some c) (set_connector None t1)))) s1.

(* Broker.shutdown of x's current broker (if any): detached at once, loseConnection *)
Definition drop_existing (x : tubname) (s : state) : state :=
  match t_broker (tubof x s) with
  | Some e => set_tub x (set_broker None (tubof x s)) (set_conns (upd (conns s) e (lose x (conns s e))) s)
  | None => s
  end.

(* connectionLost delivered at x's end of c (`pre` = what happens to the queues in the same step) *)
Definition conn_lost (x : tubname) (c : nat) (pre : conn -> conn) (s : state) : state :=
  let k := pre (conns s c) in
  let s1 := set_conns (upd (conns s) c (set_end x ELost k)) s in
  match cend x k with
  | EBrk => match t_broker (tubof x s1) with
            | Some b => if Nat.eqb b c then set_tub x (set_broker None (tubof x s1)) s1 else s1
            | None => s1 end
  | ENeg | EDec | ECloNeg => if tub_eqb (c_client k) x then connector_failed x (c_gen k) s1 else s1
  | _ => s1
  end.

Definition pop_ms (k : conn) : conn := mkconn (c_client k) (c_gen k) (c_m k) (c_s k) (tl (c_qms k)) (c_qsm k) (c_cut k).
Definition pop_sm (k : conn) : conn := mkconn (c_client k) (c_gen k) (c_m k) (c_s k) (c_qms k) (tl (c_qsm k)) (c_cut k).

(* the master accepts the offer on c: bump the seqnum, send the decision, become a Broker *)
Definition master_accept (c : nat) (inc : Z) (s : state) : state :=
  let t := tm s in
  let seq := (t_master t + seqnum_step)%Z in
  let k := conns s c in
  let k1 := set_end TM EBrk (enq TM (Decision (t_inc t) seq) k) in
  attach TM c (set_tub TM (set_accept inc seq t) (set_conns (upd (conns s) c k1) s)).

(* the master refuses: error block, hang up *)
Definition master_reject (c : nat) (s : state) : state :=
  set_conns (upd (conns s) c (lose TM (enq TM ErrorBlk (conns s c)))) s.

(* a block travelling S -> M on c is delivered *)
Definition deliver_m (c : nat) (s : state) : state :=
  let k := conns s c in
  match c_qsm k with
  | [] => s
  | m :: _ =>
    let s0 := set_conns (upd (conns s) c (pop_sm k)) s in
    match m with
    | Fin => match c_m k with ELost => s0 | _ => conn_lost TM c pop_sm s end
    | Hello inc last =>
      match c_m k with
      | ENeg =>
        match t_broker (tm s0) with
        | None => master_accept c inc s0
        | Some _ =>
          match compare_offer (Some inc) last (t_bir (tm s0)) (t_bseq (tm s0)) (t_inc (tm s0)) (ho s0)
                              (now s0 - t_bcreated (tm s0)) with
          | Ok true => master_accept c inc (drop_existing TM s0)
          | _ => master_reject c s0
          end
        end
      | _ => s0
      end
    | _ => match c_m k with
           | ENeg => set_conns (upd (conns s) c (lose TM (pop_sm k))) s
           | _ => s0 end
    end
  end.

(* a block travelling M -> S on c is delivered *)
Definition deliver_s (c : nat) (s : state) : state :=
  let k := conns s c in
  match c_qms k with
  | [] => s
  | m :: _ =>
    let s0 := set_conns (upd (conns s) c (pop_ms k)) s in
    match m with
    | Fin => match c_s k with ELost => s0 | _ => conn_lost TS c pop_ms s end
    | Hello _ _ =>
      match c_s k with
      | ENeg => set_conns (upd (conns s) c (set_end TS EDec (pop_ms k))) s
      | EDec => set_conns (upd (conns s) c (lose TS (pop_ms k))) s
      | _ => s0
      end
    | Decision inc seq =>
      match c_s k with
      | EDec =>
        let s1 := drop_existing TS s in
        let t := ts s1 in
        let rec_ := if slave_table_recorded_always || tub_eqb (c_client k) TS then Some (inc, seq) else t_slave t in
        attach TS c (set_tub TS (set_slave rec_ t) (set_conns (upd (conns s1) c (set_end TS EBrk (pop_ms (conns s1 c)))) s1))
      | ENeg => set_conns (upd (conns s) c (lose TS (pop_ms k))) s
      | _ => s0
      end
    | ErrorBlk =>
      match c_s k with
      | ENeg | EDec => set_conns (upd (conns s) c (lose TS (pop_ms k))) s
      | _ => s0
      end
    end
  end.

(* x's end still owes a connectionLost: it called loseConnection, or the link was cut *)
Definition close_pending (x : tubname) (k : conn) : bool :=
  match cend x k with
  | ECloNeg | ECloBrk => true
  | ELost => false
  | _ => c_cut k
  end.

Definition do_closeseen (c : nat) (x : tubname) (s : state) : state :=
  if close_pending x (conns s c) then conn_lost x c (fun k => k) s else s.

Definition cut_conn (k : conn) : conn := mkconn (c_client k) (c_gen k) (c_m k) (c_s k) [] [] true.
Definition do_cut (c : nat) (s : state) : state := set_conns (upd (conns s) c (cut_conn (conns s c))) s.

(* the process of x dies and a fresh Tub with the same certificate starts *)
Definition kill (x : tubname) (k : conn) : conn := set_end x ELost (cut_conn k).
Definition do_restart (x : tubname) (s : state) : state :=
  let t := tubof x s in
  set_tub x (new_tub (t_inc t + 1) (t_gen t)) (map_conns (kill x) s).

(* TubConnector.connectionTimedOut: shutdown() then failed() *)
Definition do_timeout (x : tubname) (s : state) : state :=
  match t_connector (tubof x s) with
  | None => s
  | Some g => let s1 := map_conns (cancel x g) s in set_tub x (connector_gone (now s1) (tubof x s1)) s1
  end.

(* ---- virtual time *)
Definition server_of (k : conn) : tubname := match c_client k with TM => TS | TS => TM end.
(* the listening end's negotiation timer is armed while that end negotiates (stopped by switchToBanana / negotiationFailed) *)
Definition srv_armed (k : conn) : bool := negotiating (cend (server_of k) k).
(* Negotiation.negotiationTimedOut: transport.loseConnection() *)
Definition srv_expire (n d : Z) (k : conn) : conn :=
  if srv_armed k && (d <=? n)%Z then lose (server_of k) k else k.
Definition expired (x : tubname) (s : state) : bool :=
  match t_connector (tubof x s) with Some _ => (t_deadline (tubof x s) <=? now s)%Z | None => false end.
(* time does not pass beyond an armed timer without that timer firing: the earliest armed deadline not after n0 *)
Definition next_time (s : state) (n0 : Z) : Z :=
  let n1 := match t_connector (tm s) with Some _ => Z.min n0 (t_deadline (tm s)) | None => n0 end in
  let n2 := match t_connector (ts s) with Some _ => Z.min n1 (t_deadline (ts s)) | None => n1 end in
  fold_left (fun n i => if srv_armed (conns s i) && (now s <? sdl s i)%Z then Z.min n (sdl s i) else n) (seq 0 (nconn s)) n2.
Definition do_advance (dt : Z) (s : state) : state :=
  let n := Z.max (now s) (next_time s (now s + Z.max dt 0)) in
  let s1 := set_now n s in
  let s2 := set_conns (fun i => srv_expire n (sdl s i) (conns s i)) s1 in
  let s3 := if expired TM s2 then do_timeout TM s2 else s2 in
  if expired TS s3 then do_timeout TS s3 else s3.

Inductive op :=
| GetRef (x : tubname) | DialHint (x : tubname)
| Deliver (c : nat) (to : tubname) | CloseSeen (c : nat) (x : tubname) | Cut (c : nat)
| Restart (x : tubname) | Timeout (x : tubname) | ArmRetry (x : tubname)
| Advance (dt : Z) | SetHandleOld (o : option Z).

Definition step (s : state) (o : op) : state :=
  match o with
  | GetRef x => do_getref x s
  | DialHint x => do_dial x s
  | Deliver c TM => if Nat.ltb c (nconn s) then deliver_m c s else s
  | Deliver c TS => if Nat.ltb c (nconn s) then deliver_s c s else s
  | CloseSeen c x => if Nat.ltb c (nconn s) then do_closeseen c x s else s
  | Cut c => if Nat.ltb c (nconn s) then do_cut c s else s
  | Restart x => do_restart x s
  | Timeout x => do_timeout x s
  | ArmRetry x => set_tub x (set_retry true (tubof x s)) s
  | Advance dt => do_advance dt s
  | SetHandleOld o => set_ho o s
  end.

Definition run (ops : list op) : state := fold_left step ops init.

(* ---- a lookup whose TubConnector fails SYNCHRONOUSLY, inside getBrokerForTubRef: no usable location hint (none at
   all, unknown type, malformed, the handler raises: NoLocationHintsError) or every endpoint refuses at once.
   With a Broker or a live connector the hints are not even looked at: an ordinary lookup.  Otherwise the connector is
   created, REGISTERED, connect() arms its timer, finds nothing to wait for (checkForFailure) and calls failed():
   the timer is stopped and Tub.connectionFailed runs -- exactly the forced firing of the timer, with nothing
   dialled in between.  It is therefore a derived operation: a schedule of the model. *)
Definition nohints_ops (x : tubname) (s : state) : list op :=
  match t_broker (tubof x s), t_connector (tubof x s) with
  | None, None => [GetRef x; Timeout x]
  | _, _ => [GetRef x]
  end.
(* schedule elements as the harness writes them: a model operation, or such a lookup *)
Inductive hop := Plain (o : op) | GetRefNoHints (x : tubname).
Definition hstep (s : state) (h : hop) : state :=
  match h with Plain o => step s o | GetRefNoHints x => fold_left step (nohints_ops x s) s end.
Definition hrun (hs : list hop) : state := fold_left hstep hs init.

(* nothing in flight, every close seen by both ends *)
Definition quiet_conn (k : conn) : bool :=
  match c_qms k, c_qsm k with
  | [], [] => negb (close_pending TM k) && negb (close_pending TS k)
  | _, _ => false
  end.
Definition quiescent (s : state) : Prop := forall i, quiet_conn (conns s i) = true.

(* ---- observation codes for the correspondence with the real Tubs *)
Definition est_code (e : est) : Z :=
  match e with ENeg => 0 | EDec => 1 | EBrk => 2 | ECloNeg => 3 | ECloBrk => 4 | ELost => 5 end%Z.
Definition msg_code (m : msg) : Z := match m with Hello _ _ => 1 | Decision _ _ => 2 | ErrorBlk => 3 | Fin => 4 end%Z.
Definition optnat_code (o : option nat) : Z := match o with Some n => Z.of_nat n | None => (-1)%Z end.
Definition fired_obs (r : fired_rec) : list Z := [Z.of_nat (f_id r); f_reg r; f_at r; (if f_ok r then 1 else 0)%Z].
Definition tub_obs (t : tub) : list Z :=
  [optnat_code (t_broker t); t_master t;
   match t_slave t with Some (i, _) => i | None => (-1)%Z end; match t_slave t with Some (_, q) => q | None => (-1)%Z end;
   (match t_connector t with Some _ => 1 | None => 0 end)%Z;
   (match t_connector t with Some _ => t_deadline t | None => (-1)%Z end);
   (match t_broker t with Some _ => t_bcreated t | None => (-1)%Z end);
   (if t_retry t then 1 else 0)%Z]
  ++ flat_map (fun w => [Z.of_nat (fst w); snd w]) (t_waiters t) ++ [(-7)%Z] ++ flat_map fired_obs (t_fired t).
Definition conn_obs (k : conn) : list Z :=
  [(match c_client k with TM => 0 | TS => 1 end)%Z; est_code (c_m k); est_code (c_s k); (if c_cut k then 1 else 0)%Z]
  ++ map msg_code (c_qms k) ++ [9%Z] ++ map msg_code (c_qsm k).
Definition obs (s : state) : list (list Z) :=
  [now s] :: tub_obs (tm s) :: tub_obs (ts s) :: map (fun i => conn_obs (conns s i)) (seq 0 (nconn s)).
Fixpoint trace (s : state) (ops : list op) : list (list (list Z)) :=
  match ops with [] => [] | o :: r => let s' := step s o in obs s' :: trace s' r end.
