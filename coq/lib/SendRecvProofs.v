(* C10: Send.v composed with the C07 receiver (BananaRecv): proofs *)
From Coq Require Import ZArith List Bool Lia.
Import ListNotations.
Require Import Verif.lib.PyLite Verif.gen.SendGen Verif.lib.Send Verif.lib.SendProofs Verif.gen.BananaGen Verif.lib.SendRecv.
Require Verif.lib.Recv Verif.lib.BananaRecv Verif.lib.BananaRecvProofs Verif.lib.BananaRecvCount.
Local Open Scope Z_scope.

Module BR := Verif.lib.BananaRecv.
Module BP := Verif.lib.BananaRecvProofs.
Module BC := Verif.lib.BananaRecvCount.

Lemma zdep_app a b : zdep (a ++ b) = zdep a + zdep b.
Proof. induction a as [|t a IH]; [reflexivity|]. destruct t; cbn [app zdep]; rewrite IH; lia. Qed.

Lemma nopens_app a b : nopens (a ++ b) = nopens a + nopens b.
Proof. induction a as [|t a IH]; [reflexivity|]. destruct t; cbn [app nopens]; rewrite IH; lia. Qed.

Lemma zdep_unwind st : zdep (unwind_all st) = - Z.of_nat (List.length st).
Proof.
  induction st as [|a st IH]; [reflexivity|].
  change (unwind_all (a :: st)) with ([TAbort a; TClose a] ++ unwind_all st). cbn [app zdep List.length].
  rewrite IH. lia.
Qed.

Lemma nopens_unwind st : nopens (unwind_all st) = 0.
Proof.
  induction st as [|a st IH]; [reflexivity|].
  change (unwind_all (a :: st)) with ([TAbort a; TClose a] ++ unwind_all st). cbn [app nopens]. exact IH.
Qed.

(* the sender's view: nesting of what was written = its slicer stack; OPENs written = advance of openCount *)
Definition SInv (c0 : Z) (s : sstate) : Prop :=
  zdep (out s) = Z.of_nat (List.length (stack s)) /\ cnt s = c0 + open_counter_step * nopens (out s).

Lemma violation_sinv c0 f1 f2 s : SInv c0 s -> SInv c0 (violation f1 f2 s).
Proof.
  intros [D N]. unfold SInv, violation. destruct (stack s) as [|id r] eqn:E; cbn [out stack cnt List.length].
  - split; [exact D|exact N].
  - rewrite !zdep_app, !nopens_app, D. cbn [List.length]. split.
    + destruct f1, f2; cbn [app zdep]; rewrite zdep_unwind; cbn [List.length]; lia.
    + destruct f1, f2; cbn [app nopens]; rewrite nopens_unwind; lia.
Qed.

Lemma step_sinv c0 s e : SInv c0 s -> SInv c0 (step s e).
Proof.
  intros I. pose proof I as [D N]. unfold step. destruct (up s); cbn [negb]; [|exact I].
  destruct e.
  - destruct (stack s) eqn:E; unfold SInv; cbn [out stack cnt]; rewrite zdep_app, nopens_app, ?E; cbn [zdep nopens]; split; lia.
  - unfold SInv. cbn [out stack cnt List.length]. rewrite zdep_app, nopens_app. cbn [zdep nopens]. split; lia.
  - apply violation_sinv. exact I.
  - destruct (stack s) as [|a [|b l]] eqn:E; unfold SInv; cbn [out stack cnt List.length];
      rewrite ?zdep_app, ?nopens_app, ?E; cbn [zdep nopens List.length] in *; split; lia.
  - destruct (stack s) eqn:E; [unfold crash, SInv; cbn [out stack cnt]; rewrite E; split; [exact D|exact N]|].
    apply violation_sinv. exact I.
  - unfold crash, SInv. cbn [out stack cnt]. split; [exact D|exact N].
Qed.

Lemma run_sinv c0 evs : forall s, SInv c0 s -> SInv c0 (run s evs).
Proof.
  induction evs as [|e evs IH]; intros s H; [exact H|]. cbn [run fold_left]. fold (run (step s e) evs).
  apply IH. apply step_sinv. exact H.
Qed.

Lemma sinv_init c : SInv c (init c).
Proof. split; cbn; lia. Qed.

(* wire view of the same two quantities *)
Lemma tok_delta_payload t : is_payload t = true -> BR.tok_delta (fst (fst t)) = 0.
Proof.
  destruct t as [[ty h] b]. cbn [is_payload fst]. intros H. apply andb_true_iff in H as [H1 H2].
  unfold BR.tok_delta. apply negb_true_iff in H1, H2. rewrite H1, H2. reflexivity.
Qed.

Lemma is_open_payload t : is_payload t = true -> BC.is_open (fst (fst t)) = 0.
Proof.
  destruct t as [[ty h] b]. cbn [is_payload fst]. intros H. apply andb_true_iff in H as [H1 _].
  unfold BC.is_open. apply negb_true_iff in H1. rewrite H1. reflexivity.
Qed.

Lemma delta_sum_cons ty h b r : BP.delta_sum ((ty, h, b) :: r) = BR.tok_delta ty + BP.delta_sum r.
Proof. reflexivity. Qed.

Lemma count_opens_cons ty h b r : BC.count_opens ((ty, h, b) :: r) = BC.is_open ty + BC.count_opens r.
Proof. reflexivity. Qed.

Lemma delta_sum_enc pay ts : (forall z, is_payload (pay z) = true) -> BP.delta_sum (map (enc pay) ts) = zdep ts.
Proof.
  intros P. induction ts as [|t ts IH]; [reflexivity|]. destruct t; cbn [map enc zdep].
  - rewrite delta_sum_cons, IH. reflexivity.
  - rewrite delta_sum_cons, IH. reflexivity.
  - rewrite delta_sum_cons, IH. reflexivity.
  - pose proof (tok_delta_payload (pay z) (P z)) as H. destruct (pay z) as [[ty h] b]. cbn [fst] in H.
    rewrite delta_sum_cons, H, IH. lia.
Qed.

Lemma count_opens_enc pay ts : (forall z, is_payload (pay z) = true) -> BC.count_opens (map (enc pay) ts) = nopens ts.
Proof.
  intros P. induction ts as [|t ts IH]; [reflexivity|]. destruct t; cbn [map enc nopens].
  - rewrite count_opens_cons, IH. reflexivity.
  - rewrite count_opens_cons, IH. reflexivity.
  - rewrite count_opens_cons, IH. reflexivity.
  - pose proof (is_open_payload (pay z) (P z)) as H. destruct (pay z) as [[ty h] b]. cbn [fst] in H.
    rewrite count_opens_cons, H, IH. lia.
Qed.

(* ---- C10_real_receiver_in_step.  For EVERY sequence of slicer behaviours on the sending side (any trees, any number of
   Violations at any depth), every wire form of the primitive tokens, every policy of the receiving root and every
   vocabulary -- hence every pattern of Violations raised by the receiving unslicers (doOpen, checkToken, receiveChild,
   receiveClose, finish: which ones fire is decided by the payload and the modes) -- as long as the receiving Banana has not
   dropped the connection: its nesting (discardCount + unslicers above the root + a pending index phase) is the sender's
   slicer stack depth, its objectCounter has advanced by exactly the sender's openCount advance, and whenever the sender
   is back at its RootSlicer the receiver is back at top level: discardCount = 0, only the root unslicer on the stack, no
   index phase pending -- the next call is received by a receiver in the state a fault-free history would have left. *)
Theorem real_receiver_in_step c evs mode voc pay c' es :
  (forall z, is_payload (pay z) = true) ->
  let s := run (init c) evs in
  received mode voc pay s = BR.Ok' c' es ->
  BR.open_depth c' = Z.of_nat (List.length (stack s)) /\
  open_counter_step * BR.objctr c' = cnt s - c /\
  (stack s = [] -> BR.at_top c') /\
  BR.rootmode c' = mode /\ BR.vocab c' = voc.
Proof.
  intros P s R. unfold received in R.
  destruct (run_sinv c evs (init c) (sinv_init c)) as [D N]. fold s in D, N.
  destruct (BP.apply_all_depth _ _ _ _ (BP.ctx0_wf mode voc) R) as (W & M & V & OD).
  rewrite (delta_sum_enc pay _ P), D in OD. change (BR.open_depth (BR.ctx0 mode voc)) with 0 in OD.
  pose proof (BC.apply_all_objctr _ _ _ _ R) as OC. rewrite (count_opens_enc pay _ P) in OC. cbn [BR.ctx0 BR.objctr] in OC.
  split; [lia|]. split; [rewrite OC; lia|]. split; [|split; [exact M|exact V]].
  intros K. apply BP.depth_zero_top; [exact W|]. rewrite OD, K. reflexivity.
Qed.

(* ---- C10_sibling_after_any_history (receiver of C07).  A further top-level object -- fault-free or not -- written after
   ANY history that left the RootSlicer in charge is processed by a receiver that is at top level; and after it, if the
   connection is still there, the receiver is at top level again.  So the receiver's treatment of a sibling can depend on
   the history only through the counters (objectCounter / inboundObjectCount / inboundOpenCount) and the last opentype. *)
Theorem sibling_after_any_history c pre more mode voc pay c2 es2 :
  (forall z, is_payload (pay z) = true) ->
  stack (run (init c) pre) = [] -> stack (run (init c) (pre ++ more)) = [] ->
  received mode voc pay (run (init c) (pre ++ more)) = BR.Ok' c2 es2 ->
  BR.at_top c2 /\
  exists c1 es1 es', received mode voc pay (run (init c) pre) = BR.Ok' c1 es1 /\ BR.at_top c1 /\
                     es2 = es1 ++ es' /\
                     open_counter_step * (BR.objctr c2 - BR.objctr c1) = cnt (run (init c) (pre ++ more)) - cnt (run (init c) pre).
Proof.
  intros P K1 K2 R.
  destruct (real_receiver_in_step c (pre ++ more) mode voc pay c2 es2 P R) as (_ & O2 & T2 & _).
  split; [exact (T2 K2)|].
  (* what was written up to `pre` is a prefix of what was written up to `pre ++ more` *)
  assert (PX : forall evs s, exists o', out (run s evs) = out s ++ o').
  { induction evs as [|e evs IH]; intros s0; [exists []; rewrite app_nil_r; reflexivity|].
    cbn [run fold_left]. fold (run (step s0 e) evs). destruct (IH (step s0 e)) as [o2 E2].
    assert (exists o1, out (step s0 e) = out s0 ++ o1) as [o1 E1].
    { assert (NIL : exists o1, out s0 = out s0 ++ o1) by (exists []; rewrite app_nil_r; reflexivity).
      assert (VI : forall f1 f2, exists o1, out (violation f1 f2 s0) = out s0 ++ o1).
      { intros f1 f2. unfold violation. destruct (stack s0); cbn [out]; [exact NIL|eauto]. }
      unfold step. destruct (up s0); cbn [negb]; [|exact NIL].
      destruct e.
      - destruct (stack s0); cbn [out]; eauto.
      - cbn [out]. eauto.
      - apply VI.
      - destruct (stack s0) as [|a [|b l]]; cbn [out]; eauto.
      - destruct (stack s0); [exact NIL|apply VI].
      - exact NIL. }
    exists (o1 ++ o2). rewrite E2, E1, app_assoc. reflexivity. }
  rewrite run_app in R. destruct (PX more (run (init c) pre)) as [o' E]. unfold received in R. rewrite E, map_app in R.
  assert (SP : forall a b c0 cz ez, BR.apply_all c0 (a ++ b) = BR.Ok' cz ez ->
               exists c1 e1 e2, BR.apply_all c0 a = BR.Ok' c1 e1 /\ BR.apply_all c1 b = BR.Ok' cz e2 /\ ez = e1 ++ e2).
  { induction a as [|[[ty h] bd] a IH]; intros b c0 cz ez H.
    - exists c0, [], ez. cbn. auto.
    - cbn [app BR.apply_all] in *. destruct (BR.tok_apply c0 ty h bd) as [c1 e1|] eqn:E1; [|discriminate].
      destruct (BR.apply_all c1 (a ++ b)) as [cy ey|] eqn:E2; [|discriminate]. inversion H; subst.
      destruct (IH _ _ _ _ E2) as (c3 & e3 & e4 & A1 & A2 & A3). rewrite A1. exists c3, (e1 ++ e3), e4.
      split; [reflexivity|]. split; [exact A2|]. rewrite A3, app_assoc. reflexivity. }
  destruct (SP _ _ _ _ _ R) as (c1 & e1 & e2 & R1 & _ & EE).
  destruct (real_receiver_in_step c pre mode voc pay c1 e1 P R1) as (_ & O1 & T1 & _).
  exists c1, e1, e2. split; [exact R1|]. split; [exact (T1 K1)|]. split; [exact EE|].
  rewrite Z.mul_sub_distr_l. lia.
Qed.

(* non-vacuity: the receiving root accepts only ints (mode 1): the first object's string is a Violation in the index
   phase, the second object is an aborted one; afterwards the receiver is at top level with both OPENs counted *)
Example ex_real_receiver :
  let pay := fun z : Z => if z =? 0 then (tok_STRING, 1, [76]) else (tok_INT, z, []) in
  let s := run (init 0) (events_of_top (Sub [Tok 0; Tok 5]) ++ events_of_top (Sub [Tok 0; Sub [Tok 0; Unsendable]])) in
  (forall z, is_payload (pay z) = true) /\ stack s = [] /\
  exists c' es, received 1 [] pay s = BR.Ok' c' es /\ BR.discard c' = 0 /\ BR.objctr c' = 3 /\ List.length (BR.stack c') = 1%nat.
Proof.
  split; [intros z; cbn; destruct (z =? 0); reflexivity|]. split; [reflexivity|].
  eexists _, _. split; [vm_compute; reflexivity|]. cbn. auto.
Qed.
