(* C10: UTF-8 as used by call.py's `truncate`: text is a list of code points, `utf8` is str.encode("utf-8"),
   `utf8_decode_ignore` is bytes.decode("utf-8", "ignore") followed by re-encoding (the model keeps every text in its
   encoded form).  Definitions only; the lemmas are in FailureProofs.v.
   The decoder is exact on every prefix of a well-formed encoding (which is proved to be the only kind of input
   `truncate` gives it); on ill-formed input it drops bytes like "ignore" does but does not claim to drop the same ones. *)
From Coq Require Import ZArith List Bool.
Import ListNotations.
Local Open Scope Z_scope.

(* Unicode scalar value: what a Python str element must be for .encode("utf-8") to succeed *)
Definition scalarb (c : Z) : bool :=
  (0 <=? c) && (c <? 1114112) && negb ((55296 <=? c) && (c <? 57344)).

Definition enc1 (c : Z) : list Z :=
  if c <? 128 then [c]
  else if c <? 2048 then [192 + c / 64; 128 + c mod 64]
  else if c <? 65536 then [224 + c / 4096; 128 + (c / 64) mod 64; 128 + c mod 64]
  else [240 + c / 262144; 128 + (c / 4096) mod 64; 128 + (c / 64) mod 64; 128 + c mod 64].

Definition utf8 (cps : list Z) : list Z := flat_map enc1 cps.

Definition is_cont (b : Z) : bool := (128 <=? b) && (b <? 192).

(* byte-at-a-time decoder; `pend` = bytes of the sequence being read, `need` = continuation bytes still expected.
   A sequence that is still incomplete when the input ends is dropped. *)
Fixpoint dec (pend : list Z) (need : nat) (l : list Z) {struct l} : list Z :=
  match l with
  | [] => []
  | b :: l' =>
    match need with
    | O => if b <? 128 then b :: dec [] 0 l'
           else if (194 <=? b) && (b <? 224) then dec [b] 1 l'
           else if (224 <=? b) && (b <? 240) then dec [b] 2 l'
           else if (240 <=? b) && (b <? 245) then dec [b] 3 l'
           else dec [] 0 l'
    | S n => if is_cont b
             then match n with
                  | O => (pend ++ [b]) ++ dec [] 0 l'
                  | S _ => dec (pend ++ [b]) n l'
                  end
             else dec [] 0 l'
    end
  end.

Definition utf8_decode_ignore (l : list Z) : list Z := dec [] 0 l.

(* str.encode("utf-8", "backslashreplace"): a code point that UTF-8 cannot encode (in a Python str: a lone surrogate
   U+D800..U+DFFF) is replaced by the six ASCII characters \udXXX (lower-case hex); `escape` is that replacement on
   the text, so that the encoded form is utf8 (escape t) *)
Definition hexdigit (d : Z) : Z := if d <? 10 then 48 + d else 87 + d.

Definition esc1 (c : Z) : list Z :=
  if scalarb c then [c]
  else [92; 117; hexdigit ((c / 4096) mod 16); hexdigit ((c / 256) mod 16); hexdigit ((c / 16) mod 16); hexdigit (c mod 16)].

Definition escape (t : list Z) : list Z := flat_map esc1 t.

(* the longest prefix of whole characters whose encoding fits in n bytes *)
Fixpoint take_fit (n : nat) (cps : list Z) : list Z :=
  match cps with
  | [] => []
  | c :: r => let k := List.length (enc1 c) in
              if (k <=? n)%nat then c :: take_fit (n - k) r else []
  end.
