(* Abandoned or abstained: every fatal result of the receive logic of lib/Unsl.v ends with `ufatal k` for some code k -- the
   exception handler of dataReceived for an exception kind, or the abstention marker for the two reserved codes.  Hence a fatal
   result in which the model did NOT abstain is a real abandonment: the ERROR token was sent and the connection was closed.
   (For every unslicer semantics whose own events carry no abstention marker in a run that ends otherwise.) *)
From Coq Require Import ZArith List Bool Lia.
Import ListNotations.
Require Import Verif.lib.PyLite Verif.gen.BananaGen Verif.gen.RecvGen Verif.lib.Token Verif.lib.Recv Verif.lib.RecvProofs Verif.lib.Unsl Verif.lib.UnslProofs.
Local Open Scope Z_scope.

Definition fshape (es : list uevent) : Prop := exists pre k, es = pre ++ ufatal k.

Lemma fshape_ufatal k : fshape (ufatal k).
Proof. exists [], k. reflexivity. Qed.

Lemma fshape_app a b : fshape b -> fshape (a ++ b).
Proof. intros (pre & k & ->). exists (a ++ pre), k. rewrite app_assoc. reflexivity. Qed.

Lemma abstained_app a b : abstained (a ++ b) = abstained a || abstained b.
Proof. unfold abstained. apply existsb_app. Qed.

(* a fatal event list without the abstention marker contains the ERROR token and the loseConnection *)
Lemma fshape_abandoned es : fshape es -> abstained es = false -> In UErrorSent es /\ In ULose es.
Proof.
  intros (pre & k & ->) A. rewrite abstained_app in A. apply orb_false_iff in A as [_ A].
  destruct (abstain_code k) eqn:K.
  - rewrite (ufatal_abstains k K) in A. discriminate.
  - destruct (ufatal_closes k K) as [L E]. split; apply in_or_app; right; assumption.
Qed.

Section Abandon.
Variable fr : Type.
Variable u_check : fr -> Z -> Z -> oc unit.
Variable u_opener_check : list fr -> Z -> Z -> list (list Z) -> oc unit.
Variable u_do_open : list fr -> list (list Z) -> oc (option fr).
Variable u_start : fr -> Z -> oc fr.
Variable u_child : fr -> uval -> list uevent * oc fr.
Variable u_close : fr -> oc uval.
Variable u_finish : fr -> oc unit.
Variable u_report : fr -> option (list uevent).

Notation uctx := (uctx fr).
Notation uhv_loop := (uhv_loop fr u_finish u_report).
Notation uhandle_violation := (uhandle_violation fr u_finish u_report).
Notation uhandle_token := (uhandle_token fr u_child u_finish u_report).
Notation uhandle_close := (uhandle_close fr u_child u_close u_finish u_report).
Notation uhandle_open := (uhandle_open fr u_do_open u_start u_finish u_report).
Notation udeliver := (udeliver fr u_do_open u_start u_child u_finish u_report).
Notation utaste := (utaste fr u_check u_opener_check).
Notation ubegin_body := (ubegin_body fr u_check u_opener_check u_finish u_report).
Notation ustep_nobody_hr := (ustep_nobody_hr fr u_check u_opener_check u_do_open u_start u_child u_close u_finish u_report).
Notation utok_apply := (utok_apply fr u_check u_opener_check u_do_open u_start u_child u_close u_finish u_report).
Notation uapply_all := (uapply_all fr u_check u_opener_check u_do_open u_start u_child u_close u_finish u_report).

Definition hr_shape (r : uhr fr) : Prop := match r with UOk _ _ _ => True | UFatal _ es => fshape es end.

Lemma upre_shape es r : hr_shape r -> hr_shape (upre fr es r).
Proof. destruct r; cbn; [auto|apply fshape_app]. Qed.

Lemma hv_loop_shape : forall st d ic, match uhv_loop st d ic with HvOk _ _ _ _ => True | HvFatal _ es => fshape es end.
Proof.
  induction st as [|top rest IH]; intros d ic; cbn [Unsl.uhv_loop]; [apply fshape_ufatal|].
  destruct (u_report (uf_st fr top)); [exact I|].
  destruct (u_finish (uf_st fr top)); try apply fshape_ufatal; (destruct rest; [apply fshape_ufatal|apply IH]).
Qed.

Lemma hv_shape c io ic : hr_shape (uhandle_violation c io ic).
Proof.
  unfold Unsl.uhandle_violation. pose proof (hv_loop_shape (u_stack fr c) (if io then u_discard fr c + 1 else u_discard fr c) ic) as H.
  destruct (uhv_loop _ _ _); exact H.
Qed.

Lemma token_shape c v : hr_shape (uhandle_token c v).
Proof.
  unfold Unsl.uhandle_token. destruct (u_stack fr c) as [|top rest]; [apply fshape_ufatal|].
  destruct (u_child (uf_st fr top) v) as [es r].
  destruct r; cbn [hr_shape]; try exact I; try (apply fshape_app; apply fshape_ufatal).
  apply upre_shape. apply hv_shape.
Qed.

Lemma close_shape c n : hr_shape (uhandle_close c n).
Proof.
  unfold Unsl.uhandle_close. destruct (u_stack fr c) as [|top rest]; [apply fshape_ufatal|].
  destruct (negb _); [apply fshape_ufatal|].
  destruct (u_close (uf_st fr top)); try apply fshape_ufatal; try apply hv_shape.
  destruct (u_finish (uf_st fr top)); try apply fshape_ufatal; try apply hv_shape. apply token_shape.
Qed.

Lemma open_shape c v : hr_shape (uhandle_open c v).
Proof.
  unfold Unsl.uhandle_open. cbv zeta. destruct v; try apply fshape_ufatal.
  destruct (negb _); [apply (fshape_ufatal 98)|]. destruct (u_stack fr c) eqn:Es; [apply fshape_ufatal|].
  destruct (u_do_open _ _) as [[child|]| | |]; try apply fshape_ufatal; try apply hv_shape; try exact I.
  destruct (u_start child _); try apply fshape_ufatal; try apply hv_shape. exact I.
Qed.

Lemma deliver_shape c v : hr_shape (udeliver c v).
Proof. unfold Unsl.udeliver. destruct (u_inOpen fr c); [apply open_shape|apply token_shape]. Qed.

Lemma step_nobody_shape c ty hdr : hr_shape (ustep_nobody_hr c ty hdr).
Proof.
  unfold Unsl.ustep_nobody_hr. destruct ((ty =? tok_OPEN) && u_inOpen fr c); [apply fshape_ufatal|].
  set (c1 := if ty =? tok_OPEN then _ else c).
  match goal with |- hr_shape (match ?T with TsFatal _ _ => _ | TsGo _ _ _ _ => _ end) => assert (HT : match T with TsFatal _ es => fshape es | TsGo _ _ _ _ => True end) end.
  { destruct (_ || _); [exact I|]. destruct (utaste c1 _ ty hdr); try apply fshape_ufatal; try exact I.
    pose proof (hv_shape c1 (u_inOpen fr c1) false) as H. destruct (uhandle_violation c1 _ _); exact H. }
  match goal with |- hr_shape (match ?T with TsFatal _ _ => _ | TsGo _ _ _ _ => _ end) => destruct T as [esf|c2 es2 rej] end; [exact HT|].
  destruct (ty =? tok_OPEN). { destruct rej; [destruct (u_inOpen fr _)|]; exact I. }
  destruct (ty =? tok_CLOSE). { destruct (hd_close_fatal _ _); [apply fshape_app; apply fshape_ufatal|]. destruct (0 <? _); [exact I|]. apply upre_shape; apply close_shape. }
  destruct (ty =? tok_ABORT).
  { destruct rej; [exact I|]. destruct hd_abort_in_index; apply upre_shape; [|apply hv_shape].
    pose proof (hv_shape c2 (u_inOpen fr c2) false) as H. destruct (uhandle_violation c2 (u_inOpen fr c2) false); exact H. }
  destruct (ty =? tok_INT). { destruct rej; [exact I|]. apply upre_shape; apply deliver_shape. }
  destruct (ty =? tok_NEG). { destruct rej; [exact I|]. apply upre_shape; apply deliver_shape. }
  destruct (ty =? tok_VOCAB).
  { destruct (uvocab_get _ _); [|apply fshape_app; apply fshape_ufatal].
    destruct rej; [exact I|]. apply upre_shape; apply deliver_shape. }
  destruct (ty =? tok_PING); [exact I|].
  destruct (ty =? tok_PONG); [exact I|]. apply fshape_app; apply fshape_ufatal.
Qed.

Lemma tok_apply_shape c ty hdr body : hr_shape (utok_apply c ty hdr body).
Proof.
  unfold Unsl.utok_apply. destruct (has_body ty); [|apply step_nobody_shape].
  unfold Unsl.ubegin_body. destruct (0 <? _); [exact I|].
  destruct (utaste c _ ty hdr); try apply fshape_ufatal; try apply deliver_shape.
  pose proof (hv_shape c (u_inOpen fr c) false) as H. destruct (uhandle_violation c _ _); exact H.
Qed.

Lemma apply_all_shape ts : forall c, hr_shape (uapply_all c ts).
Proof.
  induction ts as [|[[ty hdr] body] ts IH]; intros c; cbn [Unsl.uapply_all]; [exact I|].
  pose proof (tok_apply_shape c ty hdr body) as H. destruct (utok_apply c ty hdr body) as [c' es|es]; [|exact H].
  apply upre_shape. apply IH.
Qed.

(* THE THREE-WAY READING IS SOUND: "abandoned" means abandoned -- whatever the unslicers are, a fatal result in which the model did
   not abstain has sent the ERROR token and closed the connection *)
Theorem unsl_abandoned_is_real c ts : match uview fr (uapply_all c ts) with
                                        | U3Abandoned _ es => In UErrorSent es /\ In ULose es
                                        | _ => True
                                        end.
Proof.
  pose proof (apply_all_shape ts c) as H. destruct (uapply_all c ts) as [c' es|es]; cbn [uview hr_shape] in *; [exact I|].
  destruct (abstained es) eqn:A; [exact I|]. apply (fshape_abandoned es H A).
Qed.

End Abandon.
