(* C14: the history invariant -- whenever both Tubs hold the same current connection, the non-master's slave_table
   record is exactly (master incarnation, seqnum of that connection); every decision in flight on the master's
   current connection names the master's current incarnation and seqnum.  For all schedules. *)
From Coq Require Import ZArith List Bool Arith Lia.
Import ListNotations.
Require Import Verif.lib.PyLite Verif.gen.ConvergeGen Verif.lib.Converge Verif.lib.ConvergeProofs.

Definition decs_ok (s : state) : Prop :=
  forall c i q, t_broker (tm s) = Some c -> In (Decision i q) (c_qms (conns s c)) -> i = t_inc (tm s) /\ q = t_bseq (tm s).
Definition rec_ok (s : state) : Prop :=
  forall c, t_broker (tm s) = Some c -> t_broker (ts s) = Some c -> t_slave (ts s) = Some (t_inc (tm s), t_bseq (tm s)).
Definition hist_inv (s : state) : Prop := decs_ok s /\ rec_ok s.

(* s' differs from s only in ways that cannot hurt: no Tub got a NEW current connection, no new decision is in flight *)
Definition frame (s s' : state) : Prop :=
  (t_broker (tm s') = None \/ (t_broker (tm s') = t_broker (tm s) /\ t_inc (tm s') = t_inc (tm s) /\ t_bseq (tm s') = t_bseq (tm s))) /\
  (t_broker (ts s') = None \/ (t_broker (ts s') = t_broker (ts s) /\ t_slave (ts s') = t_slave (ts s))) /\
  (forall c i q, In (Decision i q) (c_qms (conns s' c)) -> In (Decision i q) (c_qms (conns s c))).

Lemma frame_refl s : frame s s.
Proof. unfold frame. auto 10. Qed.
Lemma frame_trans s1 s2 s3 : frame s1 s2 -> frame s2 s3 -> frame s1 s3.
Proof.
  intros (A1 & A2 & A3) (B1 & B2 & B3). split; [|split].
  - destruct B1 as [B1|(B1 & B1' & B1'')]; [left; exact B1|]. destruct A1 as [A1|(A1 & A1' & A1'')]; [left; congruence|right].
    repeat split; congruence.
  - destruct B2 as [B2|(B2 & B2')]; [left; exact B2|]. destruct A2 as [A2|(A2 & A2')]; [left; congruence|right]. split; congruence.
  - intros c i q H. apply A3, B3, H.
Qed.
Lemma frame_inv s s' : frame s s' -> hist_inv s -> hist_inv s'.
Proof.
  intros (F1 & F2 & F3) [D R]. split.
  - intros c i q Eb Hin. destruct F1 as [F1|(F1 & F1' & F1'')]; [congruence|]. rewrite F1', F1''.
    apply (D c); [congruence|apply F3, Hin].
  - intros c Eb Es. destruct F1 as [F1|(F1 & F1' & F1'')]; [congruence|]. destruct F2 as [F2|(F2 & F2')]; [congruence|].
    rewrite F1', F1'', F2'. apply (R c); congruence.
Qed.

(* ---- connections: which transformers add no decision to the M -> S queue *)
Definition nd (f : conn -> conn) : Prop := forall k i q, In (Decision i q) (c_qms (f k)) -> In (Decision i q) (c_qms k).
Lemma qms_set_end x e k : c_qms (set_end x e k) = c_qms k.
Proof. destruct x; reflexivity. Qed.
Lemma in_dec_snoc i q (l : list msg) m : is_dec m = false -> In (Decision i q) (l ++ [m]) -> In (Decision i q) l.
Proof. intros Hm H. apply in_app_or in H as [H|[H|[]]]; [exact H|]. subst m. discriminate. Qed.
Lemma nd_enq x m : is_dec m = false -> nd (enq x m).
Proof.
  intros Hm k i q. unfold enq. destruct (c_cut k); [auto|]. destruct x; cbn [c_qms]; [apply in_dec_snoc, Hm|auto].
Qed.
Lemma nd_lose x : nd (lose x).
Proof.
  intros k i q. unfold lose. destruct (cend x k); try (intros H; exact H);
    intros H; apply (nd_enq x Fin eq_refl) in H; rewrite qms_set_end in H; exact H.
Qed.
Lemma nd_cancel x g : nd (cancel x g).
Proof. intros k i q. unfold cancel. destruct (_ && _ && _)%bool; [apply nd_lose|auto]. Qed.
Lemma nd_srv_expire n d : nd (srv_expire n d).
Proof. intros k i q. unfold srv_expire. destruct (_ && _)%bool; [apply nd_lose|auto]. Qed.
Lemma nd_pop_ms : nd pop_ms.
Proof. intros k i q. unfold pop_ms. cbn [c_qms]. destruct (c_qms k); cbn [tl]; [auto|intros H; right; exact H]. Qed.
Lemma nd_pop_sm : nd pop_sm.
Proof. intros k i q H. exact H. Qed.
Lemma nd_cut : nd cut_conn.
Proof. intros k i q []. Qed.
Lemma nd_kill x : nd (kill x).
Proof. intros k i q. unfold kill. rewrite qms_set_end. intros []. Qed.
Lemma nd_id : nd (fun k => k).
Proof. intros k i q H. exact H. Qed.
Lemma nd_comp f g : nd f -> nd g -> nd (fun k => f (g k)).
Proof. intros Hf Hg k i q H. apply Hg, Hf, H. Qed.
Lemma nd_set_end x e : nd (set_end x e).
Proof. intros k i q. rewrite qms_set_end. auto. Qed.

(* ---- Tubs: transformers that keep current connection, incarnation, seqnum and slave record *)
Definition core (t : tub) := (t_broker t, t_inc t, t_bseq t, t_slave t).
Lemma core_getref n t : core (getref_tub n t) = core t.
Proof. unfold getref_tub, core. destruct (t_broker t) eqn:E; [cbn; reflexivity|]. destruct (t_connector t); cbn; reflexivity. Qed.
Lemma core_gone n t : core (connector_gone n t) = core t.
Proof.
  unfold connector_gone, connection_failed_forgets_first, errback_all. cbn [set_connector t_broker].
  destruct (t_broker t) eqn:E; [unfold core; cbn; rewrite E; reflexivity|].
  match goal with |- context [if ?b then _ else _] => destruct b end; [rewrite core_getref|]; unfold core; cbn; rewrite ?E; reflexivity.
Qed.

Lemma frame_set_tub x t s : core t = core (tubof x s) -> frame s (set_tub x t s).
Proof.
  unfold core. intros E. inversion E as [[E1 E2 E3 E4]]. destruct x; cbn [tubof] in *; unfold frame; cbn [set_tub tm ts conns];
    (split; [|split]); auto.
Qed.
Lemma frame_nobroker x s : frame s (set_tub x (set_broker None (tubof x s)) s).
Proof. destruct x; unfold frame; cbn [set_tub set_broker tm ts conns t_broker]; (split; [|split]); auto. Qed.
Lemma frame_upd c k' s :
  (forall i q, In (Decision i q) (c_qms k') -> In (Decision i q) (c_qms (conns s c))) -> frame s (set_conns (upd (conns s) c k') s).
Proof.
  intros H. unfold frame. cbn [set_conns tm ts conns]. split; [auto|]. split; [auto|].
  intros j i q. unfold upd. destruct (Nat.eqb_spec j c); [subst; apply H|auto].
Qed.
Lemma frame_map f s : nd f -> frame s (map_conns f s).
Proof. intros H. unfold frame. cbn [map_conns set_conns tm ts conns]. split; [auto|]. split; [auto|]. intros c i q. apply H. Qed.

Lemma frame_connector_failed x g s : frame s (connector_failed x g s).
Proof.
  unfold connector_failed. destruct (t_connector (tubof x s)); [|apply frame_refl].
  destruct (_ && _)%bool; [|apply frame_refl]. apply frame_set_tub, core_gone.
Qed.

Lemma frame_conn_lost x c pre s : nd pre -> frame s (conn_lost x c pre s).
Proof.
  intros Hp. unfold conn_lost.
  set (s1 := set_conns (upd (conns s) c (set_end x ELost (pre (conns s c)))) s).
  assert (F1 : frame s s1).
  { apply frame_upd. intros i q H. rewrite qms_set_end in H. apply Hp, H. }
  destruct (cend x (pre (conns s c))); try exact F1;
    try (destruct (tub_eqb (c_client (pre (conns s c))) x); [eapply frame_trans; [exact F1|apply frame_connector_failed]|exact F1]).
  destruct (t_broker (tubof x s1)); [|exact F1]. destruct (Nat.eqb n c); [|exact F1].
  eapply frame_trans; [exact F1|apply frame_nobroker].
Qed.

Lemma frame_drop x s : frame s (drop_existing x s).
Proof.
  unfold drop_existing. destruct (t_broker (tubof x s)) as [e|]; [|apply frame_refl].
  eapply frame_trans; [apply (frame_upd e (lose x (conns s e)) s); intros i q; apply nd_lose|].
  match goal with |- frame ?s1 _ => apply (frame_nobroker x s1) end.
Qed.

Lemma frame_timeout x s : frame s (do_timeout x s).
Proof.
  unfold do_timeout. destruct (t_connector (tubof x s)) as [g|]; [|apply frame_refl].
  eapply frame_trans; [apply (frame_map (cancel x g)), nd_cancel|]. apply frame_set_tub, core_gone.
Qed.

(* ---- attach: the Tub gets c as its current connection; nothing else of the core changes; no decision is added *)
Lemma attach_facts x c s :
  let s' := attach x c s in
  t_broker (tubof x s') = Some c /\ t_inc (tubof x s') = t_inc (tubof x s) /\ t_bseq (tubof x s') = t_bseq (tubof x s) /\
  t_slave (tubof x s') = t_slave (tubof x s) /\
  (forall j i q, In (Decision i q) (c_qms (conns s' j)) -> In (Decision i q) (c_qms (conns s j))) /\
  match x with TM => ts s' = ts s | TS => tm s' = tm s end.
Proof.
  cbv zeta. unfold attach.
  assert (G : forall g, forall j i q, In (Decision i q) (c_qms (conns (map_conns (cancel x g) s) j)) -> In (Decision i q) (c_qms (conns s j))).
  { intros g j i q. cbn [map_conns set_conns conns]. apply nd_cancel. }
  destruct (tub_eqb (c_client (conns s c)) x).
  - rewrite tubof_set_tub. destruct x; cbn; repeat split; auto; apply G.
  - destruct (t_connector (tubof x s)) eqn:Ec.
    + rewrite tubof_set_tub. destruct x; cbn; repeat split; auto; apply G.
    + rewrite tubof_set_tub. destruct x; cbn; repeat split; auto.
Qed.

Lemma has_dec_in i q l : In (Decision i q) l -> has_dec l = true.
Proof. intros H. unfold has_dec. apply existsb_exists. exists (Decision i q). split; [exact H|reflexivity]. Qed.

(* the master accepts the offer on c (it has no current connection at that moment) *)
Lemma hist_master_accept c inc s :
  hist_inv s -> t_broker (tm s) = None -> has_dec (c_qms (conns s c)) = false -> t_broker (ts s) <> Some c ->
  hist_inv (master_accept c inc s).
Proof.
  intros [D R] Eb Hd Hs. unfold master_accept.
  match goal with |- hist_inv (attach TM c ?s') => set (s2 := s') end.
  destruct (attach_facts TM c s2) as (A1 & A2 & A3 & _ & A5 & A6). cbv zeta in *. cbn [tubof] in *.
  split.
  - intros c0 i q E0 Hin. rewrite A1 in E0. inversion E0; subst c0. rewrite A2, A3.
    apply A5 in Hin. cbn [s2 set_tub set_conns conns tm set_accept t_inc t_bseq] in *. rewrite upd_same in Hin.
    rewrite qms_set_end in Hin. unfold enq in Hin. destruct (c_cut (conns s c)).
    + apply has_dec_in in Hin. congruence.
    + cbn [c_qms] in Hin. apply in_app_or in Hin as [Hin|[Hin|[]]]; [apply has_dec_in in Hin; congruence|].
      inversion Hin; subst. split; reflexivity.
  - intros c0 E0 Es. rewrite A1 in E0. inversion E0; subst c0. rewrite A6 in Es. exfalso. apply Hs. exact Es.
Qed.

Lemma tm_drop_TS s : tm (drop_existing TS s) = tm s.
Proof. unfold drop_existing. cbn [tubof]. destruct (t_broker (ts s)); reflexivity. Qed.

Lemma hist_deliver_m c s : c < nconn s -> inv s -> hist_inv s -> hist_inv (deliver_m c s).
Proof.
  intros Hc HI HJ. unfold deliver_m. destruct (c_qsm (conns s c)) as [|m q] eqn:Eq; [exact HJ|].
  pose proof (proj1 HI c) as Gc.
  set (s0 := set_conns (upd (conns s) c (pop_sm (conns s c))) s).
  assert (F0 : frame s s0) by (apply frame_upd; intros i q0 H; exact H).
  assert (Fl : frame s (set_conns (upd (conns s) c (lose TM (pop_sm (conns s c)))) s)).
  { apply frame_upd. intros i q0 H. apply nd_lose in H. exact H. }
  destruct m as [inc last|a b| |].
  - destruct (c_m (conns s c)) eqn:Em; try (eapply frame_inv; [exact F0|exact HJ]).
    assert (J0 : hist_inv s0) by (eapply frame_inv; [exact F0|exact HJ]).
    assert (Hd : has_dec (c_qms (conns s c)) = false).
    { destruct (has_dec (c_qms (conns s c))) eqn:E; [|reflexivity]. exfalso.
      destruct Gc as (_ & _ & _ & G4 & _). apply (G4 E). exact Em. }
    assert (Hs : t_broker (ts s) <> Some c).
    { intros E. destruct Gc as (_ & G2 & G3 & _). apply (G3 (proj1 G2 E)). exact Em. }
    assert (E0c : c_qms (conns s0 c) = c_qms (conns s c)) by (cbn [s0 set_conns conns]; rewrite upd_same; reflexivity).
    destruct (t_broker (tm s0)) as [e|] eqn:Eb.
    + assert (Rj : hist_inv (master_reject c s0)).
      { eapply frame_inv; [|exact J0]. unfold master_reject. apply frame_upd. intros i q0 H.
        apply nd_lose in H. apply (nd_enq TM ErrorBlk eq_refl) in H. exact H. }
      match goal with |- context [compare_offer ?a1 ?a2 ?a3 ?a4 ?a5 ?a6 ?a7] =>
        destruct (compare_offer a1 a2 a3 a4 a5 a6 a7) as [[|]|] end; try exact Rj.
      assert (I0 : inv s0).
      { split; [|exact (proj2 HI)]. cbn [s0 set_conns tm ts conns]. apply invb_upd; [exact (proj1 HI)|].
        apply goodp_pop_sm; [exists (Hello inc last), q; split; [exact Eq|left; reflexivity]|exact Gc]. }
      pose proof (drop_existing_m s0 I0) as (D1 & D2 & D3 & D4 & D5 & D6). cbv zeta in *.
      assert (Ec : conns (drop_existing TM s0) c = conns s0 c).
      { apply D6. cbn [s0 set_conns conns]. rewrite upd_same. destruct (conns s c); cbn in *. rewrite Em. discriminate. }
      apply hist_master_accept; [eapply frame_inv; [apply frame_drop|exact J0]|exact D2|rewrite Ec, E0c; exact Hd|rewrite D3; exact Hs].
    + apply hist_master_accept; [exact J0|exact Eb|rewrite E0c; exact Hd|exact Hs].
  - destruct (c_m (conns s c)); try (eapply frame_inv; [exact F0|exact HJ]). eapply frame_inv; [exact Fl|exact HJ].
  - destruct (c_m (conns s c)); try (eapply frame_inv; [exact F0|exact HJ]). eapply frame_inv; [exact Fl|exact HJ].
  - destruct (c_m (conns s c)); try (eapply frame_inv; [apply frame_conn_lost, nd_pop_sm|exact HJ]).
    eapply frame_inv; [exact F0|exact HJ].
Qed.

Lemma hist_deliver_s c s : c < nconn s -> inv s -> hist_inv s -> hist_inv (deliver_s c s).
Proof.
  intros Hc HI HJ. unfold deliver_s. destruct (c_qms (conns s c)) as [|m q] eqn:Eq; [exact HJ|].
  assert (F0 : frame s (set_conns (upd (conns s) c (pop_ms (conns s c))) s)).
  { apply frame_upd. intros i q0 H. apply nd_pop_ms in H. exact H. }
  assert (Fl : frame s (set_conns (upd (conns s) c (lose TS (pop_ms (conns s c)))) s)).
  { apply frame_upd. intros i q0 H. apply nd_lose, nd_pop_ms in H. exact H. }
  destruct m as [inc last|inc seq| |].
  - destruct (c_s (conns s c)); try (eapply frame_inv; [exact F0|exact HJ]); [|eapply frame_inv; [exact Fl|exact HJ]].
    eapply frame_inv; [|exact HJ]. apply frame_upd. intros i q0 H. rewrite qms_set_end in H. apply nd_pop_ms in H. exact H.
  - destruct (c_s (conns s c)) eqn:Es; try (eapply frame_inv; [exact F0|exact HJ]); [eapply frame_inv; [exact Fl|exact HJ]|].
    (* the non-master accepts the decision *)
    set (s1 := drop_existing TS s).
    assert (J1 : hist_inv s1) by (eapply frame_inv; [apply frame_drop|exact HJ]).
    assert (F1 : frame s s1) by apply frame_drop.
    match goal with |- hist_inv (attach TS c ?s') => set (s2 := s') end.
    destruct (attach_facts TS c s2) as (A1 & _ & _ & A4 & A5 & A6). cbv zeta in *. cbn [tubof] in *.
    assert (Etm : tm s2 = tm s) by (cbn [s2 set_tub set_conns tm]; apply tm_drop_TS).
    destruct HJ as [D R]. split.
    + intros c0 i q0 E0 Hin. rewrite A6, Etm in *. apply (D c0); [exact E0|].
      apply A5 in Hin. destruct F1 as (_ & _ & F13). apply F13.
      cbn [s2 set_tub set_conns conns] in Hin. unfold upd in Hin. destruct (Nat.eqb_spec c0 c); [subst c0|exact Hin].
      rewrite qms_set_end in Hin. apply nd_pop_ms in Hin. exact Hin.
    + intros c0 E0 Es0. rewrite A1 in Es0. inversion Es0; subst c0. rewrite A4. rewrite A6, Etm in *.
      cbn [s2 set_tub set_conns ts set_slave t_slave]. unfold slave_table_recorded_always. cbn [orb].
      assert (Hd : In (Decision inc seq) (c_qms (conns s c))) by (rewrite Eq; left; reflexivity).
      destruct (D c inc seq E0 Hd) as [E1 E2]. rewrite E1, E2. reflexivity.
  - destruct (c_s (conns s c)); try (eapply frame_inv; [exact F0|exact HJ]); (eapply frame_inv; [exact Fl|exact HJ]).
  - destruct (c_s (conns s c)); try (eapply frame_inv; [apply frame_conn_lost, nd_pop_ms|exact HJ]).
    eapply frame_inv; [exact F0|exact HJ].
Qed.

Lemma frame_advance dt s : frame s (do_advance dt s).
Proof.
  unfold do_advance. set (n := Z.max _ _).
  set (s2 := set_conns (fun i => srv_expire n (sdl s i) (conns s i)) (set_now n s)).
  assert (F2 : frame s s2).
  { unfold frame. cbn [s2 set_conns set_now tm ts conns]. split; [auto|]. split; [auto|]. intros c i q. apply nd_srv_expire. }
  assert (F3 : frame s (if expired TM s2 then do_timeout TM s2 else s2)).
  { destruct (expired TM s2); [eapply frame_trans; [exact F2|apply frame_timeout]|exact F2]. }
  destruct (expired TS _); [eapply frame_trans; [exact F3|apply frame_timeout]|exact F3].
Qed.

Theorem step_hist s o : inv s -> hist_inv s -> hist_inv (step s o).
Proof.
  intros HI HJ. destruct o as [x|x|c to|c x|c|x|x|x|dt|o]; cbn [step].
  - eapply frame_inv; [|exact HJ]. unfold do_getref. apply frame_set_tub, core_getref.
  - unfold do_dial. destruct (t_connector (tubof x s)); [|exact HJ]. eapply frame_inv; [|exact HJ].
    unfold frame. cbn [tm ts conns]. split; [auto|]. split; [auto|]. intros c i q. unfold upd.
    destruct (Nat.eqb c (nconn s)); [|auto]. cbn [c_qms]. intros [H|[]]. discriminate H.
  - destruct to; destruct (Nat.ltb_spec c (nconn s)); try exact HJ; [apply hist_deliver_m|apply hist_deliver_s]; assumption.
  - destruct (Nat.ltb c (nconn s)); [|exact HJ]. unfold do_closeseen. destruct (close_pending x (conns s c)); [|exact HJ].
    eapply frame_inv; [apply frame_conn_lost, nd_id|exact HJ].
  - destruct (Nat.ltb c (nconn s)); [|exact HJ]. eapply frame_inv; [|exact HJ]. unfold do_cut. apply frame_upd. intros i q [].
  - eapply frame_inv; [|exact HJ]. unfold do_restart.
    eapply frame_trans; [apply (frame_map (kill x)), nd_kill|].
    destruct x; unfold frame; cbn [set_tub map_conns set_conns tm ts conns new_tub t_broker]; (split; [|split]); auto.
  - eapply frame_inv; [apply frame_timeout|exact HJ].
  - eapply frame_inv; [|exact HJ]. apply frame_set_tub. reflexivity.
  - eapply frame_inv; [apply frame_advance|exact HJ].
  - eapply frame_inv; [|exact HJ]. unfold frame. cbn [set_ho tm ts conns]. auto 10.
Qed.

Theorem run_hist ops : hist_inv (run ops).
Proof.
  unfold run. assert (G : forall l s, inv s -> hist_inv s -> hist_inv (fold_left step l s)).
  { induction l as [|o r IH]; intros s HI HJ; cbn [fold_left]; [exact HJ|]. apply IH; [apply step_inv, HI|apply step_hist; assumption]. }
  apply G; [apply init_inv|]. split; intros c; cbn; discriminate.
Qed.

(* "for all histories of previous connections recorded by either side": whenever both Tubs hold the same current
   connection, the non-master's record of it is exactly the master's (incarnation, seqnum) -- so that its next offer,
   after a cut only it has noticed, proves knowledge of the master's stale connection *)
Theorem slave_record_agrees ops c :
  t_broker (tm (run ops)) = Some c -> t_broker (ts (run ops)) = Some c ->
  t_slave (ts (run ops)) = Some (t_inc (tm (run ops)), t_bseq (tm (run ops))).
Proof. apply (proj2 (run_hist ops)). Qed.

Theorem decisions_in_flight_current ops c i q :
  t_broker (tm (run ops)) = Some c -> In (Decision i q) (c_qms (conns (run ops) c)) ->
  i = t_inc (tm (run ops)) /\ q = t_bseq (tm (run ops)).
Proof. apply (proj1 (run_hist ops)). Qed.

Example slave_record_after_two_rounds :
  let s := run [GetRef TM; DialHint TM; Deliver 0 TM; Deliver 0 TS; Deliver 0 TS; Cut 0; CloseSeen 0 TS;
                GetRef TS; DialHint TS; Deliver 1 TM; Deliver 1 TS; Deliver 1 TS] in
  t_broker (tm s) = Some 1 /\ t_broker (ts s) = Some 1 /\ t_slave (ts s) = Some (1%Z, 2%Z) /\ t_bseq (tm s) = 2%Z.
Proof. vm_compute. repeat split. Qed.
