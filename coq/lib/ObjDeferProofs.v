(* C01, object layer: proofs about the Deferred-level receiver of ObjDefer.v.
   - `dstep_sim` / `drun_sim`: for EVERY token stream and every state, a successful run of the Deferred-level machine
     is, after forgetting which values are placeholders / Deferreds (`erase`), a run of the pointer machine;
     firing a Deferred (`complete`, any depth of cascade) changes nothing under `erase`;
   - `dunslice_refines`: what `dunslice` delivers is what the pointer machine delivers;
   - `deferred_sound`: for every term a sender can emit (wide guard: tuples / frozensets whose completion is deferred
     included), if the Deferred-level receiver delivers anything, it delivers exactly the denoted graph. *)
From Coq Require Import ZArith List String Bool Lia.
Import ListNotations.
Require Import Verif.lib.PyLite Verif.gen.BananaGen Verif.gen.SlicersGen Verif.lib.Token Verif.lib.TokenProofs
        Verif.lib.Obj Verif.lib.ObjProofs Verif.lib.ObjDefer.
Local Open Scope Z_scope.

(* ------------------------------------------------------------------ pointer machine: dropping the close-time test *)
Lemma step_step0 st t st' : step st t = Some st' -> step0 st t = Some st'.
Proof.
  unfold step0, step. destruct (s_inopen st) as [[[hdr cnt] idx]|]; [destruct t; auto|].
  destruct t; auto.
  destruct (s_stack st) as [|f r]; [auto|]. destruct (f_open f =? n); [|auto].
  destruct (f_kind f); auto; destruct (frame_hazard f r); auto; discriminate.
Qed.

Lemma run_run0 ts : forall st st', run ts st = Some st' -> run0 ts st = Some st'.
Proof.
  induction ts as [|t r IH]; intros st st' H; cbn [run run0] in *; [exact H|].
  destruct (step st t) as [s1|] eqn:E; [|discriminate]. rewrite (step_step0 _ _ _ E). apply IH. exact H.
Qed.

Lemma run0_app a b st : run0 (a ++ b) st = match run0 a st with Some st' => run0 b st' | None => None end.
Proof. revert st. induction a as [|t a IH]; intros st; cbn [app run0]; [reflexivity|]. destruct (step0 st t); [apply IH|reflexivity]. Qed.

(* ------------------------------------------------------------------ the callback chain hands the object on *)
(* translated from ListUnslicer / SetUnslicer / DictUnslicer / TupleUnslicer .update: each returns the value it was
   called with, so every callback of a Deferred sees the object itself *)
Lemma upd_returns_true c : upd_returns c = true.
Proof. destruct c; reflexivity. Qed.

(* ------------------------------------------------------------------ erase commutes with the building blocks *)
Lemma erase_scope f : is_scope_frame (erase_frame f) = dis_scope_frame f.
Proof. reflexivity. Qed.

Lemma erase_lookup k s : lookup k (map erase_frame s) = dlookup k s.
Proof. unfold lookup, dlookup. induction s as [|f r IH]; [reflexivity|]. cbn [map existsb]. rewrite IH. reflexivity. Qed.

Lemma erase_reg1 ids f : erase_frame (dreg1 ids f) = reg1 ids (erase_frame f).
Proof. unfold dreg1, reg1. rewrite erase_scope. destruct (dis_scope_frame f); reflexivity. Qed.

Lemma erase_reg ids s : map erase_frame (map (dreg1 ids) s) = reg_many ids (map erase_frame s).
Proof. unfold reg_many. rewrite !map_map. apply map_ext. intros f. apply erase_reg1. Qed.

Lemma erase_push v f : erase_frame (dpush v f) = push_item (erase v) (erase_frame f).
Proof. reflexivity. Qed.

Lemma even_len_map {A B} (g : A -> B) : forall l, even_len (map g l) = even_len l.
Proof.
  assert (G : forall k l, (List.length l <= k)%nat -> even_len (map g l) = even_len l).
  { induction k as [|k IH]; intros l L.
    - destruct l; [reflexivity|cbn in L; lia].
    - destruct l as [|a [|b l]]; [reflexivity|reflexivity|]. cbn [map even_len]. apply IH. cbn in L. lia. }
  intros l. apply (G (List.length l)). lia.
Qed.

Lemma even_len_rev {A} (l : list A) : even_len (rev l) = even_len l.
Proof.
  assert (P : forall l : list A, even_len l = Nat.even (List.length l)).
  { assert (G : forall k (l : list A), (List.length l <= k)%nat -> even_len l = Nat.even (List.length l)).
    { induction k as [|k IH]; intros m L.
      - destruct m; [reflexivity|cbn in L; lia].
      - destruct m as [|a [|b m]]; [reflexivity|reflexivity|]. cbn [even_len List.length Nat.even]. apply IH. cbn in L. lia. }
    intros m. apply (G (List.length m)). lia. }
  rewrite !P, rev_length. reflexivity.
Qed.

(* ------------------------------------------------------------------ receiveChild *)
Record same_rest (st st' : dstate) : Prop := {
  sr_in : d_inopen st' = None;
  sr_cnt : d_counter st' = d_counter st;
  sr_heap : d_heap st' = d_heap st }.

Lemma drecv_sim st s v st' : drecv st s v = Some st' ->
  recv (map erase_frame s) (erase v) = Some (map erase_frame (d_stack st')) /\ same_rest st st'.
Proof.
  unfold drecv. destruct s as [|f r]; [discriminate|]. cbn [map]. unfold recv.
  change (f_kind (erase_frame f)) with (df_kind f). change (f_items (erase_frame f)) with (map erase (df_items f)).
  destruct (df_kind f) eqn:K.
  - (* root *) destruct v; try discriminate. intros H; inversion H; subst st'. split; [reflexivity|split; reflexivity].
  - (* container *)
    destruct v as [v|k|k]; try discriminate.
    + intros H; inversion H; subst st'. split; [reflexivity|split; reflexivity].
    + destruct (takes_deferred c (List.length (df_items f))); [|discriminate].
      intros H; inversion H; subst st'. split; [reflexivity|split; reflexivity].
  - (* text *) destruct (df_items f); [|destruct v; discriminate]. destruct v as [v| |]; try discriminate. destruct v; try discriminate.
    intros H; inversion H; subst st'. split; [reflexivity|split; reflexivity].
  - (* bool *) destruct (df_items f); [|destruct v; discriminate]. destruct v as [v| |]; try discriminate. destruct v; try discriminate.
    intros H; inversion H; subst st'. split; [reflexivity|split; reflexivity].
  - discriminate.
  - (* decimal *) destruct (df_items f); [|destruct v; discriminate]. destruct v as [v| |]; try discriminate. destruct v; try discriminate.
    intros H; inversion H; subst st'. split; [reflexivity|split; reflexivity].
  - (* reference *)
    destruct (df_items f); [|destruct v; discriminate]. destruct v as [v| |]; try discriminate. destruct v; try discriminate.
    cbn [map erase].
    change (erase_frame f :: map erase_frame r) with (map erase_frame (f :: r)). rewrite erase_lookup.
    destruct (dlookup z (f :: r)); [|discriminate]. destruct (ref_ok z st); [|discriminate]. cbn [andb].
    intros H; inversion H; subst st'. split; [|split; reflexivity].
    cbn [with_stack d_stack map]. rewrite erase_push. destruct (mem z (d_pend st)); reflexivity.
  - (* vocab *) destruct v as [v| |]; try discriminate. destruct v; try discriminate; cbn [erase]; try destruct (word_ok bs); try discriminate;
      intros H; inversion H; subst st'; (split; [reflexivity|split; reflexivity]).
Qed.

(* ------------------------------------------------------------------ firing a Deferred changes nothing under erase *)
Lemma set_nth_erase k v : erase v = VPtr k -> forall l i,
  dvalue_eqb_hole (nth i l (DV VNone)) k = true -> map erase (set_nth i v l) = map erase l.
Proof.
  intros E. induction l as [|a l IH]; intros i H; [destruct i; reflexivity|]. destruct i as [|i]; cbn [set_nth map nth] in *.
  - destruct a; try discriminate. cbn in H. apply Z.eqb_eq in H. subst. rewrite E. reflexivity.
  - rewrite (IH i H). reflexivity.
Qed.

Lemma fill_stack_erase j i k v : erase v = VPtr k -> forall s s' kd,
  fill_stack j i k v s = Some (s', kd) -> map erase_frame s' = map erase_frame s.
Proof.
  intros E. induction s as [|f r IH]; intros s' kd H; cbn [fill_stack] in H; [discriminate|].
  destruct (df_kind f) eqn:K;
    try (destruct (fill_stack j i k v r) as [[r' c']|] eqn:F; [|discriminate]; inversion H; subst; cbn [map]; rewrite (IH _ _ eq_refl); reflexivity).
  destruct (df_count f =? j).
  - destruct (dvalue_eqb_hole (nth i (rev (df_items f)) (DV VNone)) k) eqn:Hh; [|discriminate]. inversion H; subst. cbn [map]. f_equal.
    unfold erase_frame. cbn [df_kind df_open df_count df_items df_refs]. f_equal.
    + symmetry; exact K.
    + rewrite map_rev, (set_nth_erase k v E _ _ Hh), <- map_rev, rev_involutive. reflexivity.
  - destruct (fill_stack j i k v r) as [[r' c']|] eqn:F; [|discriminate]. inversion H; subst. cbn [map]. rewrite (IH _ _ eq_refl). reflexivity.
Qed.

Lemma fill_heap_erase j i k v : erase v = VPtr k -> forall h h' kd,
  fill_heap j i k v h = Some (h', kd) -> erase_heap h' = erase_heap h.
Proof.
  intros E. induction h as [|[a nd] r IH]; intros h' kd H; cbn [fill_heap] in H; [discriminate|].
  destruct (a =? j).
  - destruct (dvalue_eqb_hole (nth i (dn_items nd) (DV VNone)) k) eqn:Hh; [|discriminate]. inversion H; subst.
    unfold erase_heap. cbn [map fst snd]. f_equal. f_equal. unfold erase_node. cbn [dn_kind dn_items]. f_equal.
    apply (set_nth_erase k v E _ _ Hh).
  - destruct (fill_heap j i k v r) as [[r' c']|] eqn:F; [|discriminate]. inversion H; subst.
    unfold erase_heap in *. cbn [map]. rewrite (IH _ _ eq_refl). reflexivity.
Qed.

Theorem complete_erase : forall fuel k st st', complete fuel k st = Some st' -> erase_state st' = erase_state st.
Proof.
  induction fuel as [|fu IH]; intros k st st' H; [discriminate|]. cbn [complete] in H.
  match type of H with (?fire ?v ?cbs ?s0) = _ => set (F := fire) in *; set (st0 := s0) in *; set (cbl := cbs) in * end.
  assert (E0 : erase_state st0 = erase_state st) by reflexivity.
  rewrite <- E0. clear E0.
  assert (G : forall cbs v s s', erase v = VPtr k -> F v cbs s = Some s' -> erase_state s' = erase_state s).
  { induction cbs as [|c rest IHc]; intros v s s' Ev Hf.
    - cbn in Hf. inversion Hf. reflexivity.
    - unfold F in Hf. cbn [F] in Hf. fold F in Hf.
      destruct (fill_stack (cb_tgt c) (cb_idx c) k v (d_stack s)) as [[s1 kd]|] eqn:FS.
      + pose proof (fill_stack_erase _ _ _ _ Ev _ _ _ FS) as ES.
        rewrite upd_returns_true in Hf.
        assert (X : forall u, erase_state {| d_stack := s1; d_inopen := d_inopen s; d_counter := d_counter s; d_heap := d_heap s;
                                           d_pend := d_pend s; d_cbs := d_cbs s; d_unref := u |} = erase_state s).
        { intros u. unfold erase_state. cbn [d_stack d_inopen d_counter d_heap]. rewrite ES. reflexivity. }
        destruct kd;
          try (rewrite <- (X (d_unref s)); eapply IHc; [exact Ev|exact Hf]).
        * cbn [d_stack d_inopen d_counter d_heap d_pend d_cbs d_unref] in Hf.
          match type of Hf with (if ?b then _ else _) = _ => destruct b end.
          -- match type of Hf with match ?c with _ => _ end = _ => destruct c as [s3|] eqn:C; [|discriminate] end.
             rewrite (IHc _ _ _ Ev Hf), (IH _ _ _ C). apply X.
          -- rewrite (IHc _ _ _ Ev Hf). apply X.
        * cbn [d_stack d_inopen d_counter d_heap d_pend d_cbs d_unref] in Hf.
          match type of Hf with (if ?b then _ else _) = _ => destruct b end.
          -- match type of Hf with match ?c with _ => _ end = _ => destruct c as [s3|] eqn:C; [|discriminate] end.
             rewrite (IHc _ _ _ Ev Hf), (IH _ _ _ C). apply X.
          -- rewrite (IHc _ _ _ Ev Hf). apply X.
      + destruct (fill_heap (cb_tgt c) (cb_idx c) k v (d_heap s)) as [[h1 kd]|] eqn:FH; [|discriminate].
        pose proof (fill_heap_erase _ _ _ _ Ev _ _ _ FH) as EH.
        rewrite upd_returns_true in Hf.
        assert (X : forall u, erase_state {| d_stack := d_stack s; d_inopen := d_inopen s; d_counter := d_counter s; d_heap := h1;
                                           d_pend := d_pend s; d_cbs := d_cbs s; d_unref := u |} = erase_state s).
        { intros u. unfold erase_state. cbn [d_stack d_inopen d_counter d_heap]. rewrite EH. reflexivity. }
        destruct kd;
          try (rewrite <- (X (d_unref s)); eapply IHc; [exact Ev|exact Hf]).
        * cbn [d_stack d_inopen d_counter d_heap d_pend d_cbs d_unref] in Hf.
          match type of Hf with (if ?b then _ else _) = _ => destruct b end.
          -- match type of Hf with match ?c with _ => _ end = _ => destruct c as [s3|] eqn:C; [|discriminate] end.
             rewrite (IHc _ _ _ Ev Hf), (IH _ _ _ C). apply X.
          -- rewrite (IHc _ _ _ Ev Hf). apply X.
        * cbn [d_stack d_inopen d_counter d_heap d_pend d_cbs d_unref] in Hf.
          match type of Hf with (if ?b then _ else _) = _ => destruct b end.
          -- match type of Hf with match ?c with _ => _ end = _ => destruct c as [s3|] eqn:C; [|discriminate] end.
             rewrite (IHc _ _ _ Ev Hf), (IH _ _ _ C). apply X.
          -- rewrite (IHc _ _ _ Ev Hf). apply X. }
  exact (G cbl (DV (VPtr k)) st0 st' eq_refl H).
Qed.

(* ------------------------------------------------------------------ one token *)
Lemma erase_heap_app h k nd : erase_heap (h ++ [(k, nd)]) = erase_heap h ++ [(k, erase_node nd)].
Proof. unfold erase_heap. rewrite map_app. reflexivity. Qed.

Lemma erase_state_eq st' s c h :
  map erase_frame (d_stack st') = s -> d_inopen st' = None -> d_counter st' = c -> erase_heap (d_heap st') = h ->
  erase_state st' = {| s_stack := s; s_inopen := None; s_counter := c; s_heap := h |}.
Proof. intros A B C D. unfold erase_state. rewrite A, B, C, D. reflexivity. Qed.

Lemma top_flag (s : list dframe) :
  match map erase_frame s with [_] => true | _ => false end = match s with [_] => true | _ => false end.
Proof. destruct s as [|a [|b s]]; reflexivity. Qed.

Lemma dseal_leaf_sim f v : dseal_leaf f = Some v ->
  seal (erase_frame f) = Some (erase v, None) /\ (forall r, frame_hazard (erase_frame f) r = false) /\ df_kind f <> KVocab.
Proof.
  unfold dseal_leaf, seal, frame_hazard. change (f_kind (erase_frame f)) with (df_kind f).
  change (f_items (erase_frame f)) with (map erase (df_items f)). rewrite <- map_rev.
  destruct (df_kind f); try discriminate;
    destruct (rev (df_items f)) as [|a [|b l]]; try discriminate;
    try (destruct a as [a|k|k]; [destruct a|..]; try discriminate);
    intros H; inversion H; subst; (split; [reflexivity|split; [reflexivity|discriminate]]).
Qed.

Theorem dstep_sim st t st' : dstep st t = Some st' -> step0 (erase_state st) t = Some (erase_state st').
Proof.
  unfold dstep, step0, step. cbn [erase_state s_inopen s_stack s_counter s_heap].
  destruct (d_inopen st) as [[[hdr cnt] idx]|] eqn:Hin.
  - (* index phase *)
    destruct t; try discriminate; [rewrite top_flag| |].
    destruct (open_kind _ (idx ++ [bs])) as [[k|]|]; [| |discriminate]; intros H; inversion H; subst st'; clear H.
    + unfold erase_state. cbn [d_stack d_inopen d_counter d_heap]. f_equal. f_equal.
      destruct (kind_registers k); [|reflexivity].
      cbn [map reg_many]. rewrite erase_reg1. f_equal. fold (reg_many [cnt] (map erase_frame (d_stack st))). rewrite <- erase_reg. reflexivity.
    + reflexivity.
    + (* PING between OPEN and its index tokens: ignored by both machines *)
      intros H; inversion H; subst st'. unfold erase_state. rewrite Hin. reflexivity.
    + intros H; inversion H; subst st'. unfold erase_state. rewrite Hin. reflexivity.
  - destruct t; try discriminate.
    + (* INT *) intros H. destruct (drecv_sim _ _ _ _ H) as [R [A B C]]. cbn [erase] in R. rewrite R.
      f_equal. symmetry. apply erase_state_eq; [reflexivity|exact A|exact B|rewrite C; reflexivity].
    + intros H. destruct (drecv_sim _ _ _ _ H) as [R [A B C]]. cbn [erase] in R. rewrite R.
      f_equal. symmetry. apply erase_state_eq; [reflexivity|exact A|exact B|rewrite C; reflexivity].
    + intros H. destruct (drecv_sim _ _ _ _ H) as [R [A B C]]. cbn [erase] in R. rewrite R.
      f_equal. symmetry. apply erase_state_eq; [reflexivity|exact A|exact B|rewrite C; reflexivity].
    + (* OPEN *) intros H; inversion H; subst st'. reflexivity.
    + (* CLOSE *)
      destruct (d_stack st) as [|f r] eqn:Hs; [discriminate|]. cbn [map].
      change (f_open (erase_frame f)) with (df_open f). destruct (df_open f =? n); [|discriminate].
      change (f_kind (erase_frame f)) with (df_kind f).
      destruct (df_kind f) eqn:K.
      * discriminate.
      * (* container *)
        unfold seal. change (f_kind (erase_frame f)) with (df_kind f). rewrite K.
        change (f_items (erase_frame f)) with (map erase (df_items f)). change (f_count (erase_frame f)) with (df_count f).
        assert (OK : match c with CDict => even_len (rev (map erase (df_items f))) | CCopy _ => even_bytes (rev (map erase (df_items f))) | _ => true end
                     = match c with CDict => even_len (rev (df_items f)) | CCopy _ => even_bytes (map erase (rev (df_items f))) | _ => true end).
        { destruct c; try reflexivity.
          - rewrite !even_len_rev, even_len_map. reflexivity.
          - rewrite map_rev. reflexivity. }
        rewrite OK. clear OK.
        match goal with |- (if ?b then _ else _) = _ -> _ => destruct b; [|discriminate] end.
        set (st1 := {| d_stack := r; d_inopen := None; d_counter := d_counter st;
                       d_heap := d_heap st ++ [(df_count f, {| dn_kind := c; dn_items := rev (df_items f) |})];
                       d_pend := d_pend st; d_cbs := d_cbs st; d_unref := d_unref st |}).
        assert (HH : erase_heap (d_heap st1) = erase_heap (d_heap st) ++ [(df_count f, {| n_kind := c; n_items := rev (map erase (df_items f)) |})]).
        { unfold st1. cbn [d_heap]. rewrite erase_heap_app. unfold erase_node. cbn [dn_kind dn_items]. rewrite map_rev. reflexivity. }
        assert (FIN : forall s2 v, erase v = VPtr (df_count f) -> erase_state s2 = erase_state st1 ->
                        drecv s2 (d_stack s2) v = Some st' ->
                        match recv (map erase_frame r) (VPtr (df_count f)) with
                        | Some r' => Some {| s_stack := r'; s_inopen := None; s_counter := d_counter st;
                                             s_heap := erase_heap (d_heap st) ++ [(df_count f, {| n_kind := c; n_items := rev (map erase (df_items f)) |})] |}
                        | None => None end = Some (erase_state st')).
        { intros s2 v Ev Es H. destruct (drecv_sim _ _ _ _ H) as [R [A B C]]. rewrite Ev in R.
          assert (S2 : map erase_frame (d_stack s2) = map erase_frame r).
          { change (map erase_frame (d_stack s2)) with (s_stack (erase_state s2)). rewrite Es. reflexivity. }
          rewrite S2 in R. rewrite R. f_equal. symmetry. apply erase_state_eq; [reflexivity|exact A| |].
          - rewrite B. change (d_counter s2) with (s_counter (erase_state s2)). rewrite Es. reflexivity.
          - rewrite C. change (erase_heap (d_heap s2)) with (s_heap (erase_state s2)). rewrite Es. exact HH. }
        destruct (defers_c c).
        -- destruct (0 <? unref_get (df_count f) (d_unref st1)).
           ++ intros H. apply (FIN st1 (DDefer (df_count f))); [reflexivity|reflexivity|exact H].
           ++ destruct (complete (S (List.length (d_pend st1))) (df_count f) st1) as [st2|] eqn:C; [|discriminate].
              intros H. apply (FIN st2 (DV (VPtr (df_count f)))); [reflexivity|exact (complete_erase _ _ _ _ C)|exact H].
        -- intros H. apply (FIN st1 (DV (VPtr (df_count f)))); [reflexivity|reflexivity|exact H].
      * (* leaves *)
        destruct (dseal_leaf f) as [v|] eqn:S; [|discriminate]. destruct (dseal_leaf_sim _ _ S) as [S1 _]. rewrite S1.
        intros H. destruct (drecv_sim _ _ _ _ H) as [R [A B C]]. rewrite R. f_equal. symmetry.
        apply erase_state_eq; [reflexivity|exact A|exact B|rewrite C; reflexivity].
      * destruct (dseal_leaf f) as [v|] eqn:S; [|discriminate]. destruct (dseal_leaf_sim _ _ S) as [S1 _]. rewrite S1.
        intros H. destruct (drecv_sim _ _ _ _ H) as [R [A B C]]. rewrite R. f_equal. symmetry.
        apply erase_state_eq; [reflexivity|exact A|exact B|rewrite C; reflexivity].
      * destruct (dseal_leaf f) as [v|] eqn:S; [|discriminate]. destruct (dseal_leaf_sim _ _ S) as [S1 _]. rewrite S1.
        intros H. destruct (drecv_sim _ _ _ _ H) as [R [A B C]]. rewrite R. f_equal. symmetry.
        apply erase_state_eq; [reflexivity|exact A|exact B|rewrite C; reflexivity].
      * destruct (dseal_leaf f) as [v|] eqn:S; [|discriminate]. destruct (dseal_leaf_sim _ _ S) as [S1 _]. rewrite S1.
        intros H. destruct (drecv_sim _ _ _ _ H) as [R [A B C]]. rewrite R. f_equal. symmetry.
        apply erase_state_eq; [reflexivity|exact A|exact B|rewrite C; reflexivity].
      * destruct (dseal_leaf f) as [v|] eqn:S; [|discriminate]. destruct (dseal_leaf_sim _ _ S) as [S1 _]. rewrite S1.
        intros H. destruct (drecv_sim _ _ _ _ H) as [R [A B C]]. rewrite R. f_equal. symmetry.
        apply erase_state_eq; [reflexivity|exact A|exact B|rewrite C; reflexivity].
      * (* vocab *)
        change (f_items (erase_frame f)) with (map erase (df_items f)). rewrite even_len_map.
        destruct (even_len (df_items f)); [|discriminate]. intros H; inversion H; subst st'. reflexivity.
    + intros H; inversion H; subst. unfold erase_state. rewrite Hin. reflexivity.
    + intros H; inversion H; subst. unfold erase_state. rewrite Hin. reflexivity.
Qed.

Theorem drun_sim ts : forall st st', drun ts st = Some st' -> run0 ts (erase_state st) = Some (erase_state st').
Proof.
  induction ts as [|t r IH]; intros st st' H; cbn [drun run0] in *; [inversion H; reflexivity|].
  destruct (dstep st t) as [s1|] eqn:E; [|discriminate]. rewrite (dstep_sim _ _ _ E). apply IH. exact H.
Qed.

(* ------------------------------------------------------------------ whole messages *)
Definition unslice0 (scoped : bool) (n : Z) (ts : list token) : option (heap * list value) :=
  match run0 ts (init scoped n) with
  | Some st => match s_stack st, s_inopen st with [f], None => Some (s_heap st, rev (f_items f)) | _, _ => None end
  | None => None
  end.

(* whatever the Deferred-level receiver delivers (nothing pending, no placeholder left), the pointer machine delivers:
   EVERY token stream, not only those a sender emits *)
Theorem dunslice_refines scoped n ts r : dunslice scoped n ts = Some r -> unslice0 scoped n ts = Some r.
Proof.
  unfold dunslice, unslice0. destruct (drun ts (dinit scoped n)) as [st|] eqn:R; [|discriminate].
  pose proof (drun_sim _ _ _ R) as S. change (erase_state (dinit scoped n)) with (init scoped n) in S. rewrite S.
  destruct (d_stack st) as [|f [|g s]] eqn:Hs; try discriminate.
  destruct (d_inopen st) eqn:Hi; [discriminate|]. destruct (d_pend st); [|discriminate].
  destruct (forallb node_clean (d_heap st) && forallb is_dv (df_items f)); [|discriminate].
  intros H; inversion H; subst r. unfold erase_state. cbn [s_stack s_inopen s_heap]. rewrite Hs, Hi. cbn [map erase_frame f_items].
  rewrite <- map_rev. reflexivity.
Qed.

Lemma unslice0_of_run scoped n ts vs ids h k :
  run ts (init scoped n) = Some (adv (init scoped n) vs ids h k) -> unslice0 scoped n ts = Some (h, vs).
Proof.
  intros R. unfold unslice0. rewrite (run_run0 _ _ _ R). unfold adv, init. cbn [s_stack s_inopen s_heap reg_many map push_many].
  cbn [set_items f_items]. rewrite items_reg1. cbn [root_frame f_items]. rewrite app_nil_r, rev_involutive. reflexivity.
Qed.

(* every graph a sender can emit -- tuples and frozensets whose completion is deferred included -- : if the
   Deferred-level receiver delivers an object at all, it is exactly the denoted graph (value, type, sharing).
   What is NOT shown in general is that it does deliver (no refusal, nothing left pending): see props/C01.v. *)
Theorem deferred_sound scoped n t r : wf_obj_wide scoped n t = true ->
  dunslice scoped n (slice n t) = Some r -> r = (heap_of n t, [val_of n t]).
Proof.
  unfold wf_obj_wide, wf_wide. destruct (wf_gen false scoped [] [] n t) as [v|] eqn:W; [|discriminate]. intros _ D.
  apply dunslice_refines in D.
  destruct (run_slice t false n scoped [] [] v (init scoped n) W (okst_init scoped n)) as [R _].
  rewrite (unslice0_of_run _ _ _ _ _ _ _ R) in D. inversion D. reflexivity.
Qed.

Theorem deferred_sound_list scoped n ts v r : wf_list_wide scoped [] [] n ts = Some v ->
  dunslice scoped n (slice_list n ts) = Some r -> r = (heap_list n ts, vals_list n ts).
Proof.
  unfold wf_list_wide. intros W D. apply dunslice_refines in D.
  destruct (run_list ts (Forall_PA ts) false n scoped [] [] v (init scoped n) W (okst_init scoped n)) as [R _].
  rewrite (unslice0_of_run _ _ _ _ _ _ _ R) in D. inversion D. reflexivity.
Qed.

(* the strict guard is contained in the wide one *)
Lemma wf_strict_wide : forall t s sc vis imm n v, wf_gen true sc vis imm n t = Some v -> wf_gen s sc vis imm n t = Some v.
Proof.
  apply (obj_ind' (fun t => forall s sc vis imm n v, wf_gen true sc vis imm n t = Some v -> wf_gen s sc vis imm n t = Some v)).
  - intros t L s sc vis imm n v H. destruct t; try discriminate; exact H.
  - intros c xs F s sc vis imm n v H. rewrite wf_at_cont in *. cbv zeta in *.
    destruct (shape_ok c xs && negb (hazard_pos c false (vals_list (n + 1) xs) (fun k => mem k (if is_imm_c c then n :: imm else imm)))) eqn:G;
      [|cbn [andb] in H; discriminate].
    cbn [andb] in *.
    destruct (match c with CTuple | CFrozen => existsb (ref_into (if is_imm_c c then n :: imm else imm)) xs | _ => false end) eqn:X;
      [cbn in H; discriminate|].
    rewrite andb_false_r. cbn [negb] in *.
    assert (L : forall ys sc' imm' v0 m w, Forall (fun t => forall s sc vis imm n v, wf_gen true sc vis imm n t = Some v -> wf_gen s sc vis imm n t = Some v) ys ->
                wf_list_gen true sc' imm' v0 m ys = Some w -> wf_list_gen s sc' imm' v0 m ys = Some w).
    { induction ys as [|y ys IH]; intros sc' imm' v0 m w Fy Hy; [exact Hy|].
      rewrite wf_list_cons in *. inversion Fy as [|? ? Hy1 Fy2]; subst.
      destruct (wf_gen true sc' v0 imm' m y) as [v1|] eqn:E; [|discriminate]. rewrite (Hy1 _ _ _ _ _ _ E). apply IH; assumption. }
    destruct (wf_list_gen true (sc || is_scope c) (if is_imm_c c then n :: imm else imm)
                (if (sc || is_scope c) && tracked c then n :: vis else vis) (n + 1) xs) as [w|] eqn:WL; [|discriminate].
    rewrite (L _ _ _ _ _ _ F WL). exact H.
Qed.

Lemma wf_obj_wide_of_strict scoped n t : wf_obj scoped n t = true -> wf_obj_wide scoped n t = true.
Proof.
  unfold wf_obj, wf_obj_wide, wf_at, wf_wide. destruct (wf_gen true scoped [] [] n t) as [v|] eqn:W; [|discriminate].
  rewrite (wf_strict_wide t false _ _ _ _ _ W). reflexivity.
Qed.

(* ------------------------------------------------------------------ non-vacuity, and the known-defective region on this machine *)
(* L = []; A = (L,); B = (A,); L.append(B): B is closed while A is still open, completes when A does, and only then
   reaches L -- outside the strict guard, inside the wide one, delivered exactly *)
Definition abl : obj := OTuple [OList [OTuple [ORef 0]]].
Example ex_abl : wf_obj true 0 abl = false /\ wf_obj_wide true 0 abl = true /\
  dunslice true 0 (slice 0 abl) = Some (heap_of 0 abl, [val_of 0 abl]).
Proof. vm_compute. repeat split; reflexivity. Qed.
(* A = (M,); M = [K]; K = ([J], J); J = (A,): K directly holds a reference to J, which is closed and still pending *)
Definition amkj : obj := OTuple [OList [OTuple [OList [OTuple [ORef 0]]; ORef 4]]].
Example ex_amkj : wf_obj_wide true 0 amkj = true /\ dunslice true 0 (slice 0 amkj) = Some (heap_of 0 amkj, [val_of 0 amkj]).
Proof. vm_compute. split; reflexivity. Qed.
(* T = (d, L); d["k"] = T; L.append(T): two callbacks on one Deferred, the second sees what the first returned *)
Definition tdl : obj := OTuple [ODict [(OText [107], ORef 0)]; OList [ORef 0]].
Example ex_tdl : dunslice true 0 (slice 0 tdl) = Some (heap_of 0 tdl, [val_of 0 tdl]).
Proof. vm_compute. reflexivity. Qed.
(* frozenset inside a cycle through a Copyable *)
Example ex_frozen_late :
  let t := OTuple [OCopy nmA [([120], OList [OFrozen [ORef 0; OInt 7]; OSet [OInt 1; OFrozen [ORef 0; OInt 7]]])]] in
  wf_obj_wide true 0 t = true /\ dunslice true 0 (slice 0 t) = Some (heap_of 0 t, [val_of 0 t]).
Proof. vm_compute. split; reflexivity. Qed.

(* the two known findings: the Deferred-level receiver refuses them where the code does (receiveChild) *)
Theorem refuted_copy_attr_deferred : doutcome true 0 (slice 0 witness_copy_attr) = 1.
Proof. vm_compute. reflexivity. Qed.
Theorem refuted_dict_key_deferred : doutcome true 0 (slice 0 witness_dict_key) = 1.
Proof. vm_compute. reflexivity. Qed.
(* progress is not a consequence of the wide guard: a term no Python object graph has (two tuples each of which
   directly holds the other) passes the guard and leaves the receiver waiting for ever / refusing the Deferred at top level *)
Definition wait_cycle : obj := OTuple [OList [OTuple [ORef 0]]; ORef 2].
Theorem progress_needs_more_than_the_guard : wf_obj_wide true 0 wait_cycle = true /\ dunslice true 0 (slice 0 wait_cycle) = None.
Proof. vm_compute. split; reflexivity. Qed.
