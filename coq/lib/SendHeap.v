(* C01, the SENDER as a machine over a Python-like heap (model only; proofs in SendHeapProofs.v).

   heap: object id -> kind + children in emission order (children are atoms or object ids: arbitrary sharing and cycles).
   machine = Banana.produce over Banana.slicerStack:
     - the top slicer's iterator yields its next object (opentype strings first, then the body);
     - SIMPLE_TOKENS (int / float / bytes) go out with sendToken;
     - anything else: newSlicerFor = topSlicer.slicerForObject, which climbs the parents: every ScopedSlicer
       (call / arguments / answer / error, and storage's ScopedRootSlicer) looks id(obj) up in ITS references table and
       answers with a ReferenceSlicer(refid) on a hit (gen_scoped_lookup: translated from ScopedSlicer.slicerForObject),
       the root adapts the object to its slicer; pushSlicer: sendOpen takes the next number of Banana.openCount, and
       if slicer.trackReferences the NEAREST scoped slicer records id(obj) -> refid (gen_scoped_register: translated from
       ScopedSlicer.registerRefID; BaseSlicer delegates to its parent, RootSlicer ignores it);
     - StopIteration: popSlicer sends CLOSE(openID); a scoped slicer's table dies with it.
   The tables of the scoped slicers on the stack are kept as a stack of their own (`ss_scopes`, innermost first): each
   ScopedSlicer owns exactly one table from push to pop.
   `bcanon` is the reference: the canonical term of (heap, value) by recursive descent with the same tables. *)
From Coq Require Import ZArith List String Bool Lia.
Import ListNotations.
Require Import Verif.lib.PyLite Verif.gen.BananaGen Verif.gen.SlicersGen Verif.lib.Token Verif.lib.Obj.
Local Open Scope Z_scope.

Inductive sval :=
| SInt (z : Z) | SFloat (b8 : list Z) | SBytes (bs : list Z) | SText (u : list Z) | SBool (b : bool) | SNone | SDecimal (s : list Z)
| SObj (id : Z).            (* a container / Copyable / call scope: the object with this id() *)

Record snode := { sn_kind : ckind; sn_items : list sval }.
Definition sheap := list (Z * snode).
Fixpoint sfind (k : Z) (h : sheap) : option snode :=
  match h with [] => None | (i, nd) :: r => if i =? k then Some nd else sfind k r end.

Definition stable := list (Z * Z).     (* one ScopedSlicer.references: id(obj) -> refid *)

(* slicerForObject climbing the parents: the innermost table that knows the id answers *)
Fixpoint scopes_lookup (scs : list stable) (oid : Z) : option Z :=
  match scs with
  | [] => None
  | t :: r => match gen_scoped_lookup t oid with Some k => Some k | None => scopes_lookup r oid end
  end.
(* registerRefID climbing the parents: the nearest scoped slicer stores, RootSlicer.registerRefID is a no-op *)
Definition scopes_register (scs : list stable) (oid refid : Z) : list stable :=
  match scs with [] => [] | t :: r => gen_scoped_register t oid refid :: r end.

Definition sstrs (l : list (list Z)) : list sval := map SBytes l.

(* what the slicer chosen for a value yields (opentype strings, then the body), whether it tracks references (and for
   which id), whether it is a ScopedSlicer *)
Inductive chosen := Chosen (yields : list sval) (track : option Z) (scope : bool).

Definition slicer_for (h : sheap) (scs : list stable) (v : sval) : option chosen :=
  match v with
  | SInt _ | SFloat _ | SBytes _ => None                   (* SIMPLE_TOKENS never get here *)
  | SText u => Some (Chosen (sstrs ot_unicode ++ [SBytes u]) None false)
  | SBool b => Some (Chosen (sstrs ot_boolean ++ [SInt (if b then bool_true_tok else bool_false_tok)]) None false)
  | SNone => Some (Chosen (sstrs ot_none) None false)
  | SDecimal s => Some (Chosen (sstrs ot_decimal ++ [SBytes s]) None false)
  | SObj oid =>
    match scopes_lookup scs oid with
    | Some k => Some (Chosen (sstrs ot_reference ++ [SInt k]) None false)          (* ReferenceSlicer(refid) *)
    | None =>
      match sfind oid h with
      | Some nd => Some (Chosen (sstrs (opentype_of (sn_kind nd)) ++ sn_items nd)
                                (if tracked (sn_kind nd) then Some oid else None) (is_scope (sn_kind nd)))
      | None => None
      end
    end
  end.

Record sframe := { sf_open : Z; sf_rest : list sval; sf_scope : bool }.
Record sstate := { ss_stack : list sframe; ss_scopes : list stable; ss_count : Z; ss_out : list token }.

Inductive sres := SStep (st : sstate) | SIdle | SStuck.

(* one round of the `while self.slicerStack` loop of Banana.produce *)
Definition sstep (h : sheap) (st : sstate) : sres :=
  match ss_stack st with
  | [] => SStuck
  | f :: r =>
    match sf_rest f with
    | [] =>
      match r with
      | [] => SIdle                                         (* the root's queue is empty: producingDeferred *)
      | _ => (* StopIteration: popSlicer -> sendClose(openID) *)
        SStep {| ss_stack := r; ss_scopes := if sf_scope f then tl (ss_scopes st) else ss_scopes st;
                 ss_count := ss_count st; ss_out := ss_out st ++ [TClose (sf_open f)] |}
      end
    | v :: rest =>
      let f' := {| sf_open := sf_open f; sf_rest := rest; sf_scope := sf_scope f |} in
      match v with
      | SInt z => SStep {| ss_stack := f' :: r; ss_scopes := ss_scopes st; ss_count := ss_count st; ss_out := ss_out st ++ [TInt z] |}
      | SFloat b => SStep {| ss_stack := f' :: r; ss_scopes := ss_scopes st; ss_count := ss_count st; ss_out := ss_out st ++ [TFloat b] |}
      | SBytes b => SStep {| ss_stack := f' :: r; ss_scopes := ss_scopes st; ss_count := ss_count st; ss_out := ss_out st ++ [TString b] |}
      | _ =>
        match slicer_for h (ss_scopes st) v with
        | None => SStuck                                    (* Violation("cannot serialize") *)
        | Some (Chosen ys track scope) =>
          (* pushSlicer: openID = sendOpen(); if trackReferences: topSlicer.registerRefID(openID, obj) *)
          let n := ss_count st in
          let scs1 := match track with Some oid => scopes_register (ss_scopes st) oid n | None => ss_scopes st end in
          SStep {| ss_stack := {| sf_open := n; sf_rest := ys; sf_scope := scope |} :: f' :: r;
                   ss_scopes := if scope then [] :: scs1 else scs1;
                   ss_count := n + 1; ss_out := ss_out st ++ [TOpen n] |}
        end
      end
    end
  end.

(* run until the root is idle *)
Fixpoint srun (fuel : nat) (h : sheap) (st : sstate) : option sstate :=
  match fuel with
  | O => None
  | S fu => match sstep h st with SStep st' => srun fu h st' | SIdle => Some st | SStuck => None end
  end.

(* RootSlicer.send(obj) on an idle Banana whose openCount is n; scoped_root: storage's ScopedRootSlicer (one table for
   the life of the Banana) / a Broker's PBRootSlicer (no table) *)
Definition sinit (scoped_root : bool) (n : Z) (queue : list sval) : sstate :=
  {| ss_stack := [{| sf_open := -1; sf_rest := queue; sf_scope := scoped_root |}];
     ss_scopes := if scoped_root then [[]] else []; ss_count := n; ss_out := [] |}.

Definition send_heap (fuel : nat) (h : sheap) (scoped_root : bool) (n : Z) (queue : list sval) : option (list token) :=
  match srun fuel h (sinit scoped_root n queue) with Some st => Some (ss_out st) | None => None end.

(* ------------------------------------------------------------------ the canonical term of a heap value *)
(* recursive descent with the same tables: result = term, next OPEN number, tables afterwards *)
Fixpoint bcanon (fuel : nat) (h : sheap) (scs : list stable) (n : Z) (v : sval) {struct fuel} : option (obj * Z * list stable) :=
  match fuel with
  | O => None
  | S fu =>
    match v with
    | SInt z => Some (OInt z, n, scs) | SFloat b => Some (OFloat b, n, scs) | SBytes b => Some (OBytes b, n, scs)
    | SText u => Some (OText u, n + 1, scs) | SBool b => Some (OBool b, n + 1, scs) | SNone => Some (ONone, n + 1, scs)
    | SDecimal s => Some (ODecimal s, n + 1, scs)
    | SObj oid =>
      match scopes_lookup scs oid with
      | Some k => Some (ORef k, n + 1, scs)
      | None =>
        match sfind oid h with
        | None => None
        | Some nd =>
          let c := sn_kind nd in
          let scs1 := if tracked c then scopes_register scs oid n else scs in
          let scs2 := if is_scope c then [] :: scs1 else scs1 in
          match (fix go (scs : list stable) (m : Z) (l : list sval) : option (list obj * Z * list stable) :=
                   match l with
                   | [] => Some ([], m, scs)
                   | x :: r => match bcanon fu h scs m x with
                               | Some (o, m2, scs') => match go scs' m2 r with Some (os, m3, scs'') => Some (o :: os, m3, scs'') | None => None end
                               | None => None
                               end
                   end) scs2 (n + 1) (sn_items nd) with
          | Some (os, m, scs3) => Some (OCont c os, m, if is_scope c then tl scs3 else scs3)
          | None => None
          end
        end
      end
    end
  end.
Definition bcanon_list (fu : nat) (h : sheap) := fix go (scs : list stable) (m : Z) (l : list sval) : option (list obj * Z * list stable) :=
  match l with
  | [] => Some ([], m, scs)
  | x :: r => match bcanon fu h scs m x with
              | Some (o, m2, scs') => match go scs' m2 r with Some (os, m3, scs'') => Some (o :: os, m3, scs'') | None => None end
              | None => None
              end
  end.

(* canonical term(s) of what is sent: the queue of top-level objects *)
Definition canon_of (fuel : nat) (h : sheap) (scoped_root : bool) (n : Z) (queue : list sval) : option (list obj) :=
  match bcanon_list fuel h (if scoped_root then [[]] else []) n queue with Some (os, _, _) => Some os | None => None end.
