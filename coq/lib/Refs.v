(* C08 / C09: model of the reference tables and distributed reference counts of one connection, in one
   direction: the owner O exports pass-by-reference objects, the holder H imports them as proxies.

   referenceable.py  ReferenceableTracker.send/decref (TRANSLATED, gen/RefsGen.v), RemoteReferenceTracker.getRef /
                     _refLost / _handleRefLost, ReferenceableSlicer, ReferenceUnslicer, YourReference(Un)Slicer
   broker.py         getTrackerForMyReference, getTrackerForYourReference, freeYourReference,
                     freeYourReferenceTracker, remote_decref, getMyReferenceByCLID, nextCLID, finish()

   Trackers on the holder have identity (index in h_trk): a proxy and a pending decref-answer callback refer to
   their tracker object, while the import table maps clid -> tracker; freeYourReferenceTracker deletes the table
   entry only if it still IS the answered tracker (freeTracker_delkey, read from the source; fix ab72d65 -- it used to delete BY
   CLID, which is what D16 exploited; the old rule is kept as a parameter value, step_k DelByClid). *)
From Coq Require Import ZArith List Bool Lia.
Import ListNotations.
Require Import Verif.lib.PyLite Verif.gen.RefsGen.
Local Open Scope Z_scope.

(* ---------------------------------------------------------------- owner *)
Record oentry := { oe_obj : Z; oe_clid : Z; oe_rc : Z }.      (* ReferenceableTracker: obj, clid, refcount *)

Definition find_obj (tab : list oentry) (x : Z) : option oentry := find (fun e => oe_obj e =? x) tab.     (* myReferenceByPUID *)
Definition find_clid (tab : list oentry) (c : Z) : option oentry := find (fun e => oe_clid e =? c) tab.   (* myReferenceByCLID *)
Definition set_rc (tab : list oentry) (c v : Z) : list oentry :=
  map (fun e => if oe_clid e =? c then {| oe_obj := oe_obj e; oe_clid := oe_clid e; oe_rc := v |} else e) tab.
Definition del_clid (tab : list oentry) (c : Z) : list oentry := filter (fun e => negb (oe_clid e =? c)) tab.
Definition rc (tab : list oentry) (c : Z) : Z := match find_clid tab c with Some e => oe_rc e | None => 0 end.

Record owner := {
  o_tab : list oentry;
  o_next : Z;                 (* next(self.nextCLID) *)
  o_alloc : list (Z * Z);     (* ghost: every (clid, object) allocated so far, newest first *)
  o_failed : bool             (* the assertion in decref failed at least once *)
}.

(* ---------------------------------------------------------------- holder *)
Record tracker := { t_clid : Z; t_recv : Z; t_proxy : option Z; t_url : option Z }.
   (* RemoteReferenceTracker: clid, received_count, ref  (None = no weakref yet or dead weakref; Some p = live proxy p),
      url / interfaceName (Some x: the tracker was created from the LONG form of a my-reference -- interface name and FURL of
      object x; None: from the short form, the tracker knows no FURL for what it designates) *)

Fixpoint upd_nth {A} (l : list A) (i : nat) (f : A -> A) : list A :=
  match l, i with
  | [], _ => []
  | a :: r, O => f a :: r
  | a :: r, S j => a :: upd_nth r j f
  end.

Fixpoint tab_get (tab : list (Z * nat)) (c : Z) : option nat :=
  match tab with [] => None | (k, i) :: r => if k =? c then Some i else tab_get r c end.
Definition tab_del (tab : list (Z * nat)) (c : Z) : list (Z * nat) := filter (fun e => negb (fst e =? c)) tab.

Fixpoint find_proxy (trk : list tracker) (p : Z) : option nat :=
  match trk with
  | [] => None
  | t :: r => match t_proxy t with
              | Some q => if q =? p then Some O else option_map S (find_proxy r p)
              | None => option_map S (find_proxy r p)
              end
  end.

Fixpoint acks_get (l : list (Z * nat)) (rid : Z) : option nat :=
  match l with [] => None | (k, i) :: r => if k =? rid then Some i else acks_get r rid end.
Definition acks_del (l : list (Z * nat)) (rid : Z) : list (Z * nat) := filter (fun e => negb (fst e =? rid)) l.

Record holder := {
  h_trk : list tracker;          (* every tracker object ever created on this connection; identity = index *)
  h_tab : list (Z * nat);        (* yourReferenceByCLID : clid -> tracker *)
  h_nextpid : Z;                 (* proxies are numbered in order of creation *)
  h_nextrid : Z;                 (* next(self.nextReqID) *)
  h_pend : list nat;             (* eventual-send queue: trackers whose _handleRefLost is queued (FIFO) *)
  h_acks : list (Z * nat)        (* waitingForAnswers: request id of a decref call -> tracker to free *)
}.

(* ---------------------------------------------------------------- wire *)
Inductive msgOH :=
| MyRef (c : Z) (disc : bool) (u : option Z)
                                  (* a my-reference inside a call; disc: the receiver discards it (earlier Violation in that call);
                                     u = Some x: the long form `my-reference clid interfacename furl-of-x`, None: `my-reference clid` *)
| Ack (rid : Z).                  (* answer to a decref call *)
Inductive msgHO :=
| Decref (c n rid : Z)            (* callRemote("decref", clid=c, count=n) *)
| ToOwner (c : Z) (iscall : bool). (* your-reference c as an argument (false) / a call addressed to c (true) *)

Record state := {
  ow : owner; hd : holder;
  ch_oh : list msgOH;             (* FIFO owner -> holder *)
  ch_ho : list msgHO;             (* FIFO holder -> owner *)
  lost : bool;
  leaked : list Z                 (* ghost: clids of discarded my-references already consumed by the holder *)
}.

Inductive op :=
| Send (x : Z) (disc : bool)      (* the owner serialises object x *)
| RecvOH                          (* the holder processes the next message *)
| RecvHO                          (* the owner processes the next message *)
| DropProxy (p : Z)               (* the last strong reference to proxy p goes away: weakref callback _refLost *)
| HandleRefLost                   (* the eventual queue runs the oldest pending _handleRefLost *)
| SendHome (p : Z) (iscall : bool)(* the holder sends proxy p back / calls through it *)
| ConnLost.

Inductive event :=
| EvDelivered (p : Z)                   (* ReferenceUnslicer.receiveClose returned proxy p *)
| EvHome (iscall : bool) (x : option Z) (* getMyReferenceByCLID returned object x (None: KeyError) *)
| EvAssert.                             (* decref's assertion failed *)

Definition init : state :=
  {| ow := {| o_tab := []; o_next := first_clid; o_alloc := []; o_failed := false |};
     hd := {| h_trk := []; h_tab := []; h_nextpid := 0; h_nextrid := first_reqid; h_pend := []; h_acks := [] |};
     ch_oh := []; ch_ho := []; lost := false; leaked := [] |}.

(* clids of the two kinds of exported things, from ONE counter and in ONE table: Referenceables (objects x >= 0,
   getTrackerForMyReference) get the next number, bound methods (objects x < 0, CallableSlicer -> getTrackerForMyCall) its
   negation (callable_clid, read from the source); the holder picks RemoteReferenceTracker / RemoteMethodReferenceTracker by the
   sign, both count alike (getRef_incr_method) *)
Definition new_clid (x n : Z) : Z := if x <? 0 then callable_clid n else n.

(* ---- Send: ReferenceableSlicer.slice = getTrackerForMyReference + tracker.send() + `yield tracker.clid` *)
Definition myref_url (first : bool) (x : Z) : option Z :=
  match myref_long_form with LongWhenFirst => if first then Some x else None | LongAlways => Some x end.

Definition do_send (s : state) (x : Z) (disc : bool) : state * list event :=
  let o := ow s in
  let '(c, tab, nxt, al) :=
    match find_obj (o_tab o) x with
    | Some e => (oe_clid e, o_tab o, o_next o, o_alloc o)
    | None => (new_clid x (o_next o), {| oe_obj := x; oe_clid := new_clid x (o_next o); oe_rc := 0 |} :: o_tab o, o_next o + 1,
               (new_clid x (o_next o), x) :: o_alloc o)
    end in
  match send (rc tab c) with
  | Ok (first, v) =>
    (* `firstTime = tracker.send(); if firstTime: yield iname; yield url`: the FURL travels only when send() says "first" *)
    ({| ow := {| o_tab := set_rc tab c v; o_next := nxt; o_alloc := al; o_failed := o_failed o |};
        hd := hd s; ch_oh := ch_oh s ++ [MyRef c disc (myref_url first x)]; ch_ho := ch_ho s; lost := lost s; leaked := leaked s |}, [])
  | Exc _ => (s, [])
  end.

(* ---- the holder receives a my-reference: getTrackerForYourReference + getRef *)
Definition get_ref (t : tracker) (nextpid : Z) : tracker * Z * Z :=   (* (tracker', delivered proxy, nextpid') *)
  match t_proxy t with
  | Some p => ({| t_clid := t_clid t; t_recv := getRef_incr (t_recv t); t_proxy := Some p; t_url := t_url t |}, p, nextpid)
  | None => ({| t_clid := t_clid t; t_recv := getRef_incr (t_recv t); t_proxy := Some nextpid; t_url := t_url t |}, nextpid, nextpid + 1)
  end.

(* getTrackerForYourReference(clid, interfaceName, url): the interface name and URL of the message are used only when a NEW
   tracker is made; a tracker found in the table keeps what it has *)
Definition do_myref (s : state) (c : Z) (u : option Z) (rest : list msgOH) : state * list event :=
  let h := hd s in
  let '(trk, tab, i) :=
    match tab_get (h_tab h) c with
    | Some i => (h_trk h, h_tab h, i)
    | None => (h_trk h ++ [{| t_clid := c; t_recv := 0; t_proxy := None; t_url := u |}], (c, List.length (h_trk h)) :: h_tab h,
               List.length (h_trk h))
    end in
  match nth_error trk i with
  | Some t =>
    let '(t', p, np) := get_ref t (h_nextpid h) in
    ({| ow := ow s;
        hd := {| h_trk := upd_nth trk i (fun _ => t'); h_tab := tab; h_nextpid := np; h_nextrid := h_nextrid h;
                 h_pend := h_pend h; h_acks := h_acks h |};
        ch_oh := rest; ch_ho := ch_ho s; lost := lost s; leaked := leaked s |}, [EvDelivered p])
  | None => (s, [])      (* unreachable: the table only points at existing trackers *)
  end.

(* ---- the holder receives the answer to a decref: freeYourReferenceTracker(tracker) *)
Definition do_ack (s : state) (rid : Z) (rest : list msgOH) : state * list event :=
  let h := hd s in
  let tab :=
    match acks_get (h_acks h) rid with
    | Some i =>
      match nth_error (h_trk h) i with
      | Some t =>
        if freeTracker_keeps (t_recv t) then h_tab h
        else match freeTracker_delkey with
             | DelByClid => tab_del (h_tab h) (t_clid t)
             | DelByIdentity => match tab_get (h_tab h) (t_clid t) with
                                | Some j => if Nat.eqb i j then tab_del (h_tab h) (t_clid t) else h_tab h
                                | None => h_tab h
                                end
             end
      | None => h_tab h
      end
    | None => h_tab h
    end in
  ({| ow := ow s;
      hd := {| h_trk := h_trk h; h_tab := tab; h_nextpid := h_nextpid h; h_nextrid := h_nextrid h;
               h_pend := h_pend h; h_acks := acks_del (h_acks h) rid |};
      ch_oh := rest; ch_ho := ch_ho s; lost := lost s; leaked := leaked s |}, []).

Definition do_recv_oh (s : state) : state * list event :=
  match ch_oh s with
  | [] => (s, [])
  | MyRef c true _ :: rest =>
    ({| ow := ow s; hd := hd s; ch_oh := rest; ch_ho := ch_ho s; lost := lost s; leaked := c :: leaked s |}, [])
  | MyRef c false u :: rest => do_myref s c u rest
  | Ack rid :: rest => do_ack s rid rest
  end.

(* ---- the owner receives decref(clid, count) (remote_decref) or a your-reference / call target *)
Definition do_recv_ho (s : state) : state * list event :=
  let o := ow s in
  match ch_ho s with
  | [] => (s, [])
  | Decref c n rid :: rest =>
    match find_clid (o_tab o) c with
    | None =>      (* `if not tracker: return`; the answer is still sent *)
      ({| ow := o; hd := hd s; ch_oh := ch_oh s ++ [Ack rid]; ch_ho := rest; lost := lost s; leaked := leaked s |}, [])
    | Some e =>
      match decref n (oe_rc e) with
      | Ok (done, v) =>
        ({| ow := {| o_tab := if done then del_clid (o_tab o) c else set_rc (o_tab o) c v;
                     o_next := o_next o; o_alloc := o_alloc o; o_failed := o_failed o |};
            hd := hd s; ch_oh := ch_oh s ++ [Ack rid]; ch_ho := rest; lost := lost s; leaked := leaked s |}, [])
      | Exc _ =>     (* AssertionError: an error answer goes back, the holder's callback chain stops *)
        ({| ow := {| o_tab := o_tab o; o_next := o_next o; o_alloc := o_alloc o; o_failed := true |};
            hd := hd s; ch_oh := ch_oh s; ch_ho := rest; lost := lost s; leaked := leaked s |}, [EvAssert])
      end
    end
  | ToOwner c k :: rest =>
    ({| ow := o; hd := hd s; ch_oh := ch_oh s; ch_ho := rest; lost := lost s; leaked := leaked s |},
     [EvHome k (option_map oe_obj (find_clid (o_tab o) c))])
  end.

(* ---- the proxy dies: the weakref is dead from now on; _refLost queues _handleRefLost *)
Definition do_drop (s : state) (p : Z) : state * list event :=
  let h := hd s in
  match find_proxy (h_trk h) p with
  | None => (s, [])
  | Some i =>
    ({| ow := ow s;
        hd := {| h_trk := upd_nth (h_trk h) i (fun t => {| t_clid := t_clid t; t_recv := t_recv t; t_proxy := None; t_url := t_url t |});
                 h_tab := h_tab h; h_nextpid := h_nextpid h; h_nextrid := h_nextrid h;
                 h_pend := h_pend h ++ [i]; h_acks := h_acks h |};
        ch_oh := ch_oh s; ch_ho := ch_ho s; lost := lost s; leaked := leaked s |}, [])
  end.

(* ---- _handleRefLost + freeYourReference *)
Definition do_reflost (s : state) : state * list event :=
  let h := hd s in
  match h_pend h with
  | [] => (s, [])
  | i :: pend =>
    match nth_error (h_trk h) i with
    | None => (s, [])
    | Some t =>
      match t_proxy t with
      | Some _ =>     (* resurrected between _refLost and _handleRefLost *)
        ({| ow := ow s;
            hd := {| h_trk := h_trk h; h_tab := h_tab h; h_nextpid := h_nextpid h; h_nextrid := h_nextrid h;
                     h_pend := pend; h_acks := h_acks h |};
            ch_oh := ch_oh s; ch_ho := ch_ho s; lost := lost s; leaked := leaked s |}, [])
      | None =>
        let '(count, recv') := handleRefLost_assign (t_recv t) in
        let trk := upd_nth (h_trk h) i (fun t => {| t_clid := t_clid t; t_recv := recv'; t_proxy := t_proxy t; t_url := t_url t |}) in
        if handleRefLost_skip count then
          ({| ow := ow s;
              hd := {| h_trk := trk; h_tab := h_tab h; h_nextpid := h_nextpid h; h_nextrid := h_nextrid h;
                       h_pend := pend; h_acks := h_acks h |};
              ch_oh := ch_oh s; ch_ho := ch_ho s; lost := lost s; leaked := leaked s |}, [])
        else
          ({| ow := ow s;
              hd := {| h_trk := trk; h_tab := h_tab h; h_nextpid := h_nextpid h; h_nextrid := h_nextrid h + 1;
                       h_pend := pend; h_acks := h_acks h ++ [(h_nextrid h, i)] |};
              ch_oh := ch_oh s; ch_ho := ch_ho s ++ [Decref (t_clid t) count (h_nextrid h)];
              lost := lost s; leaked := leaked s |}, [])
      end
    end
  end.

(* ---- YourReferenceSlicer (tracker.broker == broker) / RemoteReference._callRemote: addressed by tracker.clid *)
Definition do_home (s : state) (p : Z) (k : bool) : state * list event :=
  let h := hd s in
  match find_proxy (h_trk h) p with
  | None => (s, [])
  | Some i =>
    match nth_error (h_trk h) i with
    | None => (s, [])
    | Some t => ({| ow := ow s; hd := h; ch_oh := ch_oh s; ch_ho := ch_ho s ++ [ToOwner (t_clid t) k];
                    lost := lost s; leaked := leaked s |}, [])
    end
  end.

(* ---- connectionLost on both ends: finish() empties the tables (which ones: read from the source) *)
Definition do_lost (s : state) : state * list event :=
  let o := ow s in let h := hd s in
  ({| ow := {| o_tab := if finish_clears_myReferenceByCLID && finish_clears_myReferenceByPUID then [] else o_tab o;
               o_next := o_next o; o_alloc := o_alloc o; o_failed := o_failed o |};
      hd := {| h_trk := []; h_tab := if finish_clears_yourReferenceByCLID then [] else h_tab h;
               h_nextpid := h_nextpid h; h_nextrid := h_nextrid h; h_pend := []; h_acks := [] |};
      ch_oh := []; ch_ho := []; lost := true; leaked := [] |}, []).

Definition step (s : state) (o : op) : state * list event :=
  if lost s then (s, [])
  else match o with
       | Send x d => do_send s x d
       | RecvOH => do_recv_oh s
       | RecvHO => do_recv_ho s
       | DropProxy p => do_drop s p
       | HandleRefLost => do_reflost s
       | SendHome p k => do_home s p k
       | ConnLost => do_lost s
       end.

Fixpoint run (s : state) (ops : list op) : state :=
  match ops with [] => s | o :: r => run (fst (step s o)) r end.

(* the events of a run, one list per op *)
Fixpoint run_events (s : state) (ops : list op) : list (list event) :=
  match ops with [] => [] | o :: r => snd (step s o) :: run_events (fst (step s o)) r end.

(* ---------------------------------------------------------------- the same system with the deletion rule of
   freeYourReferenceTracker as a PARAMETER (the source's rule is freeTracker_delkey; `step_k freeTracker_delkey` is `step`).
   DelByIdentity is the repair of D16 (ab72d65): the answer to a decref removes the import-table entry only if that entry
   still is the answered tracker (`if self.yourReferenceByCLID.get(tracker.clid) is tracker`). *)
Definition do_ack_k (k : delkey) (s : state) (rid : Z) (rest : list msgOH) : state * list event :=
  let h := hd s in
  let tab :=
    match acks_get (h_acks h) rid with
    | Some i =>
      match nth_error (h_trk h) i with
      | Some t =>
        if freeTracker_keeps (t_recv t) then h_tab h
        else match k with
             | DelByClid => tab_del (h_tab h) (t_clid t)
             | DelByIdentity => match tab_get (h_tab h) (t_clid t) with
                                | Some j => if Nat.eqb i j then tab_del (h_tab h) (t_clid t) else h_tab h
                                | None => h_tab h
                                end
             end
      | None => h_tab h
      end
    | None => h_tab h
    end in
  ({| ow := ow s;
      hd := {| h_trk := h_trk h; h_tab := tab; h_nextpid := h_nextpid h; h_nextrid := h_nextrid h;
               h_pend := h_pend h; h_acks := acks_del (h_acks h) rid |};
      ch_oh := rest; ch_ho := ch_ho s; lost := lost s; leaked := leaked s |}, []).

Definition do_recv_oh_k (k : delkey) (s : state) : state * list event :=
  match ch_oh s with
  | [] => (s, [])
  | MyRef c true _ :: rest =>
    ({| ow := ow s; hd := hd s; ch_oh := rest; ch_ho := ch_ho s; lost := lost s; leaked := c :: leaked s |}, [])
  | MyRef c false u :: rest => do_myref s c u rest
  | Ack rid :: rest => do_ack_k k s rid rest
  end.

Definition step_k (k : delkey) (s : state) (o : op) : state * list event :=
  if lost s then (s, [])
  else match o with
       | Send x d => do_send s x d
       | RecvOH => do_recv_oh_k k s
       | RecvHO => do_recv_ho s
       | DropProxy p => do_drop s p
       | HandleRefLost => do_reflost s
       | SendHome p k' => do_home s p k'
       | ConnLost => do_lost s
       end.

Fixpoint run_k (k : delkey) (s : state) (ops : list op) : state :=
  match ops with [] => s | o :: r => run_k k (fst (step_k k s o)) r end.

(* ---------------------------------------------------------------- counting functions used by the invariant *)
Definition contrib (t : tracker) (c : Z) : Z := if t_clid t =? c then t_recv t else 0.
Fixpoint recv_sum (trk : list tracker) (c : Z) : Z :=
  match trk with [] => 0 | t :: r => contrib t c + recv_sum r c end.
Fixpoint inflight (ch : list msgOH) (c : Z) : Z :=
  match ch with
  | [] => 0
  | MyRef k _ _ :: r => (if k =? c then 1 else 0) + inflight r c
  | Ack _ :: r => inflight r c
  end.
Fixpoint decs (ch : list msgHO) (c : Z) : Z :=
  match ch with
  | [] => 0
  | Decref k n _ :: r => (if k =? c then n else 0) + decs r c
  | ToOwner _ _ :: r => decs r c
  end.
Fixpoint cnt (l : list Z) (c : Z) : Z :=
  match l with [] => 0 | k :: r => (if k =? c then 1 else 0) + cnt r c end.

(* every your-reference / call in flight finds its entry, even after the decrefs queued ahead of it *)
Fixpoint home_ok (f : Z -> Z) (ch : list msgHO) : Prop :=
  match ch with
  | [] => True
  | Decref c n _ :: r => home_ok (fun k => if k =? c then f k - n else f k) r
  | ToOwner c _ :: r => 0 < f c /\ home_ok f r
  end.

(* ---------------------------------------------------------------- D16 guard (exact): the answer to a decref frees
   a tracker whose count is zero only if the import table's entry for that clid is this very tracker (or absent) *)
Definition safe_op (s : state) (o : op) : bool :=
  match o with
  | RecvOH =>
    if lost s then true else
    match ch_oh s with
    | Ack rid :: _ =>
      match acks_get (h_acks (hd s)) rid with
      | Some i =>
        match nth_error (h_trk (hd s)) i with
        | Some t =>
          if freeTracker_keeps (t_recv t) then true
          else match tab_get (h_tab (hd s)) (t_clid t) with
               | Some j => Nat.eqb i j
               | None => true
               end
        | None => true
        end
      | None => true
      end
    | _ => true
    end
  | _ => true
  end.

Fixpoint safe_run (s : state) (ops : list op) : Prop :=
  match ops with [] => True | o :: r => safe_op s o = true /\ safe_run (fst (step s o)) r end.
Fixpoint safe_run_k (k : delkey) (s : state) (ops : list op) : Prop :=
  match ops with [] => True | o :: r => safe_op s o = true /\ safe_run_k k (fst (step_k k s o)) r end.

(* observations used by the correspondence check *)
Definition alive (t : tracker) : bool := match t_proxy t with Some _ => true | None => false end.
Definition quiescent (s : state) : Prop := ch_oh s = [] /\ ch_ho s = [] /\ h_pend (hd s) = [].
Definition no_proxy (s : state) : Prop := Forall (fun t => t_proxy t = None) (h_trk (hd s)).

(* ---------------------------------------------------------------- several connections (C08, reconnection)
   A clid is meaningful only in the export table of the connection on which it was allocated (clids restart at
   first_clid on every connection).  YourReferenceSlicer.slice decides between a bare `your-reference <clid>` and a gift
   `their-reference <giftID> <furl>` (resolved through the owning Tub's name table, not modelled further); WHICH test it
   uses is read from the source (yourref_homekey). *)
Record conn := { conn_id : Z; conn_peer : Z }.          (* a Broker: its identity, and the Tub at the other end *)
Inductive wire := WYourRef (c : Z) | WTheirRef (furl : Z).

Definition goes_home (k : homekey) (proxy_conn out_conn : conn) : bool :=
  match k with
  | HomeSameConnection => conn_id proxy_conn =? conn_id out_conn
  | HomeSamePeerTub => conn_peer proxy_conn =? conn_peer out_conn
  end.

Definition slice_proxy (proxy_conn out_conn : conn) (clid furl : Z) : wire :=
  if goes_home yourref_homekey proxy_conn out_conn then WYourRef clid else WTheirRef furl.

(* ---------------------------------------------------------------- util.AsyncAND (C08, gifts inside containers)
   A container (list, dict, set, tuple, argument list) that holds gifts is handed to the application when the AsyncAND of
   its children's ready-Deferreds fires.  An input is either already fired when AsyncAND subscribes to it (its callback
   then runs synchronously inside addCallbacks) or still pending.  HOW the inputs are counted is read from the source. *)
Record aand := { aa_remaining : Z; aa_fired : bool }.

Definition aand_cb (s : aand) : aand :=            (* _cbDeferred(result, succeeded=True) *)
  {| aa_remaining := aa_remaining s - 1; aa_fired := aa_fired s || (aa_remaining s - 1 =? 0) |}.

Fixpoint aand_subscribe (k : andinit) (s : aand) (inputs : list bool) : aand :=
  match inputs with
  | [] => s
  | fired :: r =>
    let s1 := match k with
              | CountWhileSubscribing => {| aa_remaining := aa_remaining s + 1; aa_fired := aa_fired s |}
              | CountBeforeSubscribing => s
              end in
    aand_subscribe k (if fired then aand_cb s1 else s1) r
  end.

Definition aand_new (k : andinit) (inputs : list bool) : aand :=
  match inputs with
  | [] => {| aa_remaining := 0; aa_fired := true |}        (* nothing to wait for *)
  | _ => aand_subscribe k {| aa_remaining := match k with CountBeforeSubscribing => Z.of_nat (List.length inputs)
                                                       | CountWhileSubscribing => 0 end;
                             aa_fired := false |} inputs
  end.

Fixpoint aand_complete (s : aand) (j : nat) : aand :=   (* j of the pending inputs fire later *)
  match j with O => s | S j' => aand_complete (aand_cb s) j' end.

Definition npending (inputs : list bool) : nat := List.length (filter negb inputs).

(* ---------------------------------------------------------------- one placeholder in several places (C08, "repeated
   within one call" for values that hold gifts)
   A value the receiver cannot build yet -- a tuple holding a gift that is still being introduced -- is represented in
   EVERY place that contains it (argument, list item, dict value, set member, tuple item; the second and later places
   arrive as banana back-references) by one and the same Deferred.  Every place subscribes its update callback to it, and
   when the value is complete Twisted runs the callbacks in subscription order, each one receiving what the previous one
   RETURNED.  Whether the update callback of a kind of place returns its argument is read from the source
   (gen: update_passes_list and its four siblings).  `fire cur places` = what each place stores when the Deferred fires with `cur`. *)
Inductive place := PList | PTuple | PSet | PDict | PArg.

Definition place_passes (k : place) : bool :=
  match k with
  | PList => update_passes_list | PTuple => update_passes_tuple | PSet => update_passes_set
  | PDict => update_passes_dict | PArg => update_passes_arg
  end.

Fixpoint fire_with (passes : place -> bool) (cur : option Z) (ps : list place) : list (option Z) :=
  match ps with
  | [] => []
  | k :: r => cur :: fire_with passes (if passes k then cur else None) r
  end.

Definition fire := fire_with place_passes.
