(* C17: REFINEMENT.  The Promise model of lib/Promise.v keeps its own FIFO of scheduled calls (`queue`, appended to
   by `enq`, emptied by `pturn`).  Here the same promise operations are run on top of the TRANSLATED code of
   foolscap/eventual.py (gen/EventualGen.v, the very definitions the queue model of lib/Eventual.v runs): every call
   the promise code schedules goes through the translated eventually(), and a reactor turn is the translated _turn
   whose environment invokes the scheduled promise callbacks (Promise._deliver, Deferred.callback).  The theorem
   pq_refines says that, for every program and every configuration of the promise code, this machine and the model
   of lib/Promise.v produce the same events and the same state: the Promise model's FIFO IS the eventual-send queue.
   The generic facts about the translated code used on the way (they hold for every kind of callable and every
   environment) are what carries "never synchronously / in submission order / what a callback schedules waits for
   the next turn" over to promise callbacks. *)
From Coq Require Import ZArith List Bool Lia Arith.
Import ListNotations.
Require Import Verif.lib.EventualBase Verif.gen.EventualGen Verif.lib.Promise.
Local Open Scope Z_scope.

(* ================================================================== the translated code, generically *)
Section Generic.
Context {C F U : Type}.
Notation W := (world C F U).
Notation A := (EventualBase.act C F U).

(* eventually(x), as translated: the entry goes to the tail of self._events and the reactor is armed; nothing else
   happens, the environment is not used -- the entry is NOT invoked *)
Definition appended (w : W) (x : C) : W :=
  mkW (w_events w ++ [x]) (w_flushers w) true (w_sched w || negb (w_timer w)) (w_in_turn w) (w_loc w) (w_obs w) (w_user w).

Lemma eventually_gen (E : env C F U) x w : m_eventually E x w = (appended w x, [], FNorm).
Proof.
  cbv beta iota zeta delta [m_eventually m_append seqa cond ret p_events_append p_arm_timer t_timer appended upd_events
    w_events w_flushers w_timer w_sched w_in_turn w_loc w_obs w_user].
  destruct w as [ev fl ti sc it lo ob us]. destruct ti; destruct sc; reflexivity.
Qed.

(* the batch loop of a body that invokes the entry and lets nothing it raises out *)
Definition swallow (a : A) : A :=
  fun w => let '(w1, t1, f1) := a w in (w1, t1, match f1 with FRet r => FRet r | _ => FNorm end).

Lemma for_list_ext (b1 b2 : C -> list C -> A) :
  (forall x r w, b1 x r w = b2 x r w) -> forall l w, for_list b1 l w = for_list b2 l w.
Proof.
  intros H. induction l as [|x l IH]; intros w; cbn [for_list]; [reflexivity|].
  rewrite H. destruct (b2 x l w) as [[w1 t1] [|r|i k]]; try reflexivity. rewrite IH. reflexivity.
Qed.

(* _turn, as translated: the timer handle is dropped, the batch is taken out of self._events (which is left empty),
   every entry of the batch is invoked in order (whatever it raises is swallowed), then the flush observers are served
   while nothing is queued *)
Definition turn_start (w : W) : W :=
  mkW [] (w_flushers w) false (w_sched w) true (w_events w) (w_obs w) (w_user w).
Definition turn_mid (w : W) : W :=
  mkW (w_events w) (w_flushers w) (w_timer w) (w_sched w) false (w_loc w) (w_obs w) (w_user w).

(* `while self._flushObservers and not self._events: self._flushObservers.pop(0).callback(None)` *)
Definition obs_loop (E : env C F U) : A :=
  p_while (e_fuel E) (fun w => andb (t_observers w) (negb (t_events w))) (seqa (p_pop0_callback (e_fire E)) ret).

Lemma obs_loop_nil (E : env C F U) w : w_flushers w = [] -> obs_loop E w = (w, [], FNorm).
Proof.
  intros H. unfold obs_loop, p_while. destruct (e_fuel E w) as [|n]; cbn [while_fuel]; [reflexivity|].
  unfold t_observers. rewrite H. reflexivity.
Qed.

Lemma turn_gen (E : env C F U) w :
  m__turn E w =
  let '(w2, t2, f2) := for_list (fun x rest => swallow (e_call E x rest)) (w_events w) (turn_start w) in
  match f2 with
  | FNorm => let '(w3, t3, f3) := seqa (obs_loop E) ret (turn_mid w2) in (w3, t2 ++ t3, f3)
  | _ => (w2, t2, f2)
  end.
Proof.
  unfold m__turn, obs_loop.
  cbv beta iota zeta delta [seqa p_timer_none p_swap_events p_set_in_turn p_for_loc ret
    w_events w_flushers w_timer w_sched w_in_turn w_loc w_obs w_user turn_start turn_mid].
  rewrite (for_list_ext _ (fun x rest => swallow (e_call E x rest))).
  2:{ intros x r w1. unfold swallow, try_catch, p_log_err.
      destruct (e_call E x r w1) as [[w2 t2] [|r2|i k]]; cbv beta iota zeta delta [ret catches]; cbn [app];
        rewrite ?app_nil_r; reflexivity. }
  destruct w as [ev fl ti sc it lo ob us].
  match goal with |- context [for_list ?b ?l ?w1] => destruct (for_list b l w1) as [[w2 t2] [|r2|i k]] end;
    cbn [app]; try reflexivity.
  match goal with |- context [p_while ?f ?c ?b ?w1] => destruct (p_while f c b w1) as [[w3 t3] [|r3|i3 k3]] end;
    cbn [app]; rewrite ?app_nil_r; reflexivity.
Qed.

End Generic.

(* ================================================================== promise operations do not look at the queue *)
Definition setq (s : ps) (q : list task) : ps := {| tbl := tbl s; next := next s; queue := q; defs := defs s |}.

Ltac fr_done := cbn [setq enq setp set_def alloc fst snd tbl next queue defs app]; rewrite ?app_nil_r, <- ?app_assoc; reflexivity.

Lemma resolve2_frame c top p o s q :
  resolve2 c top (setq s q) p o = let '(s', e) := resolve2 c top (setq s []) p o in (setq s' (q ++ queue s'), e).
Proof.
  unfold resolve2. cbn [setq tbl]. destruct (tbl s p) as [pr|]; [|fr_done].
  repeat match goal with |- context [if ?x then _ else _] => destruct x end; fr_done.
Qed.

Lemma setp_setq s q p pr : setp (setq s q) p pr = setq (setp s p pr) q.
Proof. reflexivity. Qed.
Lemma setdef_setq s q m d : set_def (setq s q) m d = setq (set_def s m d) q.
Proof. reflexivity. Qed.
Lemma setq_setq s q q' : setq (setq s q) q' = setq s q'.
Proof. reflexivity. Qed.

Lemma chain_to_frame c top p r s q :
  chain_to c top (setq s q) p r = let '(s', e) := chain_to c top (setq s []) p r in (setq s' (q ++ queue s'), e).
Proof.
  unfold chain_to. cbn [setq tbl]. destruct (tbl s r) as [qr|]; [|fr_done].
  destruct (pc_wait_on c (pstate qr)).
  - destruct (plive qr); fr_done.
  - destruct (ptarget qr); [apply resolve2_frame|fr_done].
Qed.

Lemma resolve_call_frame c top p x s q :
  resolve_call c top (setq s q) p x = let '(s', e) := resolve_call c top (setq s []) p x in (setq s' (q ++ queue s'), e).
Proof.
  unfold resolve_call. cbn [setq tbl]. destruct (tbl s p) as [pr|]; [|fr_done].
  match goal with |- context [if ?x then _ else _] => destruct x end; [fr_done|].
  destruct x as [v|f|r]; try apply resolve2_frame.
  destruct (tbl s r) as [qr|]; [|fr_done].
  rewrite !setp_setq, chain_to_frame. cbn [setq tbl].
  match goal with |- context [chain_to c top ?s0 p r] => destruct (chain_to c top s0 p r) as [s1 e1] end. reflexivity.
Qed.

Lemma resolver_frame c r x s q :
  resolver c (setq s q) r x = let '(s', e) := resolver c (setq s []) r x in (setq s' (q ++ queue s'), e).
Proof. unfold resolver. destruct r; [apply resolve_call_frame|fr_done]. Qed.

Lemma resolver_opt_frame c r x s q :
  resolver_opt c (setq s q) r x = let '(s', e) := resolver_opt c (setq s []) r x in (setq s' (q ++ queue s'), e).
Proof. unfold resolver_opt. destruct x; [apply resolver_frame|fr_done]. Qed.

Lemma send_op_frame c p m b wr s q :
  send_op c (setq s q) p m b wr = let '(s', e) := send_op c (setq s []) p m b wr in (setq s' (q ++ queue s'), e).
Proof.
  unfold send_op. cbn [setq tbl]. destruct (tbl s p) as [pr|]; [|fr_done].
  destruct wr; cbn [alloc setq tbl next queue defs];
    repeat match goal with |- context [if ?x then _ else _] => destruct x end; fr_done.
Qed.

Lemma when_op_frame c p w s q :
  when_op c (setq s q) p w = let '(s', e) := when_op c (setq s []) p w in (setq s' (q ++ queue s'), e).
Proof.
  unfold when_op. cbn [setq tbl]. destruct (tbl s p) as [pr|]; [|fr_done].
  repeat match goal with
         | |- context [if ?x then _ else _] => destruct x
         | |- context [match ptarget ?x with _ => _ end] => destruct (ptarget x)
         end; fr_done.
Qed.

(* sequencing of framed steps *)
Lemma frame_bind (f g : ps -> ps * list pev) s q :
  (forall s q, f (setq s q) = let '(s', e) := f (setq s []) in (setq s' (q ++ queue s'), e)) ->
  (forall s q, g (setq s q) = let '(s', e) := g (setq s []) in (setq s' (q ++ queue s'), e)) ->
  (let '(s1, e1) := f (setq s q) in let '(s2, e2) := g s1 in (s2, e1 ++ e2)) =
  (let '(s', e) := (let '(s1, e1) := f (setq s []) in let '(s2, e2) := g s1 in (s2, e1 ++ e2)) in (setq s' (q ++ queue s'), e)).
Proof.
  intros Hf Hg. rewrite Hf. destruct (f (setq s [])) as [s1 e1].
  assert (E1 : s1 = setq s1 (queue s1)) by (destruct s1; reflexivity).
  rewrite (Hg s1 (q ++ queue s1)). rewrite E1 at 2. rewrite (Hg s1 (queue s1)).
  destruct (g (setq s1 [])) as [s2 e2]. cbn [setq queue]. rewrite <- app_assoc. reflexivity.
Qed.

Lemma meth_send_frame c m s q :
  meth_send c (setq s q) m = let '(s', e) := meth_send c (setq s []) m in (setq s' (q ++ queue s'), e).
Proof. unfold meth_send. destruct (mbeh m); try fr_done. apply send_op_frame. Qed.

Lemma meth_result_frame nx m s q :
  meth_result nx (setq s q) m = let '(s', x) := meth_result nx (setq s []) m in (setq s' (q ++ queue s'), x).
Proof.
  unfold meth_result. destruct (mbeh m); try fr_done.
  cbn [setq defs]. destruct (dget (defs s) (mid m)) as [[r|x0|]|]; fr_done.
Qed.

Lemma run_task_frame c t s q :
  run_task c (setq s q) t = let '(s', e) := run_task c (setq s []) t in (setq s' (q ++ queue s'), e).
Proof.
  destruct t as [p m|p [w|p'] o]; cbn [run_task].
  - cbn [setq tbl next]. destruct (tbl s p) as [pr|]; [|fr_done].
    destruct (ptarget pr) as [[v|f]|]; [| |fr_done].
    + rewrite meth_send_frame. destruct (meth_send c (setq s []) m) as [s0 e0].
      assert (E0 : s0 = setq s0 (queue s0)) by (destruct s0; reflexivity).
      rewrite meth_result_frame. rewrite E0 at 2. rewrite (meth_result_frame (next s) m s0 (queue s0)).
      destruct (meth_result (next s) (setq s0 []) m) as [s1 x].
      rewrite resolver_opt_frame.
      assert (E1 : setq s1 (queue s0 ++ queue s1) = setq (setq s1 []) (queue s0 ++ queue s1)) by reflexivity.
      rewrite E1, (resolver_opt_frame c (mres m) x (setq s1 []) (queue s0 ++ queue s1)). rewrite setq_setq.
      destruct (resolver_opt c (setq s1 []) (mres m) x) as [s2 e2]. cbn [setq queue]. rewrite <- !app_assoc. reflexivity.
    + rewrite resolver_frame. destruct (resolver c (setq s []) (mres m) (RFail f)) as [s1 e1]. reflexivity.
  - fr_done.
  - apply resolve2_frame.
Qed.

Lemma fire_def_frame c m x s q :
  fire_def c (setq s q) m x = let '(s', e) := fire_def c (setq s []) m x in (setq s' (q ++ queue s'), e).
Proof.
  unfold fire_def. cbn [setq next defs].
  match goal with |- context [if ?b then _ else _] => destruct b end; [fr_done|].
  destruct (dget (defs s) m) as [[r|x0|]|]; try fr_done.
  rewrite setdef_setq. apply resolver_frame.
Qed.

(* ================================================================== promise operations on the translated queue *)
(* the world: entries = promise tasks, no flush Deferreds are used by promise.py (F = unit), the rest of the world =
   the promise table (a ps whose own queue field stays empty) and the log of promise events *)
Definition pw := world task unit (ps * list pev).
Definition penv := env task unit (ps * list pev).

Definition core (w : pw) : ps := setq (fst (w_user w)) [].
Definition plog (w : pw) : list pev := snd (w_user w).
(* what the model of lib/Promise.v would hold: the same table, and as queue the entries waiting in self._events *)
Definition abs (w : pw) : ps := setq (fst (w_user w)) (w_events w).

Definition env0 : penv := mkEnv (fun _ _ => ret) (fun _ => ret) (fun _ => ret) (fun _ => O).

(* every call the promise code schedules goes through the translated eventually() *)
Definition sched_all (ts : list task) (w : pw) : pw :=
  fold_left (fun w x => fst (fst (m_eventually env0 x w))) ts w.

(* a promise operation f runs on the table; the calls it schedules are handed to eventually() in order *)
Definition lift (f : ps -> ps * list pev) (w : pw) : pw :=
  let '(s', e) := f (core w) in
  upd_user (sched_all (queue s') w) (setq s' [], plog w ++ e).

(* invoking a scheduled entry: Promise._deliver / Deferred.callback run, as run_task says *)
Definition call_p (c : pcfg) (t : task) (rest : list task) : EventualBase.act task unit (ps * list pev) :=
  fun w => (lift (fun s => run_task c s t) w, [], FNorm).

Definition env_p (c : pcfg) : penv := mkEnv (call_p c) (fun _ => ret) (fun _ => ret) (fun _ => O).

Definition turn_p (c : pcfg) (w : pw) : pw :=
  if negb (w_sched w) then w else
  fst (fst (m__turn (env_p c) (mkW (w_events w) (w_flushers w) (w_timer w) false (w_in_turn w) (w_loc w) (w_obs w) (w_user w)))).

Definition step_p (c : pcfg) (w : pw) (o : pop) : pw :=
  match o with
  | PTurn => turn_p c w
  | _ => lift (fun s => pstep c s o) w
  end.

Definition run_p (c : pcfg) (w : pw) (ops : list pop) : pw := fold_left (step_p c) ops w.

Definition pw0 : pw := mkW [] [] false false false [] [] (ps0, []).

Lemma pop_is_turn (o : pop) : o = PTurn \/ o <> PTurn.
Proof. destruct o; first [left; reflexivity | right; discriminate]. Qed.

(* between operations: nothing but promise tasks is queued, the timer handle mirrors the reactor, and a reactor
   call is pending exactly when something is queued *)
Definition K (w : pw) : Prop := w_timer w = w_sched w /\ w_sched w = negb (is_nil (w_events w)).
Definition pq_inv (w : pw) : Prop :=
  w_flushers w = [] /\ w_in_turn w = false /\ K w /\ queue (fst (w_user w)) = [].

Lemma sched_all_spec ts : forall w,
  w_events (sched_all ts w) = w_events w ++ ts /\ w_user (sched_all ts w) = w_user w /\
  w_flushers (sched_all ts w) = w_flushers w /\ w_in_turn (sched_all ts w) = w_in_turn w /\
  w_loc (sched_all ts w) = w_loc w /\ w_obs (sched_all ts w) = w_obs w /\ (K w -> K (sched_all ts w)).
Proof.
  induction ts as [|x ts IH]; intros w; cbn [sched_all fold_left].
  - rewrite app_nil_r. repeat (split; [reflexivity|]). auto.
  - rewrite eventually_gen. cbn [fst]. fold (sched_all ts (appended w x)).
    destruct (IH (appended w x)) as (A & B & C0 & D & L & O & T). rewrite A, B, C0, D, L, O.
    cbn [appended w_events w_user w_flushers w_in_turn w_loc w_obs].
    rewrite <- app_assoc. repeat (split; [reflexivity|]).
    intros [K1 K2]. apply T. unfold K. cbn [appended w_timer w_sched w_events]. rewrite K1.
    clear K2. split; [destruct (w_sched w); reflexivity|].
    destruct (w_sched w); destruct (w_events w); reflexivity.
Qed.

Lemma lift_facts (f : ps -> ps * list pev) w :
  w_flushers (lift f w) = w_flushers w /\ w_in_turn (lift f w) = w_in_turn w /\ w_loc (lift f w) = w_loc w /\
  (K w -> K (lift f w)) /\ queue (fst (w_user (lift f w))) = [].
Proof.
  unfold lift. destruct (f (core w)) as [s1 e1].
  destruct (sched_all_spec (queue s1) w) as (A & B & C0 & D & L & O & T).
  unfold upd_user, K. cbn [w_flushers w_in_turn w_loc w_timer w_sched w_events w_user fst setq queue].
  split; [exact C0|]. split; [exact D|]. split; [exact L|]. split; [exact T|reflexivity].
Qed.

(* a lifted framed operation is the operation of lib/Promise.v on the abstraction; `front` = entries of a running
   batch that have not been started (they are in front of self._events in the queue of lib/Promise.v) *)
Lemma lift_abs (f : ps -> ps * list pev) front w :
  (forall s q, f (setq s q) = let '(s', e) := f (setq s []) in (setq s' (q ++ queue s'), e)) ->
  let '(s', e) := f (setq (fst (w_user w)) (front ++ w_events w)) in
  setq (fst (w_user (lift f w))) (front ++ w_events (lift f w)) = s' /\ plog (lift f w) = plog w ++ e.
Proof.
  intros Hf. rewrite Hf. unfold lift, core. destruct (f (setq (fst (w_user w)) [])) as [s1 e1].
  destruct (sched_all_spec (queue s1) w) as (A & B & _).
  unfold plog, upd_user. cbn [w_user w_events fst snd]. rewrite A, <- app_assoc. split; reflexivity.
Qed.

Lemma pstep_frame c o s q : o <> PTurn ->
  pstep c (setq s q) o = let '(s', e) := pstep c (setq s []) o in (setq s' (q ++ queue s'), e).
Proof.
  intros Ho. destruct o as [|p m b|p m b|p w|p x|m x|]; cbn [pstep]; try contradiction.
  - cbn [alloc fst setq tbl next queue defs]. rewrite app_nil_r. reflexivity.
  - apply send_op_frame.
  - apply send_op_frame.
  - apply when_op_frame.
  - destruct x as [v|f|r]; try apply resolve_call_frame.
    cbn [setq next]. destruct (Nat.ltb r (next s)); [apply resolve_call_frame|].
    cbn [setq queue]. rewrite app_nil_r. reflexivity.
  - apply fire_def_frame.
Qed.

(* ---- the batch loop of the translated _turn with promise callbacks = run_n of lib/Promise.v *)
Definition fold_calls (c : pcfg) (batch : list task) (w : pw) : pw :=
  fold_left (fun w t => lift (fun s => run_task c s t) w) batch w.

Lemma for_list_calls c batch : forall w,
  for_list (fun x rest => swallow (e_call (env_p c) x rest)) batch w = (fold_calls c batch w, [], FNorm).
Proof.
  induction batch as [|t rest IH]; intros w; cbn [for_list fold_calls fold_left]; [reflexivity|].
  unfold swallow at 1. cbn [env_p e_call call_p]. rewrite IH. reflexivity.
Qed.

Lemma fold_calls_facts c batch : forall w,
  w_flushers (fold_calls c batch w) = w_flushers w /\ w_in_turn (fold_calls c batch w) = w_in_turn w /\
  (K w -> K (fold_calls c batch w)) /\
  (queue (fst (w_user w)) = [] -> queue (fst (w_user (fold_calls c batch w))) = []).
Proof.
  induction batch as [|t rest IH]; intros w; cbn [fold_calls fold_left]; [auto|].
  destruct (lift_facts (fun s => run_task c s t) w) as (A & B & _ & D & E0).
  destruct (IH (lift (fun s => run_task c s t) w)) as (A' & B' & D' & E').
  fold (fold_calls c rest (lift (fun s => run_task c s t) w)). rewrite A', B', A, B.
  split; [reflexivity|]. split; [reflexivity|]. split; [intros Hk; apply D', D, Hk|intros _; apply E', E0].
Qed.

Lemma batch_abs c batch : forall w,
  let '(s', e) := run_n c (List.length batch) (setq (fst (w_user w)) (batch ++ w_events w)) in
  setq (fst (w_user (fold_calls c batch w))) (w_events (fold_calls c batch w)) = s' /\
  plog (fold_calls c batch w) = plog w ++ e.
Proof.
  induction batch as [|t rest IH]; intros w; cbn [List.length run_n fold_calls fold_left app].
  - rewrite app_nil_r. split; reflexivity.
  - unfold run_one. cbn [setq queue tbl next defs].
    pose proof (lift_abs (fun s => run_task c s t) rest w (fun s q => run_task_frame c t s q)) as A.
    cbn beta in A. change {| tbl := tbl (fst (w_user w)); next := next (fst (w_user w)); queue := rest ++ w_events w;
                              defs := defs (fst (w_user w)) |} with (setq (fst (w_user w)) (rest ++ w_events w)).
    destruct (run_task c (setq (fst (w_user w)) (rest ++ w_events w)) t) as [s1 e1]. destruct A as [A1 A2].
    specialize (IH (lift (fun s => run_task c s t) w)). rewrite A1 in IH.
    destruct (run_n c (List.length rest) s1) as [s2 e2]. destruct IH as [I1 I2].
    fold (fold_calls c rest (lift (fun s => run_task c s t) w)).
    split; [exact I1|]. rewrite I2, A2, app_assoc. reflexivity.
Qed.

(* ---- one reactor turn *)
Lemma turn_abs c w : pq_inv w ->
  let '(s', e) := pturn c (abs w) in abs (turn_p c w) = s' /\ plog (turn_p c w) = plog w ++ e /\ pq_inv (turn_p c w).
Proof.
  intros (I1 & I2 & [K1 K2] & I5). unfold turn_p, pturn, abs at 1. cbn [setq queue].
  destruct (w_sched w) eqn:Sc; cbn [negb].
  2:{ assert (He : w_events w = []) by (destruct (w_events w); [reflexivity|discriminate]).
      rewrite He. cbn [List.length run_n]. split; [reflexivity|]. split; [rewrite app_nil_r; reflexivity|].
      unfold pq_inv, K. rewrite Sc, He. auto. }
  rewrite turn_gen. cbn [w_events turn_start w_flushers w_sched w_obs w_user].
  rewrite for_list_calls.
  match goal with |- context [fold_calls c ?b ?w1] => set (ws := w1); set (wb := fold_calls c b ws) end.
  pose proof (batch_abs c (w_events w) ws) as A. change (w_events ws) with (@nil task) in A. rewrite app_nil_r in A.
  change (w_user ws) with (w_user w) in A. change (plog ws) with (plog w) in A. fold wb in A.
  destruct (fold_calls_facts c (w_events w) ws) as (F1 & F2 & F3 & F4). fold wb in F1, F2, F3, F4.
  change (w_flushers ws) with (w_flushers w) in F1. change (w_in_turn ws) with true in F2.
  change (w_user ws) with (w_user w) in F4.
  assert (Kb : K wb) by (apply F3; split; reflexivity).
  unfold seqa. rewrite obs_loop_nil by (unfold turn_mid; cbn [w_flushers]; rewrite F1; exact I1).
  unfold ret. cbn [app fst].
  unfold abs, plog, turn_mid. cbn [w_user w_events fst]. unfold plog in A.
  destruct (run_n c (List.length (w_events w)) (setq (fst (w_user w)) (w_events w))) as [s1 e1].
  destruct A as [A1 A2]. split; [exact A1|]. split; [exact A2|].
  unfold pq_inv, K. cbn [w_flushers w_in_turn w_timer w_sched w_events w_user].
  rewrite F1. destruct Kb as [Kb1 Kb2]. split; [exact I1|]. split; [reflexivity|]. split; [split; assumption|].
  apply F4. exact I5.
Qed.

(* THE REFINEMENT: for every configuration of the promise code, every state between operations and every program,
   running the promise operations on the translated eventual-send queue gives the events and the state of the model of
   lib/Promise.v *)
Theorem pq_refines c ops : forall w, pq_inv w ->
  let '(s', e) := prun c (abs w) ops in
  abs (run_p c w ops) = s' /\ plog (run_p c w ops) = plog w ++ e /\ pq_inv (run_p c w ops).
Proof.
  induction ops as [|o ops IH]; intros w I; cbn [prun run_p fold_left].
  - rewrite app_nil_r. auto.
  - assert (St : let '(s1, e1) := pstep c (abs w) o in
                 abs (step_p c w o) = s1 /\ plog (step_p c w o) = plog w ++ e1 /\ pq_inv (step_p c w o)).
    { destruct (pop_is_turn o) as [->|Ho].
      - cbn [pstep step_p]. apply turn_abs. exact I.
      - assert (E : step_p c w o = lift (fun s => pstep c s o) w) by (destruct o; try reflexivity; contradiction).
        rewrite E. pose proof (lift_abs (fun s => pstep c s o) [] w (fun s q => pstep_frame c o s q Ho)) as A.
        cbn [app] in A. fold (abs w) in A. destruct (pstep c (abs w) o) as [s1 e1]. destruct A as [A1 A2].
        split; [exact A1|]. split; [exact A2|].
        destruct I as (I1 & I2 & I3 & I5). destruct (lift_facts (fun s => pstep c s o) w) as (F1 & F2 & _ & F4 & F5).
        unfold pq_inv. rewrite F1, F2. auto. }
    destruct (pstep c (abs w) o) as [s1 e1]. destruct St as (S1 & S2 & S3).
    specialize (IH (step_p c w o) S3). rewrite S1 in IH.
    fold (run_p c (step_p c w o) ops). destruct (prun c s1 ops) as [s2 e2]. destruct IH as (J1 & J2 & J3).
    split; [exact J1|]. split; [rewrite J2, S2, app_assoc; reflexivity|exact J3].
Qed.

Lemma pq_inv0 : pq_inv pw0.
Proof. repeat split. Qed.

Corollary pq_refines0 c ops :
  prun c ps0 ops = (abs (run_p c pw0 ops), plog (run_p c pw0 ops)).
Proof.
  pose proof (pq_refines c ops pw0 pq_inv0) as A. change (abs pw0) with ps0 in A.
  destruct (prun c ps0 ops) as [s e]. destruct A as (A1 & A2 & _). rewrite A1, A2. reflexivity.
Qed.

(* non-vacuity: the two machines on a program with a chain, sends before and after, a method that sends again *)
Example pq_example :
  let ops := [PNew; PNew; PSend 0 1 (BRet 11); PWhen 0 100; PResolve 0 (RProm 1); PSend 0 2 (BSendRet 0 3 7);
              PResolve 1 (RVal 9); PTurn; PTurn; PWhen 0 101; PTurn; PTurn] in
  plog (run_p src_pcfg pw0 ops) = snd (prun src_pcfg ps0 ops) /\
  List.length (filter (fun e => match e with EDelivered _ _ _ => true | _ => false end) (plog (run_p src_pcfg pw0 ops))) = 3%nat.
Proof. vm_compute. split; reflexivity. Qed.
