(* C16 -- vocabulary into which /verif/translate/g_reconnector.py translates the methods of
   foolscap.reconnector.Reconnector (definitions only, no proofs).

   A method becomes an action  st -> st * list out  built from the primitives below; the
   primitives stand for the statements of reconnector.py that touch the Reconnector's own
   fields or its environment (Tub, reactor, RemoteReference, user callback).

   Numbers: delays are exact rationals (Q).  The real code computes with IEEE doubles; the
   correspondence check compares with a relative tolerance.  [normalvariate z mu sigma] stands for
   random.normalvariate(mu, sigma) with the standard-normal draw z made an explicit input:
   mu + z*sigma (normalised with Qred so that numerators stay small; Qred q == q). *)
From Coq Require Import QArith Qminmax List Bool.
Import ListNotations.
Local Open Scope Q_scope.

(* ReconnectionInfo.state *)
Inductive istate := IUnstarted | IConnecting | IConnected | IWaiting.

(* what the Reconnector does to its environment *)
Inductive out :=
| OGetRef                 (* self._tub.getReference(self._url) *)
| OWatch                  (* rref.notifyOnDisconnect(self._disconnected) *)
| OCallback               (* cb(rref, *args, **kwargs) : the user's callback *)
| OSetTimer (d : Q)       (* reactor.callLater(d, self._timer_expired) *)
| OCancelTimer            (* self._timer.cancel() *)
| OResetTimer (d : Q)     (* self._timer.reset(d) *)
| ORemove.                (* self._tub._removeReconnector(self) *)

Record st := mkSt {
  active   : bool;        (* self._active *)
  stopped  : bool;        (* self._stopped : stopConnecting was called (possibly before the Tub started us) *)
  tub      : bool;        (* self._tub is not None *)
  delay    : Q;           (* self._delay *)
  timer    : option Q;    (* self._timer is a DelayedCall, due in that many seconds; None/False -> None *)
  inflight : nat;         (* Deferreds returned by getReference whose callbacks are _connected/_failed, not yet fired *)
  watching : nat;         (* RemoteReferences on which _disconnected is registered and has not fired *)
  leaked   : nat;         (* pending DelayedCalls no longer referenced by self._timer (0 on every permitted history) *)
  info     : istate       (* self._reconnectionInfo.state *)
}.

Definition act := st -> st * list out.

Definition ret : act := fun s => (s, []).
Definition seq (a b : act) : act :=
  fun s => let (s1, o1) := a s in let (s2, o2) := b s1 in (s2, o1 ++ o2).
Definition cond (c : st -> bool) (a b : act) : act := fun s => if c s then a s else b s.

Definition normalvariate (z mu sigma : Q) : Q := Qred (mu + z * sigma).

(* Python truthiness *)
Definition q_truthy (q : Q) : bool := negb (Qeq_bool q 0).
Definition timer_truthy (s : st) : bool := match timer s with Some _ => true | None => false end.

(* field updates *)
Definition set_active (b : bool) : act :=
  fun s => (mkSt b (stopped s) (tub s) (delay s) (timer s) (inflight s) (watching s) (leaked s) (info s), []).
Definition set_stopped (b : bool) : act :=
  fun s => (mkSt (active s) b (tub s) (delay s) (timer s) (inflight s) (watching s) (leaked s) (info s), []).
Definition set_tub (b : bool) : act :=
  fun s => (mkSt (active s) (stopped s) b (delay s) (timer s) (inflight s) (watching s) (leaked s) (info s), []).
Definition set_delay (f : st -> Q) : act :=
  fun s => (mkSt (active s) (stopped s) (tub s) (f s) (timer s) (inflight s) (watching s) (leaked s) (info s), []).
Definition set_info (i : istate) : act :=
  fun s => (mkSt (active s) (stopped s) (tub s) (delay s) (timer s) (inflight s) (watching s) (leaked s) i, []).
(* self._timer = None / False *)
Definition timer_clear : act :=
  fun s => (mkSt (active s) (stopped s) (tub s) (delay s) None (inflight s) (watching s) (leaked s) (info s), []).
(* self._timer.cancel(): the pending call is removed from the reactor (the field itself is assigned separately) *)
Definition timer_cancel : act :=
  fun s => (mkSt (active s) (stopped s) (tub s) (delay s) None (inflight s) (watching s) (leaked s) (info s), [OCancelTimer]).
(* self._timer.reset(q) *)
Definition timer_reset (q : Q) : act :=
  fun s => (mkSt (active s) (stopped s) (tub s) (delay s)
                 (match timer s with Some _ => Some q | None => None end)
                 (inflight s) (watching s) (leaked s) (info s), [OResetTimer q]).
(* self._timer = reactor.callLater(d, self._timer_expired): a call that was still referenced is leaked *)
Definition call_later (f : st -> Q) : act :=
  fun s => (mkSt (active s) (stopped s) (tub s) (delay s) (Some (f s)) (inflight s) (watching s)
                 (match timer s with Some _ => S (leaked s) | None => leaked s end) (info s),
            [OSetTimer (f s)]).
(* d = self._tub.getReference(self._url) *)
Definition get_reference : act := fun s => (s, [OGetRef]).
(* d.addCallbacks(self._connected, self._failed) *)
Definition add_callbacks : act :=
  fun s => (mkSt (active s) (stopped s) (tub s) (delay s) (timer s) (S (inflight s)) (watching s) (leaked s) (info s), []).
(* rref.notifyOnDisconnect(self._disconnected) *)
Definition watch : act :=
  fun s => (mkSt (active s) (stopped s) (tub s) (delay s) (timer s) (inflight s) (S (watching s)) (leaked s) (info s), [OWatch]).
(* cb(rref, *args, **kwargs): the user's callback runs HERE, and may itself call the Reconnector
   (stopConnecting / reset from inside the callback): [k] is what it does *)
Definition user_callback (k : act) : act := seq (fun s => (s, [OCallback])) k.
Definition remove_from_tub : act := fun s => (s, [ORemove]).

(* a state whose every field __init__ must overwrite *)
Definition blank : st := mkSt true true true 0 (Some 0) 0 0 0 IUnstarted.
