(* C16 -- vocabulary into which /verif/translate/g_reconnector.py translates the methods of
   foolscap.reconnector.Reconnector (definitions only, no proofs).

   A method becomes an action  st -> st * list out  built from the primitives below; the
   primitives stand for the statements of reconnector.py that touch the Reconnector's own
   fields or its environment (Tub, reactor, RemoteReference, user callback).

   Numbers: delays are exact rationals (Q).  The real code computes with IEEE doubles; the
   correspondence check compares with a relative tolerance.  [normalvariate z mu sigma] stands for
   random.normalvariate(mu, sigma) with the standard-normal draw z made an explicit input:
   mu + z*sigma (normalised with Qred so that numerators stay small; Qred q == q). *)
From Coq Require Import QArith Qminmax List Bool.
Import ListNotations.
Local Open Scope Q_scope.

(* ReconnectionInfo.state *)
Inductive istate := IUnstarted | IConnecting | IConnected | IWaiting.

(* what the Reconnector does to its environment *)
Inductive out :=
| OGetRef                 (* self._tub.getReference(self._url) *)
| OWatch                  (* rref.notifyOnDisconnect(self._disconnected) *)
| OCallback               (* cb(rref, *args, **kwargs) : the user's callback *)
| OSetTimer (d : Q)       (* reactor.callLater(d, self._timer_expired) *)
| OCancelTimer            (* self._timer.cancel() *)
| OResetTimer (d : Q)     (* self._timer.reset(d) *)
| ORemove.                (* self._tub._removeReconnector(self) *)

Record st := mkSt {
  active   : bool;        (* self._active *)
  stopped  : bool;        (* self._stopped : stopConnecting was called (possibly before the Tub started us) *)
  tub      : bool;        (* self._tub is not None *)
  delay    : Q;           (* self._delay *)
  timer    : option Q;    (* self._timer is a DelayedCall, due in that many seconds; None/False -> None *)
  inflight : nat;         (* Deferreds returned by getReference whose callbacks are _connected/_failed, not yet fired *)
  watching : nat;         (* RemoteReferences on which _disconnected is registered and has not fired *)
  leaked   : nat;         (* pending DelayedCalls no longer referenced by self._timer (0 on every permitted history) *)
  info     : istate       (* self._reconnectionInfo.state *)
}.

Definition act := st -> st * list out.

Definition ret : act := fun s => (s, []).
Definition seq (a b : act) : act :=
  fun s => let (s1, o1) := a s in let (s2, o2) := b s1 in (s2, o1 ++ o2).
Definition cond (c : st -> bool) (a b : act) : act := fun s => if c s then a s else b s.

Definition normalvariate (z mu sigma : Q) : Q := Qred (mu + z * sigma).

(* Python truthiness *)
Definition q_truthy (q : Q) : bool := negb (Qeq_bool q 0).
Definition timer_truthy (s : st) : bool := match timer s with Some _ => true | None => false end.

(* field updates *)
Definition set_active (b : bool) : act :=
  fun s => (mkSt b (stopped s) (tub s) (delay s) (timer s) (inflight s) (watching s) (leaked s) (info s), []).
Definition set_stopped (b : bool) : act :=
  fun s => (mkSt (active s) b (tub s) (delay s) (timer s) (inflight s) (watching s) (leaked s) (info s), []).
Definition set_tub (b : bool) : act :=
  fun s => (mkSt (active s) (stopped s) b (delay s) (timer s) (inflight s) (watching s) (leaked s) (info s), []).
Definition set_delay (f : st -> Q) : act :=
  fun s => (mkSt (active s) (stopped s) (tub s) (f s) (timer s) (inflight s) (watching s) (leaked s) (info s), []).
Definition set_info (i : istate) : act :=
  fun s => (mkSt (active s) (stopped s) (tub s) (delay s) (timer s) (inflight s) (watching s) (leaked s) i, []).
(* self._timer = None / False *)
Definition timer_clear : act :=
  fun s => (mkSt (active s) (stopped s) (tub s) (delay s) None (inflight s) (watching s) (leaked s) (info s), []).
(* self._timer.cancel(): the pending call is removed from the reactor (the field itself is assigned separately) *)
Definition timer_cancel : act :=
  fun s => (mkSt (active s) (stopped s) (tub s) (delay s) None (inflight s) (watching s) (leaked s) (info s), [OCancelTimer]).
(* self._timer.reset(q) *)
Definition timer_reset (q : Q) : act :=
  fun s => (mkSt (active s) (stopped s) (tub s) (delay s)
                 (match timer s with Some _ => Some q | None => None end)
                 (inflight s) (watching s) (leaked s) (info s), [OResetTimer q]).
(* self._timer = reactor.callLater(d, self._timer_expired): a call that was still referenced is leaked *)
Definition call_later (f : st -> Q) : act :=
  fun s => (mkSt (active s) (stopped s) (tub s) (delay s) (Some (f s)) (inflight s) (watching s)
                 (match timer s with Some _ => S (leaked s) | None => leaked s end) (info s),
            [OSetTimer (f s)]).
(* d = self._tub.getReference(self._url) *)
Definition get_reference : act := fun s => (s, [OGetRef]).
(* d.addCallbacks(self._connected, self._failed) *)
Definition add_callbacks : act :=
  fun s => (mkSt (active s) (stopped s) (tub s) (delay s) (timer s) (S (inflight s)) (watching s) (leaked s) (info s), []).
(* rref.notifyOnDisconnect(self._disconnected) *)
Definition watch : act :=
  fun s => (mkSt (active s) (stopped s) (tub s) (delay s) (timer s) (inflight s) (S (watching s)) (leaked s) (info s), [OWatch]).
(* cb(rref, *args, **kwargs): the user's callback runs HERE, and may itself call the Reconnector
   (stopConnecting / reset from inside the callback): [k] is what it does *)
Definition user_callback (k : act) : act := seq (fun s => (s, [OCallback])) k.
Definition remove_from_tub : act := fun s => (s, [ORemove]).

(* a state whose every field __init__ must overwrite *)
Definition blank : st := mkSt true true true 0 (Some 0) 0 0 0 IUnstarted.

(* ====================================================================== the Tub side (pb.py)
   Vocabulary into which g_reconnector.py translates Tub.connectTo, the Reconnector parts of Tub.startService and
   Tub.stopService, and Tub._removeReconnector.  A Tub owns every Reconnector it ever created (by id = position in
   [t_rcs]); `self.reconnectors` is a Python list of them ([t_list]; None once `del self.reconnectors` ran).
   Exceptions are modelled: [t_exc] = "an exception is propagating"; sequencing and loops stop when it is set, the
   event dispatcher (lib/ReconnectorTub.v) plays the caller that sees it. *)
Record tub_st := mkTub {
  t_running : bool;              (* Service.running, set by MultiService.startService *)
  t_shut    : bool;              (* stopService rebound startService / getReference / connectTo to raise *)
  t_list    : option (list nat); (* self.reconnectors *)
  t_queue   : list nat;          (* foolscap.eventual queue: pending calls rc.startConnecting(self) *)
  t_rcs     : list st;           (* the Reconnectors, by id *)
  t_cur     : nat;               (* the Reconnector the variable `rc` names *)
  t_exc     : bool               (* an exception (ValueError from list.remove / AttributeError / AssertionError) propagates *)
}.

(* (which Reconnector, what it did to its environment) *)
Definition tout := (nat * out)%type.
Definition tact := tub_st -> tub_st * list tout.

Definition tret : tact := fun t => (t, []).
(* statement sequencing: an exception raised by the first part skips the rest *)
Definition tseq (a b : tact) : tact :=
  fun t => let (t1, o1) := a t in
           if t_exc t1 then (t1, o1) else let (t2, o2) := b t1 in (t2, o1 ++ o2).
Definition tcond (c : tub_st -> bool) (a b : tact) : tact := fun t => if c t then a t else b t.

Definition upd {A} (i : nat) (x : A) (l : list A) : list A :=
  (fix go (i : nat) (l : list A) {struct l} : list A :=
     match l with
     | [] => []
     | y :: r => match i with O => x :: r | S i' => y :: go i' r end
     end) i l.
Fixpoint remove_first (i : nat) (l : list nat) : list nat :=
  match l with
  | [] => []
  | y :: r => if Nat.eqb y i then r else y :: remove_first i r
  end.
Definition memb (i : nat) (l : list nat) : bool := existsb (Nat.eqb i) l.

Definition t_set_rcs (r : list st) (t : tub_st) : tub_st :=
  mkTub (t_running t) (t_shut t) (t_list t) (t_queue t) r (t_cur t) (t_exc t).
Definition t_set_cur (i : nat) (t : tub_st) : tub_st :=
  mkTub (t_running t) (t_shut t) (t_list t) (t_queue t) (t_rcs t) i (t_exc t).
Definition t_raise : tact :=
  fun t => (mkTub (t_running t) (t_shut t) (t_list t) (t_queue t) (t_rcs t) (t_cur t) true, []).

(* rc = Reconnector(_furl, _cb, args, kwargs) *)
Definition t_new (init : st) : tact :=
  fun t => (mkTub (t_running t) (t_shut t) (t_list t) (t_queue t) (t_rcs t ++ [init]) (List.length (t_rcs t)) (t_exc t), []).
(* self.reconnectors.append(rc) *)
Definition t_append : tact :=
  fun t => match t_list t with
           | Some l => (mkTub (t_running t) (t_shut t) (Some (l ++ [t_cur t])) (t_queue t) (t_rcs t) (t_cur t) (t_exc t), [])
           | None => t_raise t
           end.
(* self.reconnectors.remove(rc): ValueError if rc is not in the list, AttributeError if the list was deleted *)
Definition t_remove : tact :=
  fun t => match t_list t with
           | Some l => if memb (t_cur t) l
                       then (mkTub (t_running t) (t_shut t) (Some (remove_first (t_cur t) l)) (t_queue t) (t_rcs t) (t_cur t) (t_exc t), [])
                       else t_raise t
           | None => t_raise t
           end.
(* del self.reconnectors *)
Definition t_del_list : tact :=
  fun t => match t_list t with
           | Some _ => (mkTub (t_running t) (t_shut t) None (t_queue t) (t_rcs t) (t_cur t) (t_exc t), [])
           | None => t_raise t
           end.
(* service.MultiService.startService(self) *)
Definition t_set_running : tact :=
  fun t => (mkTub true (t_shut t) (t_list t) (t_queue t) (t_rcs t) (t_cur t) (t_exc t), []).
(* assert self.running *)
Definition t_assert_running : tact := fun t => if t_running t then (t, []) else t_raise t.
(* self.startService = self._tubsAreNotRestartable; self.getReference = self.connectTo = self._tubHasBeenShutDown *)
Definition t_forbid : tact :=
  fun t => (mkTub (t_running t) true (t_list t) (t_queue t) (t_rcs t) (t_cur t) (t_exc t), []).
(* eventual.eventually(rc.startConnecting, self) *)
Definition t_enqueue_start : tact :=
  fun t => (mkTub (t_running t) (t_shut t) (t_list t) (t_queue t ++ [t_cur t]) (t_rcs t) (t_cur t) (t_exc t), []).

(* rc.<method>(...): run a translated Reconnector method on the Reconnector that `rc` names; every call the method
   makes to self._tub._removeReconnector(self) (output ORemove) runs [rm] = the translated
   Tub._removeReconnector, and an exception raised there propagates out of the method *)
Definition is_remove (o : out) : bool := match o with ORemove => true | _ => false end.
Definition t_removes (rm : tact) (outs : list out) (t : tub_st) : tub_st :=
  fold_left (fun t o => if is_remove o then (if t_exc t then t else fst (rm t)) else t) outs t.
Definition t_call_rc (rm : tact) (a : act) : tact :=
  fun t => let i := t_cur t in
           let (s', outs) := a (nth i (t_rcs t) blank) in
           (t_removes rm outs (t_set_rcs (upd i s' (t_rcs t)) t), map (pair i) outs).

(* for rc in list(self.reconnectors): <body>   -- iterates over a snapshot *)
Fixpoint t_each (ids : list nat) (body : tact) (t : tub_st) {struct ids} : tub_st * list tout :=
  match ids with
  | [] => (t, [])
  | i :: r => let (t1, o1) := body (t_set_cur i t) in
              if t_exc t1 then (t1, o1) else let (t2, o2) := t_each r body t1 in (t2, o1 ++ o2)
  end.
Definition t_for_copy (body : tact) : tact :=
  fun t => match t_list t with Some l => t_each l body t | None => t_raise t end.
(* for rc in self.reconnectors: <body>   -- Python's list iterator: index k against the list AS IT IS NOW, so a body
   that removes the current element makes the loop skip the next one *)
Fixpoint t_live (fuel k : nat) (body : tact) (t : tub_st) {struct fuel} : tub_st * list tout :=
  match fuel with
  | O => (t, [])
  | S f => match t_list t with
           | None => t_raise t
           | Some l => match nth_error l k with
                       | None => (t, [])
                       | Some i => let (t1, o1) := body (t_set_cur i t) in
                                   if t_exc t1 then (t1, o1)
                                   else let (t2, o2) := t_live f (S k) body t1 in (t2, o1 ++ o2)
                       end
           end
  end.
Definition t_for_live (body : tact) : tact :=
  fun t => match t_list t with Some l => t_live (S (List.length l)) 0 body t | None => t_raise t end.

Definition tub_init : tub_st := mkTub false false (Some []) [] [] 0 false.
