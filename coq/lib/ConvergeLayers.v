(* C14: two small models layered around lib/Converge.v.
   (a) offers: the outbound Negotiations of one Tub -- to its peer over several hints, and to a THIRD Tub -- each store the
       last-connection record of their own target at initClient and read it back at sendHello, one round trip later.
       `offer_dict_fresh` is TRANSLATED from Negotiation.__init__ (a dict per instance, or an alias of a shared object).
   (b) prestart: getReference calls made before Tub.startService are queued; startService relays each one, in a later
       turn, through an ordinary lookup (a lookup of lib/Converge.v, made at the time of the start) to a Deferred.
       `relay_binds_own_deferred` is TRANSLATED from the loop in Tub.startService (bound per iteration, or read late).
   Definitions only; proofs in ConvergeLayersProofs.v. *)
From Coq Require Import ZArith List Bool Arith.
Import ListNotations.
Require Import Verif.lib.PyLite Verif.gen.ConvergeGen.

(* ---- (a) offers *)
Inductive oev :=
| ONew (tgt : nat)      (* a new outbound Negotiation for Tub tgt: __init__, then initClient *)
| OSend (n : nat).      (* sendHello of the n-th Negotiation *)

Record ost := mkost {
  o_tgts : list nat;            (* target of each Negotiation *)
  o_priv : list (Z * Z);        (* the 'last-connection' in each Negotiation's own dict *)
  o_shared : Z * Z;             (* ... in the one dict they would share *)
  o_out : list (nat * (Z * Z))  (* hellos sent: (which Negotiation, last-connection it carries) *)
}.
Definition oinit : ost := mkost [] [] (0, 0)%Z [].

(* rec tgt = Tub.slave_table.get(tgt, ('none', 0)) *)
Definition ostep (fresh : bool) (rec : nat -> Z * Z) (s : ost) (e : oev) : ost :=
  match e with
  | ONew tgt => mkost (o_tgts s ++ [tgt]) (o_priv s ++ [rec tgt]) (rec tgt) (o_out s)
  | OSend n => match nth_error (o_priv s) n with
               | Some r => mkost (o_tgts s) (o_priv s) (o_shared s) (o_out s ++ [(n, if fresh then r else o_shared s)])
               | None => s
               end
  end.
Definition orun (fresh : bool) (rec : nat -> Z * Z) (evs : list oev) : ost := fold_left (ostep fresh rec) evs oinit.

(* ---- (b) prestart *)
Inductive pev :=
| PGet               (* the application calls Tub.getReference: a new Deferred (numbered in order) *)
| PStart             (* Tub.startService, and the turn in which the relays run *)
| PAnswer (w : nat). (* the lookup number w (lib/Converge.v) is answered *)

Record pst := mkpst {
  p_running : bool;
  p_queue : list nat;           (* _pending_getReferences: the queued Deferreds, in order *)
  p_inner : list (nat * nat);   (* lookups made so far: (lookup number, Deferred its answer is delivered to) *)
  p_answered : list nat;        (* lookups answered so far *)
  p_fired : list nat;           (* Deferreds fired so far, in order *)
  p_no : nat; p_nw : nat        (* next Deferred / lookup number *)
}.
Definition pinit : pst := mkpst false [] [] [] [] 0 0.
Definition nin (x : nat) (l : list nat) : bool := existsb (Nat.eqb x) l.

Definition pstep (binds_own : bool) (s : pst) (e : pev) : pst :=
  match e with
  | PGet =>
    if p_running s
    then mkpst true (p_queue s) (p_inner s ++ [(p_nw s, p_no s)]) (p_answered s) (p_fired s) (S (p_no s)) (S (p_nw s))
    else mkpst false (p_queue s ++ [p_no s]) (p_inner s) (p_answered s) (p_fired s) (S (p_no s)) (p_nw s)
  | PStart =>
    if p_running s then s else
    let q := p_queue s in
    let tg := map (fun o => if binds_own then o else last q 0) q in
    mkpst true [] (p_inner s ++ combine (seq (p_nw s) (List.length q)) tg) (p_answered s) (p_fired s) (p_no s) (p_nw s + List.length q)
  | PAnswer w =>
    if nin w (p_answered s) then s else
    match find (fun p => Nat.eqb (fst p) w) (p_inner s) with
    | None => s
    | Some (_, o) =>
      (* Deferred.callback on a Deferred that already fired raises AlreadyCalledError inside the relay: logged, dropped *)
      mkpst (p_running s) (p_queue s) (p_inner s) (p_answered s ++ [w])
            (if nin o (p_fired s) then p_fired s else p_fired s ++ [o]) (p_no s) (p_nw s)
    end
  end.
Definition prun (binds_own : bool) (evs : list pev) : pst := fold_left (pstep binds_own) evs pinit.
