(* C18: the layers composed -- logger model (lib/LogBuf.v: WHICH events an incident file / a log file holds, and with
   which compression it is written and read) with the JSON model (lib/LogJson.v: what each line reads back as). *)
From Coq Require Import ZArith List Bool Lia.
Import ListNotations.
Require Import Verif.lib.PyLite Verif.gen.LogBufGen Verif.gen.LogJsonGen Verif.lib.LogBuf Verif.lib.LogBufProofs
               Verif.lib.LogJson Verif.lib.LogJsonProofs.
Local Open Scope Z_scope.

(* the compression chosen by LogFileObserver is the one get_events expects for that name: any list of lines comes back *)
Lemma read_back_logfile {A} name_bz2 (lines : list A) :
  read_back name_bz2 (write_codec logfile_codec_from name_bz2 false) lines = Some lines.
Proof. unfold read_back, write_codec, logfile_codec_from, codec_of_name. destruct name_bz2; reflexivity. Qed.

Definition ev_fields (msg : event -> Z) (x : event) := Some (fields (e_num x) (e_lvl x) (msg x)).

Lemma lines_read_back L (payload : event -> pv) (msg : event -> Z) from rx (lines : list event) : lims_ok L ->
  (forall x, In x lines -> is_event (payload x) (e_num x) (e_lvl x) (msg x)) ->
  exists js, write_lines L from rx (map payload lines) = Some js /\ map line_view js = map (ev_fields msg) lines.
Proof.
  intros HL Hp.
  destruct (file_reads_back L from rx (map (fun x => (payload x, (e_num x, e_lvl x, msg x))) lines) HL) as (js & W & V).
  - apply Forall_forall. intros y Hy. apply in_map_iff in Hy. destruct Hy as (x & <- & Hx). cbn [fst snd]. apply Hp. exact Hx.
  - rewrite map_map in W. cbn [fst] in W. exists js. split; [exact W|]. rewrite V, map_map. reflexivity.
Qed.

(* a log file (LogFileObserver, plain or .bz2): every event handed to it is read back by get_events, in order, with
   its number, level and message -- whatever else the events hold *)
Theorem logfile_events_read_back L (payload : event -> pv) (msg : event -> Z) from rx name_bz2 (evs : list event) : lims_ok L ->
  (forall x, In x evs -> is_event (payload x) (e_num x) (e_lvl x) (msg x)) ->
  exists js, write_lines L from rx (map payload evs) = Some js /\
             read_back name_bz2 (write_codec logfile_codec_from name_bz2 false) js = Some js /\
             map line_view js = map (ev_fields msg) evs.
Proof.
  intros HL Hp. destruct (lines_read_back L payload msg from rx evs HL Hp) as (js & W & V).
  exists js. split; [exact W|]. split; [apply read_back_logfile | exact V].
Qed.

(* ---- LINE BY LINE (review 2, finding 3): no hypothesis on the file as a whole.  Every line whose own event is an
   is_event reads back its number / level / message, every scalar member of every event dict reads back (line_ok of
   lib/LogJsonProofs.v); a format event or a non-integer number elsewhere in the file takes nothing away *)
Lemma Forall2_map_l {A B C} (P : B -> C -> Prop) (f : A -> B) l js : Forall2 P (map f l) js -> Forall2 (fun x j => P (f x) j) l js.
Proof.
  revert js. induction l as [|x t IH]; intros js H; inversion H; subst; constructor; [assumption | apply IH; assumption].
Qed.

Lemma lines_read_back_each L (payload : event -> pv) from rx (lines : list event) : lims_ok L ->
  exists js, write_lines L from rx (map payload lines) = Some js /\ Forall2 (fun x j => line_ok (payload x) j) lines js.
Proof.
  intros HL. destruct (file_lines_read_back L from rx (map payload lines) HL) as (js & W & F).
  exists js. split; [exact W | apply Forall2_map_l; exact F].
Qed.

Theorem logfile_lines_read_back L (payload : event -> pv) from rx name_bz2 (evs : list event) : lims_ok L ->
  exists js, write_lines L from rx (map payload evs) = Some js /\
             read_back name_bz2 (write_codec logfile_codec_from name_bz2 false) js = Some js /\
             Forall2 (fun x j => line_ok (payload x) j) evs js.
Proof.
  intros HL. destruct (lines_read_back_each L payload from rx evs HL) as (js & W & F).
  exists js. split; [exact W|]. split; [apply read_back_logfile | exact F].
Qed.

Lemma trigger_in_sorted c sz b i e : 1 <= limit_of sz (e_fac e) (e_lvl e) ->
  In e (sort_by_num (all_buffered (x_bufs (add_event c sz b i e)))).
Proof.
  intros H6. apply sort_in. eapply buf_get_in_all. apply trigger_buffered. exact H6.
Qed.

(* an incident file, BOTH reporters (finding 4: the default reporter is the trailing one): the lines written at the
   moment of the trigger are everything buffered, the trigger among them; NonTrailing publishes  trigger :: lines  at
   once, the trailing reporter holds them (plus later events) until its timer / quota publishes  trigger :: lines ++ ..
   (C18_incident_timer_publishes, C18_incident_trailing).  The header line reads back the trigger's number / level /
   message if the trigger is an is_event, and any scalar member otherwise; the event lines read back line by line.
   Guard (exact, see incident_lost_when_sort_raises): no buffered number on which isinstance(.., int) raises. *)
Theorem incident_file_reads_back L (payload : event -> pv) from rx ty c sz b i e : lims_ok L ->
  c_fault c = NoFault -> c_qual c = true -> incident_level <= e_lvl e -> i_rep i = None -> i_zombie i = false ->
  1 <= limit_of sz (e_fac e) (e_lvl e) ->
  let a := add_event c sz b i e in
  nohost (x_bufs a) ->
  exists lines,
    (c_trailing c = false -> i_files (x_inc a) = i_files i ++ [e :: lines]) /\
    (c_trailing c = true -> i_rep (x_inc a) = Some (mkRep e lines TRAILING_EVENT_LIMIT true)) /\
    In e lines /\ Permutation.Permutation lines (all_buffered (x_bufs a)) /\
    (exists jh, serialize L (header ty (payload e) []) = Ok jh /\
       (forall n l m, is_event (payload e) n l m -> exists d, trigger_of_header jh = Some d /\ view3 d = fields n l m) /\
       (forall kv s v j0, is_event_dict (payload e) kv -> pfield s kv = Some v -> stable v j0 ->
          exists d, trigger_of_header jh = Some d /\ jfield s d = Some j0)) /\
    (exists js, write_lines L from rx (map payload lines) = Some js /\ Forall2 (fun x j => line_ok (payload x) j) lines js).
Proof.
  intros HL H1 H2 H3 H4 H5 H6 a Hh.
  assert (H6' : 0 <= limit_of sz (e_fac e) (e_lvl e)) by lia.
  destruct (incident_recorded c sz b i e H1 H2 H3 H4 H5 H6' Hh) as (_ & Hn & Ht).
  exists (sort_by_num (all_buffered (x_bufs a))).
  split; [intros H7; destruct (Hn H7) as (Hf & _); exact Hf|].
  split; [intros H7; destruct (Ht H7) as (Hf & _); exact Hf|].
  split; [apply trigger_in_sorted; exact H6|]. split; [apply sort_perm|]. split.
  - destruct (serialize_total L (header ty (payload e) []) HL) as [jh Hjh]. exists jh. split; [exact Hjh|]. split.
    + intros n l m He. eapply trigger_fields_survive; eassumption.
    + intros kv s v j0 He Hp Hs. eapply trigger_field_survives; eassumption.
  - apply lines_read_back_each. exact HL.
Qed.

(* the all-lines corollary (the form of round 5): when every buffered event is an is_event the whole file reads back *)
Corollary incident_file_reads_back_all L (payload : event -> pv) (msg : event -> Z) from rx c sz b i e : lims_ok L ->
  (forall x, In x (all_buffered (x_bufs (add_event c sz b i e))) -> is_event (payload x) (e_num x) (e_lvl x) (msg x)) ->
  exists js, write_lines L from rx (map payload (sort_by_num (all_buffered (x_bufs (add_event c sz b i e))))) = Some js /\
             map line_view js = map (ev_fields msg) (sort_by_num (all_buffered (x_bufs (add_event c sz b i e)))).
Proof.
  intros HL Hp. apply lines_read_back; [exact HL|]. intros x Hx. apply Hp. apply sort_in. exact Hx.
Qed.

(* non-vacuity: a history (a 3000-deep value in the buffer, then a trigger) and a payload function satisfying the hypotheses *)
Definition ex_payload (x : event) : pv :=
  mk_event 10 (e_num x) (e_lvl x) 100 [(KStr 101, if e_ok x then PInt 1 else PDeep 3000 (PList 11 []))].

Example ex_incident_file_hyps :
  let c := mkCfg true false NoFault in
  let b := s_bufs (fst (run c init [Msg None 0 20 false true 0; Msg None 2 20 true true 1])) in
  let e := mkEv 2 0 30 true 2 NumInt in
  (forall x, In x (all_buffered (x_bufs (add_event c [] b init_inc e))) -> is_event (ex_payload x) (e_num x) (e_lvl x) 100) /\
  c_qual c = true /\ incident_level <= e_lvl e /\ 1 <= limit_of [] (e_fac e) (e_lvl e) /\ lims_ok cpython /\
  nohost (x_bufs (add_event c [] b init_inc e)).
Proof.
  cbv zeta. split; [|split; [reflexivity|split; [vm_compute; discriminate|split; [vm_compute; discriminate|split; [apply cpython_ok | vm_compute; reflexivity]]]]].
  intros x Hx. vm_compute in Hx.
  assert (Hb : 0 <= e_num x < 3 /\ 0 <= e_lvl x <= 30) by (repeat (destruct Hx as [<-|Hx]; [cbn; lia|]); contradiction).
  unfold ex_payload, mk_event. eexists 10, _. split; [reflexivity|]. repeat (split; [discriminate|]). split.
  - repeat constructor; eexists; reflexivity.
  - repeat split; try reflexivity; apply small_int_64; change (2 ^ 64) with 18446744073709551616; lia.
Qed.

(* the same history with a format event and a non-integer number in the buffer: the guard still holds (NumOdd is inside
   it) although NOT every buffered event is an is_event; the per-line theorem applies *)
Example ex_incident_file_odd_hyps :
  let c := mkCfg true false NoFault in
  let b := s_bufs (fst (run c init [Msg (Some (900, NumOdd)) 0 20 false true 0; Msg None 2 20 true true 1])) in
  let e := mkEv 1 0 30 true 2 NumInt in
  nohost (x_bufs (add_event c [] b init_inc e)) /\ existsb (fun x => negb (is_int x)) (all_buffered (x_bufs (add_event c [] b init_inc e))) = true.
Proof. vm_compute. split; reflexivity. Qed.
