(* C18: the layers composed -- logger model (lib/LogBuf.v: WHICH events an incident file / a log file holds, and with
   which compression it is written and read) with the JSON model (lib/LogJson.v: what each line reads back as). *)
From Coq Require Import ZArith List Bool Lia.
Import ListNotations.
Require Import Verif.lib.PyLite Verif.gen.LogBufGen Verif.gen.LogJsonGen Verif.lib.LogBuf Verif.lib.LogBufProofs
               Verif.lib.LogJson Verif.lib.LogJsonProofs.
Local Open Scope Z_scope.

(* the compression chosen by LogFileObserver is the one get_events expects for that name: any list of lines comes back *)
Lemma read_back_logfile {A} name_bz2 (lines : list A) :
  read_back name_bz2 (write_codec logfile_codec_from name_bz2 false) lines = Some lines.
Proof. unfold read_back, write_codec, logfile_codec_from, codec_of_name. destruct name_bz2; reflexivity. Qed.

Definition ev_fields (msg : event -> Z) (x : event) := Some (fields (e_num x) (e_lvl x) (msg x)).

Lemma lines_read_back L (payload : event -> pv) (msg : event -> Z) from rx (lines : list event) : lims_ok L ->
  (forall x, In x lines -> is_event (payload x) (e_num x) (e_lvl x) (msg x)) ->
  exists js, write_lines L from rx (map payload lines) = Some js /\ map line_view js = map (ev_fields msg) lines.
Proof.
  intros HL Hp.
  destruct (file_reads_back L from rx (map (fun x => (payload x, (e_num x, e_lvl x, msg x))) lines) HL) as (js & W & V).
  - apply Forall_forall. intros y Hy. apply in_map_iff in Hy. destruct Hy as (x & <- & Hx). cbn [fst snd]. apply Hp. exact Hx.
  - rewrite map_map in W. cbn [fst] in W. exists js. split; [exact W|]. rewrite V, map_map. reflexivity.
Qed.

(* a log file (LogFileObserver, plain or .bz2): every event handed to it is read back by get_events, in order, with
   its number, level and message -- whatever else the events hold *)
Theorem logfile_events_read_back L (payload : event -> pv) (msg : event -> Z) from rx name_bz2 (evs : list event) : lims_ok L ->
  (forall x, In x evs -> is_event (payload x) (e_num x) (e_lvl x) (msg x)) ->
  exists js, write_lines L from rx (map payload evs) = Some js /\
             read_back name_bz2 (write_codec logfile_codec_from name_bz2 false) js = Some js /\
             map line_view js = map (ev_fields msg) evs.
Proof.
  intros HL Hp. destruct (lines_read_back L payload msg from rx evs HL Hp) as (js & W & V).
  exists js. split; [exact W|]. split; [apply read_back_logfile | exact V].
Qed.

(* an incident file (NonTrailingIncidentReporter): header with the trigger, then everything buffered in number order *)
Theorem incident_file_reads_back L (payload : event -> pv) (msg : event -> Z) from rx ty c sz b i e : lims_ok L ->
  (forall x, In x (all_buffered (x_bufs (add_event c sz b i e))) -> is_event (payload x) (e_num x) (e_lvl x) (msg x)) ->
  c_fault c = NoFault -> c_qual c = true -> incident_level <= e_lvl e -> i_rep i = None -> i_zombie i = false ->
  1 <= limit_of sz (e_fac e) (e_lvl e) -> c_trailing c = false ->
  let a := add_event c sz b i e in
  exists lines,
    i_files (x_inc a) = i_files i ++ [e :: lines] /\ In e lines /\
    (exists jh d, serialize L (header ty (payload e) []) = Ok jh /\ trigger_of_header jh = Some d /\
                  view3 d = fields (e_num e) (e_lvl e) (msg e)) /\
    (exists js, write_lines L from rx (map payload lines) = Some js /\ map line_view js = map (ev_fields msg) lines).
Proof.
  intros HL Hp H1 H2 H3 H4 H5 H6 H7 a.
  assert (H6' : 0 <= limit_of sz (e_fac e) (e_lvl e)) by lia.
  destruct (incident_recorded c sz b i e H1 H2 H3 H4 H5 H6') as (_ & Hn & _). destruct (Hn H7) as (Hf & _).
  assert (Hin_e : In e (sort_by_num (all_buffered (x_bufs a)))).
  { apply sort_in. unfold all_buffered. apply in_flat_map.
    pose proof (trigger_buffered c sz b i e H6) as Hin. fold a in Hin. unfold buf_get, dict_of in Hin.
    destruct (aget (e_fac e) (x_bufs a)) as [d1|] eqn:E1; [|cbn in Hin; contradiction].
    destruct (aget (e_lvl e) d1) as [q|] eqn:E2; [|contradiction].
    assert (G : forall V (k : Z) (l : list (Z * V)) v, aget k l = Some v -> exists k', In (k', v) l).
    { intros V k l. induction l as [|[k' v'] t IH]; intros v Hv; [discriminate|]. cbn [aget] in Hv.
      destruct (k =? k'); [inversion Hv; subst; exists k'; left; reflexivity|].
      destruct (IH v Hv) as [k2 Hk2]. exists k2. right. exact Hk2. }
    destruct (G _ _ _ _ E1) as [kf Hkf]. exists (kf, d1). split; [exact Hkf|]. cbn [snd]. apply in_flat_map.
    destruct (G _ _ _ _ E2) as [kl Hkl]. exists (kl, q). split; [exact Hkl | exact Hin]. }
  exists (sort_by_num (all_buffered (x_bufs a))). split; [exact Hf|]. split; [exact Hin_e|]. split.
  - destruct (serialize_total L (header ty (payload e) []) HL) as [jh Hjh].
    assert (He : is_event (payload e) (e_num e) (e_lvl e) (msg e)) by (apply Hp; apply sort_in; exact Hin_e).
    destruct (trigger_fields_survive L ty [] (payload e) _ _ _ jh He Hjh) as (d & Hd & Hv). eauto.
  - apply lines_read_back; [exact HL|]. intros x Hx. apply Hp. apply sort_in. exact Hx.
Qed.

(* non-vacuity: a history (a 3000-deep value in the buffer, then a trigger) and a payload function satisfying the hypotheses *)
Definition ex_payload (x : event) : pv :=
  mk_event 10 (e_num x) (e_lvl x) 100 [(KStr 101, if e_ok x then PInt 1 else PDeep 3000 (PList 11 []))].

Example ex_incident_file_hyps :
  let c := mkCfg true false NoFault in
  let b := s_bufs (fst (run c init [Msg None 0 20 false true 0; Msg None 2 20 true true 1])) in
  let e := mkEv 2 0 30 true 2 in
  (forall x, In x (all_buffered (x_bufs (add_event c [] b init_inc e))) -> is_event (ex_payload x) (e_num x) (e_lvl x) 100) /\
  c_qual c = true /\ incident_level <= e_lvl e /\ 1 <= limit_of [] (e_fac e) (e_lvl e) /\ lims_ok cpython.
Proof.
  cbv zeta. split; [|split; [reflexivity|split; [vm_compute; discriminate|split; [vm_compute; discriminate|apply cpython_ok]]]].
  intros x Hx. vm_compute in Hx.
  assert (Hb : 0 <= e_num x < 3 /\ 0 <= e_lvl x <= 30) by (repeat (destruct Hx as [<-|Hx]; [cbn; lia|]); contradiction).
  unfold ex_payload, mk_event. eexists 10, _. split; [reflexivity|]. repeat (split; [discriminate|]). split.
  - repeat constructor; eexists; reflexivity.
  - repeat split; try reflexivity; apply small_int_64; change (2 ^ 64) with 18446744073709551616; lia.
Qed.
