(* C15, byte level: PING / PONG tokens woven into an inbound byte stream, on top of the byte-level receiver of
   lib/Recv.v + lib/BananaRecv.v (C07: buffering, header scan, body skipping, discardCount / inOpen / unslicer stack)
   and the TRANSLATED sendPING / sendPONG of gen/TimersGen.v.  Definitions only; proofs in TimersWireProofs.v. *)
From Coq Require Import ZArith List Bool.
Import ListNotations.
Require Import Verif.lib.PyLite Verif.gen.BananaGen Verif.gen.TimersGen Verif.lib.Token Verif.lib.Recv Verif.lib.BananaRecv.
Local Open Scope Z_scope.

(* What the CURRENT SOURCE's handleData does with a keepalive token, read off the facts the generator extracts from it
   (gen/TimersGen.v): PING and PONG are in the tuple of types exempt from checkToken / openerCheckToken
   (ping_exempt_from_check), their clauses sit in the top-level dispatch chain and read `self.sendPONG(header); continue`
   (on_PING = ActPongHeader) and `continue` (on_PONG = ActIgnore).  None = the source no longer has that shape.
   TimersWireProofs.source_shape_is_model proves that C07's hand-transcribed step_nobody_hr does exactly this. *)
Definition keepalive_clause_of_source (c : bctx) (ty n : Z) : option hr :=
  if negb ping_exempt_from_check then None
  else if ty =? tok_PING then Some (Ok' c (match on_PING with ActPongHeader => [EPong n] | ActIgnore => [] end))
  else if ty =? tok_PONG then Some (Ok' c (match on_PONG with ActPongHeader => [EPong n] | ActIgnore => [] end))
  else None.

(* what the peer puts on the wire: stretches of ordinary bytes (any bytes at all: complete tokens, violating
   messages, garbage), and keepalive tokens written by the peer's sendPING(n) / sendPONG(n) in between *)
Inductive item := Bytes (b : list Z) | Ping (n : Z) | Pong (n : Z).

Definition item_bytes (i : item) : res (list Z) :=
  match i with Bytes b => Ok b | Ping n => sendPING n [] | Pong n => sendPONG n [] end.

(* the byte stream with the keepalive tokens in it ... *)
Fixpoint wire (items : list item) : res (list Z) :=
  match items with
  | [] => Ok []
  | i :: r => match item_bytes i, wire r with Ok b, Ok bs => Ok (b ++ bs) | Exc t, _ => Exc t | _, Exc t => Exc t end
  end.

(* ... and without them *)
Fixpoint plain (items : list item) : list Z :=
  match items with [] => [] | Bytes b :: r => b ++ plain r | _ :: r => plain r end.

(* "between two tokens": the receiver holds no partial token and is not skipping the body of a rejected one
   (and has not abandoned the connection) *)
Definition boundary (s : rstate bctx) : bool :=
  negb (r_dead s) && (r_skip s =? 0) && (match r_buf s with [] => true | _ => false end).

(* every keepalive token of `items` sits between two tokens of the ordinary stream, and its number fits the header *)
Fixpoint placed (s : rstate bctx) (items : list item) : bool :=
  match items with
  | [] => true
  | Bytes b :: r => placed (fst (bfeed s b)) r
  | Ping n :: r | Pong n :: r => boundary s && (0 <=? n) && (n <? 2 ^ 448) && placed s r
  end.

(* the specification: what the receiver must do on `wire items`.  Events are tagged: true = caused by an inserted
   keepalive token, false = caused by the ordinary bytes *)
Fixpoint expect (s : rstate bctx) (items : list item) : rstate bctx * list (bool * event) :=
  match items with
  | [] => (s, [])
  | Bytes b :: r => let '(s1, e1) := bfeed s b in let '(s2, e2) := expect s1 r in (s2, map (pair false) e1 ++ e2)
  | Ping n :: r => let '(s2, e2) := expect s r in (s2, (true, EPong n) :: e2)
  | Pong n :: r => expect s r
  end.

Definition ping_numbers (items : list item) : list Z :=
  flat_map (fun i => match i with Ping n => [n] | _ => [] end) items.

(* the bytes the receiver writes for an event list: one translated sendPONG per EPong *)
Fixpoint pong_bytes (es : list event) : res (list Z) :=
  match es with
  | [] => Ok []
  | EPong n :: r => match sendPONG n [], pong_bytes r with Ok b, Ok bs => Ok (b ++ bs) | Exc t, _ => Exc t | _, Exc t => Exc t end
  | _ :: r => pong_bytes r
  end.

(* observation for the correspondence: codes of the events of a chunked run, and of the specification *)
Definition run_chunks (mode : Z) (voc : list (Z * list Z)) (cs : list (list Z)) : list (list Z) * list Z :=
  let '(s, es) := bfeed_all (init (ctx0 mode voc)) cs in (map event_code es, snapshot s).

Definition run_expect (mode : Z) (voc : list (Z * list Z)) (items : list item) : bool * list (list Z) * list Z * list (list Z) :=
  let s0 := init (ctx0 mode voc) in
  let '(s, es) := expect s0 items in
  (placed s0 items, map (fun e => event_code (snd e)) es, snapshot s,
   map (fun e => event_code (snd e)) (filter (fun e => negb (fst e)) es)).
