(* C14, second leg of Tub.getReference.  Tub._getReference is
       d = self.getBrokerForTubRef(tubref); d.addCallback(lambda b: b.getYourReferenceByName(name)); return d
   and Broker.getYourReferenceByName is  self.remote_broker.callRemote("getReferenceByName", name=name):
   once the Broker lookup (lib/Converge.v: GetRef / t_waiters / t_fired) has been answered with a Broker, the Deferred
   handed to the application is chained to ONE two-way call in that Broker's request table -- the table of C03
   (lib/Requests.v: waitingForAnswers, complete / fail, Broker.finish, the eventual-send queue).
   This file only names the pieces (over lib/Requests.v); proofs in RefLegProofs.v; the composition with the
   two-Tub model is lib/ConvergeRef.v.  Definitions only. *)
From Coq Require Import ZArith List Bool.
Import ListNotations.
Require Import Verif.gen.RequestsGen Verif.lib.Requests.
Local Open Scope Z_scope.

(* what the callback does on the Broker it is given *)
Definition leg_call : op := Call KTwoWay.

(* the request table operations that can NOT concern the request (rid, h): other calls, answers / errors / violations for
   OTHER request ids, complete()/fail() on OTHER request objects, foreign eventual-sends and turns of the queue.
   What is left -- `inert rid h o = false` -- is: an answer, an error or a Violation for THIS id, complete()/fail() on
   THIS request object, and Broker.finish (connectionLost / shutdown). *)
Definition inert (rid : Z) (h : nat) (o : op) : bool :=
  match o with
  | Answer r | Error r | AnswerViolation r => negb (r =? rid)
  | Complete h' | Fail h' _ => negb (Nat.eqb h' h)
  | Finish _ => false
  | Call _ | Enqueue _ | Turn => true
  end.

(* the second leg is under way: the call exists, nothing has been delivered to its Deferred *)
Definition pending (s : st) (h : nat) (rid : Z) : Prop :=
  exists c, get s h = Some c /\ c_twoway c = true /\ c_rid c = rid /\ c_fires c = [].

(* it is over: the Deferred has fired, or its failure sits in the eventual-send queue (queued by Broker.finish;
   it fires when the queue reaches it: RefLegProofs.leg_loss_fires) *)
Definition done (s : st) (h : nat) : Prop :=
  exists c, get s h = Some c /\ c_twoway c = true /\ (c_fires c <> [] \/ exists o, In (EFail h o) (evq s)).
