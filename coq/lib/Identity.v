(* C05: model of how a connection gets bound to a TubID.

   Built on the TRANSLATED fragments of gen/IdentityGen.v:
     ev1_identity       (Negotiation.evaluateNegotiationVersion1: claimed id / certificate / dialled id checks)
     attach_key         (Negotiation.switchToBanana: which TubRef the Broker is registered under)
     server_lookup      (Negotiation.handlePLAINTEXTServer + Listener.lookupTubID)
     inbound_url_check  (RemoteReferenceTracker.__init__)
     broker_attached_dup_exc (Tub.brokerAttached)
   and on master_cmp of gen/NegotiateGen.v (`iAmTheMaster = myTubID > theirTubID`).

   `cert` and `tubid_of : cert -> id` (= crypto.digest32 of the sha1 digest of the certificate) are Section
   variables: nothing is assumed about the hash.  What the TLS layer reports as the peer's certificate
   (crypto.peerFromTransport) is an INPUT of the model: that TLS proves possession of that certificate's key
   is trusted, not modelled.  Definitions only; proofs are in IdentityProofs.v. *)
From Coq Require Import ZArith List String Bool.
Import ListNotations.
Require Import Verif.lib.PyLite Verif.gen.NegotiateGen Verif.lib.Negotiate Verif.gen.IdentityGen.
Local Open Scope Z_scope.

Notation id := (list Z) (only parsing).        (* a tub id: native string, as code points *)

Inductive role := Client | Server.
Definition is_client (r : role) : bool := match r with Client => true | Server => false end.

(* outcome of one end's evaluation of the peer's hello *)
Inductive verdict := Reject (why : string) | Accept (their : id) (master : bool).

(* one end's observable history for one connection attempt *)
Record endobs := { ever : option id;      (* key under which Tub.brokerAttached was called, if it was *)
                   final : option id;     (* key still present in Tub.brokers after quiescence *)
                   fail : option string   (* exception class with which this end's Negotiation failed *) }.

Definition obs_failed (w : string) : endobs := {| ever := None; final := None; fail := Some w |}.
Definition obs_transient (k : id) : endobs := {| ever := Some k; final := None; fail := None |}.
Definition obs_connected (k : id) : endobs := {| ever := Some k; final := Some k; fail := None |}.

Section Identity.
Variable cert : Type.
Variable tubid_of : cert -> id.

(* evaluateNegotiationVersion1 as far as identity is concerned.  my_id is never None for a Tub (it always has a
   certificate), so only the "most common case" branch of the master computation is modelled. *)
Definition evaluate (r : role) (my_id target : id) (c : option cert) (claimed : option id) : verdict :=
  match ev1_identity cert tubid_of (is_client r) target c claimed with
  | Exc w => Reject w
  | Ok None => Reject "TubRef(None)"          (* never happens: IdentityProofs.ev1_never_anonymous *)
  | Ok (Some t) => Accept t (i_am_master my_id t)
  end.

(* What a TLS peer can put in front of us: the LEAF certificate is the one whose private key the handshake proves it
   holds (trusted); besides it the peer may send any number of further certificates -- e.g. other Tubs' public
   certificates -- which prove nothing. *)
Record presented := { leaf : option cert; extras : list cert }.

(* crypto.peerFromTransport = twisted Certificate.peerFromTransport: the handle's get_peer_certificate(), i.e. the leaf;
   CertificateError when there is none.  Which certificate is chosen is read from crypto.py (peer_cert_choice). *)
Definition peer_from_transport (p : presented) : res cert :=
  match peer_cert_choice with
  | LeafOfHandshake => match leaf p with Some c => Ok c | None => Exc "CertificateError" end
  end.

(* handleENCRYPTED for a well-formed hello: certificate from the transport, then evaluateHello *)
Definition handle_hello (r : role) (my_id target : id) (p : presented) (claimed : option id) : verdict :=
  match peer_from_transport p with
  | Exc w => Reject w
  | Ok c => evaluate r my_id target (Some c) claimed
  end.

(* ------------------------------------------------------------------ one connection attempt, both ends *)
Record session_cfg := {
  cl_id : id;                 (* the dialling Tub *)
  dialled : id;               (* tub id in the FURL given to getReference (= connector.target) *)
  requested : id;             (* id in the GET line as it reaches the listener *)
  srv_id : id;                (* the listening Tub *)
  pres_c : presented;         (* what the server presents to the client at the TLS layer *)
  claim_c : option id;        (* my-tub-id of the hello the client receives *)
  pres_s : presented;         (* what the client presents to the server *)
  claim_s : option id         (* my-tub-id of the hello the server receives *)
}.

(* Both ends send their hello before they look at the peer's, so both always evaluate.  The decider ("master")
   switches to the RPC protocol as soon as its own evaluation passes; the other end only when the decision block
   arrives.  A rejecting end sends an error block and hangs up.  The first thing a client does with a new
   connection is getReferenceByName, whose answer is a my-reference carrying a URL that names the serving Tub's
   own id: the client's RemoteReferenceTracker applies inbound_url_check to it. *)
Definition session (s : session_cfg) : endobs * endobs :=
  match server_lookup (requested s) (srv_id s) with
  | Exc w => (obs_failed "BananaError", obs_failed w)     (* client reads `HTTP/1.1 500` instead of 101 *)
  | Ok _ =>
    let vc := handle_hello Client (cl_id s) (dialled s) (pres_c s) (claim_c s) in
    let vs := handle_hello Server (srv_id s) [] (pres_s s) (claim_s s) in
    match vc, vs with
    | Reject wc, Reject ws => (obs_failed wc, obs_failed ws)
    | Reject wc, Accept ts ms =>
        (obs_failed wc, if ms then obs_transient (attach_key false [] ts) else obs_failed "RemoteNegotiationError")
    | Accept tc mc, Reject ws =>
        (if mc then obs_transient (attach_key true (dialled s) tc) else obs_failed "RemoteNegotiationError", obs_failed ws)
    | Accept tc mc, Accept ts ms =>
        let kc := attach_key true (dialled s) tc in
        let ks := attach_key false [] ts in
        match mc, ms with
        | true, true => (obs_transient kc, obs_transient ks)    (* two deciders: each reads the other's decision as RPC bytes *)
        | false, false => (obs_failed "ConnectionDone", obs_failed "NegotiationError")   (* no decider: server timeout *)
        | _, _ =>
            match inbound_url_check kc (srv_id s) with
            | Ok _ => (obs_connected kc, obs_connected ks)
            | Exc _ => (obs_transient kc, obs_transient ks)
            end
        end
    end
  end.

(* ------------------------------------------------------------------ the Tub's table over a whole history *)
Record conn := { conn_cert : option cert;   (* LEAF certificate of the transport the Broker runs over *)
                 conn_loop : bool }.         (* loopback Broker pair (no transport, the Tub talking to itself) *)

Definition table := list (id * conn).        (* Tub.brokers, keyed by TubRef = tub id *)

Fixpoint tbl_mem (k : id) (t : table) : bool :=
  match t with [] => false | (k', _) :: t' => list_eqb k k' || tbl_mem k t' end.

Fixpoint tbl_get (k : id) (t : table) : option conn :=
  match t with [] => None | (k', c) :: t' => if list_eqb k k' then Some c else tbl_get k t' end.

Fixpoint tbl_remove (k : id) (t : table) : table :=
  match t with [] => [] | (k', c) :: t' => if list_eqb k k' then tbl_remove k t' else (k', c) :: tbl_remove k t' end.

(* Tub.brokerAttached: refuses (raises broker_attached_dup_exc) when the key is present, else stores *)
Definition broker_attached (k : id) (c : conn) (t : table) : table :=
  if tbl_mem k t then t else (k, c) :: t.

Inductive event :=
  | Negotiated (r : role) (target : id) (p : presented) (claimed : option id)
               (decision_arrives : bool)     (* non-deciding end: does the peer's decision arrive? *)
               (old_dropped : bool)          (* an existing connection under the same key is shut down first
                                                (compareOfferAndExisting / acceptDecisionVersion1) *)
  | Detached (k : id)                        (* Tub.brokerDetached *)
  | LoopbackRequested.                       (* getBrokerForTubRef(own id) -> _createLoopbackBroker *)

Definition step (my_id : id) (t : table) (e : event) : table :=
  match e with
  | Negotiated r target p claimed arrives dropped =>
      match handle_hello r my_id target p claimed with
      | Reject _ => t
      | Accept their master =>
          if master || arrives then
            let k := attach_key (is_client r) target their in
            let t' := if dropped then tbl_remove k t else t in
            broker_attached k {| conn_cert := leaf p; conn_loop := false |} t'
          else t
      end
  | Detached k => tbl_remove k t
  | LoopbackRequested => broker_attached my_id {| conn_cert := None; conn_loop := true |} t
  end.

Definition run (my_id : id) (evs : list event) : table := fold_left (step my_id) evs [].

(* Tub.getReference(furl naming k): served by the table entry for k when there is one *)
Definition get_broker (t : table) (k : id) : option conn := tbl_get k t.

(* a my-reference with a URL naming `url_id` arriving over the connection registered under k *)
Definition accept_inbound_ref (k url_id : id) : bool := is_ok (inbound_url_check k url_id).

(* ------------------------------------------------------------------ the receive loop against a peer that keeps sending
   Negotiation.dataReceived from the ENCRYPTED phase on, fed by an arbitrary peer: any sequence of header blocks in
   any chunking, also after one of them was rejected (the error handler only calls loseConnection(); bytes that are
   already on their way are still delivered until connectionLost).  The phase in which evaluateHello runs, the phase
   the non-deciding end waits in, and what the error handler does to the phase are read from the source
   (phase_during_evaluate_hello, slave_phase_after_accept, phase_set_by_error_handler in gen/IdentityGen.v). *)
Inductive blk :=
  | BHello (claimed : option id)       (* parses, has banana-negotiation-range: a hello *)
  | BDecision (acceptable : bool)      (* parses, has banana-decision-version; acceptable = acceptDecision returns *)
  | BError                             (* parses, has an `error` key *)
  | BJunk.                             (* does not parse (parseLines raises) *)

Record nstate := { n_phase : phase; n_their : option id;      (* self.theirTubRef *)
                   n_attached : list id;                       (* keys given to Tub.brokerAttached, latest first *)
                   n_buf : list blk }.                         (* self.buffer, in blocks *)

Definition n_init : nstate := {| n_phase := PhEncrypted; n_their := None; n_attached := []; n_buf := [] |}.

Definition exc_phase (at_raise : phase) : phase :=
  match phase_set_by_error_handler with Some ph => ph | None => at_raise end.

Definition with_phase (st : nstate) (ph : phase) : nstate :=
  {| n_phase := ph; n_their := n_their st; n_attached := n_attached st; n_buf := n_buf st |}.
Definition with_buf (st : nstate) (b : list blk) : nstate :=
  {| n_phase := n_phase st; n_their := n_their st; n_attached := n_attached st; n_buf := b |}.

(* self.theirTubRef is assigned after the certificate/claim tests and the assert, before the client's wrong-Tub test:
   a hello rejected only by that last test has already stored it *)
Definition their_after_rejected_evaluation (p : presented) (claimed old : option id) : option id :=
  match leaf p, claimed with
  | Some c, Some (x :: t) => if list_eqb (tubid_of c) (x :: t) then Some (x :: t) else old
  | _, _ => old
  end.

(* one header block; result: new state and whether an exception reached dataReceived's handler *)
Definition handle_block (r : role) (my_id target : id) (p : presented) (st : nstate) (b : blk) : nstate * bool :=
  match n_phase st with
  | PhEncrypted =>
      match peer_from_transport p with
      | Exc _ => (with_phase st (exc_phase (n_phase st)), true)
      | Ok _ =>
        match b with
        | BJunk | BError => (with_phase st (exc_phase (n_phase st)), true)
        | BDecision _ => (with_phase st (exc_phase phase_during_evaluate_hello), true)   (* evaluateHello: no range *)
        | BHello claimed =>
            match handle_hello r my_id target p claimed with
            | Reject _ =>
                ({| n_phase := exc_phase phase_during_evaluate_hello;
                    n_their := their_after_rejected_evaluation p claimed (n_their st);
                    n_attached := n_attached st; n_buf := n_buf st |}, true)
            | Accept t master =>
                if master
                then ({| n_phase := PhBanana; n_their := Some t;
                         n_attached := attach_key (is_client r) target t :: n_attached st; n_buf := n_buf st |}, false)
                else ({| n_phase := slave_phase_after_accept; n_their := Some t;
                         n_attached := n_attached st; n_buf := n_buf st |}, false)
            end
        end
      end
  | PhDeciding =>
      match b, n_their st with
      | BDecision true, Some t =>
          ({| n_phase := PhBanana; n_their := n_their st;
              n_attached := attach_key (is_client r) target t :: n_attached st; n_buf := n_buf st |}, false)
      | _, _ => (with_phase st (exc_phase (n_phase st)), true)
      end
  | PhBanana | PhAbandoned => (st, false)
  end.

Fixpoint drain (r : role) (my_id target : id) (p : presented) (st : nstate) (buf : list blk) {struct buf} : nstate :=
  match buf with
  | [] => with_buf st []
  | b :: rest =>
      match n_phase st with
      | PhBanana | PhAbandoned => with_buf st []          (* handed to the Broker / ignored *)
      | _ => let '(st', raised) := handle_block r my_id target p st b in
             if raised then with_buf st' rest else drain r my_id target p st' rest
      end
  end.

Definition recv_chunk (r : role) (my_id target : id) (p : presented) (st : nstate) (chunk : list blk) : nstate :=
  match n_phase st with
  | PhBanana | PhAbandoned => st
  | _ => drain r my_id target p st (n_buf st ++ chunk)
  end.

Definition recv_all (r : role) (my_id target : id) (p : presented) (chunks : list (list blk)) : nstate :=
  fold_left (recv_chunk r my_id target p) chunks n_init.

(* ------------------------------------------------------------------ pending lookups and crossed connections
   Tub.getBrokerForTubRef / brokerAttached / connectionFailed / brokerDetached with the waiting lists: several outbound
   lookups may be pending (tubConnectors, waitingForBrokers) while connections -- also INBOUND ones from the Tubs being
   dialled -- complete in any order.  brokerAttached works throughout on the key it was called with (checked in the source:
   its parameters are never rebound). *)
Record tstate := { t_tab : table;                          (* Tub.brokers *)
                   t_conn : list id;                       (* keys of Tub.tubConnectors *)
                   t_wait : list (id * nat);               (* waitingForBrokers: tub id -> request numbers *)
                   t_ans : list (nat * id * option conn);  (* request number, tub id asked for, Broker it was answered with
                                                              (None: errback) *)
                   t_n : nat }.

Definition t_init : tstate := {| t_tab := []; t_conn := []; t_wait := []; t_ans := []; t_n := O |}.

Inductive tevent :=
  | TLookup (x : id)                                       (* getBrokerForTubRef(x), e.g. from getReference *)
  | TNegotiated (r : role) (target : id) (p : presented) (claimed : option id) (decision_arrives : bool)
  | TFailed (x : id)                                       (* connectionFailed(x): the TubConnector gave up *)
  | TDetached (k : id).                                    (* brokerDetached *)

Fixpoint remove_id (k : id) (l : list id) : list id :=
  match l with [] => [] | x :: r => if list_eqb k x then remove_id k r else x :: remove_id k r end.
Fixpoint mem_id (k : id) (l : list id) : bool :=
  match l with [] => false | x :: r => list_eqb k x || mem_id k r end.

Definition fire (k : id) (c : option conn) (w : list (id * nat)) : list (nat * id * option conn) :=
  map (fun e => (snd e, fst e, c)) (filter (fun e => list_eqb k (fst e)) w).
Definition unwait (k : id) (w : list (id * nat)) : list (id * nat) := filter (fun e => negb (list_eqb k (fst e))) w.

(* Tub.brokerAttached(k, c): connector forgotten, duplicate refused, stored under k, waiters of k answered with c *)
Definition t_attach (st : tstate) (k : id) (c : conn) : tstate :=
  if tbl_mem k (t_tab st)
  then {| t_tab := t_tab st; t_conn := remove_id k (t_conn st); t_wait := t_wait st; t_ans := t_ans st; t_n := t_n st |}
  else {| t_tab := (k, c) :: t_tab st; t_conn := remove_id k (t_conn st); t_wait := unwait k (t_wait st);
          t_ans := fire k (Some c) (t_wait st) ++ t_ans st; t_n := t_n st |}.

Definition tstep (my_id : id) (st : tstate) (e : tevent) : tstate :=
  match e with
  | TLookup x =>
      match tbl_get x (t_tab st) with
      | Some c => {| t_tab := t_tab st; t_conn := t_conn st; t_wait := t_wait st;
                     t_ans := (t_n st, x, Some c) :: t_ans st; t_n := S (t_n st) |}
      | None =>
          if list_eqb x my_id
          then let c := {| conn_cert := None; conn_loop := true |} in
               let st' := t_attach st my_id c in
               {| t_tab := t_tab st'; t_conn := t_conn st'; t_wait := t_wait st';
                  t_ans := (t_n st, x, Some c) :: t_ans st'; t_n := S (t_n st) |}
          else {| t_tab := t_tab st; t_conn := if mem_id x (t_conn st) then t_conn st else t_conn st ++ [x];
                  t_wait := t_wait st ++ [(x, t_n st)]; t_ans := t_ans st; t_n := S (t_n st) |}
      end
  | TNegotiated r target p claimed arrives =>
      match handle_hello r my_id target p claimed with
      | Reject _ => st
      | Accept their master =>
          if master || arrives
          then t_attach st (attach_key (is_client r) target their) {| conn_cert := leaf p; conn_loop := false |}
          else st
      end
  | TFailed x =>
      if tbl_mem x (t_tab st)
      then {| t_tab := t_tab st; t_conn := remove_id x (t_conn st); t_wait := t_wait st; t_ans := t_ans st; t_n := t_n st |}
      else {| t_tab := t_tab st; t_conn := remove_id x (t_conn st); t_wait := unwait x (t_wait st);
              t_ans := fire x None (t_wait st) ++ t_ans st; t_n := t_n st |}
  | TDetached k =>
      {| t_tab := tbl_remove k (t_tab st); t_conn := t_conn st; t_wait := t_wait st; t_ans := t_ans st; t_n := t_n st |}
  end.

Definition trun (my_id : id) (evs : list tevent) : tstate := fold_left (tstep my_id) evs t_init.

End Identity.

(* ------------------------------------------------------------------ Tub.getReference: which request gets which answer
   _getReference(FURL f) on a running Tub asks Tub.brokers' entry for f's tub id (getBrokerForTubRef(sturdy.getTubRef()))
   for the object named f's name (getYourReferenceByName(sturdy.name)).  Requests made before startService are queued as
   (Deferred, SturdyRef) and resumed by startService; how the loop variables are bound when the resumption runs (in a
   later turn) is read from the source (resume_sturdy_binding in gen/IdentityGen.v). *)
Record furl := { f_tub : list Z; f_name : list Z }.
Record answer := { a_key : list Z;      (* key of the Tub.brokers entry the reference is obtained over *)
                   a_name : list Z }.   (* name the peer is asked for *)

Definition get_reference_now (f : furl) : answer := {| a_key := f_tub f; a_name := f_name f |}.

Inductive gr_event := GrRequest (f : furl) | GrStart.

Record gr_state := { g_started : bool;
                     g_next : nat;                          (* number of the next request *)
                     g_log : list (nat * furl);             (* every request made: its number and its FURL *)
                     g_pending : list (nat * furl);         (* _pending_getReferences *)
                     g_delivered : list (nat * answer) }.   (* request number -> what its Deferred is fired with *)

Definition gr_init : gr_state :=
  {| g_started := false; g_next := O; g_log := []; g_pending := []; g_delivered := [] |}.

Fixpoint last_furl (q : list (nat * furl)) : option furl :=
  match q with [] => None | [x] => Some (snd x) | _ :: r => last_furl r end.

(* the SturdyRef each queued request is resumed with *)
Definition resumed (q : list (nat * furl)) : list (nat * furl) :=
  match resume_sturdy_binding with
  | BoundPerIteration => q
  | BoundLate => match last_furl q with Some fl => map (fun x => (fst x, fl)) q | None => [] end
  end.

Definition gr_step (st : gr_state) (e : gr_event) : gr_state :=
  match e with
  | GrRequest f =>
      let r := g_next st in
      if g_started st
      then {| g_started := true; g_next := S r; g_log := (r, f) :: g_log st; g_pending := g_pending st;
              g_delivered := (r, get_reference_now f) :: g_delivered st |}
      else {| g_started := false; g_next := S r; g_log := (r, f) :: g_log st; g_pending := g_pending st ++ [(r, f)];
              g_delivered := g_delivered st |}
  | GrStart =>
      {| g_started := true; g_next := g_next st; g_log := g_log st; g_pending := [];
         g_delivered := rev (map (fun x => (fst x, get_reference_now (snd x))) (resumed (g_pending st))) ++ g_delivered st |}
  end.

Definition gr_run (evs : list gr_event) : gr_state := fold_left gr_step evs gr_init.

(* ------------------------------------------------------------------ inbound references over one connection, as a history
   Broker.yourReferenceByCLID on the connection registered under k: clid -> tub id named by the tracker's URL (None: no URL).
   A my-reference (clid, url?) for an unknown clid creates a tracker (RemoteReferenceTracker.__init__ applies
   inbound_url_check; a refused one raises and stores nothing); for a known clid the tracker is returned and what happens to its
   URL is read from the source (known_clid_url_policy in gen/IdentityGen.v). *)
Definition rtab := list (Z * option (list Z)).

Fixpoint rt_get (clid : Z) (t : rtab) : option (option (list Z)) :=
  match t with [] => None | (c, u) :: r => if (c =? clid)%Z then Some u else rt_get clid r end.
Fixpoint rt_set (clid : Z) (u : option (list Z)) (t : rtab) : rtab :=
  match t with [] => [] | (c, u0) :: r => if (c =? clid)%Z then (c, u) :: r else (c, u0) :: rt_set clid u r end.

Definition ref_step (k : list Z) (t : rtab) (m : Z * option (list Z)) : rtab :=
  let '(clid, url) := m in
  match rt_get clid t with
  | None => match url with
            | None => (clid, None) :: t
            | Some u => if accept_inbound_ref k u then (clid, Some u) :: t else t
            end
  | Some old =>
      match known_clid_url_policy with
      | KeepUrl => t
      | SetIfUnset => match url, old with Some u, None => rt_set clid (Some u) t | _, _ => t end
      | SetAlways => match url with Some u => rt_set clid (Some u) t | None => t end
      end
  end.

Definition ref_run (k : list Z) (ms : list (Z * option (list Z))) : rtab := fold_left (ref_step k) ms [].

Arguments cl_id {cert} s.
Arguments dialled {cert} s.
Arguments requested {cert} s.
Arguments srv_id {cert} s.
Arguments pres_c {cert} s.
Arguments claim_c {cert} s.
Arguments pres_s {cert} s.
Arguments claim_s {cert} s.
Arguments leaf {cert} p.
Arguments extras {cert} p.
