(* C05: model of how a connection gets bound to a TubID.

   Built on the TRANSLATED fragments of gen/IdentityGen.v:
     ev1_identity       (Negotiation.evaluateNegotiationVersion1: claimed id / certificate / dialled id checks)
     attach_key         (Negotiation.switchToBanana: which TubRef the Broker is registered under)
     server_lookup      (Negotiation.handlePLAINTEXTServer + Listener.lookupTubID)
     inbound_url_check  (RemoteReferenceTracker.__init__)
     broker_attached_dup_exc (Tub.brokerAttached)
   and on master_cmp of gen/NegotiateGen.v (`iAmTheMaster = myTubID > theirTubID`).

   `cert` and `tubid_of : cert -> id` (= crypto.digest32 of the sha1 digest of the certificate) are Section
   variables: nothing is assumed about the hash.  What the TLS layer reports as the peer's certificate
   (crypto.peerFromTransport) is an INPUT of the model: that TLS proves possession of that certificate's key
   is trusted, not modelled.  Definitions only; proofs are in IdentityProofs.v. *)
From Coq Require Import ZArith List String Bool.
Import ListNotations.
Require Import Verif.lib.PyLite Verif.gen.NegotiateGen Verif.lib.Negotiate Verif.gen.IdentityGen.
Local Open Scope Z_scope.

Notation id := (list Z) (only parsing).        (* a tub id: native string, as code points *)

Inductive role := Client | Server.
Definition is_client (r : role) : bool := match r with Client => true | Server => false end.

(* outcome of one end's evaluation of the peer's hello *)
Inductive verdict := Reject (why : string) | Accept (their : id) (master : bool).

(* one end's observable history for one connection attempt *)
Record endobs := { ever : option id;      (* key under which Tub.brokerAttached was called, if it was *)
                   final : option id;     (* key still present in Tub.brokers after quiescence *)
                   fail : option string   (* exception class with which this end's Negotiation failed *) }.

Definition obs_failed (w : string) : endobs := {| ever := None; final := None; fail := Some w |}.
Definition obs_transient (k : id) : endobs := {| ever := Some k; final := None; fail := None |}.
Definition obs_connected (k : id) : endobs := {| ever := Some k; final := Some k; fail := None |}.

Section Identity.
Variable cert : Type.
Variable tubid_of : cert -> id.

(* evaluateNegotiationVersion1 as far as identity is concerned.  my_id is never None for a Tub (it always has a
   certificate), so only the "most common case" branch of the master computation is modelled. *)
Definition evaluate (r : role) (my_id target : id) (c : option cert) (claimed : option id) : verdict :=
  match ev1_identity cert tubid_of (is_client r) target c claimed with
  | Exc w => Reject w
  | Ok None => Reject "TubRef(None)"          (* never happens: IdentityProofs.ev1_never_anonymous *)
  | Ok (Some t) => Accept t (i_am_master my_id t)
  end.

(* ------------------------------------------------------------------ one connection attempt, both ends *)
Record session_cfg := {
  cl_id : id;                 (* the dialling Tub *)
  dialled : id;               (* tub id in the FURL given to getReference (= connector.target) *)
  requested : id;             (* id in the GET line as it reaches the listener *)
  srv_id : id;                (* the listening Tub *)
  cert_c : option cert;       (* peer certificate reported to the client *)
  claim_c : option id;        (* my-tub-id of the hello the client receives *)
  cert_s : option cert;       (* peer certificate reported to the server *)
  claim_s : option id         (* my-tub-id of the hello the server receives *)
}.

(* Both ends send their hello before they look at the peer's, so both always evaluate.  The decider ("master")
   switches to the RPC protocol as soon as its own evaluation passes; the other end only when the decision block
   arrives.  A rejecting end sends an error block and hangs up.  The first thing a client does with a new
   connection is getReferenceByName, whose answer is a my-reference carrying a URL that names the serving Tub's
   own id: the client's RemoteReferenceTracker applies inbound_url_check to it. *)
Definition session (s : session_cfg) : endobs * endobs :=
  match server_lookup (requested s) (srv_id s) with
  | Exc w => (obs_failed "BananaError", obs_failed w)     (* client reads `HTTP/1.1 500` instead of 101 *)
  | Ok _ =>
    let vc := evaluate Client (cl_id s) (dialled s) (cert_c s) (claim_c s) in
    let vs := evaluate Server (srv_id s) [] (cert_s s) (claim_s s) in
    match vc, vs with
    | Reject wc, Reject ws => (obs_failed wc, obs_failed ws)
    | Reject wc, Accept ts ms =>
        (obs_failed wc, if ms then obs_transient (attach_key false [] ts) else obs_failed "RemoteNegotiationError")
    | Accept tc mc, Reject ws =>
        (if mc then obs_transient (attach_key true (dialled s) tc) else obs_failed "RemoteNegotiationError", obs_failed ws)
    | Accept tc mc, Accept ts ms =>
        let kc := attach_key true (dialled s) tc in
        let ks := attach_key false [] ts in
        match mc, ms with
        | true, true => (obs_transient kc, obs_transient ks)    (* two deciders: each reads the other's decision as RPC bytes *)
        | false, false => (obs_failed "ConnectionDone", obs_failed "NegotiationError")   (* no decider: server timeout *)
        | _, _ =>
            match inbound_url_check kc (srv_id s) with
            | Ok _ => (obs_connected kc, obs_connected ks)
            | Exc _ => (obs_transient kc, obs_transient ks)
            end
        end
    end
  end.

(* ------------------------------------------------------------------ the Tub's table over a whole history *)
Record conn := { conn_cert : option cert;   (* peer certificate of the transport the Broker runs over *)
                 conn_loop : bool }.         (* loopback Broker pair (no transport, the Tub talking to itself) *)

Definition table := list (id * conn).        (* Tub.brokers, keyed by TubRef = tub id *)

Fixpoint tbl_mem (k : id) (t : table) : bool :=
  match t with [] => false | (k', _) :: t' => list_eqb k k' || tbl_mem k t' end.

Fixpoint tbl_get (k : id) (t : table) : option conn :=
  match t with [] => None | (k', c) :: t' => if list_eqb k k' then Some c else tbl_get k t' end.

Fixpoint tbl_remove (k : id) (t : table) : table :=
  match t with [] => [] | (k', c) :: t' => if list_eqb k k' then tbl_remove k t' else (k', c) :: tbl_remove k t' end.

(* Tub.brokerAttached: refuses (raises broker_attached_dup_exc) when the key is present, else stores *)
Definition broker_attached (k : id) (c : conn) (t : table) : table :=
  if tbl_mem k t then t else (k, c) :: t.

Inductive event :=
  | Negotiated (r : role) (target : id) (c : option cert) (claimed : option id)
               (decision_arrives : bool)     (* non-deciding end: does the peer's decision arrive? *)
               (old_dropped : bool)          (* an existing connection under the same key is shut down first
                                                (compareOfferAndExisting / acceptDecisionVersion1) *)
  | Detached (k : id)                        (* Tub.brokerDetached *)
  | LoopbackRequested.                       (* getBrokerForTubRef(own id) -> _createLoopbackBroker *)

Definition step (my_id : id) (t : table) (e : event) : table :=
  match e with
  | Negotiated r target c claimed arrives dropped =>
      match evaluate r my_id target c claimed with
      | Reject _ => t
      | Accept their master =>
          if master || arrives then
            let k := attach_key (is_client r) target their in
            let t' := if dropped then tbl_remove k t else t in
            broker_attached k {| conn_cert := c; conn_loop := false |} t'
          else t
      end
  | Detached k => tbl_remove k t
  | LoopbackRequested => broker_attached my_id {| conn_cert := None; conn_loop := true |} t
  end.

Definition run (my_id : id) (evs : list event) : table := fold_left (step my_id) evs [].

(* Tub.getReference(furl naming k): served by the table entry for k when there is one *)
Definition get_broker (t : table) (k : id) : option conn := tbl_get k t.

(* a my-reference with a URL naming `url_id` arriving over the connection registered under k *)
Definition accept_inbound_ref (k url_id : id) : bool := is_ok (inbound_url_check k url_id).

End Identity.

Arguments cl_id {cert} s.
Arguments dialled {cert} s.
Arguments requested {cert} s.
Arguments srv_id {cert} s.
Arguments cert_c {cert} s.
Arguments claim_c {cert} s.
Arguments cert_s {cert} s.
Arguments claim_s {cert} s.
