(* C06, third layer: PARSE and DELIVERY of an inbound call are two steps.  No proofs in this file.

   lib/Reach.v's `step (Msg ..)` looks the id up and delivers the call in one step.  The code does not:
     - CallUnslicer.receiveChild (call.py) resolves the clid to the OBJECT while the bytes are parsed (stage 1), reads the
       object's RemoteInterface (stage 1/2), unslices the arguments (your-references are resolved, registered classes are
       instantiated) -- all inside Banana.dataReceived;
     - receiveClose hands an InboundDelivery holding that object to Broker.scheduleCall, which appends it to
       Broker.inboundDeliveryQueue; Broker.doNextCall pops the queue in FIFO order in LATER reactor turns and only then
       _doCall / doRemoteCall run: the method is entered, remote_decref / remote_getReferenceByName take effect.
   So several calls that arrive in one dataReceived are all resolved against the tables as they were BEFORE any of them
   was delivered.  This file models exactly that: `PE (Msg ..)` parses (and queues a delivery that carries the RESOLVED
   object), `PDeliver c` delivers the head of c's queue.  A dropped connection abandons its queue (doNextCall returns when
   self.disconnected).

   The `getattr(obj, "remote_" + name)` of doRemoteCall happens at DELIVERY too: a call resolved to an object that lacks the
   attribute is queued like any other and fails when its turn comes (observable: if the connection is dropped in between, the
   peer never gets the error answer).  `resolve` below therefore queues it with d_ok = false. *)
From Coq Require Import ZArith List String Bool Lia.
Import ListNotations.
Require Import Verif.lib.PyLite Verif.gen.ReachGen Verif.gen.ReachDispGen Verif.lib.Reach Verif.lib.ReachDeep.
Local Open Scope Z_scope.

(* an InboundDelivery: what was resolved at parse time *)
Record delivery := { d_req : Z;                (* reqID *)
                     d_ent : entered;          (* the object / broker method the parser resolved the call to *)
                     d_fx : effect;            (* what the broker method will do once it runs (FxNone for application objects) *)
                     d_ok : bool }.            (* false: the object has no attribute "remote_"+name; the delivery will fail the request *)

Record pstate := { p_st : state; p_qa : list delivery; p_qb : list delivery }.
Definition pq (ps : pstate) (c : cid) : list delivery := match c with CA => p_qa ps | CB => p_qb ps end.
Definition set_pq (ps : pstate) (c : cid) (q : list delivery) : pstate :=
  match c with
  | CA => {| p_st := p_st ps; p_qa := q; p_qb := p_qb ps |}
  | CB => {| p_st := p_st ps; p_qa := p_qa ps; p_qb := q |}
  end.
Definition set_pst (ps : pstate) (st : state) : pstate := {| p_st := st; p_qa := p_qa ps; p_qb := p_qb ps |}.
Definition pinit : pstate := {| p_st := init; p_qa := []; p_qb := [] |}.

Inductive pevent :=
| PE (e : event)            (* every event of lib/Reach.v; `Msg` now means: the bytes of that call are PARSED *)
| PDeliver (c : cid).       (* one turn of Broker.doNextCall on connection c *)

Inductive pout :=
| Queued                    (* the call was resolved and waits in inboundDeliveryQueue *)
| Idle                      (* doNextCall found nothing to do *)
| Out (o : outcome).        (* as in lib/Reach.v; `Enter` is reported by the DELIVERY *)
Record presult := { pr_inst : list Z; pr_out : pout; pr_sent : list (cid * Z * Z) }.
Definition pres0 (o : pout) : presult := {| pr_inst := []; pr_out := o; pr_sent := [] |}.

(* what the parser decides about a call, against the tables as they are NOW: classes instantiated, verdict, pending effect *)
Definition parse (w : world) (st : state) (c : cid) (clid : Z) (m : mname) (args : list arg) : list Z * outcome * effect :=
  if clid =? broker_clid then let '(out, fx) := broker_call m args in ([], out, fx)
  else let '(inst, out) := obj_call (eff w (s_decl st)) (s_copy st) (get_conn st c) clid m args in (inst, out, FxNone).

(* What the PARSER does with a call: as `parse`, except that the attribute lookup is left to the delivery.  Generic in the
   dispatcher `oc` (obj_call or the translated obj_call_T): a call the dispatcher refuses, but would enter if only the object had
   the attribute "remote_"+name (the same dispatcher run in a world where every object has it), IS resolved: it is queued with
   d_ok = false. *)
Definition add_attr (w : world) (a : string) : world :=
  {| w_obj := fun o => {| o_kind := o_kind (w_obj w o); o_attrs := a :: o_attrs (w_obj w o); o_iface := o_iface (w_obj w o) |} |}.
Definition attr_of (m : mname) : string := match m with MStr s => (remote_prefix ++ s)%string | MBad => EmptyString end.
Definition dispatcher := world -> list (string * Z) -> conn -> Z -> mname -> list arg -> list Z * outcome.
Definition resolve_with (oc : dispatcher) (w : world) (st : state) (c : cid) (clid : Z) (m : mname) (args : list arg)
  : list Z * outcome * effect * bool :=
  if clid =? broker_clid then let '(out, fx) := broker_call m args in ([], out, fx, true)
  else let '(inst, out) := oc (eff w (s_decl st)) (s_copy st) (get_conn st c) clid m args in
       match out with
       | Reject =>
         let '(_, out2) := oc (add_attr (eff w (s_decl st)) (attr_of m)) (s_copy st) (get_conn st c) clid m args in
         match out2 with
         | Enter e => (inst, Enter e, FxNone, false)
         | _ => (inst, Reject, FxNone, true)
         end
       | _ => (inst, out, FxNone, true)
       end.
Definition resolve := resolve_with obj_call.
Definition resolve_T := resolve_with obj_call_T.

(* what a delivered broker method does, against the tables as they are at DELIVERY *)
Definition deliver_fx (w : world) (st : state) (c : cid) (req : Z) (fx : effect) : state * list (cid * Z * Z) :=
  match fx with
  | FxNone | FxDrop => (st, [])
  | FxDecref k n => (set_conn st c (decref (get_conn st c) k n), [])
  | FxLookup nm =>
    match found_name w st nm with
    | None => (st, [])
    | Some (o, st0) => if req =? 0 then (st0, []) else grant w st0 c o ""
    end
  end.
Definition deliver_fx_T (w : world) (st : state) (c : cid) (req : Z) (fx : effect) : state * list (cid * Z * Z) :=
  match fx with
  | FxNone | FxDrop => (st, [])
  | FxDecref k n => (set_conn st c (decref_T (get_conn st c) k n), [])
  | FxLookup nm =>
    match found_name_T w st nm with
    | None => (st, [])
    | Some (o, st0) => if req =? 0 then (st0, []) else grant w st0 c o ""
    end
  end.

(* the two machines differ only in the dispatcher / effect functions they are built from *)
Definition parse_fn := world -> state -> cid -> Z -> mname -> list arg -> list Z * outcome * effect * bool.
Definition deliver_fn := world -> state -> cid -> Z -> effect -> state * list (cid * Z * Z).
Definition step_fn := world -> state -> event -> state * result.

Definition pstep_with (parse_f : parse_fn) (deliver_f : deliver_fn) (step_f : step_fn)
                      (w : world) (ps : pstate) (pe : pevent) : pstate * presult :=
  match pe with
  | PE (Msg c req clid m args) =>
    let st := p_st ps in
    if negb (c_alive (get_conn st c)) then (ps, pres0 (Out Dead))
    else
      let '(inst, out, fx, ok) := parse_f w st c clid m args in
      match out with
      | Enter e => (set_pq ps c (pq ps c ++ [{| d_req := req; d_ent := e; d_fx := fx; d_ok := ok |}]),
                    {| pr_inst := inst; pr_out := Queued; pr_sent := [] |})
      | Aborted => (set_pq (set_pst ps (set_conn st c (drop_conn (get_conn st c)))) c [],
                    {| pr_inst := inst; pr_out := Out Aborted; pr_sent := [] |})
      | _ => (ps, {| pr_inst := inst; pr_out := Out out; pr_sent := [] |})
      end
  | PE (Drop c) =>
    let '(st', r) := step_f w (p_st ps) (Drop c) in
    (set_pq (set_pst ps st') c [], {| pr_inst := r_inst r; pr_out := Out (r_out r); pr_sent := r_sent r |})
  | PE e =>
    let '(st', r) := step_f w (p_st ps) e in
    (set_pst ps st', {| pr_inst := r_inst r; pr_out := Out (r_out r); pr_sent := r_sent r |})
  | PDeliver c =>
    if negb (c_alive (get_conn (p_st ps) c)) then (ps, pres0 Idle)
    else match pq ps c with
         | [] => (ps, pres0 Idle)
         | d :: q =>
           if d_ok d then
             let '(st', sent) := deliver_f w (p_st ps) c (d_req d) (d_fx d) in
             (set_pq (set_pst ps st') c q, {| pr_inst := []; pr_out := Out (Enter (d_ent d)); pr_sent := sent |})
           else (set_pq ps c q, pres0 (Out Reject))       (* AttributeError inside the delivery: that request fails *)
         end
  end.

Fixpoint prun_with (parse_f : parse_fn) (deliver_f : deliver_fn) (step_f : step_fn)
                   (w : world) (ps : pstate) (h : list pevent) : pstate * list presult :=
  match h with
  | [] => (ps, [])
  | e :: r => let '(ps1, x) := pstep_with parse_f deliver_f step_f w ps e in
              let '(ps2, xs) := prun_with parse_f deliver_f step_f w ps1 r in (ps2, x :: xs)
  end.

Definition pstep := pstep_with resolve deliver_fx step.
Definition prun := prun_with resolve deliver_fx step.
Definition pstep_T := pstep_with resolve_T deliver_fx_T step_T.
Definition prun_T := prun_with resolve_T deliver_fx_T step_T.

Definition psent_of (rs : list presult) : list (cid * Z * Z) := List.concat (map pr_sent rs).

(* the schedule lib/Reach.v describes: every call is delivered before the next byte arrives *)
Fixpoint atomic (h : list event) : list pevent :=
  match h with
  | [] => []
  | Msg c req clid m args :: r => PE (Msg c req clid m args) :: PDeliver c :: atomic r
  | e :: r => PE e :: atomic r
  end.

(* the message a queued broker effect stands for (used to relate a delivery to a step of lib/Reach.v) *)
Definition fx_msg (fx : effect) : option (mname * list arg) :=
  match fx with
  | FxDecref k n => Some (MStr "decref", [AInt k; AInt n])
  | FxLookup nm => Some (MStr "getReferenceByName", [ABytes (MStr nm)])
  | _ => None
  end.

(* several calls arriving in ONE dataReceived on c, then the reactor turns until c's queue is empty *)
Definition burst (c : cid) (msgs : list (Z * Z * mname * list arg)) : list pevent :=
  map (fun x => match x with (req, clid, m, args) => PE (Msg c req clid m args) end) msgs
  ++ map (fun _ => PDeliver c) msgs.
