(* C15 x C03: one Broker = the keepalive / idle-disconnect timers (lib/Timers.v, built on the translated callbacks)
   together with its table of pending callRemotes (lib/Requests.v, built on the translated PendingRequest /
   Broker.finish / abandonAllRequests / eventual queue), glued by the TRANSLATED teardown chain of gen/TimersGen.v:
     disconnectTimerFired -> connectionTimedOut -> shutdown(Failure(<exc>)) -> finish(why) ; transport.loseConnection()
     transport -> Broker.connectionLost(why) -> Banana.connectionLost (cancel timers) ; finish(why)
   Definitions only; proofs in TimersCallsProofs.v. *)
From Coq Require Import ZArith List Bool.
Import ListNotations.
Require Import Verif.lib.PyLite Verif.gen.BananaGen Verif.gen.TimersGen Verif.lib.Timers.
Require Import Verif.gen.RequestsGen Verif.lib.Requests.
Local Open Scope Z_scope.

Record bst := {
  tm : Timers.st;            (* timers of the Banana layer *)
  rq : Requests.st;          (* pending requests of the Broker layer + the eventual-send queue *)
  lose : list Z              (* times at which transport.loseConnection() was called, newest first *)
}.

(* what happens to one Broker *)
Inductive bev :=
| BRx (t : Z) | BRxBad (t : Z)          (* a chunk arrives (processed without / with a receive error) *)
| BTick (t : Z)                          (* the reactor runs the due delayed calls *)
| BLost (t : Z) (r : reason)             (* the transport reports connectionLost(why) *)
| BReq (o : op).                         (* anything on the request side: callRemote, answers, a turn of the eventual queue,
                                            finish() called by somebody else ... *)

(* the Failure that connectionTimedOut hands to shutdown, classified against LOST_CONNECTION_ERRORS *)
Definition timeout_reason : reason :=
  match connectionTimedOut_exc with
  | ExcConnectionLost => RListed ConnectionLostC
  | ExcConnectionDone => RListed ConnectionDoneC
  | ExcOther => RUnrelated
  end.

(* Broker.shutdown(why) at time t *)
Fixpoint exec_shutdown (ps : list sstmt) (r : reason) (t : Z) (x : Requests.st * list Z) : Requests.st * list Z :=
  match ps with
  | [] => x
  | SAssertFailure :: ps' | SDropWatchers :: ps' => exec_shutdown ps' r t x
  | SFinish :: ps' => exec_shutdown ps' r t (Requests.step (fst x) (Finish r), snd x)
  | SLoseConnection :: ps' => exec_shutdown ps' r t (fst x, t :: snd x)
  end.

(* Broker.connectionTimedOut() *)
Definition timed_out (t : Z) (x : Requests.st * list Z) : Requests.st * list Z :=
  exec_shutdown Broker_shutdown timeout_reason t x.

(* Broker.connectionLost(why) at time t *)
Fixpoint exec_lost (c : cfg) (ps : list lstmt) (r : reason) (t : Z) (s : bst) : bst :=
  match ps with
  | [] => s
  | LOther :: ps' | LNotifyWatchers :: ps' => exec_lost c ps' r t s
  | LBananaConnectionLost :: ps' => exec_lost c ps' r t {| tm := Timers.step c (tm s) (Close t); rq := rq s; lose := lose s |}
  | LFinish :: ps' => exec_lost c ps' r t {| tm := tm s; rq := Requests.step (rq s) (Finish r); lose := lose s |}
  end.

Definition with_tm (s : bst) (m : Timers.st) : bst := {| tm := m; rq := rq s; lose := lose s |}.

Definition broker_step (c : cfg) (s : bst) (e : bev) : bst :=
  match e with
  | BRx t => with_tm s (Timers.step c (tm s) (Rx t))
  | BRxBad t => with_tm s (Timers.step c (tm s) (RxBad t))
  | BTick t =>
      let m := Timers.step c (tm s) (Tick t) in
      (* every connectionTimedOut() call of this reactor turn runs the teardown chain *)
      let k := (List.length (torn m) - List.length (torn (tm s)))%nat in
      let x := Nat.iter k (timed_out t) (rq s, lose s) in
      {| tm := m; rq := fst x; lose := snd x |}
  | BLost t r => exec_lost c Broker_connectionLost r t s
  | BReq o => {| tm := tm s; rq := Requests.step (rq s) o; lose := lose s |}
  end.

Definition broker_init (c : cfg) (t0 : Z) : bst := {| tm := Timers.init c t0; rq := Requests.init; lose := [] |}.

Definition broker_run_from (c : cfg) (s : bst) (evs : list bev) : bst := fold_left (broker_step c) evs s.
Definition broker_run (c : cfg) (t0 : Z) (evs : list bev) : bst := broker_run_from c (broker_init c t0) evs.

(* projections of a history onto the two layers *)
Fixpoint tproj (evs : list bev) : list ev :=
  match evs with
  | [] => []
  | BRx t :: r => Rx t :: tproj r
  | BRxBad t :: r => RxBad t :: tproj r
  | BTick t :: r => Tick t :: tproj r
  | BLost t _ :: r => Close t :: tproj r
  | BReq _ :: r => tproj r
  end.

Definition is_btick (e : bev) : Prop := exists t, e = BTick t.
Definition alive_ev (e : bev) : Prop := match e with BLost _ _ => False | BReq (Finish _) => False | _ => True end.

(* drain the eventual-send queue: as many turns as it has entries *)
Definition drained (s : bst) : Requests.st := run_from (rq s) (repeat Turn (List.length (evq (rq s)))).

(* observation for the correspondence: per call the outcomes fired, the table, loseConnection times, teardown times *)
Definition bobs (s : bst) : list (list Z) * list Z * list Z * list Z * bool :=
  (map (fun c => map ocode (c_fires c)) (calls (rq s)), map fst (table (rq s)), rev (lose s), rev (torn (tm s)),
   disconnected (rq s)).
