(* Theorems about the receive logic of lib/Unsl.v for EVERY unslicer semantics: chunk independence, abandonment,
   exact discard accounting through every violation, resynchronisation, silent discarding, object numbering,
   "no exception escapes dataReceived". *)
From Coq Require Import ZArith List Bool Lia.
Import ListNotations.
Require Import Verif.lib.PyLite Verif.gen.BananaGen Verif.gen.RecvGen Verif.lib.Token Verif.lib.Recv Verif.lib.RecvProofs Verif.lib.Unsl.
Local Open Scope Z_scope.

(* ---- dataReceived catches every exception kind (translated `except` clause) ---- *)
Lemma dr_catches_everything : forall k, dr_caught k = true.
Proof. intros k. unfold dr_caught. repeat match goal with |- context [if ?b then _ else _] => destruct b end; reflexivity. Qed.

Lemma dr_handler_complete : In HSendError dr_handler_ops /\ In HSetAbandoned dr_handler_ops /\ In HReport dr_handler_ops.
Proof. unfold dr_handler_ops. cbn. auto 10. Qed.

Definition is_escape (e : uevent) : bool := match e with UEscaped _ => true | _ => false end.
Definition no_escape (es : list uevent) : Prop := forallb (fun e => negb (is_escape e)) es = true.

Lemma no_escape_app a b : no_escape a -> no_escape b -> no_escape (a ++ b).
Proof. unfold no_escape. intros A B. rewrite forallb_app, A, B. reflexivity. Qed.

Lemma no_escape_app_inv a b : no_escape (a ++ b) -> no_escape a /\ no_escape b.
Proof. unfold no_escape. rewrite forallb_app. intros H. apply andb_true_iff in H. exact H. Qed.

Lemma ufatal_no_escape k : no_escape (ufatal k).
Proof. unfold ufatal. destruct (abstain_code k); [reflexivity|]. rewrite dr_catches_everything. reflexivity. Qed.

(* every exception kind; 97 / 98 are not exception kinds but the abstention marker of lib/Unsl.v *)
Lemma ufatal_closes k : abstain_code k = false -> In ULose (ufatal k) /\ In UErrorSent (ufatal k).
Proof. intros A. unfold ufatal. rewrite A, dr_catches_everything. cbn. auto. Qed.

Lemma ufatal_abstains k : abstain_code k = true -> ufatal k = [UUnmodelled].
Proof. intros A. unfold ufatal. rewrite A. reflexivity. Qed.

Lemma ufatal_not_abstained k : abstain_code k = false -> abstained (ufatal k) = false.
Proof. intros A. unfold ufatal. rewrite A, dr_catches_everything. reflexivity. Qed.

Section Proofs.
Variable fr : Type.
Variable u_check : fr -> Z -> Z -> oc unit.
Variable u_opener_check : list fr -> Z -> Z -> list (list Z) -> oc unit.
Variable u_do_open : list fr -> list (list Z) -> oc (option fr).
Variable u_start : fr -> Z -> oc fr.
Variable u_child : fr -> uval -> list uevent * oc fr.
Variable u_close : fr -> oc uval.
Variable u_finish : fr -> oc unit.
Variable u_report : fr -> option (list uevent).

Notation uctx := (uctx fr).
Notation ufr := (ufr fr).
Notation uhv_loop := (uhv_loop fr u_finish u_report).
Notation uhandle_violation := (uhandle_violation fr u_finish u_report).
Notation uhandle_token := (uhandle_token fr u_child u_finish u_report).
Notation uhandle_close := (uhandle_close fr u_child u_close u_finish u_report).
Notation uhandle_open := (uhandle_open fr u_do_open u_start u_finish u_report).
Notation udeliver := (udeliver fr u_do_open u_start u_child u_finish u_report).
Notation utaste := (utaste fr u_check u_opener_check).
Notation ubegin_body := (ubegin_body fr u_check u_opener_check u_finish u_report).
Notation ufinish_body := (ufinish_body fr u_do_open u_start u_child u_finish u_report).
Notation ustep_nobody_hr := (ustep_nobody_hr fr u_check u_opener_check u_do_open u_start u_child u_close u_finish u_report).
Notation ustep_nobody := (ustep_nobody fr u_check u_opener_check u_do_open u_start u_child u_close u_finish u_report).
Notation utok_apply := (utok_apply fr u_check u_opener_check u_do_open u_start u_child u_close u_finish u_report).
Notation uapply_all := (uapply_all fr u_check u_opener_check u_do_open u_start u_child u_close u_finish u_report).
Notation ufeed_all := (ufeed_all fr u_check u_opener_check u_do_open u_start u_child u_close u_finish u_report).
Notation urun := (urun fr u_check u_opener_check u_do_open u_start u_child u_close u_finish u_report).

(* ---- instantiations of the generic tokenizer theorems ---- *)
Theorem unsl_chunk_independent c cs cs' : concat cs = concat cs' -> ufeed_all (init c) cs = ufeed_all (init c) cs'.
Proof. apply chunk_independent. Qed.

Theorem unsl_feed_is_run c cs : ufeed_all (init c) cs = urun c (concat cs).
Proof. apply feed_all_is_run. Qed.

Theorem unsl_abandon_is_final s cs : r_dead s = true -> ufeed_all s cs = (s, []).
Proof. apply dead_is_final. Qed.

(* ---- the root is at the bottom, has no openCount and absorbs ---- *)
Definition absorbs (f : fr) : Prop := u_report f <> None.

Definition ubottom (st : list ufr) : Prop :=
  exists pre r, st = pre ++ [r] /\ uf_open fr r = None /\ absorbs (uf_st fr r).

Definition uwfc (c : uctx) : Prop := 0 <= u_discard fr c /\ ubottom (u_stack fr c).

(* an unslicer that absorbs violations still does so after it was handed a child (the root's reportViolation does
   not depend on what it has delivered) *)
Hypothesis child_keeps_absorbing : forall f v es f', u_child f v = (es, OOk f') -> absorbs f -> absorbs f'.
(* an unslicer whose receiveClose / finish raises a Violation hands that violation to its parent (it does not absorb it
   itself).  True of every unslicer of the package: only root unslicers absorb, and a root is never closed.  Without it the
   statement is false: see unsl_depth_refuted_absorbing_closer in lib/PolUnslProofs.v *)
Hypothesis closing_violation_propagates : forall f,
  (u_close f = OViol \/ (exists v, u_close f = OOk v /\ u_finish f = OViol)) -> u_report f = None.

Lemma ubottom_nonempty st : ubottom st -> (1 <= List.length st)%nat.
Proof. intros (pre & r & -> & _). rewrite app_length. cbn. lia. Qed.

Lemma ubottom_push st f : ubottom st -> ubottom (f :: st).
Proof. intros (pre & r & -> & H). exists (f :: pre), r. split; [reflexivity|exact H]. Qed.

Lemma ubottom_pop top rest : ubottom (top :: rest) -> uf_open fr top <> None -> ubottom rest.
Proof.
  intros (pre & r & E & Ho & Ha) Ht. destruct pre as [|p pre].
  - cbn in E. inversion E; subst. contradiction.
  - cbn in E. inversion E; subst. exists pre, r. auto.
Qed.

Lemma ubottom_replace top rest f' : ubottom (top :: rest) ->
  (absorbs (uf_st fr top) -> absorbs f') -> ubottom ({| uf_open := uf_open fr top; uf_st := f' |} :: rest).
Proof.
  intros (pre & r & E & Ho & Ha) K. destruct pre as [|p pre].
  - cbn in E. inversion E; subst. exists [], {| uf_open := uf_open fr r; uf_st := f' |}. cbn. auto.
  - cbn in E. inversion E; subst. exists ({| uf_open := uf_open fr p; uf_st := f' |} :: pre), r. auto.
Qed.

Lemma uhv_loop_length : forall l d b s1 d1 e1, uhv_loop l d b = HvOk fr s1 d1 e1 -> (List.length s1 <= List.length l)%nat.
Proof.
  induction l as [|a l IHl]; intros d b s1 d1 e1 E; cbn [Unsl.uhv_loop] in E; [discriminate|].
  destruct (u_report (uf_st fr a)); [inversion E; subst; lia|].
  destruct (u_finish (uf_st fr a)); try discriminate;
    (destruct l as [|a' l']; [discriminate|]; apply IHl in E; cbn [List.length] in *; lia).
Qed.

(* handleViolation never pops the root, and counts exactly the frames it pops (the first one not when inClose) *)
Lemma uhv_loop_bottom st : ubottom st -> forall d ic st' d' es, uhv_loop st d ic = HvOk fr st' d' es ->
  ubottom st' /\ d <= d' /\
  d' - d = Z.of_nat (List.length st - List.length st') - (if ic then (if (List.length st' <? List.length st)%nat then 1 else 0) else 0).
Proof.
  intros (pre & r & -> & Ho & Ha). induction pre as [|f pre IH]; intros d ic st' d' es E.
  - cbn [app Unsl.uhv_loop] in E. pose proof Ha as Ha2. unfold absorbs in Ha2. destruct (u_report (uf_st fr r)) as [es0|]; [|contradiction].
    inversion E; subst. split; [exists [], r; auto|]. split; [lia|]. rewrite Nat.sub_diag, Nat.ltb_irrefl. destruct ic; cbn; lia.
  - cbn [app Unsl.uhv_loop] in E.
    destruct (u_report (uf_st fr f)) as [es0|].
    + inversion E; subst. split; [exists (f :: pre), r; auto|]. split; [lia|].
      rewrite Nat.sub_diag, Nat.ltb_irrefl. destruct ic; cbn; lia.
    + destruct (pre ++ [r]) as [|g rest] eqn:Er; [destruct pre; discriminate|].
      assert (E' : uhv_loop (g :: rest) (if ic then d else d + 1) false = HvOk fr st' d' es)
        by (destruct (u_finish (uf_st fr f)); try discriminate; exact E).
      destruct (IH _ _ _ _ _ E') as (B & Hd & Hc).
      pose proof (uhv_loop_length _ _ _ _ _ _ E') as Hlen.
      split; [exact B|]. change ((f :: pre) ++ [r]) with (f :: (pre ++ [r])). rewrite Er. cbn [List.length] in *. destruct ic.
      * split; [lia|]. destruct (Nat.ltb_spec (List.length st') (S (S (List.length rest)))); [|lia].
        rewrite Nat.sub_succ_l by lia. lia.
      * split; [lia|]. rewrite Nat.sub_succ_l by lia. lia.
Qed.

(* ... and when no finish() can raise anything but a Violation, handleViolation always terminates normally *)
Lemma uhv_loop_total st : ubottom st -> (forall f, u_finish f = OOk tt \/ u_finish f = OViol) ->
  forall d ic, exists st' d' es, uhv_loop st d ic = HvOk fr st' d' es.
Proof.
  intros (pre & r & -> & Ho & Ha) Hf. induction pre as [|f pre IH]; intros d ic.
  - cbn [app Unsl.uhv_loop]. pose proof Ha as Ha2. unfold absorbs in Ha2. destruct (u_report (uf_st fr r)) as [es0|]; [|contradiction]. eauto.
  - cbn [app Unsl.uhv_loop]. destruct (u_report (uf_st fr f)) as [es0|]; [eauto|].
    destruct (pre ++ [r]) as [|g rest] eqn:Er; [destruct pre; discriminate|].
    destruct (Hf (uf_st fr f)) as [-> | ->]; apply IH.
Qed.

Lemma uhv_loop_pops top rest d ic st' d' es :
  u_report (uf_st fr top) = None -> uhv_loop (top :: rest) d ic = HvOk fr st' d' es -> (List.length st' <= List.length rest)%nat.
Proof.
  intros HR E. cbn [Unsl.uhv_loop] in E. rewrite HR in E.
  destruct (u_finish (uf_st fr top)); try discriminate;
    (destruct rest as [|g rest']; [discriminate|]; apply uhv_loop_length in E; exact E).
Qed.

(* ---- depth bookkeeping ---- *)
Notation depth := (uopen_depth fr).

(* what every handler preserves: well-formedness, the vocabulary, and the object counter *)
Definition keeps (c c' : uctx) : Prop := uwfc c' /\ u_vocab fr c' = u_vocab fr c /\ u_objctr fr c' = u_objctr fr c.

Lemma hv_depth c io ic c' es : uwfc c -> uhandle_violation c io ic = UOk fr c' es ->
  keeps c c' /\ u_inOpen fr c' = u_inOpen fr c /\
  depth c' = depth c + (if io then 1 else 0)
             - (if ic then (if (List.length (u_stack fr c') <? List.length (u_stack fr c))%nat then 1 else 0) else 0).
Proof.
  intros (Hd & Hr) E. unfold Unsl.uhandle_violation in E.
  destruct (uhv_loop (u_stack fr c) (if io then u_discard fr c + 1 else u_discard fr c) ic) as [st' d' es'|] eqn:EL; [|discriminate].
  destruct (uhv_loop_bottom _ Hr _ _ _ _ _ EL) as (R & Hle & Hc).
  inversion E; subst. unfold keeps, uwfc, uopen_depth, uw_stack. cbn [u_discard u_stack u_inOpen u_vocab u_objctr].
  split; [split; [split; [destruct io; lia|exact R]|auto]|]. split; [reflexivity|].
  pose proof (ubottom_nonempty _ Hr). pose proof (ubottom_nonempty _ R). pose proof (uhv_loop_length _ _ _ _ _ _ EL).
  destruct io, ic; destruct (Nat.ltb_spec (List.length st') (List.length (u_stack fr c))); lia.
Qed.

Lemma upre_ok es r c' es' : upre fr es r = UOk fr c' es' -> exists es1, r = UOk fr c' es1 /\ es' = es ++ es1.
Proof. destruct r; cbn; intros H; inversion H; subst; eauto. Qed.

Lemma token_depth c v c' es : uwfc c -> uhandle_token c v = UOk fr c' es ->
  keeps c c' /\ u_inOpen fr c' = u_inOpen fr c /\ depth c' = depth c.
Proof.
  intros W E. unfold Unsl.uhandle_token in E. destruct (u_stack fr c) as [|top rest] eqn:Es; [discriminate|].
  destruct (u_child (uf_st fr top) v) as [es0 r] eqn:EC. destruct r as [f'| | |k]; try discriminate.
  - inversion E; subst. destruct W as (Hd & Hr). rewrite Es in Hr.
    unfold keeps, uwfc, uopen_depth, uw_stack. cbn [u_discard u_stack u_inOpen u_vocab u_objctr List.length]. rewrite Es. cbn [List.length].
    split; [split; [split; [exact Hd|]|auto]|auto].
    apply ubottom_replace; [exact Hr|]. intros A. apply (child_keeps_absorbing _ _ _ _ EC A).
  - apply upre_ok in E as (es1 & E & _). destruct (hv_depth _ _ _ _ _ W E) as (K & I & D). split; [exact K|]. split; [exact I|]. lia.
Qed.

Lemma opt_is_some o n : opt_is o n = true -> o <> None.
Proof. destruct o; [discriminate|]. cbn. discriminate. Qed.

Lemma close_depth c n c' es : uwfc c -> uhandle_close c n = UOk fr c' es ->
  keeps c c' /\ u_inOpen fr c' = u_inOpen fr c /\ depth c' = depth c - 1.
Proof.
  intros W E. unfold Unsl.uhandle_close in E. destruct (u_stack fr c) as [|top rest] eqn:Es; [discriminate|].
  destruct (opt_is (uf_open fr top) n) eqn:EO; [|discriminate]. cbn [negb] in E.
  pose proof (opt_is_some _ _ EO) as HnR.
  assert (Wd := W). destruct Wd as (Hd & Hr). rewrite Es in Hr.
  assert (NA : u_report (uf_st fr top) = None -> forall c1 es1, uhandle_violation c false true = UOk fr c1 es1 ->
                 keeps c c1 /\ u_inOpen fr c1 = u_inOpen fr c /\ depth c1 = depth c - 1).
  { intros HR c1 es1 EV. destruct (hv_depth _ _ _ _ _ W EV) as (K & I & D). split; [exact K|]. split; [exact I|].
    unfold Unsl.uhandle_violation in EV. rewrite Es in EV.
    destruct (uhv_loop (top :: rest) (u_discard fr c) true) as [s1 d1 e1|] eqn:EL; [|discriminate]. inversion EV; subst.
    pose proof (uhv_loop_pops _ _ _ _ _ _ _ HR EL) as Hp.
    cbn [uw_stack u_stack] in D. rewrite Es in D. cbn [List.length] in D.
    destruct (Nat.ltb_spec (List.length s1) (S (List.length rest))); [|lia]. lia. }
  destruct (u_close (uf_st fr top)) as [obj| | |k] eqn:EC; try discriminate.
  - destruct (u_finish (uf_st fr top)) as [[]| | |k] eqn:EF; try discriminate.
    + assert (W0 : uwfc (uw_stack fr c (u_discard fr c) rest)).
      { split; [exact Hd|]. cbn [uw_stack u_stack]. apply (ubottom_pop top rest Hr HnR). }
      destruct (token_depth _ _ _ _ W0 E) as ((W1 & V1 & O1) & I1 & D1).
      split; [split; [exact W1|split; [exact V1|exact O1]]|]. split; [exact I1|].
      rewrite D1. unfold uopen_depth, uw_stack. cbn [u_discard u_stack u_inOpen]. rewrite Es. cbn [List.length]. lia.
    + apply (NA (closing_violation_propagates _ (or_intror (ex_intro _ obj (conj EC EF)))) _ _ E).
  - apply (NA (closing_violation_propagates _ (or_introl EC)) _ _ E).
Qed.

Lemma open_depth_lemma c v c' es : uwfc c -> u_inOpen fr c = true -> uhandle_open c v = UOk fr c' es ->
  keeps c c' /\ depth c' = depth c.
Proof.
  intros W IO E. unfold Unsl.uhandle_open in E. cbv zeta in E. destruct v as [z|b|b|t d items]; try discriminate.
  destruct (negb (uascii b)); [discriminate|].
  destruct (u_stack fr c) as [|top rest] eqn:Es; [discriminate|].
  destruct W as (Hd & Hr).
  destruct (u_do_open (map (uf_st fr) (top :: rest)) (u_opentype fr c ++ [b])) as [[child|]| | |k]; try discriminate.
  - set (push := fun f : fr => uw_stack fr (uw_inOpen fr (uw_opentype fr c (u_opentype fr c ++ [b])) false) (u_discard fr c)
                                 ({| uf_open := Some (u_inbOpen fr c); uf_st := f |} :: top :: rest)) in *.
    assert (WP : forall f, uwfc (push f) /\ depth (push f) = depth c /\ u_vocab fr (push f) = u_vocab fr c /\ u_objctr fr (push f) = u_objctr fr c).
    { intros f. unfold push, uwfc, uopen_depth, uw_stack, uw_inOpen, uw_opentype. cbn [u_discard u_stack u_inOpen u_vocab u_objctr List.length].
      rewrite Es, IO. cbn [List.length]. split; [split; [exact Hd|apply ubottom_push; rewrite <- Es; exact Hr]|]. split; [lia|auto]. }
    destruct (u_start child (u_inbObj fr c)) as [child'| | |k]; try discriminate.
    + inversion E; subst. destruct (WP child') as (W1 & D1 & V1 & O1). split; [split; [exact W1|auto]|exact D1].
    + destruct (WP child) as (W1 & D1 & V1 & O1).
      destruct (hv_depth _ _ _ _ _ W1 E) as ((W2 & V2 & O2) & I2 & D2).
      split; [split; [exact W2|split; congruence]|]. lia.
  - inversion E; subst. unfold keeps, uwfc, uopen_depth, uw_opentype. cbn [u_discard u_stack u_inOpen u_vocab u_objctr].
    rewrite Es. split; [split; [split; [exact Hd|rewrite <- Es; exact Hr]|auto]|reflexivity].
  - set (c1 := uw_inOpen fr (uw_opentype fr c (u_opentype fr c ++ [b])) false) in *.
    assert (W1 : uwfc c1) by (split; [exact Hd|exact Hr]).
    destruct (hv_depth _ _ _ _ _ W1 E) as ((W2 & V2 & O2) & I2 & D2).
    split; [split; [exact W2|split; [rewrite V2|rewrite O2]; reflexivity]|]. rewrite D2.
    unfold c1, uopen_depth, uw_inOpen, uw_opentype. cbn [u_discard u_stack u_inOpen]. rewrite IO. lia.
Qed.

Lemma deliver_depth c v c' es : uwfc c -> udeliver c v = UOk fr c' es -> keeps c c' /\ depth c' = depth c.
Proof.
  intros W E. unfold Unsl.udeliver in E. destruct (u_inOpen fr c) eqn:IO.
  - apply (open_depth_lemma c v c' es W IO E).
  - destruct (token_depth _ _ _ _ W E) as (K & _ & D). auto.
Qed.

Lemma begin_reject_depth c ty hdr c' es : uwfc c -> ubegin_body c ty hdr = BReject c' es -> keeps c c' /\ depth c' = depth c.
Proof.
  intros W E. unfold Unsl.ubegin_body in E. destruct (0 <? u_discard fr c).
  { inversion E; subst. split; [split; [exact W|auto]|reflexivity]. }
  destruct (utaste c (u_inOpen fr c) ty hdr); try discriminate.
  destruct (uhandle_violation c (u_inOpen fr c) false) as [c1 es1|] eqn:EV; [|discriminate]. inversion E; subst.
  destruct (hv_depth _ _ _ _ _ W EV) as ((W1 & V1 & O1) & I1 & D1).
  split; [split; [exact W1|split; [exact V1|exact O1]]|].
  unfold uopen_depth, uw_inOpen in *. cbn [u_discard u_stack u_inOpen]. rewrite I1 in D1. destruct (u_inOpen fr c); lia.
Qed.

Ltac tyc := unfold tok_OPEN, tok_CLOSE, tok_ABORT, tok_INT, tok_NEG, tok_VOCAB, tok_PING, tok_PONG, tok_STRING,
                   tok_LONGINT, tok_LONGNEG, tok_FLOAT, tok_ERROR in *.

(* the effect of one token on well-formedness, vocabulary, depth and object counter *)
Definition moved (c c' : uctx) (dd dc : Z) : Prop :=
  uwfc c' /\ u_vocab fr c' = u_vocab fr c /\ depth c' = depth c + dd /\ u_objctr fr c' = u_objctr fr c + dc.

Lemma keeps_moved c c' : keeps c c' /\ depth c' = depth c -> moved c c' 0 0.
Proof. intros ((W & V & O) & D). split; [exact W|]. split; [exact V|]. split; lia. Qed.

Definition is_open_tok (ty : Z) : Z := if ty =? tok_OPEN then 1 else 0.

Lemma step_nobody_depth c ty hdr c' es : uwfc c -> ustep_nobody_hr c ty hdr = UOk fr c' es ->
  moved c c' (utok_delta ty) (is_open_tok ty).
Proof.
  intros W E. unfold Unsl.ustep_nobody_hr in E.
  destruct ((ty =? tok_OPEN) && u_inOpen fr c) eqn:EOF_; [discriminate|].
  set (c1 := if ty =? tok_OPEN then _ else c) in E.
  assert (W1 : uwfc c1) by (unfold c1; destruct (ty =? tok_OPEN); exact W).
  assert (M1 : u_vocab fr c1 = u_vocab fr c /\ u_objctr fr c1 = u_objctr fr c + is_open_tok ty).
  { unfold c1, is_open_tok. destruct (ty =? tok_OPEN); cbn [u_vocab u_objctr]; split; auto; lia. }
  assert (D1 : depth c1 = depth c + (if ty =? tok_OPEN then 1 else 0) /\ (ty =? tok_OPEN = true -> u_inOpen fr c1 = true)
               /\ (ty =? tok_OPEN = false -> u_inOpen fr c1 = u_inOpen fr c)).
  { unfold c1. destruct (ty =? tok_OPEN) eqn:EO.
    - cbn [andb] in EOF_. unfold uopen_depth. cbn [u_discard u_stack u_inOpen]. rewrite EOF_. repeat split; auto; lia.
    - repeat split; auto; try lia; try discriminate. }
  destruct D1 as (D1 & IO1 & IO1').
  match type of E with context [match ?T with TsFatal _ _ => _ | TsGo _ _ _ _ => _ end] => destruct T as [esf|c2 es2 rej] eqn:ET end; [discriminate|].
  assert (T2 : uwfc c2 /\ u_vocab fr c2 = u_vocab fr c1 /\ u_objctr fr c2 = u_objctr fr c1 /\ depth c2 = depth c1 /\
               (rej = false -> c2 = c1) /\ (0 < u_discard fr c -> c2 = c1 /\ rej = true) /\
               (rej = true -> u_discard fr c <= 0 -> u_inOpen fr c2 = false)).
  { destruct ((0 <? u_discard fr c) || existsb (Z.eqb ty) hd_exempt) eqn:EX.
    - inversion ET; subst c2 es2 rej.
      split; [exact W1|]. split; [reflexivity|]. split; [reflexivity|]. split; [reflexivity|]. split; [reflexivity|].
      split.
      + intros Hd. split; [reflexivity|]. apply Z.ltb_lt. exact Hd.
      + intros Hr Hd. apply Z.ltb_lt in Hr. lia.
    - apply orb_false_iff in EX as [EX1 EX2]. apply Z.ltb_ge in EX1.
      destruct (utaste c1 (u_inOpen fr c) ty hdr); try discriminate.
      + inversion ET; subst c2 es2 rej.
        split; [exact W1|]. split; [reflexivity|]. split; [reflexivity|]. split; [reflexivity|]. split; [reflexivity|].
        split; [intros Hd; lia|intros Hr; discriminate].
      + destruct (uhandle_violation c1 (u_inOpen fr c1) false) as [c3 es3|] eqn:EV; [|discriminate]. inversion ET; subst c2 es2 rej.
        destruct (hv_depth _ _ _ _ _ W1 EV) as ((W3 & V3 & O3) & I3 & D3).
        split; [exact W3|]. split; [exact V3|]. split; [exact O3|].
        split; [unfold uopen_depth, uw_inOpen in *; cbn [u_discard u_stack u_inOpen]; rewrite I3 in D3; destruct (u_inOpen fr c1); lia|].
        split; [discriminate|]. split; [intros Hd; lia|intros _ _; reflexivity]. }
  destruct T2 as (W2 & V2 & O2 & D2 & Hacc & Hdis & Hrej).
  destruct M1 as (V1 & O1).
  unfold moved, utok_delta.
  destruct (ty =? tok_OPEN) eqn:EO.
  { assert (IOc : u_inOpen fr c = false) by (cbn [andb] in EOF_; exact EOF_).
    destruct rej.
    - match type of E with context [if u_inOpen fr ?X then _ else _] => destruct (u_inOpen fr X) eqn:IO3 end; inversion E; subst.
      + unfold uwfc, uopen_depth, uw_inOpen, uw_stack in *. cbn [u_discard u_stack u_inOpen u_vocab u_objctr] in *.
        destruct W2 as (Hd2 & Hr2). split; [split; [lia|exact Hr2]|]. split; [congruence|]. split; [|congruence].
        rewrite IO3 in D2. lia.
      + cbn [u_inOpen] in IO3. destruct (Z.ltb_spec 0 (u_discard fr c)) as [Hp|Hn].
        * destruct (Hdis Hp) as [-> _]. rewrite (IO1 eq_refl) in IO3. discriminate.
        * unfold uwfc, uopen_depth in *. cbn [u_discard u_stack u_inOpen u_vocab u_objctr] in *.
          split; [exact W2|]. split; [congruence|]. split; [|congruence]. rewrite D2. exact D1.
    - rewrite (Hacc eq_refl) in *. inversion E; subst.
      unfold uwfc, uopen_depth, uw_opentype, uw_inOpen in *. cbn [u_discard u_stack u_inOpen u_vocab u_objctr] in *.
      split; [exact W1|]. split; [exact V1|]. split; [|exact O1]. rewrite (IO1 eq_refl) in D1. rewrite IOc in *. lia. }
  rewrite (IO1' eq_refl) in *.
  unfold is_open_tok in O1. rewrite EO in O1.
  assert (base : uwfc c2 /\ u_vocab fr c2 = u_vocab fr c /\ depth c2 = depth c + 0 /\ u_objctr fr c2 = u_objctr fr c + 0).
  { split; [exact W2|]. split; [congruence|]. split; lia. }
  assert (same : forall c3 es3, UOk fr c2 es2 = UOk fr c3 es3 ->
                 uwfc c3 /\ u_vocab fr c3 = u_vocab fr c /\ depth c3 = depth c + 0 /\ u_objctr fr c3 = u_objctr fr c + is_open_tok ty).
  { intros c3 es3 H. inversion H; subst. unfold is_open_tok. rewrite EO. exact base. }
  assert (deliv : forall v c3 es3, upre fr es2 (udeliver c2 v) = UOk fr c3 es3 ->
                  uwfc c3 /\ u_vocab fr c3 = u_vocab fr c /\ depth c3 = depth c + 0 /\ u_objctr fr c3 = u_objctr fr c + is_open_tok ty).
  { intros v c3 es3 H. apply upre_ok in H as (es4 & H & _). destruct (deliver_depth _ _ _ _ W2 H) as ((W3 & V3 & O3) & D3).
    unfold is_open_tok. rewrite EO. split; [exact W3|]. split; [congruence|]. split; lia. }
  unfold is_open_tok in *. rewrite EO in *.
  destruct (ty =? tok_CLOSE) eqn:EC.
  { destruct (hd_close_fatal _ _); [discriminate|]. destruct (Z.ltb_spec 0 (u_discard fr c2)) as [Hp|Hn].
    - inversion E; subst. unfold uwfc, uopen_depth, uw_stack in *. cbn [u_discard u_stack u_inOpen u_vocab u_objctr] in *.
      destruct W2 as (Hd2 & Hr2). split; [split; [lia|exact Hr2]|]. split; [congruence|]. split; lia.
    - apply upre_ok in E as (es4 & E & _). destruct (close_depth _ _ _ _ W2 E) as ((W3 & V3 & O3) & I3 & D3).
      split; [exact W3|]. split; [congruence|]. split; lia. }
  destruct (ty =? tok_ABORT).
  { destruct rej; [apply (same _ _ E)|]. revert E. destruct hd_abort_in_index; intros E; apply upre_ok in E as (es4 & E & _).
    - destruct (uhandle_violation c2 (u_inOpen fr c2) false) as [c3 es3|] eqn:EV; [|discriminate]. inversion E; subst.
      destruct (hv_depth _ _ _ _ _ W2 EV) as ((W3 & V3 & O3) & I3 & D3).
      split; [exact W3|]. split; [unfold uw_inOpen; cbn [u_vocab]; congruence|].
      split; [|unfold uw_inOpen; cbn [u_objctr]; lia].
      unfold uopen_depth, uw_inOpen in *. cbn [u_discard u_stack u_inOpen]. rewrite I3 in D3. destruct (u_inOpen fr c2); lia.
    - destruct (hv_depth _ _ _ _ _ W2 E) as ((W3 & V3 & O3) & I3 & D3).
      split; [exact W3|]. split; [congruence|]. split; lia. }
  destruct (ty =? tok_INT). { destruct rej; [apply (same _ _ E)|apply (deliv _ _ _ E)]. }
  destruct (ty =? tok_NEG). { destruct rej; [apply (same _ _ E)|apply (deliv _ _ _ E)]. }
  destruct (ty =? tok_VOCAB).
  { destruct (uvocab_get (u_vocab fr c2) hdr); [|discriminate]. destruct rej; [apply (same _ _ E)|apply (deliv _ _ _ E)]. }
  destruct (ty =? tok_PING). { inversion E; subst. exact base. }
  destruct (ty =? tok_PONG). { apply (same _ _ E). }
  discriminate.
Qed.

Lemma has_body_delta ty : has_body ty = true -> utok_delta ty = 0 /\ is_open_tok ty = 0.
Proof.
  unfold has_body, utok_delta, is_open_tok. tyc. intros H.
  destruct (Z.eqb_spec ty 136) as [->|_]; [cbn in H; discriminate|].
  destruct (Z.eqb_spec ty 137) as [->|_]; [cbn in H; discriminate|]. auto.
Qed.

(* every complete token moves the receiver's depth exactly as it moves the stream's nesting depth, and the object
   counter by one exactly when it is an OPEN -- accepted, rejected or discarded *)
Theorem utok_apply_moved c ty hdr body c' es : uwfc c -> utok_apply c ty hdr body = UOk fr c' es ->
  moved c c' (utok_delta ty) (is_open_tok ty).
Proof.
  intros W E. unfold Unsl.utok_apply in E. destruct (has_body ty) eqn:HB.
  - destruct (has_body_delta ty HB) as [-> ->].
    destruct (ubegin_body c ty hdr) as [|c1 es1|es1] eqn:EB; [| |discriminate].
    + apply keeps_moved. apply (deliver_depth _ _ _ _ W E).
    + inversion E; subst. apply keeps_moved. apply (begin_reject_depth _ _ _ _ _ W EB).
  - apply (step_nobody_depth _ _ _ _ _ W E).
Qed.

Fixpoint udelta_sum (ts : list (Z * Z * list Z)) : Z :=
  match ts with [] => 0 | (ty, _, _) :: r => utok_delta ty + udelta_sum r end.
Fixpoint ucount_opens (ts : list (Z * Z * list Z)) : Z :=
  match ts with [] => 0 | (ty, _, _) :: r => is_open_tok ty + ucount_opens r end.

Theorem uapply_all_moved ts : forall c c' es, uwfc c -> uapply_all c ts = UOk fr c' es ->
  moved c c' (udelta_sum ts) (ucount_opens ts).
Proof.
  induction ts as [|[[ty hdr] body] ts IH]; intros c c' es W E; cbn [Unsl.uapply_all udelta_sum ucount_opens] in *.
  - inversion E; subst. split; [exact W|]. split; [reflexivity|]. split; lia.
  - destruct (utok_apply c ty hdr body) as [c1 es1|] eqn:E1; [|discriminate].
    apply upre_ok in E as (es2 & E2 & _).
    destruct (utok_apply_moved _ _ _ _ _ _ W E1) as (W1 & V1 & D1 & O1).
    destruct (IH _ _ _ W1 E2) as (W2 & V2 & D2 & O2).
    split; [exact W2|]. split; [congruence|]. split; lia.
Qed.

Lemma uctx0_wf root voc : absorbs root -> uwfc (uctx0 fr root voc).
Proof. intros A. split; [cbn; lia|]. exists [], {| uf_open := None; uf_st := root |}. cbn. auto. Qed.

Lemma uat_top_depth c : uat_top fr c -> depth c = 0.
Proof. intros (D & I & S). unfold uopen_depth. rewrite D, I, S. reflexivity. Qed.

Lemma udepth_zero_top c : uwfc c -> depth c = 0 -> uat_top fr c.
Proof.
  intros (Hd & Hr) D. unfold uopen_depth in D. pose proof (ubottom_nonempty _ Hr) as L.
  destruct (u_inOpen fr c) eqn:I; [lia|]. split; [lia|]. split; [exact I|lia].
Qed.

(* RESYNCHRONISATION, for every unslicer semantics: whatever happens inside a top-level object -- violations at any
   depth, ABORTs, rejected or skipped tokens -- unless the connection is abandoned, after a token sequence whose OPENs and
   CLOSEs balance the receiver is back at top level: nothing is being discarded, only the root unslicer is on the stack, no
   index phase is pending, the vocabulary is the same and the object counter has advanced by the number of OPEN tokens *)
Theorem unsl_resync c ts c' es : uat_top fr c -> uwfc c -> udelta_sum ts = 0 -> uapply_all c ts = UOk fr c' es ->
  uat_top fr c' /\ uwfc c' /\ u_vocab fr c' = u_vocab fr c /\ u_objctr fr c' = u_objctr fr c + ucount_opens ts.
Proof.
  intros T W B E. destruct (uapply_all_moved ts c c' es W E) as (W' & V & D & O).
  split; [|auto]. apply udepth_zero_top; [exact W'|]. rewrite D, (uat_top_depth c T), B. reflexivity.
Qed.

Theorem unsl_depth_nonneg c ts c' es : uwfc c -> uapply_all c ts = UOk fr c' es -> 0 <= depth c + udelta_sum ts.
Proof.
  intros W E. destruct (uapply_all_moved ts c c' es W E) as ((Hd & Hr) & _ & D & _).
  rewrite <- D. unfold uopen_depth. pose proof (ubottom_nonempty _ Hr). destruct (u_inOpen fr c'); lia.
Qed.

(* ---- while a rejected object is being discarded (discardCount > 0) nothing reaches any unslicer: every token only
   moves discardCount by its own nesting delta, and the only events are the PONGs that answer PINGs ---- *)
Definition only_pongs (es : list uevent) : Prop := forall e, In e es -> exists n, e = UPong n.

Lemma only_pongs_app a b : only_pongs a -> only_pongs b -> only_pongs (a ++ b).
Proof. intros A B e H. apply in_app_or in H as [H|H]; auto. Qed.

Lemma discarding_token c ty hdr body c' es : 0 < u_discard fr c -> u_inOpen fr c = false -> utok_apply c ty hdr body = UOk fr c' es ->
  u_stack fr c' = u_stack fr c /\ u_inOpen fr c' = false /\ u_discard fr c' = u_discard fr c + utok_delta ty /\
  u_vocab fr c' = u_vocab fr c /\ only_pongs es.
Proof.
  intros Hd IO E. unfold Unsl.utok_apply in E. destruct (has_body ty) eqn:HB.
  - unfold Unsl.ubegin_body in E. destruct (Z.ltb_spec 0 (u_discard fr c)); [|lia]. inversion E; subst.
    destruct (has_body_delta ty HB) as [-> _]. repeat split; auto; try lia. intros e [].
  - unfold Unsl.ustep_nobody_hr in E. rewrite IO, andb_false_r in E.
    destruct (Z.ltb_spec 0 (u_discard fr c)); [|lia]. cbn [orb] in E. unfold utok_delta.
    destruct (ty =? tok_OPEN) eqn:EO.
    + cbn [u_inOpen u_discard u_stack uw_inOpen uw_stack] in E. inversion E; subst.
      cbn [u_inOpen u_discard u_stack u_vocab uw_inOpen uw_stack]. repeat split; auto. intros e [].
    + destruct (ty =? tok_CLOSE).
      { rewrite IO in E. unfold hd_close_fatal in E. cbn [andb] in E.
        destruct (Z.ltb_spec 0 (u_discard fr c)); [|lia]. inversion E; subst. cbn [u_inOpen u_discard u_stack u_vocab uw_stack].
        repeat split; auto; try lia. intros e []. }
      assert (same : forall es0, UOk fr c es0 = UOk fr c' es -> es0 = [] ->
                u_stack fr c' = u_stack fr c /\ u_inOpen fr c' = false /\ u_discard fr c' = u_discard fr c + 0 /\
                u_vocab fr c' = u_vocab fr c /\ only_pongs es).
      { intros es0 HH ->. inversion HH; subst. repeat split; auto; try lia. intros e []. }
      destruct (ty =? tok_ABORT); [apply (same _ E eq_refl)|].
      destruct (ty =? tok_INT); [apply (same _ E eq_refl)|].
      destruct (ty =? tok_NEG); [apply (same _ E eq_refl)|].
      destruct (ty =? tok_VOCAB). { destruct (uvocab_get (u_vocab fr c) hdr); [apply (same _ E eq_refl)|discriminate]. }
      destruct (ty =? tok_PING).
      { inversion E; subst. repeat split; auto; try lia. intros e [<-|[]]. eauto. }
      destruct (ty =? tok_PONG); [apply (same _ E eq_refl)|discriminate].
Qed.

Fixpoint stays_discarding (d : Z) (ts : list (Z * Z * list Z)) : Prop :=
  match ts with [] => True | (ty, _, _) :: r => 0 < d /\ stays_discarding (d + utok_delta ty) r end.

Theorem unsl_discard_silent ts : forall c c' es, u_inOpen fr c = false -> stays_discarding (u_discard fr c) ts ->
  uapply_all c ts = UOk fr c' es ->
  u_stack fr c' = u_stack fr c /\ u_inOpen fr c' = false /\ u_discard fr c' = u_discard fr c + udelta_sum ts /\
  u_vocab fr c' = u_vocab fr c /\ only_pongs es.
Proof.
  induction ts as [|[[ty hdr] body] ts IH]; intros c c' es IO S E; cbn [Unsl.uapply_all udelta_sum stays_discarding] in *.
  - inversion E; subst. repeat split; auto; try lia. intros e [].
  - destruct S as (Hd & S). destruct (utok_apply c ty hdr body) as [c1 es1|] eqn:E1; [|discriminate].
    apply upre_ok in E as (es2 & E2 & ->).
    destruct (discarding_token _ _ _ _ _ _ Hd IO E1) as (S1 & I1 & D1 & V1 & P1).
    rewrite <- D1 in S. destruct (IH _ _ _ I1 S E2) as (S2 & I2 & D2 & V2 & P2).
    split; [congruence|]. split; [exact I2|]. split; [lia|]. split; [congruence|]. apply only_pongs_app; assumption.
Qed.

(* ---- byte level and token level agree ---- *)
Notation utok_step := (tok_step uctx uevent ubegin_body ufinish_body ustep_nobody (ufatal 0) (ufatal 0) (fun _ => [ULose])).

Theorem utok_step_complete c b ds ty rest :
  scan_header 64 [] b = HOk ds ty rest -> ty <> tok_ERROR ->
  (has_body ty = true -> blen ty (le128 ds) <= lenZ rest) ->
  let n := if has_body ty then blen ty (le128 ds) else 0 in
  utok_step c b =
  match utok_apply c ty (le128 ds) (firstn (Z.to_nat n) rest) with
  | UOk _ c' es => TCont uctx uevent c' es (skipn (Z.to_nat n) rest)
  | UFatal _ es => TDead uctx uevent es
  end.
Proof.
  intros S NE HB. unfold Recv.tok_step. rewrite S.
  destruct (Z.eqb_spec ty tok_ERROR); [contradiction|].
  unfold Unsl.utok_apply. destruct (has_body ty) eqn:Hb.
  - specialize (HB eq_refl). destruct (ubegin_body c ty (le128 ds)) as [|c1 es1|es1]; [| |reflexivity].
    + destruct (Z.ltb_spec (lenZ rest) (blen ty (le128 ds))); [lia|].
      unfold Unsl.ufinish_body, uto_generic. destruct (udeliver c (ubody_val ty _)); reflexivity.
    + destruct (Z.ltb_spec (lenZ rest) (blen ty (le128 ds))); [lia|]. reflexivity.
  - cbn [Z.to_nat firstn skipn]. unfold Unsl.ustep_nobody, uto_generic. destruct (ustep_nobody_hr c ty (le128 ds)); reflexivity.
Qed.

(* ---- C11: if the unslicers' tasters admit a sized body only up to B bytes, so does the receiver ---- *)
Definition usized (ty : Z) : bool := (ty =? tok_STRING) || (ty =? tok_LONGINT) || (ty =? tok_LONGNEG).

Theorem unsl_accept_bound B :
  (forall f ty size, usized ty = true -> u_check f ty size = OOk tt -> size <= B) ->
  (forall st ty size ot, usized ty = true -> u_opener_check st ty size ot = OOk tt -> size <= B) ->
  forall c ty hdr, has_body ty = true -> ubegin_body c ty hdr = BAccept -> blen ty hdr <= Z.max B 8.
Proof.
  intros HC HO c ty hdr HB E. unfold blen. destruct (ty =? tok_FLOAT) eqn:EF; [lia|].
  assert (S : usized ty = true).
  { unfold has_body in HB. unfold usized. rewrite EF, orb_false_r in HB. exact HB. }
  unfold Unsl.ubegin_body in E. destruct (0 <? u_discard fr c); [discriminate|].
  unfold Unsl.utaste in E. destruct (u_stack fr c) as [|top rest]; [discriminate|].
  destruct (u_inOpen fr c).
  - destruct (u_opener_check _ ty hdr _) as [[]| | |] eqn:EO; try discriminate. pose proof (HO _ _ _ _ S EO). lia.
    destruct (uhandle_violation _ _ _); discriminate.
  - destruct (u_check _ ty hdr) as [[]| | |] eqn:EC; try discriminate. pose proof (HC _ _ _ S EC). lia.
    destruct (uhandle_violation _ _ _); discriminate.
Qed.

Theorem unsl_buffer_bounded B : 0 <= B ->
  (forall f ty size, usized ty = true -> u_check f ty size = OOk tt -> size <= B) ->
  (forall st ty size ot, usized ty = true -> u_opener_check st ty size ot = OOk tt -> size <= B) ->
  forall cs c, lenZ (r_buf (fst (ufeed_all (init c) cs))) < 65 + Z.max (Z.max B 8) SIZE_LIMIT.
Proof.
  intros HB HC HO cs c.
  apply (buffer_bounded uctx uevent ubegin_body ufinish_body ustep_nobody (ufatal 0) (ufatal 0) (fun _ => [ULose]) (Z.max B 8)
           (unsl_accept_bound B HC HO) cs (init c)).
  unfold held_ok, init, mk, lenZ. cbn [r_buf List.length Z.of_nat]. unfold SIZE_LIMIT. lia.
Qed.

(* ---- "no exception ever escapes to the transport": when the unslicers' own events are honest, no run of
   dataReceived -- any state, any chunks -- produces an escape event ---- *)
Hypothesis child_events_clean : forall f v, no_escape (fst (u_child f v)).
Hypothesis report_events_clean : forall f es, u_report f = Some es -> no_escape es.

Definition hr_clean (r : uhr fr) : Prop := match r with UOk _ _ es => no_escape es | UFatal _ es => no_escape es end.

Lemma upre_clean es r : no_escape es -> hr_clean r -> hr_clean (upre fr es r).
Proof. destruct r; cbn; intros; apply no_escape_app; assumption. Qed.

Lemma hv_loop_clean : forall st d ic, match uhv_loop st d ic with HvOk _ _ _ es => no_escape es | HvFatal _ es => no_escape es end.
Proof.
  induction st as [|top rest IH]; intros d ic; cbn [Unsl.uhv_loop]; [apply ufatal_no_escape|].
  destruct (u_report (uf_st fr top)) eqn:R; [apply (report_events_clean _ _ R)|].
  destruct (u_finish (uf_st fr top)); try apply ufatal_no_escape; (destruct rest; [apply ufatal_no_escape|apply IH]).
Qed.

Lemma hv_clean c io ic : hr_clean (uhandle_violation c io ic).
Proof.
  unfold Unsl.uhandle_violation. pose proof (hv_loop_clean (u_stack fr c) (if io then u_discard fr c + 1 else u_discard fr c) ic) as H.
  destruct (uhv_loop _ _ _); exact H.
Qed.

Lemma token_clean c v : hr_clean (uhandle_token c v).
Proof.
  unfold Unsl.uhandle_token. destruct (u_stack fr c) as [|top rest]; [apply ufatal_no_escape|].
  pose proof (child_events_clean (uf_st fr top) v) as H. destruct (u_child (uf_st fr top) v) as [es r]. cbn [fst] in H.
  destruct r; cbn [hr_clean]; try exact H; try (apply no_escape_app; [exact H|apply ufatal_no_escape]).
  apply upre_clean; [exact H|apply hv_clean].
Qed.

Lemma close_clean c n : hr_clean (uhandle_close c n).
Proof.
  unfold Unsl.uhandle_close. destruct (u_stack fr c) as [|top rest]; [apply ufatal_no_escape|].
  destruct (negb _); [apply ufatal_no_escape|].
  destruct (u_close (uf_st fr top)); try apply ufatal_no_escape; try apply hv_clean.
  destruct (u_finish (uf_st fr top)); try apply ufatal_no_escape; try apply hv_clean. apply token_clean.
Qed.

Lemma open_clean c v : hr_clean (uhandle_open c v).
Proof.
  unfold Unsl.uhandle_open. cbv zeta. destruct v; try apply ufatal_no_escape.
  destruct (negb _); [reflexivity|]. destruct (u_stack fr c) eqn:Es; [apply ufatal_no_escape|].
  destruct (u_do_open _ _) as [[child|]| | |]; try apply ufatal_no_escape; try apply hv_clean; try reflexivity.
  destruct (u_start child _); try apply ufatal_no_escape; try apply hv_clean. reflexivity.
Qed.

Lemma deliver_clean c v : hr_clean (udeliver c v).
Proof. unfold Unsl.udeliver. destruct (u_inOpen fr c); [apply open_clean|apply token_clean]. Qed.

Lemma step_nobody_clean c ty hdr : hr_clean (ustep_nobody_hr c ty hdr).
Proof.
  unfold Unsl.ustep_nobody_hr. destruct ((ty =? tok_OPEN) && u_inOpen fr c); [apply ufatal_no_escape|].
  set (c1 := if ty =? tok_OPEN then _ else c).
  match goal with |- hr_clean (match ?T with TsFatal _ _ => _ | TsGo _ _ _ _ => _ end) => assert (HT : match T with TsFatal _ es => no_escape es | TsGo _ _ es _ => no_escape es end) end.
  { destruct (_ || _); [reflexivity|]. destruct (utaste c1 _ ty hdr); try apply ufatal_no_escape; try reflexivity.
    pose proof (hv_clean c1 (u_inOpen fr c1) false) as H. destruct (uhandle_violation c1 _ _); exact H. }
  match goal with |- hr_clean (match ?T with TsFatal _ _ => _ | TsGo _ _ _ _ => _ end) => destruct T as [esf|c2 es2 rej] end; [exact HT|].
  destruct (ty =? tok_OPEN). { destruct rej; [destruct (u_inOpen fr _)|]; exact HT. }
  destruct (ty =? tok_CLOSE). { destruct (hd_close_fatal _ _); [apply no_escape_app; [exact HT|apply ufatal_no_escape]|]. destruct (0 <? _); [exact HT|]. apply upre_clean; [exact HT|apply close_clean]. }
  destruct (ty =? tok_ABORT).
  { destruct rej; [exact HT|]. destruct hd_abort_in_index; (apply upre_clean; [exact HT|]); [|apply hv_clean].
    pose proof (hv_clean c2 (u_inOpen fr c2) false) as H. destruct (uhandle_violation c2 (u_inOpen fr c2) false); exact H. }
  destruct (ty =? tok_INT). { destruct rej; [exact HT|]. apply upre_clean; [exact HT|apply deliver_clean]. }
  destruct (ty =? tok_NEG). { destruct rej; [exact HT|]. apply upre_clean; [exact HT|apply deliver_clean]. }
  destruct (ty =? tok_VOCAB).
  { destruct (uvocab_get _ _); [|apply no_escape_app; [exact HT|apply ufatal_no_escape]].
    destruct rej; [exact HT|]. apply upre_clean; [exact HT|apply deliver_clean]. }
  destruct (ty =? tok_PING). { cbn [hr_clean]. apply no_escape_app; [exact HT|reflexivity]. }
  destruct (ty =? tok_PONG); [exact HT|]. apply no_escape_app; [exact HT|apply ufatal_no_escape].
Qed.

Lemma tok_step_clean c b :
  match utok_step c b with
  | TNeed _ _ => True | TSkip _ _ _ es _ => no_escape es | TCont _ _ _ es _ => no_escape es | TDead _ _ es => no_escape es
  end.
Proof.
  unfold Recv.tok_step. destruct (scan_header 64 [] b) as [| |ds ty rest]; [exact I|apply ufatal_no_escape|].
  destruct (ty =? tok_ERROR).
  { destruct (SIZE_LIMIT <? le128 ds); [apply ufatal_no_escape|]. destruct (lenZ rest <? le128 ds); [exact I|reflexivity]. }
  destruct (has_body ty).
  - assert (HB : match ubegin_body c ty (le128 ds) with BAccept => True | BReject _ es => no_escape es | BFatal es => no_escape es end).
    { unfold Unsl.ubegin_body. destruct (0 <? _); [reflexivity|].
      destruct (utaste c _ ty (le128 ds)); try apply ufatal_no_escape; try exact I.
      pose proof (hv_clean c (u_inOpen fr c) false) as H. destruct (uhandle_violation c _ _); exact H. }
    destruct (ubegin_body c ty (le128 ds)); [| |exact HB].
    + destruct (lenZ rest <? _); [exact I|]. unfold Unsl.ufinish_body, uto_generic.
      pose proof (deliver_clean c (ubody_val ty (firstn (Z.to_nat (blen ty (le128 ds))) rest))) as H.
      destruct (udeliver c _); exact H.
    + destruct (lenZ rest <? _); exact HB.
  - unfold Unsl.ustep_nobody, uto_generic. pose proof (step_nobody_clean c ty (le128 ds)) as H.
    destruct (ustep_nobody_hr c ty (le128 ds)); exact H.
Qed.

Notation uloop := (loop uctx uevent ubegin_body ufinish_body ustep_nobody (ufatal 0) (ufatal 0) (fun _ => [ULose])).
Notation ufeed := (ufeed fr u_check u_opener_check u_do_open u_start u_child u_close u_finish u_report).

Lemma loop_clean f : forall c b, no_escape (snd (uloop f c b)).
Proof.
  induction f as [|f IH]; intros c b; cbn [Recv.loop]; [reflexivity|].
  destruct b as [|x b]; [reflexivity|].
  pose proof (tok_step_clean c (x :: b)) as H. destruct (utok_step c (x :: b)) as [|c' es n|c' es rest|es]; try exact H; [reflexivity|].
  specialize (IH c' rest). destruct (uloop f c' rest) as [s es']. cbn [snd] in *. apply no_escape_app; assumption.
Qed.

Lemma feed_clean s chunk : no_escape (snd (ufeed s chunk)).
Proof.
  unfold Unsl.ufeed, Recv.feed. destruct (r_dead s); [reflexivity|]. destruct (_ && _); [reflexivity|]. apply loop_clean.
Qed.

Theorem unsl_no_escape cs : forall s, no_escape (snd (ufeed_all s cs)).
Proof.
  unfold Unsl.ufeed_all.
  induction cs as [|c cs IH]; intros s; cbn [Recv.feed_all]; [reflexivity|].
  pose proof (feed_clean s c) as H. unfold Unsl.ufeed in H.
  destruct (feed uctx uevent ubegin_body ufinish_body ustep_nobody (ufatal 0) (ufatal 0) (fun _ => [ULose]) s c) as [s1 e1].
  specialize (IH s1).
  destruct (feed_all uctx uevent ubegin_body ufinish_body ustep_nobody (ufatal 0) (ufatal 0) (fun _ => [ULose]) s1 cs) as [s2 e2].
  cbn [snd] in *. apply no_escape_app; assumption.
Qed.

(* every way of abandoning the connection on an exception sends ERROR and closes *)
Theorem unsl_fatal_sends_error_and_closes k : abstain_code k = false -> In UErrorSent (ufatal k) /\ In ULose (ufatal k).
Proof. intros A. destruct (ufatal_closes k A). auto. Qed.

End Proofs.

(* ================================================================== *)
(* C11 with an invariant on the unslicers that are on the stack: if every unslicer that can get there (P) has tasters that
   admit a sized body only up to B bytes, the bytes held never reach 65 + max(B, 8, SIZE_LIMIT) -- for all chunk sequences. *)
Section Bounded.
Variable fr : Type.
Variable u_check : fr -> Z -> Z -> oc unit.
Variable u_opener_check : list fr -> Z -> Z -> list (list Z) -> oc unit.
Variable u_do_open : list fr -> list (list Z) -> oc (option fr).
Variable u_start : fr -> Z -> oc fr.
Variable u_child : fr -> uval -> list uevent * oc fr.
Variable u_close : fr -> oc uval.
Variable u_finish : fr -> oc unit.
Variable u_report : fr -> option (list uevent).
Variable P : fr -> Prop.
Variable B : Z.
Hypothesis P_open : forall st ot ch, Forall P st -> u_do_open st ot = OOk (Some ch) -> P ch.
Hypothesis P_start : forall ch n ch', P ch -> u_start ch n = OOk ch' -> P ch'.
Hypothesis P_child : forall f v es f', P f -> u_child f v = (es, OOk f') -> P f'.
Hypothesis P_check : forall f ty size, P f -> usized ty = true -> u_check f ty size = OOk tt -> size <= B.
Hypothesis P_opener : forall st ty size ot, usized ty = true -> u_opener_check st ty size ot = OOk tt -> size <= B.

Notation uctx := (uctx fr).
Notation uhv_loop := (uhv_loop fr u_finish u_report).
Notation uhandle_violation := (uhandle_violation fr u_finish u_report).
Notation uhandle_token := (uhandle_token fr u_child u_finish u_report).
Notation uhandle_close := (uhandle_close fr u_child u_close u_finish u_report).
Notation uhandle_open := (uhandle_open fr u_do_open u_start u_finish u_report).
Notation udeliver := (udeliver fr u_do_open u_start u_child u_finish u_report).
Notation ubegin_body := (ubegin_body fr u_check u_opener_check u_finish u_report).
Notation ufinish_body := (ufinish_body fr u_do_open u_start u_child u_finish u_report).
Notation ustep_nobody_hr := (ustep_nobody_hr fr u_check u_opener_check u_do_open u_start u_child u_close u_finish u_report).
Notation ustep_nobody := (ustep_nobody fr u_check u_opener_check u_do_open u_start u_child u_close u_finish u_report).
Notation ufeed_all := (ufeed_all fr u_check u_opener_check u_do_open u_start u_child u_close u_finish u_report).
Notation utok_step := (tok_step uctx uevent ubegin_body ufinish_body ustep_nobody (ufatal 0) (ufatal 0) (fun _ => [ULose])).
Notation uloop := (loop uctx uevent ubegin_body ufinish_body ustep_nobody (ufatal 0) (ufatal 0) (fun _ => [ULose])).

Definition SJ (st : list (ufr fr)) : Prop := Forall (fun f => P (uf_st fr f)) st.
Definition J (c : uctx) : Prop := SJ (u_stack fr c).
Definition hrJ (r : uhr fr) : Prop := match r with UOk _ c _ => J c | UFatal _ _ => True end.

Lemma SJ_map st : SJ st -> Forall P (map (uf_st fr) st).
Proof. induction 1; cbn; constructor; assumption. Qed.

Lemma hv_loop_J : forall st d ic, SJ st -> match uhv_loop st d ic with HvOk _ st' _ _ => SJ st' | HvFatal _ _ => True end.
Proof.
  induction st as [|top rest IH]; intros d ic H; cbn [Unsl.uhv_loop]; [exact I|].
  destruct (u_report (uf_st fr top)); [exact H|]. inversion H; subst.
  destruct (u_finish (uf_st fr top)); try exact I; (destruct rest; [exact I|apply IH; assumption]).
Qed.

Lemma hv_J c io ic : J c -> hrJ (uhandle_violation c io ic).
Proof.
  intros H. unfold Unsl.uhandle_violation.
  pose proof (hv_loop_J (u_stack fr c) (if io then u_discard fr c + 1 else u_discard fr c) ic H) as K.
  destruct (uhv_loop _ _ _); [exact K|exact I].
Qed.

Lemma upre_J es r : hrJ r -> hrJ (upre fr es r).
Proof. destruct r; auto. Qed.

Lemma token_J c v : J c -> hrJ (uhandle_token c v).
Proof.
  intros H. unfold Unsl.uhandle_token. destruct (u_stack fr c) as [|top rest] eqn:Es; [exact I|].
  destruct (u_child (uf_st fr top) v) as [es r] eqn:EC. unfold J in H. rewrite Es in H. inversion H; subst.
  destruct r; try exact I.
  - cbn [hrJ]. unfold J, uw_stack. cbn [u_stack]. constructor; [cbn [uf_st]; eapply P_child; eauto|assumption].
  - apply upre_J. apply hv_J. unfold J. rewrite Es. exact H.
Qed.

Lemma close_J c n : J c -> hrJ (uhandle_close c n).
Proof.
  intros H. unfold Unsl.uhandle_close. destruct (u_stack fr c) as [|top rest] eqn:Es; [exact I|].
  destruct (negb _); [exact I|]. assert (HJ : J c) by exact H. unfold J in H. rewrite Es in H. inversion H; subst.
  destruct (u_close (uf_st fr top)); try exact I; try (apply hv_J; exact HJ).
  destruct (u_finish (uf_st fr top)); try exact I; try (apply hv_J; exact HJ).
  apply token_J. unfold J, uw_stack. cbn [u_stack]. assumption.
Qed.

Lemma open_J c v : J c -> hrJ (uhandle_open c v).
Proof.
  intros H. unfold Unsl.uhandle_open. cbv zeta. destruct v; try exact I.
  destruct (negb _); [exact I|]. destruct (u_stack fr c) as [|top rest] eqn:Es; [exact I|].
  assert (HS : SJ (top :: rest)) by (unfold J in H; rewrite Es in H; exact H).
  destruct (u_do_open (map (uf_st fr) (top :: rest)) (u_opentype fr c ++ [b])) as [[child|]| | |] eqn:ED; try exact I.
  - pose proof (P_open _ _ _ (SJ_map _ HS) ED) as PC.
    destruct (u_start child (u_inbObj fr c)) as [child'| | |] eqn:ES; try exact I.
    + cbn [hrJ]. unfold J, uw_stack. cbn [u_stack]. constructor; [cbn [uf_st]; eapply P_start; eauto|exact HS].
    + apply hv_J. unfold J, uw_stack. cbn [u_stack]. constructor; [exact PC|exact HS].
  - cbn [hrJ]. unfold J, uw_opentype. cbn [u_stack]. rewrite Es. exact HS.
  - apply hv_J. unfold J, uw_inOpen, uw_opentype. cbn [u_stack]. rewrite Es. exact HS.
Qed.

Lemma deliver_J c v : J c -> hrJ (udeliver c v).
Proof. intros H. unfold Unsl.udeliver. destruct (u_inOpen fr c); [apply open_J|apply token_J]; exact H. Qed.

Lemma begin_J c ty hdr : J c ->
  match ubegin_body c ty hdr with
  | BAccept => has_body ty = true -> blen ty hdr <= Z.max B 8
  | BReject c' _ => J c'
  | BFatal _ => True
  end.
Proof.
  intros H. unfold Unsl.ubegin_body. destruct (0 <? u_discard fr c); [exact H|].
  unfold Unsl.utaste. destruct (u_stack fr c) as [|top rest] eqn:Es; [exact I|].
  assert (HS : SJ (top :: rest)) by (unfold J in H; rewrite Es in H; exact H).
  assert (HV : match uhandle_violation c (u_inOpen fr c) false with UOk _ c' es => J (uw_inOpen fr c' false) | UFatal _ _ => True end).
  { pose proof (hv_J c (u_inOpen fr c) false H) as K. destruct (uhandle_violation c _ _); [exact K|exact I]. }
  assert (SZ : has_body ty = true -> (ty =? tok_FLOAT) = false -> usized ty = true).
  { intros HB EF. unfold has_body in HB. unfold usized. rewrite EF, orb_false_r in HB. exact HB. }
  destruct (u_inOpen fr c).
  - destruct (u_opener_check _ ty hdr _) as [[]| | |] eqn:EO; try exact I.
    + intros HB. unfold blen. destruct (ty =? tok_FLOAT) eqn:EF; [lia|]. pose proof (P_opener _ _ _ _ (SZ HB eq_refl) EO). lia.
    + destruct (uhandle_violation c true false); [exact HV|exact I].
  - destruct (u_check _ ty hdr) as [[]| | |] eqn:EC; try exact I.
    + intros HB. unfold blen. destruct (ty =? tok_FLOAT) eqn:EF; [lia|]. inversion HS; subst.
      pose proof (P_check _ _ _ H2 (SZ HB eq_refl) EC). lia.
    + destruct (uhandle_violation c false false); [exact HV|exact I].
Qed.

Lemma step_nobody_J c ty hdr : J c -> hrJ (ustep_nobody_hr c ty hdr).
Proof.
  intros H. unfold Unsl.ustep_nobody_hr. destruct ((ty =? tok_OPEN) && u_inOpen fr c); [exact I|].
  set (c1 := if ty =? tok_OPEN then _ else c).
  assert (H1 : J c1) by (unfold c1; destruct (ty =? tok_OPEN); exact H).
  match goal with |- hrJ (match ?T with TsFatal _ _ => _ | TsGo _ _ _ _ => _ end) => assert (HT : match T with TsFatal _ _ => True | TsGo _ c2 _ _ => J c2 end) end.
  { destruct (_ || _); [exact H1|]. destruct (utaste fr u_check u_opener_check c1 _ ty hdr); try exact I; try exact H1.
    pose proof (hv_J c1 (u_inOpen fr c1) false H1) as K. destruct (uhandle_violation c1 _ _); [exact K|exact I]. }
  match goal with |- hrJ (match ?T with TsFatal _ _ => _ | TsGo _ _ _ _ => _ end) => destruct T as [esf|c2 es2 rej] end; [exact I|].
  destruct (ty =? tok_OPEN). { destruct rej; [destruct (u_inOpen fr _)|]; exact HT. }
  destruct (ty =? tok_CLOSE). { destruct (hd_close_fatal _ _); [exact I|]. destruct (0 <? _); [exact HT|]. apply upre_J, close_J; exact HT. }
  destruct (ty =? tok_ABORT).
  { destruct rej; [exact HT|]. destruct hd_abort_in_index; apply upre_J; [|apply hv_J; exact HT].
    pose proof (hv_J c2 (u_inOpen fr c2) false HT) as HJ2. destruct (uhandle_violation c2 (u_inOpen fr c2) false); exact HJ2. }
  destruct (ty =? tok_INT). { destruct rej; [exact HT|]. apply upre_J, deliver_J; exact HT. }
  destruct (ty =? tok_NEG). { destruct rej; [exact HT|]. apply upre_J, deliver_J; exact HT. }
  destruct (ty =? tok_VOCAB). { destruct (uvocab_get _ _); [|exact I]. destruct rej; [exact HT|]. apply upre_J, deliver_J; exact HT. }
  destruct (ty =? tok_PING); [exact HT|]. destruct (ty =? tok_PONG); [exact HT|exact I].
Qed.

Definition LIM : Z := 65 + Z.max (Z.max B 8) SIZE_LIMIT.

Lemma tok_step_J c b : J c ->
  match utok_step c b with
  | TNeed _ _ => lenZ b < LIM
  | TSkip _ _ c' _ _ => J c' | TCont _ _ c' _ _ => J c' | TDead _ _ _ => True
  end.
Proof.
  intros H. unfold Recv.tok_step, LIM. destruct (scan_header 64 [] b) as [| |ds ty r] eqn:S.
  - pose proof (scan_need_length _ _ _ S). unfold lenZ, SIZE_LIMIT. lia.
  - exact I.
  - pose proof (scan_ok_total_length _ _ _ _ _ _ S) as L.
    destruct (ty =? tok_ERROR).
    { destruct (SIZE_LIMIT <? le128 ds) eqn:O; [exact I|]. apply Z.ltb_ge in O.
      destruct (Z.ltb_spec (lenZ r) (le128 ds)) as [Hlt|]; [|exact I]. unfold lenZ in *. lia. }
    destruct (has_body ty) eqn:HB.
    + pose proof (begin_J c ty (le128 ds) H) as K. destruct (ubegin_body c ty (le128 ds)) as [|c1 es1|es1]; [| |exact I].
      * specialize (K HB). destruct (Z.ltb_spec (lenZ r) (blen ty (le128 ds))) as [Hlt|].
        -- unfold lenZ in *. lia.
        -- unfold Unsl.ufinish_body, uto_generic.
           pose proof (deliver_J c (ubody_val ty (firstn (Z.to_nat (blen ty (le128 ds))) r)) H) as D.
           destruct (udeliver c _); [exact D|exact I].
      * destruct (lenZ r <? blen ty (le128 ds)); exact K.
    + unfold Unsl.ustep_nobody, uto_generic. pose proof (step_nobody_J c ty (le128 ds) H) as K.
      destruct (ustep_nobody_hr c ty (le128 ds)); [exact K|exact I].
Qed.

Definition good (s : rstate uctx) : Prop := J (r_ctx s) /\ lenZ (r_buf s) < LIM.

Lemma LIM_pos : 0 < LIM.
Proof. unfold LIM, SIZE_LIMIT. lia. Qed.

Lemma loop_good f : forall c b, (List.length b < f)%nat -> J c -> good (fst (uloop f c b)).
Proof.
  induction f as [|f IH]; intros c b Hl H; [lia|]. cbn [Recv.loop].
  destruct b as [|x b]; [split; [exact H|cbn; apply LIM_pos]|].
  pose proof (tok_step_J c (x :: b) H) as K.
  destruct (utok_step c (x :: b)) as [|c' es k|c' es rest|es] eqn:T.
  - split; [exact H|exact K].
  - split; [exact K|cbn; apply LIM_pos].
  - pose proof (tok_step_cont_length _ _ _ _ _ _ _ _ _ _ _ _ _ T) as L.
    specialize (IH c' rest ltac:(cbn [List.length] in *; lia) K). destruct (uloop f c' rest). exact IH.
  - split; [exact H|cbn; apply LIM_pos].
Qed.

Lemma feed_good s y : good s -> good (fst (feed uctx uevent ubegin_body ufinish_body ustep_nobody (ufatal 0) (ufatal 0) (fun _ => [ULose]) s y)).
Proof.
  intros (HJ & HL). unfold Recv.feed. destruct (r_dead s); [split; assumption|].
  destruct ((0 <? r_skip s) && (lenZ y <=? r_skip s)); [split; assumption|]. apply loop_good; [lia|exact HJ].
Qed.

(* C11, standard form: whatever is sent and however it is chunked, the bytes held stay below 65 + max(B, 8, SIZE_LIMIT) *)
Theorem unsl_buffer_bounded_inv cs : forall s, good s -> good (fst (ufeed_all s cs)).
Proof.
  unfold Unsl.ufeed_all. induction cs as [|c cs IH]; intros s G; cbn [Recv.feed_all]; [exact G|].
  pose proof (feed_good s c G) as G1.
  destruct (feed uctx uevent ubegin_body ufinish_body ustep_nobody (ufatal 0) (ufatal 0) (fun _ => [ULose]) s c) as [s1 e1]. cbn [fst] in G1.
  specialize (IH s1 G1).
  destruct (feed_all uctx uevent ubegin_body ufinish_body ustep_nobody (ufatal 0) (ufatal 0) (fun _ => [ULose]) s1 cs). exact IH.
Qed.

End Bounded.
