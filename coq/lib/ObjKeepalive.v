(* C01: keepalive tokens inside the object stream (definitions only; theorems in ObjKeepaliveProofs.v).
   With keepalives enabled Banana.keepaliveTimerFired writes a PING token into the byte stream that carries the serialized
   objects, and the peer's handleData answers with a PONG token; both can sit at ANY token boundary of the stream (in front
   of a call, between OPEN and its index tokens, in front of a CLOSE, several in a row).  handleData deals with them after
   the token has been cut out of the receive buffer and before anything reaches the unslicer stack (`continue`):
   Obj.step / ObjDefer.dstep map them to the unchanged state, in the index phase as well. *)
From Coq Require Import ZArith List Bool.
Import ListNotations.
Require Import Verif.lib.Token Verif.lib.Obj.
Local Open Scope Z_scope.

Definition is_ka (t : token) : bool := match t with TPing _ | TPong _ => true | _ => false end.

(* the stream the sender's slicers produced = the stream on the wire minus the keepalive tokens *)
Definition strip_ka (ts : list token) : list token := filter (fun t => negb (is_ka t)) ts.

(* `weave kas ts`: the k-th group of keepalive tokens goes in front of the k-th token of ts, the remaining groups behind the
   last token: every way of putting keepalive tokens at token boundaries *)
Fixpoint weave (kas : list (list token)) (ts : list token) {struct ts} : list token :=
  match ts with
  | [] => List.concat kas
  | t :: r => match kas with
              | [] => ts
              | g :: kr => g ++ t :: weave kr r
              end
  end.
Definition all_ka (kas : list (list token)) : bool := forallb (forallb is_ka) kas.
