(* ConnectTorProofs.v -- a FURL with Tor hints on a Tub whose Tor handler's Tor never comes up / is down: composition of
   TorStateProofs.v (what the handler answers) with ConnectAllProofs.v / ConnectLateProofs.v (what the connector does with it). *)
From Coq Require Import ZArith List String Bool.
Import ListNotations.
Require Import Verif.lib.PyLite Verif.lib.Regex Verif.lib.FurlPrim Verif.gen.FurlGen Verif.lib.Furl Verif.lib.FurlProofs.
Require Import Verif.lib.TorState Verif.lib.TorStateProofs.
Require Import Verif.lib.ConnectAll Verif.lib.ConnectAllProofs Verif.lib.ConnectLateProofs Verif.lib.ConnectTor.
Local Open Scope Z_scope.

(* the connector's view of a Tor hint is a function of (classification of the string, state of the Tor) *)
Lemma tor_beh_table : forall nonpublic st epb h,
  tor_beh nonpublic st epb h =
  match tor_hint_to_endpoint nonpublic h with
  | Ok _ => match st with TorReady => epb h | TorStarting => HWaiting | TorFails e => HRaises e end
  | Exc _ => HRaises "InvalidHintError"
  end.
Proof.
  intros np st epb h. unfold tor_beh. rewrite tor_outcome_table.
  destruct (tor_hint_to_endpoint np h) as [ep|e]; [destruct st; reflexivity | reflexivity].
Qed.

(* T1. a Tor that NEVER comes up.  For any hint list (the other hints behave in any way), any Tor hint h in it, any late
   schedule in which h's Deferred does not fire: once the connect timer has fired the failure has been reported exactly once
   and nothing is pending; a hint the handler rejects was "bad hint" from the start and stays so; a hint it accepts was held
   (pending, not valid, nothing reported at connect()) and ends cancelled, the reported failure being NegotiationError *)
Theorem tor_never_up_reported : forall nonpublic epb cx beh hints h evs,
  In h hints -> beh h = tor_beh nonpublic TorStarting epb h -> (forall o, ~ In (LResolve h o) evs) ->
  let r0 := connect_all beh hints in
  let r := run_late cx (evs ++ [LTimeout]) r0 in
  active r = false /\ failed_calls r = 1%nat /\ pending r = [] /\
  match tor_hint_to_endpoint nonpublic h with
  | Exc _ => status_of h (statuses r0) = Some SBadHint /\ status_of h (statuses r) = Some SBadHint
  | Ok _ => In h (pending r0) /\ ~ In h (valid r0) /\ active r0 = true /\ failed_calls r0 = 0%nat /\
            status_of h (statuses r0) = Some SResolving /\
            status_of h (statuses r) = Some (classify (cx h)) /\ reason r = Some "NegotiationError"%string
  end.
Proof.
  intros np epb cx beh hints h evs H B NR. cbv zeta.
  destruct (timeout_reports cx beh hints evs) as (A & F & P). cbv zeta in *.
  split; [exact A|]. split; [exact F|]. split; [exact P|].
  rewrite tor_beh_table in B. destruct (tor_hint_to_endpoint np h) as [ep|e].
  - destruct (waiting_hint_held beh hints h H B) as (P0 & V0 & S0 & A0 & F0). cbv zeta in *.
    repeat (split; [assumption|]).
    assert (NR' : forall o, ~ In (LResolve h o) (evs ++ [LTimeout])).
    { intros o I. apply in_app_or in I as [I|[I|[]]]; [exact (NR o I) | discriminate]. }
    destruct (waiting_forever cx beh hints h (evs ++ [LTimeout]) H B NR') as [(A' & _)|(_ & _ & _ & _ & S & R)]; cbv zeta in *.
    + congruence.
    + auto.
  - split.
    + rewrite status_is_own by exact H. rewrite B. reflexivity.
    + rewrite settled_status_is_final by (try exact H; rewrite B; reflexivity). rewrite B. reflexivity.
Qed.

(* T2. a Tor that is DOWN (the launch / the control connection fails with e): every Tor hint is settled when the reactor is
   idle -- InvalidHintError for a hint the handler rejects, else the Tor's own exception, with the status
   _connectionFailed derives from it -- and stays so *)
Theorem tor_down_reported : forall nonpublic epb cx beh hints h e evs,
  In h hints -> beh h = tor_beh nonpublic (TorFails e) epb h ->
  let r := run_late cx evs (connect_all beh hints) in
  ~ In h (pending (connect_all beh hints)) /\
  status_of h (statuses r) =
    Some (match tor_hint_to_endpoint nonpublic h with Ok _ => classify e | Exc _ => SBadHint end).
Proof.
  intros np epb cx beh hints h e evs H B. cbv zeta. rewrite tor_beh_table in B.
  assert (NPd : is_pending (beh h) = false) by (rewrite B; destruct (tor_hint_to_endpoint np h); reflexivity).
  split.
  - intros P. destruct (loop_books beh hints (init hints) (init_J beh hints) (init_K beh hints)) as (_ & _ & P3 & _).
    destruct (P3 h P) as [[]|[_ Hb]]. congruence.
  - rewrite settled_status_is_final by assumption. rewrite B. destruct (tor_hint_to_endpoint np h); reflexivity.
Qed.

(* T2'. the same in the order of the real reactor turns.  A Tor handler answers an ACCEPTED hint through its observer list, i.e. in
   a later turn even when its Tor has already failed: when connect() returns the hint is waiting, the Tor's exception arrives as
   a late event (after the synchronous outcomes of all other hints -- which is why failureReason may be another hint's
   InvalidHintError).  Whatever happens in between (anything but the timer) and afterwards, the hint ends with the status of the
   Tor's own exception *)
Theorem tor_down_reported_late : forall nonpublic epb cx beh hints h e ep evs1 evs2,
  In h hints -> tor_hint_to_endpoint nonpublic h = Ok ep -> beh h = HWaiting ->
  (forall o', ~ In (LResolve h o') evs1) -> ~ In LTimeout evs1 ->
  status_of h (statuses (run_late cx (evs1 ++ LResolve h (tor_beh nonpublic (TorFails e) epb h) :: evs2) (connect_all beh hints)))
    = Some (classify e).
Proof.
  intros np epb cx beh hints h e ep evs1 evs2 H T B NR NT.
  rewrite tor_beh_table, T.
  apply (late_resolution cx beh hints h evs1 (HRaises e) evs2 H B NR NT). reflexivity.
Qed.

(* T3. a FURL all of whose hints go to the Tor handler and are rejected by it is answered before connect() returns, whatever
   the Tor is doing: nothing to wait for *)
Theorem tor_all_rejected_answered_at_once : forall nonpublic st epb beh hints,
  (forall h, In h hints -> beh h = tor_beh nonpublic st epb h /\ tor_hint_to_endpoint nonpublic h = Exc "InvalidHintError"%string) ->
  let r := connect_all beh hints in
  failed_calls r = 1%nat /\ active r = false /\ pending r = [].
Proof.
  intros np st epb beh hints Hall. cbv zeta.
  assert (U : usable beh hints = false).
  { unfold usable. destruct (existsb (fun h => is_pending (beh h)) hints) eqn:E; [|reflexivity].
    apply existsb_exists in E as (h & Hin & Hb). destruct (Hall h Hin) as [B I]. rewrite tor_beh_table, I in B.
    rewrite B in Hb. discriminate. }
  destruct (connect_all_outcome beh hints) as [(U' & _)|(_ & P & A & F)]; [congruence|]. cbv zeta in *.
  auto.
Qed.

(* non-vacuity: the hypotheses of T1 / T2 / T3 on concrete hints (TorStateProofs.good_tor_hint = "tor:a.b:80" is accepted,
   bad_tor_hint = "tor:not@a@hint:123" rejected) *)
Example tor_never_up_ex :
  let beh := tor_beh (fun _ => false) TorStarting (fun _ => HPending) in
  obs (connect_all beh [bad_tor_hint; good_tor_hint]) =
    ([bad_tor_hint; good_tor_hint], [], 1, [(bad_tor_hint, 1); (good_tor_hint, 5)], Some "InvalidHintError"%string, true, 0) /\
  obs (run_late cx_default [LTimeout] (connect_all beh [bad_tor_hint; good_tor_hint])) =
    ([bad_tor_hint; good_tor_hint], [], 0, [(bad_tor_hint, 1); (good_tor_hint, 4)], Some "NegotiationError"%string, false, 1) /\
  obs (connect_all beh [bad_tor_hint]) = ([bad_tor_hint], [], 0, [(bad_tor_hint, 1)], Some "NoLocationHintsError"%string, false, 1) /\
  obs (connect_all (tor_beh (fun _ => false) (TorFails "TorDown") (fun _ => HPending)) [bad_tor_hint; good_tor_hint]) =
    ([bad_tor_hint; good_tor_hint], [], 0, [(bad_tor_hint, 1); (good_tor_hint, 2)], Some "NoLocationHintsError"%string, false, 1).
Proof. vm_compute. repeat split; reflexivity. Qed.

(* regression (seeded change C20-r6s1, "get the Tor going first"): with that order the REJECTED hint waits too -- a FURL with
   nothing but unusable Tor hints is not answered before the connect timeout *)
Example tor_wait_first_stalls_connector :
  let beh := fun h => of_tor HPending (tor_handler_gen TOR_STEPS_WAIT_FIRST (fun _ => false) TorStarting h) in
  failed_calls (connect_all beh [bad_tor_hint]) = 0%nat /\ pending (connect_all beh [bad_tor_hint]) = [bad_tor_hint] /\
  failed_calls (connect_all (tor_beh (fun _ => false) TorStarting (fun _ => HPending)) [bad_tor_hint]) = 1%nat.
Proof. vm_compute. repeat split; reflexivity. Qed.
