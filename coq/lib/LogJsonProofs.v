(* C18: proofs about lib/LogJson.v (the JSON fallback chain of flogfile.py) for ALL values of the universe and all
   budgets of the interpreter:
     serialize_total         serialize_to_json_utf8 never raises
     event_fields_survive    whatever stage produced the line, number / level / message of the event read back unchanged
     trigger_fields_survive  the same for the trigger inside an incident file's header
     file_reads_back         a whole file: every event, in order
   Proofs split on the translated facts by computation only (vm_compute on closed terms), so a rewrite of flogfile.py
   that keeps the facts keeps the proofs. *)
From Coq Require Import ZArith List Bool Lia.
Import ListNotations.
Require Import Verif.lib.PyLite Verif.gen.LogJsonGen Verif.lib.LogJson.
Local Open Scope Z_scope.

(* ---------------------------------------------------------------- the interpreter's budgets *)
(* the C encoder accepts the few levels _last_resort leaves, and prints every integer _last_resort keeps *)
Definition lims_ok (L : lims) : Prop :=
  lr_default_depth + 1 <= l_json_depth L /\ (forall z, lr_int_ok (PInt z) = true -> printable L z = true).

Lemma cpython_ok : lims_ok cpython.
Proof.
  split; [vm_compute; discriminate|].
  intros z. unfold lr_int_ok, printable, cpython, l_int_bound.
  destruct lr_int_bound as [b|] eqn:E; [|vm_compute in E; discriminate].
  intros H. apply Z.ltb_lt in H. apply Z.ltb_lt. eapply Z.lt_trans; [exact H|].
  vm_compute in E. injection E as <-. reflexivity.
Qed.

Definition small_int (n : Z) : Prop := lr_int_ok (PInt n) = true.

Lemma small_int_64 n : Z.abs n < 2 ^ 64 -> small_int n.
Proof. intros H. unfold small_int, lr_int_ok, lr_int_bound. first [reflexivity | apply Z.ltb_lt; change (2 ^ 64) with 18446744073709551616 in H; lia]. Qed.

(* ---------------------------------------------------------------- map_res *)
Lemma map_res_all_ok {A B} (f : A -> res B) l : (forall x, In x l -> exists y, f x = Ok y) -> exists ys, map_res f l = Ok ys.
Proof.
  induction l as [|x t IH]; intros H; cbn [map_res]; [eauto|].
  destruct (H x (or_introl eq_refl)) as [y ->].
  destruct IH as [ys Hys]; [intros z Hz; apply H; right; exact Hz|].
  change ((fix go (l : list A) : res (list B) := match l with [] => Ok [] | x :: t => match f x with Raise e => Raise e
          | Ok y => match go t with Raise e => Raise e | Ok ys => Ok (y :: ys) end end end) t) with (map_res f t).
  rewrite Hys. eauto.
Qed.

Lemma map_res_cons {A B} (f : A -> res B) x t :
  map_res f (x :: t) = match f x with Raise e => Raise e | Ok y => match map_res f t with Raise e => Raise e | Ok ys => Ok (y :: ys) end end.
Proof. reflexivity. Qed.

(* ---------------------------------------------------------------- stage 3 always produces a line *)
Lemma json_key_lr_key L k : json_key L (lr_key k) = Ok (lr_key k).
Proof. unfold lr_key. destruct k; cbn; reflexivity. Qed.

Lemma lr_dumps_ok L : (forall z, lr_int_ok (PInt z) = true -> printable L z = true) ->
  forall depth env o mk d, d + Z.of_nat depth < l_json_depth L -> exists j, dumps L false mk d (lr depth env o) = Ok j.
Proof.
  intros Hint. induction depth as [|dd IH]; intros env o mk d Hd; cbn [lr]; set (o' := resolve env o).
  - destruct (isinst (vtype_of o') lr_scalar_types) eqn:E1.
    + destruct o' as [| | | | | |k0 ?| | | | |]; try destruct k0; vm_compute in E1; try discriminate; cbn [dumps]; eauto; try (rewrite Hint; eauto).
    + destruct (lr_int_ok o') eqn:E2.
      * destruct o'; cbn in E2; try discriminate; cbn [dumps]; eauto. rewrite Hint; eauto.
      * destruct o'; cbn [dumps]; eauto.
  - destruct (isinst (vtype_of o') lr_scalar_types) eqn:E1.
    + destruct o' as [| | | | | |k0 ?| | | | |]; try destruct k0; vm_compute in E1; try discriminate; cbn [dumps]; eauto; try (rewrite Hint; eauto).
    + destruct (lr_int_ok o') eqn:E2.
      * destruct o'; cbn in E2; try discriminate; cbn [dumps]; eauto. rewrite Hint; eauto.
      * destruct o'; try (cbn [dumps]; eauto; fail).
        cbn [dumps]. destruct (l_json_depth L <=? d) eqn:E3; [apply Z.leb_le in E3; lia|].
        match goal with |- context [map_res ?f ?l] => destruct (map_res_all_ok f l) as [ys Hys] end.
        { intros e He. apply in_map_iff in He. destruct He as [[k v] [<- _]]. cbn [fst snd].
          rewrite json_key_lr_key.
          destruct (IH ((id, PDict id kv) :: env) v (id :: mk) (d + 1)) as [j Hj]; [lia|]. rewrite Hj. eauto. }
        rewrite Hys. eauto.
Qed.

Lemma catch1_all e : (2 <=? ser_stages) && catches ser_catch1 e = true.
Proof. destruct e; vm_compute; reflexivity. Qed.

Lemma catch2_all e : (3 <=? ser_stages) && catches ser_catch2 e = true.
Proof. destruct e; vm_compute; reflexivity. Qed.

Lemma stage3_ok L o : lims_ok L -> exists j, stage3 L o = Ok j.
Proof.
  intros [Hd Hi]. unfold stage3. apply lr_dumps_ok; [exact Hi|].
  assert (0 <= lr_default_depth) by (vm_compute; discriminate). lia.
Qed.

Theorem serialize_st_total L o : lims_ok L -> exists j st, serialize_st L o = Ok (j, st) /\ 1 <= st <= 3.
Proof.
  intros HL. unfold serialize_st. destruct (stage1 L o) as [j|e1]; [exists j, 1; split; [reflexivity|lia]|].
  rewrite catch1_all. destruct (stage2 L o) as [j|e2]; [exists j, 2; split; [reflexivity|lia]|].
  rewrite catch2_all. destruct (stage3_ok L o HL) as [j ->]. exists j, 3; split; [reflexivity|lia].
Qed.

Theorem serialize_total L o : lims_ok L -> exists j, serialize L o = Ok j.
Proof. intros HL. unfold serialize. destruct (serialize_st_total L o HL) as (j & st & -> & _). eauto. Qed.

(* ---------------------------------------------------------------- fields survive: the three stages *)
Lemma json_key_same L k k' : json_key L k = Ok k' -> k' = k.
Proof. destruct k; cbn; try (intros H; inversion H; reflexivity); try discriminate. destruct (printable L z); intros H; inversion H; reflexivity. Qed.

Lemma dumps_dict_fields L (g : pv -> res jv) kv : forall js s v,
  map_res (fun e : pkey * pv => match e with (k, v) => match json_key L k with Raise x => Raise x
            | Ok k' => match g v with Ok j => Ok (k', j) | Raise x => Raise x end end end) kv = Ok js ->
  pfield s kv = Some v -> exists j, g v = Ok j /\ jfield_l s js = Some j.
Proof.
  induction kv as [|[k v0] t IH]; intros js s v H Hp; [discriminate|].
  rewrite map_res_cons in H. destruct (json_key L k) as [k'|] eqn:Ek; [|discriminate].
  apply json_key_same in Ek. subst k'. destruct (g v0) as [j0|] eqn:Eg; [|discriminate].
  match type of H with match ?m with _ => _ end = _ => destruct m as [ys|] eqn:Et; [|discriminate] end.
  inversion H; subst js. cbn [pfield] in Hp. cbn [jfield_l]. destruct (key_is s k).
  - inversion Hp; subst v0. eauto.
  - eapply IH; [reflexivity | exact Hp].
Qed.

Lemma dumps_field L ext mk d id kv j s v :
  dumps L ext mk d (PDict id kv) = Ok j -> pfield s kv = Some v ->
  exists j', dumps L ext (id :: mk) (d + 1) v = Ok j' /\ jfield s j = Some j'.
Proof.
  cbn [dumps]. destruct (l_json_depth L <=? d); [discriminate|]. intros H Hp.
  match type of H with match ?m with _ => _ end = _ => destruct m as [js|] eqn:Em; [|discriminate] end.
  inversion H; subst j. cbn [jfield]. eapply dumps_dict_fields; eassumption.
Qed.

Lemma dumps_int L ext mk d n j : dumps L ext mk d (PInt n) = Ok j -> j = JInt n.
Proof. cbn [dumps]. destruct (printable L n); intros H; inversion H; reflexivity. Qed.

Lemma dumps_str L ext mk d m j : dumps L ext mk d (PStr m) = Ok j -> j = JStr m.
Proof. cbn [dumps]. intros H; inversion H; reflexivity. Qed.

(* an event: a dict (not the wrapper itself) holding an integer number, an integer level and a text message *)
Definition is_event (e : pv) (n l m : Z) : Prop :=
  exists id kv, e = PDict id kv /\ id <> WRAP_ID /\ id <> HDR_ID /\ id <> HDR2_ID /\ text_keys kv /\
    pfield K_num kv = Some (PInt n) /\ pfield K_level kv = Some (PInt l) /\ pfield K_message kv = Some (PStr m) /\
    small_int n /\ small_int l.

Definition fields (n l m : Z) : option jv * option jv * option jv := (Some (JInt n), Some (JInt l), Some (JStr m)).

(* what every stage's encoder does with an event found at some place of the object *)
Lemma dumps_event_view L ext mk d e n l m j : is_event e n l m -> dumps L ext mk d e = Ok j -> view3 j = fields n l m.
Proof.
  intros (id & kv & -> & _ & _ & _ & _ & Hn & Hl & Hm & _) H. unfold view3, fields.
  destruct (dumps_field _ _ _ _ _ _ _ _ _ H Hn) as (jn & H1 & ->). apply dumps_int in H1. subst jn.
  destruct (dumps_field _ _ _ _ _ _ _ _ _ H Hl) as (jl & H2 & ->). apply dumps_int in H2. subst jl.
  destruct (dumps_field _ _ _ _ _ _ _ _ _ H Hm) as (jm & H3 & ->). apply dumps_str in H3. subst jm. reflexivity.
Qed.

(* ---- _make_jsonable keeps text keys and scalars *)
Lemma mj_key_is s k k' : mj_key k = Ok k' -> key_is s k' = key_is s k.
Proof.
  unfold mj_key. destruct (isinst (ktype_of k) mj_key_keep) eqn:E; [intros H; inversion H; reflexivity|].
  destruct k; try (vm_compute in E; discriminate); intros H;
    try (inversion H; reflexivity); destruct mj_key_repr_guarded; inversion H; reflexivity.
Qed.

Lemma mj_dict_fields (g : pv -> res pv) kv : forall kv' s v,
  map_res (fun e : pkey * pv => match e with (k, v) => match mj_key k with Raise x => Raise x
            | Ok k' => match g v with Ok v' => Ok (k', v') | Raise x => Raise x end end end) kv = Ok kv' ->
  pfield s kv = Some v -> exists v', g v = Ok v' /\ pfield s kv' = Some v'.
Proof.
  induction kv as [|[k v0] t IH]; intros kv' s v H Hp; [discriminate|].
  rewrite map_res_cons in H. destruct (mj_key k) as [k'|] eqn:Ek; [|discriminate].
  apply (mj_key_is s) in Ek. destruct (g v0) as [w|] eqn:Eg; [|discriminate].
  match type of H with match ?m with _ => _ end = _ => destruct m as [ys|] eqn:Et; [|discriminate] end.
  inversion H; subst kv'. cbn [pfield] in Hp |- *. rewrite Ek. destruct (key_is s k).
  - inversion Hp; subst v0. eauto.
  - eapply IH; [reflexivity | exact Hp].
Qed.

Lemma mj_key_text s : mj_key (KStr s) = Ok (KStr s).
Proof.
  unfold mj_key. destruct (isinst (ktype_of (KStr s)) mj_key_keep) eqn:E; [reflexivity | vm_compute in E; discriminate].
Qed.

Lemma mj_map_text_keys (g : pv -> res pv) kv : text_keys kv -> forall kv2,
  map_res (fun e : pkey * pv => match e with (k, v) => match mj_key k with Raise x => Raise x
            | Ok k' => match g v with Ok v' => Ok (k', v') | Raise x => Raise x end end end) kv = Ok kv2 -> text_keys kv2.
Proof.
  intros Ht. induction Ht as [|[k v] t [s Hk] Ht IH]; intros kv2 Em.
  - inversion Em. constructor.
  - rewrite map_res_cons in Em. cbn [fst] in Hk. subst k. rewrite mj_key_text in Em.
    destruct (g v); [|discriminate].
    match type of Em with match ?m with _ => _ end = _ => destruct m as [ys|] eqn:Et; [|discriminate] end.
    inversion Em. constructor; [exists s; reflexivity | apply IH; reflexivity].
Qed.

Lemma mj_dict L seen d id kv o2 : memZ id seen = false -> mj L seen d (PDict id kv) = Ok o2 ->
  exists kv', o2 = PDict id kv' /\ (text_keys kv -> text_keys kv') /\
    forall s v, pfield s kv = Some v -> exists v', mj L (id :: seen) (d + 1) v = Ok v' /\ pfield s kv' = Some v'.
Proof.
  intros Hs. cbn [mj]. destruct (isinst TDict mj_container_types) eqn:Ec; [|vm_compute in Ec; discriminate].
  unfold mj_enter. rewrite Hs, andb_false_r. destruct (l_py_depth L <=? d); [discriminate|].
  intros H. match type of H with match ?m with _ => _ end = _ => destruct m as [kv'|] eqn:Em; [|discriminate] end.
  inversion H; subst o2. exists kv'. split; [reflexivity|]. split.
  - intros Ht. eapply mj_map_text_keys; eassumption.
  - intros s v Hp. eapply mj_dict_fields; eassumption.
Qed.

Lemma mj_event L seen d e n l m o2 : is_event e n l m -> (forall id kv, e = PDict id kv -> memZ id seen = false) ->
  mj L seen d e = Ok o2 -> is_event o2 n l m.
Proof.
  intros (id & kv & -> & N1 & N2 & N3 & Ht & Hn & Hl & Hm & S1 & S2) Hs H.
  destruct (mj_dict _ _ _ _ _ _ (Hs id kv eq_refl) H) as (kv' & -> & T & F).
  destruct (F _ _ Hn) as (vn & E1 & P1). destruct (F _ _ Hl) as (vl & E2 & P2). destruct (F _ _ Hm) as (vm & E3 & P3).
  cbn [mj] in E1, E2, E3. inversion E1; inversion E2; inversion E3; subst.
  exists id, kv'. split; [reflexivity|]. repeat (split; [assumption|]).
  split; [apply T; exact Ht|]. repeat (split; try assumption).
Qed.

(* ---- _last_resort keeps text keys and scalars of the outer levels *)
Lemma lr_dict dd env id kv :
  lr (S dd) env (PDict id kv) = PDict id (map (fun e : pkey * pv => (lr_key (fst e), lr dd ((id, PDict id kv) :: env) (snd e))) kv).
Proof.
  cbn [lr resolve]. assert (E : isinst (vtype_of (PDict id kv)) lr_scalar_types = false) by (vm_compute; reflexivity).
  rewrite E. cbn [lr_int_ok]. reflexivity.
Qed.

Lemma lr_key_is s k : key_is s (lr_key k) = key_is s k.
Proof. unfold lr_key. destruct k; cbn; reflexivity. Qed.

Lemma pfield_map_lr s (g : pv -> pv) kv v : pfield s kv = Some v ->
  pfield s (map (fun e : pkey * pv => (lr_key (fst e), g (snd e))) kv) = Some (g v).
Proof.
  induction kv as [|[k v0] t IH]; [discriminate|]. cbn [pfield map fst snd]. rewrite lr_key_is.
  destruct (key_is s k); [intros H; inversion H; reflexivity | exact IH].
Qed.

Lemma lr_small_int dd env n : small_int n -> lr dd env (PInt n) = PInt n.
Proof.
  unfold small_int. intros H. destruct dd; cbn [lr resolve]; rewrite H;
    destruct (isinst (vtype_of (PInt n)) lr_scalar_types); reflexivity.
Qed.

Lemma lr_text dd env m : lr dd env (PStr m) = PStr m.
Proof.
  assert (E : isinst (vtype_of (PStr m)) lr_scalar_types = true) by (vm_compute; reflexivity).
  destruct dd; cbn [lr resolve]; rewrite E; reflexivity.
Qed.

Lemma text_keys_map_lr (g : pv -> pv) kv : text_keys kv -> text_keys (map (fun e : pkey * pv => (lr_key (fst e), g (snd e))) kv).
Proof.
  unfold text_keys. intros H. apply Forall_forall. intros e He. apply in_map_iff in He. destruct He as [[k v] [<- Hin]].
  rewrite Forall_forall in H. destruct (H _ Hin) as [s Hs]. cbn [fst] in *. subst k. exists s. reflexivity.
Qed.

Lemma lr_event dd env e n l m : is_event e n l m -> is_event (lr (S dd) env e) n l m.
Proof.
  intros (id & kv & -> & N1 & N2 & N3 & Ht & Hn & Hl & Hm & S1 & S2). rewrite lr_dict.
  eexists id, _. split; [reflexivity|]. repeat (split; [assumption|]). split; [apply text_keys_map_lr; exact Ht|].
  split; [rewrite (pfield_map_lr _ _ _ _ Hn), lr_small_int by exact S1; reflexivity|].
  split; [rewrite (pfield_map_lr _ _ _ _ Hl), lr_small_int by exact S2; reflexivity|].
  split; [rewrite (pfield_map_lr _ _ _ _ Hm), lr_text; reflexivity|]. split; assumption.
Qed.

(* ---------------------------------------------------------------- the wrapper line *)
Lemma pfield_wrap_d from rx ev : pfield K_d [(KStr K_from, from); (KStr K_rx_time, rx); (KStr K_d, ev)] = Some ev.
Proof. reflexivity. Qed.

Lemma event_not_wrapper e n l m : is_event e n l m -> forall id kv, e = PDict id kv -> memZ id [WRAP_ID] = false.
Proof.
  intros (id & kv & -> & N1 & _) id' kv' E. inversion E; subst. cbn [memZ existsb].
  destruct (id' =? WRAP_ID) eqn:X; [apply Z.eqb_eq in X; contradiction | reflexivity].
Qed.

Theorem event_fields_survive L from rx e n l m j :
  is_event e n l m -> serialize L (wrap from rx e) = Ok j ->
  exists d, event_of_line j = Some d /\ view3 d = fields n l m.
Proof.
  intros He. unfold serialize, serialize_st, event_of_line.
  destruct (stage1 L (wrap from rx e)) as [j1|e1] eqn:E1.
  - intros H; inversion H; subst j1. unfold stage1, wrap in E1.
    destruct (dumps_field _ _ _ _ _ _ _ _ _ E1 (pfield_wrap_d from rx e)) as (jd & Hd & ->).
    exists jd. split; [reflexivity|]. eapply dumps_event_view; eassumption.
  - destruct ((2 <=? ser_stages) && catches ser_catch1 e1); [|discriminate].
    destruct (stage2 L (wrap from rx e)) as [j2|e2] eqn:E2.
    + intros H; inversion H; subst j2. unfold stage2, bind, wrap in E2.
      destruct (mj L [] 0 (PDict WRAP_ID [(KStr K_from, from); (KStr K_rx_time, rx); (KStr K_d, e)])) as [o2|] eqn:Em; [|discriminate].
      destruct (mj_dict L [] 0 _ _ _ (eq_refl : memZ _ [] = false) Em) as (kv' & -> & _ & F).
      destruct (F _ _ (pfield_wrap_d from rx e)) as (e' & Me & Pe).
      assert (He' : is_event e' n l m) by (eapply mj_event; [exact He | apply (event_not_wrapper _ _ _ _ He) | exact Me]).
      destruct (dumps_field _ _ _ _ _ _ _ _ _ E2 Pe) as (jd & Hd & ->).
      exists jd. split; [reflexivity|]. eapply dumps_event_view; eassumption.
    + destruct ((3 <=? ser_stages) && catches ser_catch2 e2); [|discriminate].
      destruct (stage3 L (wrap from rx e)) as [j3|e3] eqn:E3; [|discriminate].
      intros H; inversion H; subst j3. unfold stage3, wrap in E3.
      destruct (Z.to_nat lr_default_depth) as [|[|dd]] eqn:Ed; [vm_compute in Ed; discriminate ..|].
      rewrite lr_dict in E3.
      destruct (dumps_field _ _ _ _ _ _ _ _ _ E3 (pfield_map_lr K_d _ _ _ (pfield_wrap_d from rx e))) as (jd & Hd & ->).
      exists jd. split; [reflexivity|]. eapply dumps_event_view; [|exact Hd]. apply lr_event. exact He.
Qed.

(* ---------------------------------------------------------------- the header line of an incident file *)
Lemma pfield_hdr ty ev more : pfield K_trigger ((KStr K_type, ty) :: (KStr K_trigger, ev) :: more) = Some ev.
Proof. reflexivity. Qed.

Definition trigger_of_header (j : jv) : option jv := match jfield K_header j with Some h => jfield K_trigger h | None => None end.

Theorem trigger_fields_survive L ty more e n l m j :
  is_event e n l m -> serialize L (header ty e more) = Ok j ->
  exists d, trigger_of_header j = Some d /\ view3 d = fields n l m.
Proof.
  intros He. unfold serialize, serialize_st, trigger_of_header.
  destruct (stage1 L (header ty e more)) as [j1|e1] eqn:E1.
  - intros H; inversion H; subst j1. unfold stage1, header in E1.
    destruct (dumps_field _ _ _ _ _ _ _ K_header _ E1 eq_refl) as (jh & Hj & ->).
    destruct (dumps_field _ _ _ _ _ _ _ _ _ Hj (pfield_hdr ty e more)) as (jd & Hd & ->).
    exists jd. split; [reflexivity|]. eapply dumps_event_view; eassumption.
  - destruct ((2 <=? ser_stages) && catches ser_catch1 e1); [|discriminate].
    destruct (stage2 L (header ty e more)) as [j2|e2] eqn:E2.
    + intros H; inversion H; subst j2. unfold stage2, bind, header in E2.
      match type of E2 with match ?m with _ => _ end = _ => destruct m as [o2|] eqn:Em; [|discriminate] end.
      destruct (mj_dict L [] 0 _ _ _ (eq_refl : memZ _ [] = false) Em) as (kv' & -> & _ & F).
      destruct (F K_header _ eq_refl) as (h' & Mh & Ph).
      destruct (mj_dict L [HDR_ID] 1 HDR2_ID _ _ eq_refl Mh) as (kv2 & -> & _ & F2).
      destruct (F2 _ _ (pfield_hdr ty e more)) as (e' & Me & Pe).
      assert (He' : is_event e' n l m).
      { eapply mj_event; [exact He | | exact Me]. destruct He as (id & kv & -> & N1 & N2 & N3 & _).
        intros id' kv0 E. inversion E; subst. cbn [memZ existsb].
        destruct (id' =? HDR2_ID) eqn:X1; [apply Z.eqb_eq in X1; contradiction|].
        destruct (id' =? HDR_ID) eqn:X2; [apply Z.eqb_eq in X2; contradiction | reflexivity]. }
      destruct (dumps_field _ _ _ _ _ _ _ _ _ E2 Ph) as (jh & Hj & ->).
      destruct (dumps_field _ _ _ _ _ _ _ _ _ Hj Pe) as (jd & Hd & ->).
      exists jd. split; [reflexivity|]. eapply dumps_event_view; eassumption.
    + destruct ((3 <=? ser_stages) && catches ser_catch2 e2); [|discriminate].
      destruct (stage3 L (header ty e more)) as [j3|e3] eqn:E3; [|discriminate].
      intros H; inversion H; subst j3. unfold stage3, header in E3.
      destruct (Z.to_nat lr_default_depth) as [|[|[|dd]]] eqn:Ed; [vm_compute in Ed; discriminate ..|].
      rewrite lr_dict in E3.
      assert (P0 : pfield K_header [(KStr K_header, PDict HDR2_ID ((KStr K_type, ty) :: (KStr K_trigger, e) :: more))]
                   = Some (PDict HDR2_ID ((KStr K_type, ty) :: (KStr K_trigger, e) :: more))) by reflexivity.
      destruct (dumps_field _ _ _ _ _ _ _ K_header _ E3 (pfield_map_lr K_header _ _ _ P0)) as (jh & Hj & ->).
      rewrite lr_dict in Hj.
      destruct (dumps_field _ _ _ _ _ _ _ _ _ Hj (pfield_map_lr K_trigger _ _ _ (pfield_hdr ty e more))) as (jd & Hd & ->).
      exists jd. split; [reflexivity|]. eapply dumps_event_view; [|exact Hd]. apply lr_event. exact He.
Qed.

(* ---------------------------------------------------------------- whole files *)
Definition line_view (j : jv) := match event_of_line j with Some d => Some (view3 d) | None => None end.

Theorem file_reads_back L from rx (evs : list (pv * (Z * Z * Z))) : lims_ok L ->
  Forall (fun x => is_event (fst x) (fst (fst (snd x))) (snd (fst (snd x))) (snd (snd x))) evs ->
  exists js, write_lines L from rx (map fst evs) = Some js /\
             map line_view js = map (fun x => Some (fields (fst (fst (snd x))) (snd (fst (snd x))) (snd (snd x)))) evs.
Proof.
  intros HL. induction evs as [|[e [[n l] m]] t IH]; intros H; [exists []; split; reflexivity|].
  inversion H as [|? ? He Ht]; subst. cbn [fst snd] in He. destruct (IH Ht) as (js & W & V).
  cbn [map fst write_lines]. destruct (serialize_total L (wrap from rx e) HL) as [j Hj]. rewrite Hj, W.
  exists (j :: js). split; [reflexivity|]. cbn [map fst snd]. rewrite V. f_equal.
  destruct (event_fields_survive _ _ _ _ _ _ _ _ He Hj) as (d & Hd & Hv). unfold line_view. rewrite Hd, Hv. reflexivity.
Qed.

(* ---------------------------------------------------------------- ANY scalar field of ANY event dict *)
(* (review 2, finding 2) is_event above speaks of events that carry a text 'message' and integer number / level.  An event
   logged with format= has NO 'message' key (log.py _msg: `if "format" in event: pass`), a level may be a float, a number
   any object.  What the three stages really preserve is every member of the event dict whose value is a JSON scalar --
   None, a bool, a float, text, an integer below 2^64 -- under whatever text key it sits: the number, the level, the
   message, the format string, every named argument of that kind.  A member whose value needed the fallback encoder (an
   object, bytes, a set: ExtendedEncoder.default; a non-text key, a cycle: _make_jsonable; depth / huge integers:
   _last_resort) reads back as its replacement record or text, NOT as the value: the text format_message renders from
   the read-back event then shows the replacement where the emitted event showed str(value) (ex_format_arg_replaced).
   (floats: json's round trip of a float is taken as the identity, like the rest of CPython's json; NaN != NaN.) *)
Inductive stable : pv -> jv -> Prop :=
| stable_int n : small_int n -> stable (PInt n) (JInt n)
| stable_str m : stable (PStr m) (JStr m)
| stable_bool b : stable (PBool b) (JBool b)
| stable_none : stable PNone JNull
| stable_float f : stable (PFloat f) (JFloat f).

(* an event dict as log.msg builds it: a dict of its own (not the wrapper / header records) with text keys (kwargs) *)
Definition is_event_dict (e : pv) (kv : list (pkey * pv)) : Prop :=
  exists id, e = PDict id kv /\ id <> WRAP_ID /\ id <> HDR_ID /\ id <> HDR2_ID /\ text_keys kv.

Definition dict_field (e : pv) (s : Z) (v : pv) : Prop := exists id kv, e = PDict id kv /\ pfield s kv = Some v.

Lemma dumps_stable L ext mk d v j0 j : stable v j0 -> dumps L ext mk d v = Ok j -> j = j0.
Proof.
  intros [n Hn|m|b| |f] H; [apply dumps_int in H; exact H | | | |]; cbn [dumps] in H; inversion H; reflexivity.
Qed.

Lemma mj_stable L seen d v j0 : stable v j0 -> mj L seen d v = Ok v.
Proof. intros []; reflexivity. Qed.

Lemma lr_stable dd env v j0 : stable v j0 -> lr dd env v = v.
Proof.
  intros [n Hn|m|b| |f]; [apply lr_small_int; exact Hn | apply lr_text | | |];
    destruct dd; cbn [lr resolve]; match goal with |- context [isinst ?t ?l] => destruct (isinst t l) eqn:E end;
    try reflexivity; vm_compute in E; discriminate.
Qed.

Lemma dumps_field_view L ext mk d e s v j0 j : stable v j0 -> dict_field e s v -> dumps L ext mk d e = Ok j -> jfield s j = Some j0.
Proof.
  intros Hs (id & kv & -> & Hp) H. destruct (dumps_field _ _ _ _ _ _ _ _ _ H Hp) as (jf & H1 & ->).
  rewrite (dumps_stable _ _ _ _ _ _ _ Hs H1). reflexivity.
Qed.

Lemma mj_field L seen d e s v j0 o2 : stable v j0 -> dict_field e s v -> (forall id kv, e = PDict id kv -> memZ id seen = false) ->
  mj L seen d e = Ok o2 -> dict_field o2 s v.
Proof.
  intros Hs (id & kv & -> & Hp) Hseen H.
  destruct (mj_dict _ _ _ _ _ _ (Hseen id kv eq_refl) H) as (kv' & -> & _ & F).
  destruct (F _ _ Hp) as (v' & E1 & P1). rewrite (mj_stable _ _ _ _ _ Hs) in E1. inversion E1; subst v'.
  exists id, kv'. split; [reflexivity | exact P1].
Qed.

Lemma lr_field dd env e s v j0 : stable v j0 -> dict_field e s v -> dict_field (lr (S dd) env e) s v.
Proof.
  intros Hs (id & kv & -> & Hp). rewrite lr_dict. eexists id, _. split; [reflexivity|].
  rewrite (pfield_map_lr _ _ _ _ Hp), (lr_stable _ _ _ _ Hs). reflexivity.
Qed.

Lemma event_dict_field e kv s v : is_event_dict e kv -> pfield s kv = Some v -> dict_field e s v.
Proof. intros (id & -> & _) Hp. exists id, kv. split; [reflexivity | exact Hp]. Qed.

Lemma event_dict_not_seen e kv (seen : list Z) : is_event_dict e kv -> (forall x, In x seen -> x = WRAP_ID \/ x = HDR_ID \/ x = HDR2_ID) ->
  forall id kv', e = PDict id kv' -> memZ id seen = false.
Proof.
  intros (id & -> & N1 & N2 & N3 & _) Hseen id' kv' E. inversion E; subst id' kv'.
  unfold memZ. destruct (existsb (Z.eqb id) seen) eqn:X; [|reflexivity].
  apply existsb_exists in X. destruct X as (x & Hx & Hq). apply Z.eqb_eq in Hq. subst x.
  destruct (Hseen id Hx) as [K|[K|K]]; contradiction.
Qed.

(* whichever stage produced the line of an event: the member reads back as the same scalar *)
Theorem event_field_survives L from rx e kv s v j0 j :
  is_event_dict e kv -> pfield s kv = Some v -> stable v j0 -> serialize L (wrap from rx e) = Ok j ->
  exists d, event_of_line j = Some d /\ jfield s d = Some j0.
Proof.
  intros He Hp Hs. pose proof (event_dict_field e kv s v He Hp) as Hd0. unfold serialize, serialize_st, event_of_line.
  destruct (stage1 L (wrap from rx e)) as [j1|e1] eqn:E1.
  - intros H; inversion H; subst j1. unfold stage1, wrap in E1.
    destruct (dumps_field _ _ _ _ _ _ _ _ _ E1 (pfield_wrap_d from rx e)) as (jd & Hd & ->).
    exists jd. split; [reflexivity|]. eapply dumps_field_view; eassumption.
  - destruct ((2 <=? ser_stages) && catches ser_catch1 e1); [|discriminate].
    destruct (stage2 L (wrap from rx e)) as [j2|e2] eqn:E2.
    + intros H; inversion H; subst j2. unfold stage2, bind, wrap in E2.
      destruct (mj L [] 0 (PDict WRAP_ID [(KStr K_from, from); (KStr K_rx_time, rx); (KStr K_d, e)])) as [o2|] eqn:Em; [|discriminate].
      destruct (mj_dict L [] 0 _ _ _ (eq_refl : memZ _ [] = false) Em) as (kv' & -> & _ & F).
      destruct (F _ _ (pfield_wrap_d from rx e)) as (e' & Me & Pe).
      assert (He' : dict_field e' s v).
      { eapply mj_field; [exact Hs | exact Hd0 | | exact Me]. apply (event_dict_not_seen e kv [WRAP_ID] He).
        intros x [<-|[]]. left; reflexivity. }
      destruct (dumps_field _ _ _ _ _ _ _ _ _ E2 Pe) as (jd & Hd & ->).
      exists jd. split; [reflexivity|]. eapply dumps_field_view; eassumption.
    + destruct ((3 <=? ser_stages) && catches ser_catch2 e2); [|discriminate].
      destruct (stage3 L (wrap from rx e)) as [j3|e3] eqn:E3; [|discriminate].
      intros H; inversion H; subst j3. unfold stage3, wrap in E3.
      destruct (Z.to_nat lr_default_depth) as [|[|dd]] eqn:Ed; [vm_compute in Ed; discriminate ..|].
      rewrite lr_dict in E3.
      destruct (dumps_field _ _ _ _ _ _ _ _ _ E3 (pfield_map_lr K_d _ _ _ (pfield_wrap_d from rx e))) as (jd & Hd & ->).
      exists jd. split; [reflexivity|]. eapply dumps_field_view; [exact Hs| |exact Hd]. eapply lr_field; eassumption.
Qed.

(* the same for the trigger inside the header line of an incident file *)
Theorem trigger_field_survives L ty more e kv s v j0 j :
  is_event_dict e kv -> pfield s kv = Some v -> stable v j0 -> serialize L (header ty e more) = Ok j ->
  exists d, trigger_of_header j = Some d /\ jfield s d = Some j0.
Proof.
  intros He Hp Hs. pose proof (event_dict_field e kv s v He Hp) as Hd0. unfold serialize, serialize_st, trigger_of_header.
  destruct (stage1 L (header ty e more)) as [j1|e1] eqn:E1.
  - intros H; inversion H; subst j1. unfold stage1, header in E1.
    destruct (dumps_field _ _ _ _ _ _ _ K_header _ E1 eq_refl) as (jh & Hj & ->).
    destruct (dumps_field _ _ _ _ _ _ _ _ _ Hj (pfield_hdr ty e more)) as (jd & Hd & ->).
    exists jd. split; [reflexivity|]. eapply dumps_field_view; eassumption.
  - destruct ((2 <=? ser_stages) && catches ser_catch1 e1); [|discriminate].
    destruct (stage2 L (header ty e more)) as [j2|e2] eqn:E2.
    + intros H; inversion H; subst j2. unfold stage2, bind, header in E2.
      match type of E2 with match ?m with _ => _ end = _ => destruct m as [o2|] eqn:Em; [|discriminate] end.
      destruct (mj_dict L [] 0 _ _ _ (eq_refl : memZ _ [] = false) Em) as (kv' & -> & _ & F).
      destruct (F K_header _ eq_refl) as (h' & Mh & Ph).
      destruct (mj_dict L [HDR_ID] 1 HDR2_ID _ _ eq_refl Mh) as (kv2 & -> & _ & F2).
      destruct (F2 _ _ (pfield_hdr ty e more)) as (e' & Me & Pe).
      assert (He' : dict_field e' s v).
      { eapply mj_field; [exact Hs | exact Hd0 | | exact Me]. apply (event_dict_not_seen e kv [HDR2_ID; HDR_ID] He).
        intros x [<-|[<-|[]]]; [right; right; reflexivity | right; left; reflexivity]. }
      destruct (dumps_field _ _ _ _ _ _ _ _ _ E2 Ph) as (jh & Hj & ->).
      destruct (dumps_field _ _ _ _ _ _ _ _ _ Hj Pe) as (jd & Hd & ->).
      exists jd. split; [reflexivity|]. eapply dumps_field_view; eassumption.
    + destruct ((3 <=? ser_stages) && catches ser_catch2 e2); [|discriminate].
      destruct (stage3 L (header ty e more)) as [j3|e3] eqn:E3; [|discriminate].
      intros H; inversion H; subst j3. unfold stage3, header in E3.
      destruct (Z.to_nat lr_default_depth) as [|[|[|dd]]] eqn:Ed; [vm_compute in Ed; discriminate ..|].
      rewrite lr_dict in E3.
      assert (P0 : pfield K_header [(KStr K_header, PDict HDR2_ID ((KStr K_type, ty) :: (KStr K_trigger, e) :: more))]
                   = Some (PDict HDR2_ID ((KStr K_type, ty) :: (KStr K_trigger, e) :: more))) by reflexivity.
      destruct (dumps_field _ _ _ _ _ _ _ K_header _ E3 (pfield_map_lr K_header _ _ _ P0)) as (jh & Hj & ->).
      rewrite lr_dict in Hj.
      destruct (dumps_field _ _ _ _ _ _ _ _ _ Hj (pfield_map_lr K_trigger _ _ _ (pfield_hdr ty e more))) as (jd & Hd & ->).
      exists jd. split; [reflexivity|]. eapply dumps_field_view; [exact Hs| |exact Hd]. eapply lr_field; eassumption.
Qed.

(* a format event: number, level, format string and every scalar named argument read back *)
Definition K_format : Z := 10.

Definition is_format_event (e : pv) (n l f : pv) (args : list (Z * pv)) : Prop :=
  exists kv, is_event_dict e kv /\ pfield K_num kv = Some n /\ pfield K_level kv = Some l /\ pfield K_format kv = Some f /\
             pfield K_message kv = None /\ Forall (fun a => pfield (fst a) kv = Some (snd a)) args.

Theorem format_event_fields_survive L from rx e n l f args jn jl jf j :
  is_format_event e n l f args -> stable n jn -> stable l jl -> stable f jf ->
  serialize L (wrap from rx e) = Ok j ->
  exists d, event_of_line j = Some d /\ jfield K_num d = Some jn /\ jfield K_level d = Some jl /\ jfield K_format d = Some jf /\
            Forall (fun a => forall ja, stable (snd a) ja -> jfield (fst a) d = Some ja) args.
Proof.
  intros (kv & He & Hn & Hl & Hf & _ & Ha) Sn Sl Sf H.
  destruct (event_field_survives L from rx e kv _ _ _ j He Hn Sn H) as (d & Hd & Jn).
  destruct (event_field_survives L from rx e kv _ _ _ j He Hl Sl H) as (d2 & Hd2 & Jl).
  destruct (event_field_survives L from rx e kv _ _ _ j He Hf Sf H) as (d3 & Hd3 & Jf).
  rewrite Hd in Hd2, Hd3. inversion Hd2; inversion Hd3; subst d2 d3.
  exists d. split; [exact Hd|]. split; [exact Jn|]. split; [exact Jl|]. split; [exact Jf|].
  rewrite Forall_forall in Ha |- *. intros a Hin ja Sa.
  destruct (event_field_survives L from rx e kv _ _ _ j He (Ha a Hin) Sa H) as (d4 & Hd4 & Ja).
  rewrite Hd in Hd4. inversion Hd4; subst d4. exact Ja.
Qed.

(* ---------------------------------------------------------------- whole files, LINE BY LINE *)
(* (review 2, finding 3) file_reads_back above needs is_event of EVERY line.  The per-line form: whatever the file holds,
   no write raises, there is exactly one line per event in order, and each line whose event satisfies the hypothesis
   reads back -- an odd event elsewhere in the file (a format event, a non-integer number) takes nothing away *)
Definition line_ok (e : pv) (j : jv) : Prop :=
  (forall n l m, is_event e n l m -> line_view j = Some (fields n l m)) /\
  (forall kv s v j0, is_event_dict e kv -> pfield s kv = Some v -> stable v j0 ->
     exists d, event_of_line j = Some d /\ jfield s d = Some j0).

Theorem file_lines_read_back L from rx (evs : list pv) : lims_ok L ->
  exists js, write_lines L from rx evs = Some js /\ Forall2 line_ok evs js.
Proof.
  intros HL. induction evs as [|e t (js & W & F)]; [exists []; split; [reflexivity | constructor]|].
  cbn [write_lines]. destruct (serialize_total L (wrap from rx e) HL) as [j Hj]. rewrite Hj, W.
  exists (j :: js). split; [reflexivity|]. constructor; [|exact F]. split.
  - intros n l m He. destruct (event_fields_survive _ _ _ _ _ _ _ _ He Hj) as (d & Hd & Hv). unfold line_view. rewrite Hd, Hv. reflexivity.
  - intros kv s v j0 He Hp Hs. eapply event_field_survives; eassumption.
Qed.

(* ---------------------------------------------------------------- examples (non-vacuity, and what each stage is for) *)
Definition ev0 (x : pv) : pv := PDict 10 [(KStr K_num, PInt 7); (KStr K_level, PInt 30); (KStr K_message, PStr 100); (KStr 101, x)].

Example ex_is_event x : is_event (ev0 x) 7 30 100.
Proof.
  exists 10, [(KStr K_num, PInt 7); (KStr K_level, PInt 30); (KStr K_message, PStr 100); (KStr 101, x)].
  split; [reflexivity|]. repeat (split; [discriminate|]). split.
  - repeat constructor; eexists; reflexivity.
  - repeat split; try reflexivity; apply small_int_64; vm_compute; reflexivity.
Qed.

(* stage 1: an object with a failing repr; stage 2: a tuple key, a list that contains itself; stage 3: 3000 levels, 2^16600 *)
Example ex_stages :
  (exists j, serialize_st cpython (wrap (PStr 50) (PFloat 51) (ev0 (POpaque OReprRaises 60))) = Ok (j, 1)) /\
  (exists j, serialize_st cpython (wrap (PStr 50) (PFloat 51) (ev0 (PDict 11 [(KTuple 61, PInt 1)]))) = Ok (j, 2)) /\
  (exists j, serialize_st cpython (wrap (PStr 50) (PFloat 51) (ev0 (PList 12 [PInt 1; PBack 12]))) = Ok (j, 2)) /\
  (exists j, serialize_st cpython (wrap (PStr 50) (PFloat 51) (ev0 (PDeep 3000 (PList 13 [])))) = Ok (j, 3)) /\
  (exists j, serialize_st cpython (wrap (PStr 50) (PFloat 51) (ev0 (PInt (Z.shiftl 1 16600)))) = Ok (j, 3)).
Proof. repeat split; eexists; vm_compute; reflexivity. Qed.

(* the bound on the number is needed: an explicit num=2^64 next to an unencodable value is replaced by the placeholder *)
Example ex_huge_num_lost :
  let e := PDict 10 [(KStr K_num, PInt (2 ^ 64)); (KStr K_level, PInt 30); (KStr K_message, PStr 100); (KStr 101, PDeep 3000 (PList 13 []))] in
  exists j d, serialize cpython (wrap (PStr 50) (PFloat 51) e) = Ok j /\ event_of_line j = Some d /\
              view3 d = (Some (JFixed FValPlace), Some (JInt 30), Some (JStr 100)).
Proof. eexists _, _. vm_compute. repeat split. Qed.

(* a format event (no 'message'), float level, named arguments: one scalar, one object that needs the fallback encoder *)
Definition fev : pv := PDict 10 [(KStr K_num, PInt 7); (KStr K_level, PFloat 29); (KStr K_format, PStr 100); (KStr 101, PInt 5);
                                 (KStr 102, POpaque OReprOk 60)].

Example ex_is_format_event : is_format_event fev (PInt 7) (PFloat 29) (PStr 100) [(101, PInt 5); (102, POpaque OReprOk 60)].
Proof.
  eexists. split; [exists 10; split; [reflexivity|]; repeat (split; [discriminate|]); repeat constructor; eexists; reflexivity|].
  repeat split; repeat constructor.
Qed.

(* ... whose object argument reads back as the replacement record, so `%(x)s` renders differently after read-back *)
Example ex_format_arg_replaced :
  exists j d, serialize cpython (wrap (PStr 50) (PFloat 51) fev) = Ok j /\ event_of_line j = Some d /\
              jfield 101 d = Some (JInt 5) /\ jfield K_message d = None /\
              jfield 102 d = Some (JObj [(KFixed FAt, JFixed FUnJSONable); (KFixed FMessage, JFixed FText); (KFixed FRepr, JDerived DRepr 60)]).
Proof. eexists _, _. vm_compute. repeat split. Qed.

(* one odd line (a non-integer number: not an is_event) between two ordinary ones: the others still read back *)
Example ex_odd_line_between :
  exists js, write_lines cpython (PStr 50) (PFloat 51) [ev0 PNone; PDict 11 [(KStr K_num, PStr 77); (KStr K_level, PInt 20); (KStr K_message, PStr 100)]; ev0 (PBool true)] = Some js /\
             map line_view js = [Some (fields 7 30 100); Some (Some (JStr 77), Some (JInt 20), Some (JStr 100)); Some (fields 7 30 100)].
Proof. eexists. vm_compute. split; reflexivity. Qed.
