(* C14: proofs about the composed model lib/ConvergeRef.v (two-Tub model + the request table of one Broker). *)
From Coq Require Import ZArith List Bool Arith Lia.
Import ListNotations.
Require Verif.lib.Requests Verif.lib.RequestsProofs Verif.lib.RefLeg Verif.lib.RefLegProofs.
Require Import Verif.lib.PyLite Verif.gen.ConvergeGen Verif.lib.Converge Verif.lib.ConvergeProofs Verif.lib.ConvergeRef.

(* ---- no timer, no cut, no lookup, no dial touches an established end *)
Lemma lose_keeps_brk x y k : cend x k = EBrk -> negotiating (cend y k) = true -> cend x (lose y k) = EBrk.
Proof. destruct k as [cl g m s qms qsm cut]; destruct x, y, m, s, cut; cbn; intros; congruence. Qed.

Lemma cancel_keeps_brk x y g k : cend x k = EBrk -> cend x (cancel y g k) = EBrk.
Proof.
  intros H. unfold cancel. destruct (tub_eqb (c_client k) y && Nat.eqb (c_gen k) g); cbn [andb]; [|exact H].
  destruct (negotiating (cend y k)) eqn:N; [apply lose_keeps_brk; assumption|exact H].
Qed.

Lemma srv_expire_keeps_brk x n d k : cend x k = EBrk -> cend x (srv_expire n d k) = EBrk.
Proof.
  intros H. unfold srv_expire, srv_armed. destruct (negotiating (cend (server_of k) k)) eqn:N; cbn [andb]; [|exact H].
  destruct (d <=? n)%Z; [apply lose_keeps_brk; assumption|exact H].
Qed.

Lemma conns_set_tub x t s : conns (set_tub x t s) = conns s.
Proof. destruct x; reflexivity. Qed.

Lemma timeout_keeps_brk x y c s : cend x (conns s c) = EBrk -> cend x (conns (do_timeout y s) c) = EBrk.
Proof.
  intros H. unfold do_timeout. destruct (t_connector (tubof y s)) as [g|]; [|exact H].
  rewrite conns_set_tub. unfold map_conns, set_conns. cbn [conns]. apply cancel_keeps_brk, H.
Qed.

Lemma advance_keeps_brk x c dt s : cend x (conns s c) = EBrk -> cend x (conns (do_advance dt s) c) = EBrk.
Proof.
  intros H. unfold do_advance.
  set (n := Z.max (now s) (next_time s (now s + Z.max dt 0))).
  set (s2 := set_conns (fun i => srv_expire n (sdl s i) (conns s i)) (set_now n s)).
  assert (H2 : cend x (conns s2 c) = EBrk) by (unfold s2, set_conns; cbn [conns]; apply srv_expire_keeps_brk, H).
  assert (H3 : cend x (conns (if expired TM s2 then do_timeout TM s2 else s2) c) = EBrk).
  { destruct (expired TM s2); [apply timeout_keeps_brk|]; exact H2. }
  destruct (expired TS _); [apply timeout_keeps_brk|]; exact H3.
Qed.

Lemma established_end_kept_at s x c o :
  c < nconn s -> cend x (conns s c) = EBrk -> not_a_notification o = true -> cend x (conns (step s o) c) = EBrk.
Proof.
  intros Hc H Hn. destruct o as [y|y|c' to|c' y|c'|y|y|y|dt|ho]; cbn [not_a_notification] in Hn; try discriminate; cbn [step].
  - unfold do_getref. rewrite conns_set_tub. exact H.
  - unfold do_dial. destruct (t_connector (tubof y s)); [|exact H]. cbn [conns]. unfold upd.
    destruct (Nat.eqb_spec c (nconn s)); [lia|exact H].
  - destruct (Nat.ltb c' (nconn s)); [|exact H]. unfold do_cut, set_conns. cbn [conns]. unfold upd.
    destruct (Nat.eqb_spec c c'); [subst c'; destruct x; exact H|exact H].
  - apply timeout_keeps_brk, H.
  - rewrite conns_set_tub. exact H.
  - apply advance_keeps_brk, H.
  - exact H.
Qed.

Lemma live_bounded ops x c : cend x (conns (run ops) c) = EBrk -> c < nconn (run ops).
Proof.
  intros H. destruct (broker_is_live_end ops c) as [Hm Hs]. destruct (run_inv ops) as [_ [Bm Bs]].
  destruct x; cbn [cend] in H; [apply Bm, Hm, H|apply Bs, Hs, H].
Qed.

(* In every reachable state of the two-Tub model an end that is a live Broker is still one after a lookup, a dial, a CUT of
   any connection (its own included), a forced connector time-out, an armed retry, a change of the option and after ANY
   passage of time: the TubConnector's timer is disarmed when the Broker is attached, the listening end's negotiation timer
   when it switches to Banana, and nothing else in the model is timed (Tub.disconnectTimeout is None by default -- a
   translated shape fact: with a default the translation fails closed --; the keepalive timer, 240 s by default, only
   writes a PING; timers on established connections are C15's subject).  Only a delivery, a close notification at that
   end or the death of the process end it. *)
Theorem established_end_kept ops x c o :
  cend x (conns (run ops) c) = EBrk -> not_a_notification o = true -> cend x (conns (step (run ops) o) c) = EBrk.
Proof. intros H Hn. apply established_end_kept_at; [apply (live_bounded ops x c H)|exact H|exact Hn]. Qed.

Lemma run_snoc ops o : run (ops ++ [o]) = step (run ops) o.
Proof. unfold run. rewrite fold_left_app. reflexivity. Qed.

Theorem established_end_kept_run more : forall ops x c,
  cend x (conns (run ops) c) = EBrk -> Forall (fun o => not_a_notification o = true) more ->
  cend x (conns (run (ops ++ more)) c) = EBrk.
Proof.
  induction more as [|o more IH]; intros ops x c H Fo; [rewrite app_nil_r; exact H|].
  inversion Fo as [|? ? Ho Fo']; subst.
  replace (ops ++ o :: more) with ((ops ++ [o]) ++ more) by (rewrite <- app_assoc; reflexivity).
  apply IH; [rewrite run_snoc; apply established_end_kept; assumption|exact Fo'].
Qed.

(* ---- the composed history *)
Lemma phist_snd x c l : forall s, snd (phist x c s l) = fold_left step (net_ops l) s.
Proof.
  induction l as [|[o why|o] l IH]; intros s; cbn [phist snd]; [reflexivity| |].
  - unfold net_ops. cbn [flat_map app fold_left]. apply IH.
  - unfold net_ops. cbn [flat_map app]. apply IH.
Qed.

Lemma phist_app x c l1 : forall s l2,
  phist x c s (l1 ++ l2) =
  (fst (phist x c s l1) ++ fst (phist x c (snd (phist x c s l1)) l2), snd (phist x c (snd (phist x c s l1)) l2)).
Proof.
  induction l1 as [|[o why|o] l1 IH]; intros s l2; cbn [app phist fst snd].
  - destruct (phist x c s l2); reflexivity.
  - rewrite IH. cbn [fst snd]. rewrite app_assoc. reflexivity.
  - rewrite IH. cbn [fst snd]. rewrite app_assoc. reflexivity.
Qed.

Lemma broker_requests_app x c l1 l2 :
  broker_requests x c (l1 ++ l2) = Requests.run (fst (phist x c init l1) ++ fst (phist x c (pnet l1) l2)).
Proof. unfold broker_requests, pnet, run. rewrite phist_app. cbn [fst]. rewrite phist_snd. reflexivity. Qed.

Lemma quiet_hist x c rid h more : forall ops,
  Forall (fun p => quiet_pop rid h p = true) more ->
  Forall (fun o => RefLeg.inert rid h o = true) (fst (phist x c (run ops) more)).
Proof.
  induction more as [|p more IH]; intros ops Fo; [constructor|]. inversion Fo as [|? ? Hp Fo']; subst.
  destruct p as [o why|o]; cbn [phist fst quiet_pop] in *; apply Forall_app; split.
  - unfold net_events. apply Forall_app. split.
    + destruct (live x c (run ops)) eqn:L; cbn [andb]; [|constructor].
      assert (L' : live x c (step (run ops) o) = true).
      { unfold live in *. destruct (cend x (conns (run ops) c)) eqn:E; try discriminate.
        rewrite (established_end_kept ops x c o E Hp). reflexivity. }
      rewrite L'. constructor.
    + apply Forall_forall. intros o' Ho'. apply repeat_spec in Ho'. subst. reflexivity.
  - rewrite <- run_snoc. apply IH, Fo'.
  - destruct o; cbn [wire_event]; repeat constructor; try exact Hp.
  - apply IH, Fo'.
Qed.

(* THE composed "only if".  After any history `pops` of the composed system in which the request (rid, h) of x's Broker on
   connection c is pending on a connected Broker -- the second leg of a getReference --, let the system go on with ANY
   steps that are neither a delivery / close notification / restart in the two-Tub model nor an answer (error, violation,
   complete, fail) for this request: lookups, dials, cuts, time-outs, other traffic on the Broker, turns of the eventual
   queue, and any passage of time.  The request is still pending: the getReference Deferred has not fired. *)
Theorem second_leg_silent x c pops more h rid :
  Requests.disconnected (broker_requests x c pops) = false -> RefLeg.pending (broker_requests x c pops) h rid ->
  Forall (fun p => quiet_pop rid h p = true) more ->
  RefLeg.pending (broker_requests x c (pops ++ more)) h rid /\
  Requests.disconnected (broker_requests x c (pops ++ more)) = false /\
  ~ RefLeg.done (broker_requests x c (pops ++ more)) h.
Proof.
  intros Hd P Fo. rewrite broker_requests_app.
  destruct (RefLegProofs.inert_run (fst (phist x c (pnet pops) more)) (fst (phist x c init pops)) h rid Hd P) as [P' D'].
  { apply quiet_hist, Fo. }
  split; [exact P'|]. split; [exact D'|].
  apply (RefLegProofs.pending_not_done _ h rid); [apply RequestsProofs.inv_run|exact D'|exact P'].
Qed.

(* THE composed "iff": for EVERY continuation, the second leg is over (fired, or its failure queued by Broker.finish) iff the
   Broker's part of the continuation contains an answer / error / violation / complete / fail for this request or
   Broker.finish -- and (definition of phist / net_events) Broker.finish is in it exactly for the steps of the two-Tub model
   in which x's end of c stops being a live Broker. *)
Theorem second_leg_fires_iff x c pops more h rid :
  Requests.disconnected (broker_requests x c pops) = false -> RefLeg.pending (broker_requests x c pops) h rid ->
  (RefLeg.done (broker_requests x c (pops ++ more)) h <->
   Exists (fun o => RefLeg.inert rid h o = false) (fst (phist x c (pnet pops) more))).
Proof. intros Hd P. rewrite broker_requests_app. apply RefLegProofs.leg_fires_iff; assumption. Qed.

(* the loss of the connection, as the two-Tub model sees it, ends the second leg (RefLegProofs.leg_loss_fires: with the
   outcome the reason maps to, when the eventual queue reaches it) *)
Theorem second_leg_ends_on_loss x c pops o why h rid :
  Requests.disconnected (broker_requests x c pops) = false -> RefLeg.pending (broker_requests x c pops) h rid ->
  live x c (pnet pops) = true -> live x c (step (pnet pops) o) = false ->
  RefLeg.done (broker_requests x c (pops ++ [PNet o why])) h.
Proof.
  intros Hd P L L'. apply (second_leg_fires_iff x c pops [PNet o why] h rid Hd P).
  cbn [phist fst]. unfold net_events. rewrite L, L'. cbn [andb negb app]. left. reflexivity.
Qed.

(* the first leg hands over to the second: a lookup made while the Tub holds the Broker on c is answered at once
   (getref_tub) and the callback makes its call on that Broker -- a pending request (RefLegProofs.leg_call_starts) *)
Theorem second_leg_starts x c pops why :
  t_broker (tubof x (pnet pops)) = Some c -> Requests.disconnected (broker_requests x c pops) = false ->
  broker_requests x c (pops ++ [PNet (GetRef x) why]) = Requests.step (broker_requests x c pops) RefLeg.leg_call /\
  RefLeg.pending (broker_requests x c (pops ++ [PNet (GetRef x) why]))
                 (List.length (Requests.calls (broker_requests x c pops))) (Requests.nextid (broker_requests x c pops)).
Proof.
  intros Hb Hd.
  assert (E : broker_requests x c (pops ++ [PNet (GetRef x) why]) = Requests.run (fst (phist x c init pops) ++ [RefLeg.leg_call])).
  { rewrite broker_requests_app. f_equal. f_equal. cbn [phist fst]. rewrite app_nil_r. unfold net_events.
    assert (Lsame : live x c (step (pnet pops) (GetRef x)) = live x c (pnet pops)).
    { unfold live. cbn [step]. unfold do_getref. rewrite conns_set_tub. reflexivity. }
    rewrite Lsame. destruct (live x c (pnet pops)); cbn [andb negb app];
    (replace (new_ok x c (pnet pops) (step (pnet pops) (GetRef x))) with 1; [reflexivity|]);
    (unfold new_ok; cbn [step]; unfold do_getref; rewrite tubof_set_tub; unfold getref_tub; rewrite Hb;
     cbn [t_inc t_broker t_fired]; rewrite Z.eqb_refl, Nat.eqb_refl; cbn [andb];
     rewrite skipn_app, skipn_all, Nat.sub_diag; reflexivity). }
  split.
  - rewrite E. apply RefLegProofs.run_snoc.
  - rewrite E. apply RefLegProofs.leg_call_starts. exact Hd.
Qed.

(* ---- the full sentence "every getReference fires within the connection timeout" is REFUTED for the second leg.
   The reviewer's schedule (ConvergeRef.silent_ops): S looks M up and dials, negotiation completes at both ends -- S's
   Broker lookup IS answered, with a Broker, at time 0 (so the Broker-lookup theorems hold of it) -- then the network
   drops the link without telling anybody.  For EVERY further passage of time: both ends are still live Brokers, nothing
   was delivered to the request table, the getReference Deferred has not fired. *)
Theorem getReference_black_holed why dts :
  let base := silent_pops why [] in
  let l := silent_pops why dts in
  In (mkfired 0 0 0 true) (t_fired (ts (pnet base))) /\ t_broker (ts (pnet base)) = Some 0 /\
  c_cut (conns (pnet base) 0) = true /\ broker_requests TS 0 base = Requests.run [RefLeg.leg_call] /\
  live TS 0 (pnet l) = true /\ live TM 0 (pnet l) = true /\
  RefLeg.pending (broker_requests TS 0 l) 0 1 /\ ~ RefLeg.done (broker_requests TS 0 l) 0.
Proof.
  cbn zeta.
  assert (El : silent_pops why dts = silent_pops why [] ++ map (fun o => PNet o why) (map Advance dts)).
  { unfold silent_pops. cbn [map app]. rewrite map_app. reflexivity. }
  assert (Eb : broker_requests TS 0 (silent_pops why []) = Requests.run [RefLeg.leg_call]) by (vm_compute; reflexivity).
  assert (En : net_ops (silent_pops why dts) = silent_ops ++ map Advance dts).
  { unfold silent_pops, net_ops. induction (silent_ops ++ map Advance dts) as [|o r IH]; [reflexivity|].
    cbn [map flat_map app]. rewrite IH. reflexivity. }
  assert (Fa : Forall (fun o => not_a_notification o = true) (map Advance dts)).
  { apply Forall_forall. intros o Ho. apply in_map_iff in Ho as [dt [<- _]]. reflexivity. }
  split; [vm_compute; auto|]. split; [vm_compute; reflexivity|]. split; [vm_compute; reflexivity|]. split; [exact Eb|].
  split.
  { unfold live, pnet. rewrite En. rewrite (established_end_kept_run (map Advance dts) silent_ops TS 0); [reflexivity|vm_compute; reflexivity|exact Fa]. }
  split.
  { unfold live, pnet. rewrite En. rewrite (established_end_kept_run (map Advance dts) silent_ops TM 0); [reflexivity|vm_compute; reflexivity|exact Fa]. }
  rewrite El.
  destruct (second_leg_silent TS 0 (silent_pops why []) (map (fun o => PNet o why) (map Advance dts)) 0 1) as [P [_ N]].
  - rewrite Eb. vm_compute. reflexivity.
  - rewrite Eb. eexists. vm_compute. repeat split; reflexivity.
  - apply Forall_forall. intros p Hp. apply in_map_iff in Hp as [o [<- Ho]]. apply in_map_iff in Ho as [dt [<- _]]. reflexivity.
  - split; assumption.
Qed.

(* ... and time does pass meanwhile: 20 x 130 s = 2600 s, far beyond CONNECTION_TIMEOUT (the probe's numbers) *)
Example black_holed_time :
  now (pnet (silent_pops (Requests.RListed RequestsGen.ConnectionLostC) (repeat 130%Z 20))) = 2600%Z /\
  (CONNECTION_TIMEOUT < 2600)%Z.
Proof. split; vm_compute; reflexivity. Qed.

(* when the loss IS notified (CloseSeen at S's end) the leg ends; a few turns later it has fired with DeadReferenceError *)
Example black_holed_then_notified :
  let why := Requests.RListed RequestsGen.ConnectionLostC in
  let l := silent_pops why [130%Z; 130%Z] ++ [PNet (CloseSeen 0 TS) why; PWire Requests.Turn] in
  Requests.snapshot (broker_requests TS 0 l) = ([], [[Requests.ocode Requests.ODeadRef]], (true, [], 0%Z)).
Proof. vm_compute. reflexivity. Qed.
