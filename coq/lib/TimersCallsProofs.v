(* C15 x C03: "a connection on which no byte arrives for longer than T is torn down within 2T ... AND ITS PENDING CALLS
   FAIL WITH DeadReferenceError", end to end, by composing lib/TimersProofs.v (idle_torn_down, teardown_at_most_once)
   with lib/RequestsProofs.v (lost_connection_gives_DeadReferenceError, loss_then_drain) through the translated
   teardown chain connectionTimedOut -> shutdown -> finish / loseConnection. *)
From Coq Require Import ZArith List Bool Lia.
Import ListNotations.
Require Import Verif.lib.PyLite Verif.gen.BananaGen Verif.gen.TimersGen Verif.lib.Timers Verif.lib.TimersProofs.
Require Import Verif.gen.RequestsGen Verif.lib.Requests Verif.lib.RequestsProofs Verif.lib.TimersCalls.
Local Open Scope Z_scope.

(* ---- 1. the only lemmas that look inside the translated teardown chain *)

(* connectionTimedOut hands shutdown a Failure that abandonAllRequests maps to DeadReferenceError *)
Lemma timeout_is_lost : is_lost timeout_reason = true.
Proof. reflexivity. Qed.

(* shutdown(why) = finish(why) once and transport.loseConnection() once *)
Lemma shutdown_spec r t x : exec_shutdown Broker_shutdown r t x = (Requests.step (fst x) (Finish r), t :: snd x).
Proof. destruct x. reflexivity. Qed.

(* Broker.connectionLost(why) = Banana.connectionLost (cancels the timers) and finish(why) *)
Lemma lost_spec c r t s :
  exec_lost c Broker_connectionLost r t s =
  {| tm := Timers.step c (tm s) (Close t); rq := Requests.step (rq s) (Finish r); lose := lose s |}.
Proof. reflexivity. Qed.

(* ---- 2. frame facts *)

Lemma brun_cons c s e r : broker_run_from c s (e :: r) = broker_run_from c (broker_step c s e) r.
Proof. reflexivity. Qed.

Lemma brun_app c s a b : broker_run_from c s (a ++ b) = broker_run_from c (broker_run_from c s a) b.
Proof. unfold broker_run_from. apply fold_left_app. Qed.

Lemma tm_step c s e :
  tm (broker_step c s e) = match e with BReq _ => tm s | _ => Timers.run c (tm s) (tproj [e]) end.
Proof. destruct e; reflexivity. Qed.

(* the timer layer of a Broker history is the Timers model on the projected history *)
Theorem tm_run c evs : forall s, tm (broker_run_from c s evs) = Timers.run c (tm s) (tproj evs).
Proof.
  induction evs as [|e r IH]; intros s; [reflexivity|]. rewrite brun_cons, IH, tm_step.
  destruct e; reflexivity.
Qed.

Lemma finish_idem q r r' : Requests.step (Requests.step q (Finish r)) (Finish r') = Requests.step q (Finish r).
Proof.
  pose proof (finish_disconnects q r) as D. cbn [Requests.step] in *.
  rewrite (finish_step_closed (finish_step q (reason_outcome r))). unfold finish_closed at 1. rewrite D. reflexivity.
Qed.

Lemma run_from_cons q x l : run_from q (x :: l) = run_from (Requests.step q x) l.
Proof. reflexivity. Qed.

Lemma finish_repeat q r k : run_from q (repeat (Finish r) (S k)) = Requests.step q (Finish r).
Proof.
  induction k as [|k IH]; [reflexivity|].
  change (repeat (Finish r) (S (S k))) with (Finish r :: repeat (Finish r) (S k)). rewrite run_from_cons.
  change (repeat (Finish r) (S k)) with (Finish r :: repeat (Finish r) k) in *. rewrite run_from_cons in *.
  rewrite finish_idem. exact IH.
Qed.

Lemma iter_timed_out k t q l :
  Nat.iter k (timed_out t) (q, l) = (run_from q (repeat (Finish timeout_reason) k), repeat t k ++ l).
Proof.
  induction k as [|k IH]; [reflexivity|]. cbn [Nat.iter nat_rect]. change (nat_rect _ _ _ k) with (Nat.iter k (timed_out t) (q, l)).
  rewrite IH. unfold timed_out. rewrite shutdown_spec. cbn [fst snd]. f_equal.
    change (repeat (Finish timeout_reason) (S k)) with (Finish timeout_reason :: repeat (Finish timeout_reason) k).
    rewrite (repeat_cons k (Finish timeout_reason)). unfold run_from. rewrite fold_left_app. reflexivity.
Qed.

Lemma torn_new_repeat c s t : torn_new c s t = repeat t (List.length (torn_new c s t)).
Proof.
  unfold torn_new. destruct (Timers.dc s), (cT c); try reflexivity.
  destruct (_ <=? t); [destruct (_ <? _)|]; reflexivity.
Qed.

(* one reactor turn: every teardown of the turn ran the chain once -- finish(why) and loseConnection() *)
Lemma tick_step c s t :
  let s' := broker_step c s (BTick t) in
  let new := torn_new c (tm s) t in
  tm s' = Timers.step c (tm s) (Tick t) /\ torn (tm s') = new ++ torn (tm s) /\ lose s' = new ++ lose s /\
  rq s' = run_from (rq s) (repeat (Finish timeout_reason) (List.length new)).
Proof.
  cbv zeta. cbn [broker_step tm rq lose].
  destruct (tick_fields c (tm s) t) as (_ & _ & _ & _ & _ & _ & _ & Ft & _). rewrite Ft.
  rewrite app_length, Nat.add_sub, iter_timed_out. cbn [fst snd].
  rewrite <- torn_new_repeat. repeat split; reflexivity.
Qed.

(* ---- 3. "a teardown drops the transport at once": in every history, loseConnection has been called exactly at the
        times connectionTimedOut was called *)
Theorem lose_is_torn c t0 evs : lose (broker_run c t0 evs) = torn (tm (broker_run c t0 evs)).
Proof.
  unfold broker_run.
  assert (G : forall evs s, lose s = torn (tm s) -> lose (broker_run_from c s evs) = torn (tm (broker_run_from c s evs))).
  { clear. induction evs as [|e r IH]; intros s H; [exact H|]. rewrite brun_cons. apply IH.
    destruct e as [t|t|t|t rr|o].
    - cbn [broker_step with_tm tm lose]. destruct (rx_fields c (tm s) t) as (_ & _ & _ & _ & _ & _ & _ & -> & _). exact H.
    - cbn [broker_step with_tm tm lose]. destruct (rxbad_fields c (tm s) t) as (_ & _ & _ & _ & _ & _ & _ & -> & _). exact H.
    - destruct (tick_step c s t) as (_ & -> & -> & _). rewrite H. reflexivity.
    - cbn [broker_step]. rewrite lost_spec. cbn [tm lose].
      destruct (close_fields c (tm s) t) as (_ & _ & _ & _ & _ & _ & _ & -> & _). exact H.
    - exact H. }
  apply G. cbn [broker_init lose tm]. destruct (init_fields c t0) as (_ & _ & _ & _ & _ & _ & _ & -> & _). reflexivity.
Qed.

(* ---- 4. the request layer of a Broker history is a history of the Requests model (so every C03 theorem applies) *)
Theorem rq_is_run c evs : forall s ops, rq s = Requests.run ops -> exists ops', rq (broker_run_from c s evs) = Requests.run (ops ++ ops').
Proof.
  induction evs as [|e r IH]; intros s ops H; [exists []; rewrite app_nil_r; exact H|].
  rewrite brun_cons.
  assert (S1 : exists x, rq (broker_step c s e) = Requests.run (ops ++ x)).
  { destruct e as [t|t|t|t rr|o].
    - exists []. rewrite app_nil_r. exact H.
    - exists []. rewrite app_nil_r. exact H.
    - destruct (tick_step c s t) as (_ & _ & _ & ->). eexists. rewrite H. unfold Requests.run, run_from. rewrite fold_left_app. reflexivity.
    - cbn [broker_step]. rewrite lost_spec. cbn [rq]. exists [Finish rr]. rewrite H. unfold Requests.run. rewrite fold_left_app. reflexivity.
    - exists [o]. cbn [broker_step rq]. rewrite H. unfold Requests.run. rewrite fold_left_app. reflexivity. }
  destruct S1 as (x & Hx). destruct (IH _ _ Hx) as (y & Hy). exists (x ++ y). rewrite app_assoc. exact Hy.
Qed.

(* ---- 5. once the Broker is disconnected it stays so; a teardown disconnects it *)
Lemma disc_mono q x : disconnected q = true -> disconnected (Requests.step q x) = true.
Proof.
  intros D. destruct x as [k|rid|rid|rid|h|h o|r|b|]; cbn [Requests.step].
  - destruct (frame_call q k) as (-> & _). exact D.
  - destruct (tbl_find rid (table q)); [|exact D]. rewrite complete_step_closed. destruct (frame_complete q n) as (-> & _). exact D.
  - destruct (tbl_find rid (table q)); [|exact D]. rewrite fail_step_closed. destruct (frame_fail q n ORemoteError) as (-> & _). exact D.
  - destruct (tbl_find rid (table q)); [|exact D]. rewrite fail_step_closed. destruct (frame_fail q n OViolation) as (-> & _). exact D.
  - rewrite complete_step_closed. destruct (frame_complete q h) as (-> & _). exact D.
  - rewrite fail_step_closed. destruct (frame_fail q h o) as (-> & _). exact D.
  - apply (finish_disconnects q r).
  - exact D.
  - destruct (turn_frame q) as (E & _). cbn [Requests.step] in E. rewrite E. exact D.
Qed.

Lemma disc_run_from l : forall q, disconnected q = true -> disconnected (run_from q l) = true.
Proof. induction l as [|x l IH]; intros q D; [exact D|]. rewrite run_from_cons. apply IH, disc_mono, D. Qed.

Definition torn_disc (s : bst) : Prop := torn (tm s) <> [] -> disconnected (rq s) = true.

Lemma torn_disc_step c s e : torn_disc s -> torn_disc (broker_step c s e).
Proof.
  unfold torn_disc. intros H. destruct e as [t|t|t|t rr|o].
  - cbn [broker_step with_tm tm rq]. destruct (rx_fields c (tm s) t) as (_ & _ & _ & _ & _ & _ & _ & -> & _). exact H.
  - cbn [broker_step with_tm tm rq]. destruct (rxbad_fields c (tm s) t) as (_ & _ & _ & _ & _ & _ & _ & -> & _). exact H.
  - destruct (tick_step c s t) as (_ & -> & _ & ->). intros N.
    destruct (torn_new c (tm s) t) as [|x l] eqn:E.
    + cbn [app] in N. cbn [List.length repeat]. apply H, N.
    + cbn [List.length]. rewrite finish_repeat. apply finish_disconnects.
  - cbn [broker_step]. rewrite lost_spec. cbn [tm rq]. intros _. apply finish_disconnects.
  - cbn [broker_step tm rq]. intros N. apply disc_mono, H, N.
Qed.

Theorem teardown_disconnects c t0 evs : torn_disc (broker_run c t0 evs).
Proof.
  unfold broker_run.
  assert (G : forall evs s, torn_disc s -> torn_disc (broker_run_from c s evs)).
  { clear. induction evs as [|e r IH]; intros s H; [exact H|]. rewrite brun_cons. apply IH, torn_disc_step, H. }
  apply G. unfold torn_disc. cbn [broker_init tm]. destruct (init_fields c t0) as (_ & _ & _ & _ & _ & _ & _ & -> & _).
  intros N. contradiction.
Qed.

(* ---- 6. an idle phase: reactor turns only *)
Lemma tproj_ticks post : Forall is_btick post -> only_ticks (tproj post).
Proof.
  induction 1 as [|e r [t ->] _ IH]; [constructor|]. cbn [tproj]. constructor; [exists t; reflexivity|exact IH].
Qed.

Lemma ticks_phase c post : Forall is_btick post -> forall s,
  exists times, torn (tm (broker_run_from c s post)) = times ++ torn (tm s) /\
                lose (broker_run_from c s post) = times ++ lose s /\
                rq (broker_run_from c s post) = run_from (rq s) (repeat (Finish timeout_reason) (List.length times)).
Proof.
  induction 1 as [|e r [t ->] _ IH]; intros s.
  - exists []. repeat split; reflexivity.
  - rewrite brun_cons. destruct (IH (broker_step c s (BTick t))) as (times & A & B & C).
    destruct (tick_step c s t) as (_ & T1 & T2 & T3). rewrite T1 in A. rewrite T2 in B. rewrite T3 in C.
    exists (times ++ torn_new c (tm s) t). rewrite <- !app_assoc. split; [exact A|]. split; [exact B|].
    rewrite C, app_length, Nat.add_comm, repeat_app. unfold run_from. rewrite fold_left_app. reflexivity.
Qed.

(* ---- 7. C15 sentence 1, complete: after ANY history of a live Broker (calls made, answers received, arrivals, reactor
        turns, eventual-queue turns), if the peer goes silent and the reactor is at most d late, then once the clock has
        passed  now + 2T + EPSILON + d :
          - connectionTimedOut has run, and transport.loseConnection() was called, no later than that instant;
          - the Broker is disconnected;
          - once the eventual-send queue has run, EVERY callRemote that was still pending when the peer went silent has
            fired exactly once, with DeadReferenceError, and the request table is empty. *)
Theorem idle_calls_fail_with_DeadReferenceError c tc T d pre post h cl :
  cT c = Some T -> 0 <= T -> 0 <= d ->
  let s := broker_run c tc pre in
  sorted_from tc (tproj pre) -> no_close (tproj pre) -> disconnected (rq s) = false ->
  Forall is_btick post -> sorted_from (now (tm s)) (tproj post) -> punctual c d (tm s) (tproj post) ->
  let s' := broker_run_from c s post in
  now (tm s) + 2 * T + eps_ms + d < now (tm s') ->
  get (rq s) h = Some cl -> c_twoway cl = true -> c_fires cl = [] ->
  (exists x, In x (lose s') /\ In x (torn (tm s')) /\ x <= now (tm s) + 2 * T + eps_ms + d) /\
  disconnected (rq s') = true /\
  table (drained s') = [] /\
  exists cl', get (drained s') h = Some cl' /\ c_fires cl' = [ODeadRef].
Proof.
  intros ET HT Hd s S N Dc O S2 P s' Late G Tw F.
  assert (Etm : tm s = Timers.run c (Timers.init c tc) (tproj pre)) by (unfold s, broker_run; rewrite tm_run; reflexivity).
  assert (Etm' : tm s' = Timers.run c (tm s) (tproj post)) by (unfold s'; apply tm_run).
  (* the timers tear the connection down in time *)
  destruct (idle_torn_down c tc T d (tproj pre) (tproj post) ET HT Hd S N) as (x & Hx & Hb).
  { apply tproj_ticks, O. } { rewrite <- Etm. exact S2. } { rewrite <- Etm. exact P. }
  { rewrite <- Etm, <- Etm'. exact Late. }
  rewrite <- Etm, <- Etm' in Hx. rewrite <- Etm in Hb.
  (* no teardown before the silence: the Broker was connected *)
  assert (T0 : torn (tm s) = []).
  { destruct (torn (tm s)) eqn:E; [reflexivity|]. pose proof (teardown_disconnects c tc pre) as TD. fold s in TD.
    unfold torn_disc in TD. rewrite E in TD. rewrite TD in Dc; [discriminate|discriminate]. }
  destruct (ticks_phase c post O s) as (times & A & B & C). fold s' in A, B, C. rewrite T0, app_nil_r in A.
  assert (Hx' : In x times) by (rewrite <- A; exact Hx).
  destruct times as [|y l]; [destruct Hx'|]. cbn [List.length] in C. rewrite finish_repeat in C.
  (* the request layer is a Requests history: C03 applies *)
  destruct (rq_is_run c pre (broker_init c tc) [] eq_refl) as (ops & Hops). cbn [app] in Hops. fold (broker_run c tc pre) in Hops. fold s in Hops.
  assert (E1 : rq s' = Requests.run (ops ++ [Finish timeout_reason])).
  { rewrite C, Hops. unfold Requests.run. rewrite fold_left_app. reflexivity. }
  split; [exists x; split; [rewrite B; apply in_or_app; left; exact Hx'|split; [exact Hx|exact Hb]]|].
  split; [rewrite C; apply finish_disconnects|].
  unfold drained. rewrite E1.
  destruct (loss_then_drain ops timeout_reason) as (_ & _ & Tb & _).
  split; [exact Tb|].
  rewrite Hops in Dc, G.
  exact (lost_connection_gives_DeadReferenceError ops timeout_reason h cl timeout_is_lost Dc G Tw F).
Qed.

(* ---- 8. every closing path: after connectionLost in ANY Broker state nothing is pending and nothing is ever re-armed;
        finish() running a second time (teardown, then connectionLost; or the application's shutdown) changes nothing *)
Theorem lost_cancels_timers c s t r post :
  let s' := broker_run_from c s (BLost t r :: post) in
  ka (tm s') = None /\ dc (tm s') = None /\ pings (tm s') = pings (tm s) /\ torn (tm s') = torn (tm s) /\ lose s' = lose s.
Proof.
  cbv zeta. rewrite tm_run. cbn [tproj].
  destruct (cancel_from_any_state c (tm s) t (tproj post)) as (A & B & C & D & _).
  split; [exact A|]. split; [exact B|]. split; [exact C|]. split; [exact D|].
  (* no teardown after the close, hence no loseConnection *)
  rewrite brun_cons. cbn [broker_step]. rewrite lost_spec.
  set (s1 := {| tm := Timers.step c (tm s) (Close t); rq := Requests.step (rq s) (Finish r); lose := lose s |}).
  assert (G : forall evs q, ka (tm q) = None -> dc (tm q) = None -> lose (broker_run_from c q evs) = lose q).
  { clear. induction evs as [|e l IH]; intros q Hk Hd; [reflexivity|]. rewrite brun_cons.
    destruct (dead_step c (tm q) (match e with BRx u => Rx u | BRxBad u => RxBad u | BTick u => Tick u | BLost u _ => Close u | BReq _ => Tick 0 end) Hk Hd)
      as (K' & D' & T' & _).
    destruct e as [u|u|u|u rr|o].
    - rewrite IH; [reflexivity|exact K'|exact D'].
    - rewrite IH; [reflexivity|exact K'|exact D'].
    - destruct (tick_step c q u) as (E1 & E2 & E3 & _). rewrite IH; [|rewrite E1; exact K'|rewrite E1; exact D'].
      rewrite E3. rewrite E1, T' in E2. destruct (torn_new c (tm q) u); [reflexivity|].
      exfalso. apply (f_equal (@List.length Z)) in E2. rewrite app_length in E2. cbn [List.length] in E2. lia.
    - cbn [broker_step]. rewrite lost_spec. rewrite IH; [reflexivity|exact K'|exact D'].
    - rewrite IH; [reflexivity|exact Hk|exact Hd]. }
  rewrite G; [reflexivity| |]; cbn [s1 tm]; apply (close_fields c (tm s) t).
Qed.

Theorem finish_twice_changes_nothing q r r' : Requests.step (Requests.step q (Finish r)) (Finish r') = Requests.step q (Finish r).
Proof. apply finish_idem. Qed.

(* ---- 9. non-vacuity *)
Definition bc : cfg := {| cK := Some 2000; cT := Some 3000 |}.

(* two calls, one answered; the peer falls silent at 3000; teardown at 6200; the pending call fails with
   DeadReferenceError, the answered one keeps its result; loseConnection at 6200; a later connectionLost changes nothing *)
Example ex_idle_calls :
  let pre := [BReq (Call KTwoWay); BReq (Call KTwoWay); BTick 2100; BRx 3000; BReq (Answer 1)] in
  let post := [BTick 3100; BTick 4200; BTick 6200; BTick 6300; BTick 8400; BTick 9200] in
  let s := broker_run bc 0 pre in let s' := broker_run_from bc s post in
  sorted_from 0 (tproj pre) /\ no_close (tproj pre) /\ disconnected (rq s) = false /\ Forall is_btick post /\
  punctual bc 0 (tm s) (tproj post) /\ now (tm s) + 2 * 3000 + eps_ms + 0 < now (tm s') /\
  bobs s' = ([[1]; []], [2], [6200], [6200], true) /\
  map (fun c => map ocode (c_fires c)) (calls (drained s')) = [[1]; [4]] /\
  bobs (broker_run_from bc s' [BLost 9300 (RListed ConnectionDoneC); BReq Turn; BTick 20000]) = ([[1]; [4]], [], [6200], [6200], true).
Proof.
  cbv zeta. split; [cbn; lia|]. split; [repeat constructor; intros [t E]; discriminate|].
  split; [reflexivity|]. split; [repeat constructor; eexists; reflexivity|].
  split; [vm_compute; repeat split; intros e E; inversion E; discriminate|].
  vm_compute. repeat split; reflexivity.
Qed.
