(* C19 -- theorems about the write-then-rename protocols, for the operation orders translated from the source
   (gen/UploadGen.v).  Every statement is about ALL prefixes of the operation list (= a crash / kill at any point),
   all block lists, all initial directory states satisfying the stated hypotheses. *)
From Coq Require Import NArith List Bool Arith Lia.
Import ListNotations.
Require Import Verif.lib.UploadShape Verif.gen.UploadGen Verif.lib.Paths Verif.lib.PathsProofs Verif.lib.Upload.

(* ---------- hypotheses on the initial state ---------- *)
Definition wf_st (s : st) : Prop := forall p i, names s p = Some (F i) -> (i < next s)%nat.
(* a pre-existing temporary file is not a hard link to some other entry *)
Definition unshared (s : st) (tmp : str) : Prop :=
  forall q i, q <> tmp -> names s tmp = Some (F i) -> names s q <> Some (F i).
Definition clean (s : st) : Prop := failed s = false /\ followed s = false.
Definition no_link_at (s : st) (p : str) : Prop := forall t, names s p <> Some (L t).
Definition no_dir_at (s : st) (p : str) : Prop := names s p <> Some D.

(* ---------- small facts ---------- *)
Lemma upd_same : forall A (f : str -> A) p v, upd f p v p = v.
Proof. intros. unfold upd. rewrite str_eqb_refl. reflexivity. Qed.
Lemma upd_other : forall A (f : str -> A) p v q, q <> p -> upd f p v q = f q.
Proof. intros. unfold upd. rewrite str_eqb_neq by assumption. reflexivity. Qed.
Lemma updn_same : forall f i v, updn f i v i = v.
Proof. intros. unfold updn. rewrite Nat.eqb_refl. reflexivity. Qed.
Lemma updn_other : forall f i v j, j <> i -> updn f i v j = f j.
Proof. intros. unfold updn. destruct (Nat.eqb j i) eqn:E; [apply Nat.eqb_eq in E; contradiction|reflexivity]. Qed.

Lemma run_app : forall s a b, run s (a ++ b) = run (run s a) b.
Proof. intros. unfold run. apply fold_left_app. Qed.
Lemma run_cons : forall s o l, run s (o :: l) = run (step s o) l.
Proof. reflexivity. Qed.

Lemma look_frame : forall s0 s q, names s q = names s0 q ->
  (forall j, names s0 q = Some (F j) -> data s j = data s0 j) -> look s q = look s0 q.
Proof.
  intros s0 s q Hn Hd. unfold look. rewrite Hn. destruct (names s0 q) as [[j|t|]|] eqn:E; [|reflexivity|reflexivity|reflexivity].
  rewrite (Hd j eq_refl). reflexivity.
Qed.

(* all the writes of the block stream only grow the handle's buffer *)
Lemma run_writes : forall p bs n d nx i pend fl,
  run (mkst n d nx (Some (i, pend)) false fl) (map (Write p) bs) = mkst n d nx (Some (i, pend ++ concat bs)) false fl.
Proof.
  induction bs as [|b bs IH]; intros; cbn [map concat].
  - rewrite app_nil_r. reflexivity.
  - rewrite run_cons. cbn [step failed handle names data next followed]. rewrite IH, app_assoc. reflexivity.
Qed.

(* ---------- open(tmp, "wb") on a state where tmp is not a symlink ---------- *)
Lemma open_facts : forall s0 tmp, wf_st s0 -> unshared s0 tmp -> clean s0 -> no_link_at s0 tmp -> no_dir_at s0 tmp ->
  exists i, let s1 := step s0 (Open tmp) in
    names s1 tmp = Some (F i) /\ (forall q, q <> tmp -> names s1 q = names s0 q) /\
    (forall j, j <> i -> data s1 j = data s0 j) /\ data s1 i = [] /\ handle s1 = Some (i, []) /\
    failed s1 = false /\ followed s1 = false /\ (forall q, q <> tmp -> names s0 q <> Some (F i)).
Proof.
  intros s0 tmp Hwf Hun [Hf Hfl] Hnl Hnd. unfold step. rewrite Hf.
  destruct (names s0 tmp) as [[i|t|]|] eqn:E.
  - exists i. cbn [names data handle failed followed].
    split; [exact E|]. split; [reflexivity|]. split; [intros j Hj; apply updn_other; exact Hj|].
    split; [apply updn_same|]. split; [reflexivity|]. split; [reflexivity|]. split; [exact Hfl|].
    intros q Hq. apply (Hun q i Hq). exact E.
  - exfalso. apply (Hnl t). exact E.
  - exfalso. apply Hnd. exact E.
  - exists (next s0). cbn [names data handle failed followed].
    split; [apply upd_same|]. split; [intros q Hq; apply upd_other; exact Hq|].
    split; [intros j Hj; apply updn_other; exact Hj|].
    split; [apply updn_same|]. split; [reflexivity|]. split; [reflexivity|]. split; [exact Hfl|].
    intros q Hq Hc. apply Hwf in Hc. lia.
Qed.

(* ---------- the core protocol: open tmp, write chunks, close, rename over final, chmod ---------- *)
Definition core_ops (mv : op) (tmp final : str) (chunks : list (list N)) : list op :=
  Open tmp :: map (Write tmp) chunks ++ [Close tmp; mv; Chmod final].

(* a move operation that behaves like rename(tmp, final) whenever that rename succeeds *)
Definition moves (mv : op) (tmp final : str) : Prop :=
  forall s e, failed s = false -> names s tmp = Some e -> names s final <> Some D -> tmp <> final ->
    step s mv = mkst (upd (upd (names s) final (Some e)) tmp None) (data s) (next s) (handle s) false (followed s).

Lemma moves_rename : forall tmp final, moves (Rename tmp final) tmp final.
Proof.
  intros tmp final s e Hf Ha Hb Hne. unfold step. rewrite Hf. unfold step_rename. rewrite Ha.
  rewrite (str_eqb_neq tmp final Hne). destruct (names s final) as [[i|t|]|]; try reflexivity. contradiction.
Qed.

Lemma moves_rename_else_unlink : forall tmp final c, moves (RenameElseUnlink tmp final c) tmp final.
Proof.
  intros tmp final c s e Hf Ha Hb Hne. unfold step. rewrite Hf. unfold step_rename. rewrite Ha.
  rewrite (str_eqb_neq tmp final Hne). destruct (names s final) as [[i|t|]|]; try reflexivity. contradiction.
Qed.
Definition err_ops (tmp : str) (chunks : list (list N)) : list op :=
  Open tmp :: map (Write tmp) chunks ++ [Close tmp; Unlink tmp].

Ltac names_neq :=
  match goal with
  | |- ?a <> ?b => (assumption || (apply not_eq_sym; assumption))
  end.

Ltac red_close :=
  match goal with
  | |- context [step ?s2 (Close ?p)] =>
    let c := eval cbn [step failed handle names data next followed] in (step s2 (Close p)) in
    change (step s2 (Close p)) with c
  end.

Lemma core_prefix : forall mv s0 tmp final chunks k, moves mv tmp final -> no_dir_at s0 final ->
  tmp <> final -> wf_st s0 -> unshared s0 tmp -> clean s0 -> no_link_at s0 tmp -> no_dir_at s0 tmp ->
  let s := run s0 (firstn k (core_ops mv tmp final chunks)) in
  (look s final = look s0 final \/ look s final = VFile (concat chunks)) /\
  followed s = false /\ failed s = false /\
  (forall q, q <> tmp -> q <> final -> look s q = look s0 q) /\
  ((List.length chunks + 3 <= k)%nat -> look s final = VFile (concat chunks) /\ names s tmp = None).
Proof.
  intros mv s0 tmp final chunks k Hmv Hndf Hne Hwf Hun Hcl Hnl Hnd.
  destruct k as [|k'].
  { cbn [firstn run fold_left]. destruct Hcl as [Hf Hfl]. repeat split; auto. intros; lia. intros; lia. }
  unfold core_ops. cbn [firstn]. rewrite run_cons.
  destruct (open_facts s0 tmp Hwf Hun Hcl Hnl Hnd) as (i & Hi). cbv zeta in Hi.
  remember (step s0 (Open tmp)) as s1 eqn:Es1. clear Es1.
  destruct s1 as [n d nx h f fl]. cbn [names data handle failed followed] in Hi.
  destruct Hi as (Hnt & Hnq & Hdj & Hdi & Hh & Hf & Hfl & Hfresh). subst h f fl.
  rewrite firstn_app, run_app, firstn_map, run_writes, map_length. cbn [app].
  assert (Hlookq : forall dd, (forall j, j <> i -> dd j = d j) ->
            forall nn q, q <> tmp -> nn q = n q ->
            look (mkst nn dd nx None false false) q = look s0 q /\
            forall hh, look (mkst nn dd nx hh false false) q = look s0 q).
  { intros dd Hdd nn q Hq Hnn.
    assert (G : forall hh, look (mkst nn dd nx hh false false) q = look s0 q).
    { intros hh. apply look_frame; cbn [names data].
      - rewrite Hnn. apply Hnq. exact Hq.
      - intros j Hj. assert (j <> i) by (intros ->; apply (Hfresh q Hq); exact Hj).
        rewrite Hdd by assumption. apply Hdj. assumption. }
    split; [apply G|exact G]. }
  destruct (k' - List.length chunks)%nat as [|[|[|m]]] eqn:Em; cbn [firstn].
  - (* still writing *)
    cbn [run fold_left]. split; [|split; [reflexivity|split; [reflexivity|split]]].
    + left. apply (Hlookq d (fun j _ => eq_refl) n final); [names_neq|reflexivity].
    + intros q Hq _. apply (Hlookq d (fun j _ => eq_refl) n q Hq eq_refl).
    + intros; lia.
  - (* closed *)
    assert (Hall : firstn k' chunks = chunks) by (apply firstn_all2; lia). rewrite Hall.
    cbn [run fold_left step failed handle names data next followed].
    split; [|split; [reflexivity|split; [reflexivity|split]]].
    + left. apply (Hlookq (updn d i (d i ++ [] ++ concat chunks)) (fun j Hj => updn_other _ _ _ _ Hj) n final); [names_neq|reflexivity].
    + intros q Hq _. apply (Hlookq (updn d i (d i ++ [] ++ concat chunks)) (fun j Hj => updn_other _ _ _ _ Hj) n q Hq eq_refl).
    + intros; lia.
  - (* renamed *)
    assert (Hall : firstn k' chunks = chunks) by (apply firstn_all2; lia). rewrite Hall.
    cbn [run fold_left]. red_close.
    rewrite (Hmv _ (F i)); cbn [failed names data next handle followed];
      [|reflexivity|exact Hnt|rewrite (Hnq final) by names_neq; exact Hndf|exact Hne].
    assert (Hfin : look (mkst (upd (upd n final (Some (F i))) tmp None) (updn d i (d i ++ [] ++ concat chunks)) nx None false false) final
                   = VFile (concat chunks)).
    { unfold look. cbn [names data]. rewrite upd_other by names_neq. rewrite upd_same, updn_same, Hdi. reflexivity. }
    split; [right; exact Hfin|split; [reflexivity|split; [reflexivity|split]]].
    + intros q Hq Hq2. apply (Hlookq (updn d i (d i ++ [] ++ concat chunks)) (fun j Hj => updn_other _ _ _ _ Hj)); [exact Hq|].
      rewrite upd_other by exact Hq. apply upd_other. exact Hq2.
    + intros _. split; [exact Hfin|]. cbn [names]. apply upd_same.
  - (* chmod done (and anything beyond) *)
    assert (Hall : firstn k' chunks = chunks) by (apply firstn_all2; lia). rewrite Hall.
    assert (Hfn : firstn m (@nil op) = []) by (destruct m; reflexivity). rewrite Hfn.
    cbn [run fold_left]. red_close.
    rewrite (Hmv _ (F i)); cbn [failed names data next handle followed];
      [|reflexivity|exact Hnt|rewrite (Hnq final) by names_neq; exact Hndf|exact Hne].
    cbn [step failed handle names data next followed].
    rewrite (upd_other _ _ tmp None final) by names_neq. rewrite upd_same.
    assert (Hfin : look (mkst (upd (upd n final (Some (F i))) tmp None) (updn d i (d i ++ [] ++ concat chunks)) nx None false false) final
                   = VFile (concat chunks)).
    { unfold look. cbn [names data]. rewrite upd_other by names_neq. rewrite upd_same, updn_same, Hdi. reflexivity. }
    split; [right; exact Hfin|split; [reflexivity|split; [reflexivity|split]]].
    + intros q Hq Hq2. apply (Hlookq (updn d i (d i ++ [] ++ concat chunks)) (fun j Hj => updn_other _ _ _ _ Hj)); [exact Hq|].
      rewrite upd_other by exact Hq. apply upd_other. exact Hq2.
    + intros _. split; [exact Hfin|]. cbn [names]. apply upd_same.
Qed.

Lemma err_prefix : forall s0 tmp chunks k,
  wf_st s0 -> unshared s0 tmp -> clean s0 -> no_link_at s0 tmp -> no_dir_at s0 tmp ->
  let s := run s0 (firstn k (err_ops tmp chunks)) in
  (forall q, q <> tmp -> look s q = look s0 q) /\ followed s = false /\ failed s = false /\
  ((List.length chunks + 3 <= k)%nat -> names s tmp = None).
Proof.
  intros s0 tmp chunks k Hwf Hun Hcl Hnl Hnd.
  destruct k as [|k'].
  { cbn [firstn run fold_left]. destruct Hcl as [Hf Hfl]. repeat split; auto. intros; lia. }
  unfold err_ops. cbn [firstn]. rewrite run_cons.
  destruct (open_facts s0 tmp Hwf Hun Hcl Hnl Hnd) as (i & Hi). cbv zeta in Hi.
  remember (step s0 (Open tmp)) as s1 eqn:Es1. clear Es1.
  destruct s1 as [n d nx h f fl]. cbn [names data handle failed followed] in Hi.
  destruct Hi as (Hnt & Hnq & Hdj & Hdi & Hh & Hf & Hfl & Hfresh). subst h f fl.
  rewrite firstn_app, run_app, firstn_map, run_writes, map_length. cbn [app].
  assert (Hlookq : forall dd, (forall j, j <> i -> dd j = d j) ->
            forall nn q, q <> tmp -> nn q = n q ->
            forall hh, look (mkst nn dd nx hh false false) q = look s0 q).
  { intros dd Hdd nn q Hq Hnn hh. apply look_frame; cbn [names data].
    - rewrite Hnn. apply Hnq. exact Hq.
    - intros j Hj. assert (j <> i) by (intros ->; apply (Hfresh q Hq); exact Hj).
      rewrite Hdd by assumption. apply Hdj. assumption. }
  destruct (k' - List.length chunks)%nat as [|[|m]] eqn:Em; cbn [firstn].
  - cbn [run fold_left]. split; [|split; [reflexivity|split; [reflexivity|intros; lia]]].
    intros q Hq. apply (Hlookq d (fun j _ => eq_refl) n q Hq eq_refl).
  - cbn [run fold_left step failed handle names data next followed].
    split; [|split; [reflexivity|split; [reflexivity|intros; lia]]].
    intros q Hq. apply (Hlookq _ (fun j Hj => updn_other _ _ _ _ Hj) n q Hq eq_refl).
  - assert (Hfn : firstn m (@nil op) = []) by (destruct m; reflexivity). rewrite Hfn.
    cbn [run fold_left step failed handle names data next followed]. rewrite Hnt.
    cbn [run fold_left step failed handle names data next followed].
    split; [|split; [reflexivity|split; [reflexivity|]]].
    + intros q Hq. apply (Hlookq _ (fun j Hj => updn_other _ _ _ _ Hj)); [exact Hq|]. apply upd_other. exact Hq.
    + intros _. cbn [names]. apply upd_same.
Qed.

(* the final name is an existing DIRECTORY: rename(2) fails, the temporary is removed, the exception is re-raised *)
Lemma publish_fail_prefix : forall s0 tmp final chunks k,
  tmp <> final -> names s0 final = Some D ->
  wf_st s0 -> unshared s0 tmp -> clean s0 -> no_link_at s0 tmp -> no_dir_at s0 tmp ->
  let s := run s0 (firstn k (core_ops (RenameElseUnlink tmp final tmp) tmp final chunks)) in
  (forall q, q <> tmp -> look s q = look s0 q) /\ followed s = false /\
  ((List.length chunks + 3 <= k)%nat -> names s tmp = None /\ failed s = true).
Proof.
  intros s0 tmp final chunks k Hne Hfd Hwf Hun Hcl Hnl Hnd.
  destruct k as [|k'].
  { cbn [firstn run fold_left]. destruct Hcl as [Hf Hfl]. repeat split; auto; intros; lia. }
  unfold core_ops. cbn [firstn]. rewrite run_cons.
  destruct (open_facts s0 tmp Hwf Hun Hcl Hnl Hnd) as (i & Hi). cbv zeta in Hi.
  remember (step s0 (Open tmp)) as s1 eqn:Es1. clear Es1.
  destruct s1 as [n d nx h f fl]. cbn [names data handle failed followed] in Hi.
  destruct Hi as (Hnt & Hnq & Hdj & Hdi & Hh & Hf & Hfl & Hfresh). subst h f fl.
  rewrite firstn_app, run_app, firstn_map, run_writes, map_length. cbn [app].
  assert (Hnfin : n final = Some D) by (rewrite (Hnq final) by names_neq; exact Hfd).
  assert (Hlookq : forall dd, (forall j, j <> i -> dd j = d j) ->
            forall nn q, q <> tmp -> nn q = n q ->
            forall hh ff, look (mkst nn dd nx hh ff false) q = look s0 q).
  { intros dd Hdd nn q Hq Hnn hh ff. apply look_frame; cbn [names data].
    - rewrite Hnn. apply Hnq. exact Hq.
    - intros j Hj. assert (j <> i) by (intros ->; apply (Hfresh q Hq); exact Hj).
      rewrite Hdd by assumption. apply Hdj. assumption. }
  destruct (k' - List.length chunks)%nat as [|[|m]] eqn:Em; cbn [firstn].
  - cbn [run fold_left]. split; [|split; [reflexivity|intros; lia]].
    intros q Hq. apply (Hlookq d (fun j _ => eq_refl) n q Hq eq_refl).
  - cbn [run fold_left step failed handle names data next followed].
    split; [|split; [reflexivity|intros; lia]].
    intros q Hq. apply (Hlookq _ (fun j Hj => updn_other _ _ _ _ Hj) n q Hq eq_refl).
  - cbn [run fold_left]. red_close.
    set (DD := updn d i (d i ++ concat (firstn k' chunks))).
    assert (Hreu : step (mkst n DD nx None false false) (RenameElseUnlink tmp final tmp)
                   = mkst (upd n tmp None) DD nx None true false).
    { unfold step. cbn [failed]. unfold step_rename. cbn [names]. rewrite Hnt, Hnfin.
      cbn [fail failed names data next handle followed]. rewrite ?Hnt. reflexivity. }
    rewrite Hreu.
    assert (Hrest : fold_left step (firstn m [Chmod final]) (mkst (upd n tmp None) DD nx None true false)
                    = mkst (upd n tmp None) DD nx None true false).
    { destruct m as [|m]; [reflexivity|]. cbn [firstn]. destruct m; reflexivity. }
    rewrite Hrest.
    split; [|split; [reflexivity|]].
    + intros q Hq. apply (Hlookq DD (fun j Hj => updn_other _ _ _ _ Hj)); [exact Hq|]. apply upd_other. exact Hq.
    + intros _. cbn [names failed]. split; [apply upd_same|reflexivity].
Qed.

(* ---------- `if tmp.islink(): tmp.remove()` establishes the hypothesis of the core protocol ---------- *)
Lemma unlink_if_link_facts : forall s0 tmp, wf_st s0 -> unshared s0 tmp -> clean s0 -> no_dir_at s0 tmp ->
  let s := step s0 (UnlinkIfLink tmp) in
  wf_st s /\ unshared s tmp /\ clean s /\ no_link_at s tmp /\ no_dir_at s tmp /\
  (forall q, q <> tmp -> look s q = look s0 q).
Proof.
  intros s0 tmp Hwf Hun [Hf Hfl] Hnd. unfold step. rewrite Hf.
  destruct (names s0 tmp) as [[i|t|]|] eqn:E.
  - split; [exact Hwf|]. split; [exact Hun|]. split; [split; assumption|]. split; [intros t' Ht; congruence|].
    split; [exact Hnd|]. reflexivity.
  - split; [|split; [|split; [|split; [|split]]]].
    + intros p i. cbn [names next]. destruct (str_eqb p tmp) eqn:Ep.
      * apply str_eqb_eq in Ep. subst p. rewrite upd_same. discriminate.
      * unfold upd. rewrite Ep. apply Hwf.
    + intros q i Hq. cbn [names]. rewrite upd_same. discriminate.
    + split; [reflexivity|exact Hfl].
    + intros t'. cbn [names]. rewrite upd_same. discriminate.
    + unfold no_dir_at. cbn [names]. rewrite upd_same. discriminate.
    + intros q Hq. apply look_frame; cbn [names data]; [apply upd_other; exact Hq|reflexivity].
  - exfalso. apply Hnd. exact E.
  - split; [exact Hwf|]. split; [exact Hun|]. split; [split; assumption|]. split; [intros t' Ht; congruence|].
    split; [exact Hnd|]. reflexivity.
Qed.

(* the guard in front of open() is the lstat-based one.  (`if tmp.exists(): tmp.remove()` is NOT enough: see
   exists_guard_insufficient below.) *)
Lemma putfile_guard_is_islink : hd_error putfile_main = Some (SUnlinkIfLink Tmp).
Proof. reflexivity. Qed.

(* ---------- the translated operation lists are these protocols ---------- *)
Lemma upload_ops_done : forall final blocks,
  upload_ops final blocks Done =
    UnlinkIfLink (final ++ putfile_tmp_ext) ::
    core_ops (RenameElseUnlink (final ++ putfile_tmp_ext) final (final ++ putfile_tmp_ext)) (final ++ putfile_tmp_ext) final blocks.
Proof. intros. unfold upload_ops, interps, core_ops. cbn [putfile_main putfile_done flat_map interp pth app]. rewrite !app_nil_r. reflexivity. Qed.

Lemma upload_ops_err : forall final blocks,
  upload_ops final blocks SrcError =
    UnlinkIfLink (final ++ putfile_tmp_ext) :: err_ops (final ++ putfile_tmp_ext) blocks.
Proof. intros. unfold upload_ops, interps, err_ops. cbn [putfile_main putfile_err flat_map interp pth app]. rewrite !app_nil_r. reflexivity. Qed.

Lemma upload_ops_badblock : forall final blocks, upload_ops final blocks BadBlock = upload_ops final blocks SrcError.
Proof. reflexivity. Qed.

Lemma registry_ops_core : forall basedir chunks,
  registry_ops basedir chunks =
    firstn (List.length chunks + 3)
      (core_ops (Rename (registry_final basedir ++ registry_tmp_ext) (registry_final basedir))
                (registry_final basedir ++ registry_tmp_ext) (registry_final basedir) chunks).
Proof.
  intros. unfold registry_ops, interps, core_ops. cbn [registry_steps flat_map interp pth app].
  replace (List.length chunks + 3)%nat with (S (List.length chunks + 2)) by lia. cbn [firstn]. f_equal.
  rewrite firstn_app, map_length. rewrite firstn_all2 by (rewrite map_length; lia).
  replace (List.length chunks + 2 - List.length chunks)%nat with 2%nat by lia. reflexivity.
Qed.

Lemma tmp_ext_neq : forall final, final ++ putfile_tmp_ext <> final.
Proof. intros. apply ext_neq. discriminate. Qed.

(* ---------- upload: containment ---------- *)
Theorem upload_touches_only_tmp_and_final : forall final blocks oc o p,
  In o (upload_ops final blocks oc) -> In p (touched o) -> p = final \/ p = final ++ putfile_tmp_ext.
Proof.
  intros final blocks oc o p Ho Hp.
  assert (G : forall tl, (forall o', In o' tl -> forall p', In p' (touched o') -> p' = final \/ p' = final ++ putfile_tmp_ext) ->
              In o (UnlinkIfLink (final ++ putfile_tmp_ext) :: Open (final ++ putfile_tmp_ext) ::
                    map (Write (final ++ putfile_tmp_ext)) blocks ++ tl) -> p = final \/ p = final ++ putfile_tmp_ext).
  { intros tl Htl Hin. destruct Hin as [<-|[<-|Hin]].
    - cbn in Hp. destruct Hp as [<-|[]]. right. reflexivity.
    - cbn in Hp. destruct Hp as [<-|[]]. right. reflexivity.
    - apply in_app_or in Hin. destruct Hin as [Hin|Hin].
      + apply in_map_iff in Hin. destruct Hin as (b & <- & _). cbn in Hp. destruct Hp as [<-|[]]. right. reflexivity.
      + eapply Htl; eauto. }
  destruct oc.
  - rewrite upload_ops_done in Ho. unfold core_ops in Ho. apply (G _) in Ho; [exact Ho|].
    intros o' Ho' p' Hp'. cbn in Ho'. destruct Ho' as [<-|[<-|[<-|[]]]]; cbn in Hp'; intuition (subst; auto).
  - rewrite upload_ops_err in Ho. unfold err_ops in Ho. apply (G _) in Ho; [exact Ho|].
    intros o' Ho' p' Hp'. cbn in Ho'. destruct Ho' as [<-|[<-|[]]]; cbn in Hp'; intuition (subst; auto).
  - rewrite upload_ops_badblock, upload_ops_err in Ho. unfold err_ops in Ho. apply (G _) in Ho; [exact Ho|].
    intros o' Ho' p' Hp'. cbn in Ho'. destruct Ho' as [<-|[<-|[]]]; cbn in Hp'; intuition (subst; auto).
Qed.

Lemma putfile_ext_facts : has_sep putfile_tmp_ext = false /\ (2 <= List.length putfile_tmp_ext)%nat.
Proof. split; [reflexivity|cbn; lia]. Qed.

(* every path named by any operation of a served putfile lies directly inside the target directory,
   whatever name the client supplied *)
Theorem putfile_contained : forall cwd base name blocks oc ops o p, wf_base base ->
  putfile cwd base name blocks oc = Some ops -> In o ops -> In p (touched o) -> inside base p.
Proof.
  intros cwd base name blocks oc ops o p Hb H Ho Hp. unfold putfile, putfile_final in H.
  destruct (existsb (str_eqb name) putfile_refused); [discriminate|].
  assert (Eg : putfile_guard = GuardParentEq) by reflexivity. rewrite Eg in H.
  destruct (guarded GuardParentEq cwd base name) as [final|] eqn:Hg; [|discriminate]. injection H as <-.
  pose proof (guarded_inside _ _ _ _ Hb Hg) as Hin.
  destruct (upload_touches_only_tmp_and_final final blocks oc o p Ho Hp) as [->| ->]; [exact Hin|].
  destruct putfile_ext_facts. apply inside_ext; assumption.
Qed.

(* honest names (one good component) are served under their own name: an up-front literal refusal, if the code has one,
   refuses no such name *)
Theorem putfile_serves_good : forall cwd base c, wf_base base -> goodb c = true ->
  putfile_final cwd base c = Some (base ++ sep :: c).
Proof.
  intros cwd base c Hb Hc. unfold putfile_final.
  assert (Hr : forallb (fun n => negb (goodb n)) putfile_refused = true) by reflexivity.
  destruct (existsb (str_eqb c) putfile_refused) eqn:E.
  - apply existsb_exists in E. destruct E as (n & Hn & En). apply str_eqb_eq in En. subst n.
    rewrite forallb_forall in Hr. apply Hr in Hn. rewrite Hc in Hn. discriminate.
  - apply guarded_accepts_good; assumption.
Qed.

(* ---------- upload: atomic publication, no symlink is followed, nothing else changes ---------- *)
Theorem upload_atomic : forall s0 final blocks k, no_dir_at s0 final ->
  wf_st s0 -> unshared s0 (final ++ putfile_tmp_ext) -> clean s0 -> no_dir_at s0 (final ++ putfile_tmp_ext) ->
  let s := run s0 (firstn k (upload_ops final blocks Done)) in
  (look s final = look s0 final \/ look s final = VFile (concat blocks)) /\
  followed s = false /\ failed s = false /\
  (forall q, q <> final ++ putfile_tmp_ext -> q <> final -> look s q = look s0 q).
Proof.
  intros s0 final blocks k Hndf Hwf Hun Hcl Hnd. rewrite upload_ops_done.
  destruct k as [|k]; [cbn [firstn run fold_left]; destruct Hcl; repeat split; auto|].
  cbn [firstn]. rewrite run_cons.
  destruct (unlink_if_link_facts s0 _ Hwf Hun Hcl Hnd) as (Hwf' & Hun' & Hcl' & Hnl' & Hnd' & Hlk). cbv zeta in *.
  assert (Hndf' : no_dir_at (step s0 (UnlinkIfLink (final ++ putfile_tmp_ext))) final).
  { unfold no_dir_at in *. intros E. pose proof (Hlk final (not_eq_sym (tmp_ext_neq final))) as Hl. unfold look in Hl.
    rewrite E in Hl. destruct (names s0 final) as [[?|?|]|]; try discriminate. apply Hndf. reflexivity. }
  pose proof (core_prefix _ _ _ final blocks k (moves_rename_else_unlink (final ++ putfile_tmp_ext) final (final ++ putfile_tmp_ext)) Hndf' (tmp_ext_neq final) Hwf' Hun' Hcl' Hnl' Hnd')
    as (Ha & Hb & Hc & Hd & _).
  cbv zeta in *. rewrite (Hlk final) in Ha by (apply not_eq_sym, tmp_ext_neq).
  split; [exact Ha|split; [exact Hb|split; [exact Hc|]]].
  intros q Hq Hq2. rewrite (Hd q Hq Hq2). apply Hlk. exact Hq.
Qed.

Theorem upload_completes : forall s0 final blocks, no_dir_at s0 final ->
  wf_st s0 -> unshared s0 (final ++ putfile_tmp_ext) -> clean s0 -> no_dir_at s0 (final ++ putfile_tmp_ext) ->
  let s := run s0 (upload_ops final blocks Done) in
  look s final = VFile (concat blocks) /\ names s (final ++ putfile_tmp_ext) = None /\ failed s = false.
Proof.
  intros s0 final blocks Hndf Hwf Hun Hcl Hnd. rewrite upload_ops_done. rewrite run_cons.
  destruct (unlink_if_link_facts s0 _ Hwf Hun Hcl Hnd) as (Hwf' & Hun' & Hcl' & Hnl' & Hnd' & Hlk). cbv zeta in *.
  assert (Hndf' : no_dir_at (step s0 (UnlinkIfLink (final ++ putfile_tmp_ext))) final).
  { unfold no_dir_at in *. intros E. pose proof (Hlk final (not_eq_sym (tmp_ext_neq final))) as Hl. unfold look in Hl.
    rewrite E in Hl. destruct (names s0 final) as [[?|?|]|]; try discriminate. apply Hndf. reflexivity. }
  pose proof (core_prefix _ _ _ final blocks
                (List.length (core_ops (RenameElseUnlink (final ++ putfile_tmp_ext) final (final ++ putfile_tmp_ext))
                                       (final ++ putfile_tmp_ext) final blocks))
                (moves_rename_else_unlink (final ++ putfile_tmp_ext) final (final ++ putfile_tmp_ext)) Hndf' (tmp_ext_neq final) Hwf' Hun' Hcl' Hnl' Hnd') as (_ & _ & Hc & _ & He).
  cbv zeta in *. rewrite firstn_all in *.
  destruct He as [H1 H2]; [unfold core_ops; cbn [List.length]; rewrite app_length, map_length; cbn [List.length]; lia|].
  auto.
Qed.

(* the upload was received completely but cannot be published because the final name is a directory: nothing appears
   under the final name (it stays the directory), no other entry changes, and once the failure path has run the
   temporary is gone and the call fails *)
Theorem upload_publish_failure : forall s0 final blocks k, names s0 final = Some D ->
  wf_st s0 -> unshared s0 (final ++ putfile_tmp_ext) -> clean s0 -> no_dir_at s0 (final ++ putfile_tmp_ext) ->
  let s := run s0 (firstn k (upload_ops final blocks Done)) in
  (forall q, q <> final ++ putfile_tmp_ext -> look s q = look s0 q) /\ followed s = false /\
  ((List.length (upload_ops final blocks Done) <= k)%nat -> names s (final ++ putfile_tmp_ext) = None /\ failed s = true).
Proof.
  intros s0 final blocks k Hfd Hwf Hun Hcl Hnd. rewrite upload_ops_done.
  destruct k as [|k]; [cbn [firstn run fold_left]; destruct Hcl; repeat split; auto; cbn [List.length] in *; lia|].
  cbn [firstn]. rewrite run_cons.
  destruct (unlink_if_link_facts s0 _ Hwf Hun Hcl Hnd) as (Hwf' & Hun' & Hcl' & Hnl' & Hnd' & Hlk). cbv zeta in *.
  assert (Hfd' : names (step s0 (UnlinkIfLink (final ++ putfile_tmp_ext))) final = Some D).
  { pose proof (Hlk final (not_eq_sym (tmp_ext_neq final))) as Hl. unfold look in Hl. rewrite Hfd in Hl.
    destruct (names (step s0 (UnlinkIfLink (final ++ putfile_tmp_ext))) final) as [[?|?|]|]; try discriminate. reflexivity. }
  pose proof (publish_fail_prefix _ _ final blocks k (tmp_ext_neq final) Hfd' Hwf' Hun' Hcl' Hnl' Hnd') as (Ha & Hb & Hc).
  cbv zeta in *. split; [|split; [exact Hb|]].
  - intros q Hq. rewrite (Ha q Hq). apply Hlk. exact Hq.
  - intros Hk. apply Hc. unfold core_ops in Hk. cbn [List.length] in Hk. rewrite app_length, map_length in Hk.
    cbn [List.length] in Hk. lia.
Qed.

(* an upload that ends in a source error or a disconnect, and any crash during it: the final name and every other
   entry stay as they were; once the error path has run, the temporary is gone *)
Lemma upload_interrupted_src : forall s0 final blocks k,
  wf_st s0 -> unshared s0 (final ++ putfile_tmp_ext) -> clean s0 -> no_dir_at s0 (final ++ putfile_tmp_ext) ->
  let s := run s0 (firstn k (upload_ops final blocks SrcError)) in
  (forall q, q <> final ++ putfile_tmp_ext -> look s q = look s0 q) /\ followed s = false /\ failed s = false /\
  ((List.length (upload_ops final blocks SrcError) <= k)%nat -> names s (final ++ putfile_tmp_ext) = None).
Proof.
  intros s0 final blocks k Hwf Hun Hcl Hnd. rewrite upload_ops_err.
  destruct k as [|k]; [cbn [firstn run fold_left]; destruct Hcl; repeat split; auto; cbn [List.length]; intros; lia|].
  cbn [firstn]. rewrite run_cons.
  destruct (unlink_if_link_facts s0 _ Hwf Hun Hcl Hnd) as (Hwf' & Hun' & Hcl' & Hnl' & Hnd' & Hlk). cbv zeta in *.
  pose proof (err_prefix _ _ blocks k Hwf' Hun' Hcl' Hnl' Hnd') as (Ha & Hb & Hc & Hd). cbv zeta in *.
  split; [|split; [exact Hb|split; [exact Hc|]]].
  - intros q Hq. rewrite (Ha q Hq). apply Hlk. exact Hq.
  - intros Hk. apply Hd. unfold err_ops in Hk. cbn [List.length] in Hk. rewrite app_length, map_length in Hk.
    cbn [List.length] in Hk. lia.
Qed.

(* every kind of interruption: the source's read() fails, the connection is lost, or the source delivers a block that
   cannot be written *)
Theorem upload_interrupted : forall oc s0 final blocks k, oc <> Done ->
  wf_st s0 -> unshared s0 (final ++ putfile_tmp_ext) -> clean s0 -> no_dir_at s0 (final ++ putfile_tmp_ext) ->
  let s := run s0 (firstn k (upload_ops final blocks oc)) in
  (forall q, q <> final ++ putfile_tmp_ext -> look s q = look s0 q) /\ followed s = false /\ failed s = false /\
  ((List.length (upload_ops final blocks oc) <= k)%nat -> names s (final ++ putfile_tmp_ext) = None).
Proof.
  intros oc s0 final blocks k Hoc. destruct oc; [contradiction| |rewrite upload_ops_badblock]; apply upload_interrupted_src.
Qed.

(* ---------- registry ---------- *)
Theorem registry_atomic : forall s0 basedir chunks k,
  let final := registry_final basedir in
  let tmp := final ++ registry_tmp_ext in
  wf_st s0 -> unshared s0 tmp -> clean s0 -> no_link_at s0 tmp -> no_dir_at s0 tmp -> no_dir_at s0 final ->
  let s := run s0 (firstn k (registry_ops basedir chunks)) in
  (look s final = look s0 final \/ look s final = VFile (concat chunks)) /\ failed s = false /\
  (forall q, q <> tmp -> q <> final -> look s q = look s0 q) /\
  ((List.length (registry_ops basedir chunks) <= k)%nat -> look s final = VFile (concat chunks) /\ names s tmp = None).
Proof.
  intros s0 basedir chunks k final tmp Hwf Hun Hcl Hnl Hnd Hndf.
  assert (Hne : tmp <> final) by (apply ext_neq; discriminate).
  rewrite registry_ops_core. fold final. fold tmp. rewrite firstn_firstn.
  pose proof (core_prefix _ s0 tmp final chunks (Nat.min k (List.length chunks + 3)) (moves_rename tmp final) Hndf Hne Hwf Hun Hcl Hnl Hnd) as (Ha & _ & Hc & Hd & He).
  cbv zeta in *. split; [exact Ha|split; [exact Hc|split; [exact Hd|]]].
  intros Hk. apply He.
  assert (Hl : List.length (firstn (List.length chunks + 3) (core_ops (Rename tmp final) tmp final chunks)) = (List.length chunks + 3)%nat).
  { apply firstn_length_le. unfold core_ops. cbn [List.length]. rewrite app_length, map_length. cbn [List.length]. lia. }
  rewrite Hl in Hk. lia.
Qed.

(* ---------- registry: an operation FAILS instead of being performed ---------- *)
Definition plain (o : op) : bool :=
  match o with RenameElseUnlink _ _ _ | RenameRetry _ _ => false | _ => true end.

Lemma step_fault_plain : forall s o q, plain o = true -> look (step_fault s o) q = look s q.
Proof. intros s o q H. unfold step_fault. destruct (failed s); [reflexivity|]. destruct o; try discriminate; reflexivity. Qed.

Lemma In_firstn : forall (A : Type) n (l : list A) x, In x (firstn n l) -> In x l.
Proof.
  induction n as [|n IH]; intros l x H; [contradiction|]. destruct l as [|y l]; [contradiction|].
  cbn [firstn] in H. destruct H as [->|H]; [left; reflexivity|right; apply IH; exact H].
Qed.

(* the registry is rewritten with plain system calls only: in particular the move is a bare rename(tmp, final), with no
   "remove the destination and try again" fallback (which would delete the old registry when the rename fails) *)
Lemma registry_ops_plain : forall basedir chunks, forallb plain (registry_ops basedir chunks) = true.
Proof.
  intros. apply forallb_forall. intros o Ho. rewrite registry_ops_core in Ho. apply In_firstn in Ho.
  unfold core_ops in Ho. destruct Ho as [<-|Ho]; [reflexivity|]. apply in_app_or in Ho. destruct Ho as [Ho|Ho].
  - apply in_map_iff in Ho. destruct Ho as (b & <- & _). reflexivity.
  - cbn in Ho. destruct Ho as [<-|[<-|[<-|[]]]]; reflexivity.
Qed.

Theorem registry_fault_atomic : forall s0 basedir chunks k,
  let final := registry_final basedir in
  let tmp := final ++ registry_tmp_ext in
  wf_st s0 -> unshared s0 tmp -> clean s0 -> no_link_at s0 tmp -> no_dir_at s0 tmp -> no_dir_at s0 final ->
  let s := run_fault k s0 (registry_ops basedir chunks) in
  look s final = look s0 final \/ look s final = VFile (concat chunks).
Proof.
  intros s0 basedir chunks k final tmp Hwf Hun Hcl Hnl Hnd Hndf. cbv zeta. unfold run_fault.
  destruct (nth_error (registry_ops basedir chunks) k) as [o|] eqn:E.
  - pose proof (registry_ops_plain basedir chunks) as Hp. rewrite forallb_forall in Hp.
    rewrite step_fault_plain by (apply Hp; eapply nth_error_In; eauto).
    apply (registry_atomic s0 basedir chunks k Hwf Hun Hcl Hnl Hnd Hndf).
  - pose proof (registry_atomic s0 basedir chunks (List.length (registry_ops basedir chunks)) Hwf Hun Hcl Hnl Hnd Hndf) as H.
    cbv zeta in H. rewrite firstn_all in H. apply H.
Qed.

(* why the fallback must not be there: with `try rename except: remove(dest); rename` a failing rename deletes the old
   registry and leaves nothing in its place (seeded change C19-r4s1) *)
Theorem rename_retry_loses_registry :
  let s0 := mk_st [([47; 114]%N, F 0%nat); ([47; 116]%N, F 1%nat)] [[111]%N; [110]%N] in      (* "/r" = old, "/t" = new *)
  look (step_fault s0 (RenameRetry [47; 116]%N [47; 114]%N)) [47; 114]%N = VNone /\
  look (step_fault s0 (Rename [47; 116]%N [47; 114]%N)) [47; 114]%N = VFile [111]%N.
Proof. vm_compute. split; reflexivity. Qed.

(* ---------- gatherer and publisher paths ---------- *)
Lemma gatherer_ext_facts : has_sep gatherer_ext = false /\ (2 <= List.length gatherer_ext)%nat.
Proof. split; [reflexivity|cbn; lia]. Qed.

Theorem gatherer_contained : forall cwd base name q, wf_base base -> gatherer_path cwd base name = Some q -> inside base q.
Proof.
  intros cwd base name q Hb H. unfold gatherer_path in H.
  assert (Eg : gatherer_guard = GuardParentEq) by reflexivity. rewrite Eg in H.
  assert (Es : gatherer_path_source = FromValidated) by reflexivity. rewrite Es in H.
  destruct (guarded GuardParentEq cwd base name) as [p|] eqn:Hg; [|discriminate]. injection H as <-.
  destruct gatherer_ext_facts. apply inside_ext; [eapply guarded_inside; eauto|assumption|assumption].
Qed.

Theorem publisher_contained : forall cwd base name l q, wf_base base ->
  publisher_paths cwd base name = Some l -> In q l -> inside base q.
Proof.
  intros cwd base name l q Hb H Hq. unfold publisher_paths in H.
  destruct (prefixb publisher_prefix name); [|discriminate].
  assert (Eg : publisher_guard = GuardParentEq) by reflexivity. rewrite Eg in H.
  destruct (guarded GuardParentEq cwd base name) as [p|] eqn:Hg; [|discriminate]. injection H as <-.
  pose proof (guarded_inside _ _ _ _ Hb Hg) as Hin.
  destruct Hq as [<-|[<-|[]]]; apply inside_ext; try exact Hin; try reflexivity; cbn; lia.
Qed.

(* ---------- non-vacuity ---------- *)
Local Open Scope N_scope.
Definition ex_base : str := [47; 115; 114; 118; 47; 117; 112].            (* "/srv/up" *)
Definition ex_final : str := ex_base ++ [47; 120].                          (* "/srv/up/x" *)
Definition ex_s0 : st := mk_st [(ex_final, F 0%nat); (ex_final ++ putfile_tmp_ext, L [47; 101; 116; 99])] [[111; 108; 100]].

Example ex_hyps : wf_st ex_s0 /\ unshared ex_s0 (ex_final ++ putfile_tmp_ext) /\ clean ex_s0 /\ no_dir_at ex_s0 (ex_final ++ putfile_tmp_ext).
Proof.
  split; [|split; [|split; [split; reflexivity|intros H; vm_compute in H; discriminate]]].
  - intros p i. unfold ex_s0, mk_st. cbn [names next find fst snd].
    destruct (str_eqb ex_final p); [intros H; injection H as <-; cbn; lia|].
    destruct (str_eqb (ex_final ++ putfile_tmp_ext) p); discriminate.
  - intros q i _ H. vm_compute in H. discriminate.
Qed.

Example ex_runs :
  map (fun k => code_view (look (run ex_s0 (firstn k (upload_ops ex_final [[97]; [98]] Done))) ex_final)) (seq 0%nat 8%nat)
  = [[2; 111; 108; 100]; [2; 111; 108; 100]; [2; 111; 108; 100]; [2; 111; 108; 100]; [2; 111; 108; 100]; [2; 111; 108; 100];
     [2; 97; 98]; [2; 97; 98]]%N /\
  putfile [47] ex_base [120] [[97]; [98]] Done = Some (upload_ops ex_final [[97]; [98]] Done) /\
  putfile [47] ex_base [] [[97]] Done = None.
Proof. vm_compute. repeat split. Qed.

(* why the guard has to be islink(): with `if tmp.exists(): tmp.remove()` a DANGLING symlink at the temporary name
   survives the guard (stat follows it and finds nothing) and open() then creates the file THROUGH it *)
Definition ex_dangling : st := mk_st [(ex_final ++ putfile_tmp_ext, L [47; 101; 116; 99; 47; 110; 101; 119])] [].   (* -> "/etc/new" *)
Theorem exists_guard_insufficient :
  let tmp := ex_final ++ putfile_tmp_ext in
  wf_st ex_dangling /\ unshared ex_dangling tmp /\ clean ex_dangling /\ no_dir_at ex_dangling tmp /\
  followed (run ex_dangling [UnlinkIfExists tmp; Open tmp]) = true /\
  followed (run ex_dangling [UnlinkIfLink tmp; Open tmp]) = false.
Proof.
  cbv zeta. split; [|split; [|split; [split; reflexivity|split; [intros H; vm_compute in H; discriminate|split; vm_compute; reflexivity]]]].
  - intros p i H. unfold ex_dangling, mk_st in H. cbn [names find fst snd] in H.
    destruct (str_eqb (ex_final ++ putfile_tmp_ext) p); discriminate.
  - intros q i _ H. vm_compute in H. discriminate.
Qed.
