(* C18: "rendering an event to text never raises" for lib/LogFmt.v *)
From Coq Require Import ZArith List Bool Lia.
Import ListNotations.
Require Import Verif.lib.PyLite Verif.gen.LogJsonGen Verif.lib.LogJson Verif.lib.LogFmt.
Local Open Scope Z_scope.

Lemma outer_all x : catches fmt_outer_catch x = true.
Proof. destruct x; vm_compute; reflexivity. Qed.

Lemma fallback_total e : fallback_raises e = false.
Proof.
  unfold fallback_raises. destruct (dget N_message e) as [[s|s u| |[|]]|]; vm_compute; reflexivity.
Qed.

Lemma guarded_total pct e : exists o, guarded pct e = Ok o.
Proof.
  unfold guarded. destruct (try_part pct e) as [o|x]; [eauto|]. rewrite outer_all, fallback_total. eauto.
Qed.

Lemma ensure_keys_ok e : keys_textlike e -> exists e', ensure_keys e = Ok e'.
Proof.
  unfold ensure_keys. induction 1 as [|[k v] t Hk Ht IH]; cbn [map_res]; [eauto|].
  cbn [fst snd] in *. destruct k as [s|s [|]|]; try discriminate; cbn [ensure_key]; destruct IH as [e' IH];
    change (map_res ?f t) with (map_res f t) in IH; unfold ensure_keys in IH; rewrite IH; eauto.
Qed.

(* for every event dict whose keys are text or utf-8 bytes -- and for EVERY dict once the key normalisation sits inside
   the try -- whatever the values and whatever the % operator does *)
Theorem format_total pct e : fmt_keys_outside_try = false \/ keys_textlike e -> exists o, format_message pct e = Ok o.
Proof.
  intros H. unfold format_message. destruct (ensure_keys e) as [e'|x] eqn:E; [apply guarded_total|].
  destruct H as [H|H].
  - rewrite H, outer_all, fallback_total. eauto.
  - destruct (ensure_keys_ok e H) as [e' E']. rewrite E' in E. discriminate.
Qed.

(* on this tree (8594ad6) the key normalisation is the first statement INSIDE the try: no hypothesis on the dict *)
Theorem format_total_all pct e : exists o, format_message pct e = Ok o.
Proof. apply format_total. left. vm_compute. reflexivity. Qed.

(* why it has to be inside (the defect repaired by 8594ad6, kept as a regression statement): with the normalisation
   outside the try a key that is neither text nor utf-8 bytes escapes.  Oracle witnesses: format_message({5: 1}),
   format_message({b"\xff": 1, "message": "m"}) (signature oracle/format-raises-nontext-key). *)
Theorem format_unguarded_keys_escape : fmt_keys_outside_try = true ->
  (forall pct, format_message pct [(FKOther, FVText 10)] = Raise ETypeError) /\
  (forall pct, format_message pct [(FKBytes 11 false, FVText 10); (FKText N_message, FVText 12)] = Raise EValueError).
Proof. intros H. vm_compute in H. split; intros pct; first [discriminate H | vm_compute; reflexivity]. Qed.

(* what the repaired code answers on those inputs *)
Example ex_odd_keys_now :
  format_message true [(FKOther, FVText 10)] = Ok (Fallback MNoMessage) /\
  format_message true [(FKBytes 11 false, FVText 10); (FKText N_message, FVText 12)] = Ok (Fallback (MText 12)).
Proof. split; vm_compute; reflexivity. Qed.

Example ex_format_kinds :
  format_message false [(FKText N_format, FVText 10); (FKText N_message, FVText 11)] = Ok (Fallback (MText 11)) /\
  format_message true [(FKBytes N_message true, FVBytes 11 false)] = Ok (Fallback (MDecoded 11)) /\
  format_message true [(FKText N_message, FVObj false)] = Ok (Fallback MUnprintable) /\
  format_message true [(FKText N_args, FVArgs)] = Ok (Fallback MNoMessage) /\
  format_message true [(FKText N_message, FVText 11); (FKText N_args, FVArgs)] = Ok Formatted /\
  keys_textlike [(FKBytes N_message true, FVBytes 11 false)].
Proof. repeat split; try (vm_compute; reflexivity). repeat constructor. Qed.
