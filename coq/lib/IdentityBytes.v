(* C05: Negotiation.dataReceived over RAW BYTES, from the first byte of the connection (PLAINTEXT phase) to the
   hand-over to the Broker, against a peer that sends arbitrary bytes in arbitrary chunks and never stops.

   Translated from the source on every run (gen/):
     header_verdict            (NegotiateGen: the tests between `eoh = buffer.find(CRLFCRLF)` and the split, C13)
     dispatch                  (IdentityGen: the phase dispatch of dataReceived)
     plaintext_server_guard    (IdentityGen: handlePLAINTEXTServer statement by statement, incl. Listener.lookupTubID's test,
                                the redirect branch and sendRedirect's raise)
     plaintext_client_guard    (IdentityGen: handlePLAINTEXTClient statement by statement)
     ev1_identity, attach_key, phase constants (IdentityGen, as in lib/Identity.v)
     switch_sites, do_negotiation, connection_made_switches (IdentityGen: EVERY caller of switchToBanana / sendDecision /
                                Tub.brokerAttached in the package, enumerated over all modules; anything else is refused)
   Hand-written here and compared with the real code by the correspondence: the order certificate lookup -> parseLines ->
   `error` test -> evaluateHello inside handleENCRYPTED, handleDECIDING, switchToBanana emptying the buffer.
   THE PATHS TO switchToBanana are exactly those of switch_sites: handle_encrypted's deciding end (sendDecision), handle_deciding,
   and connectionMade's non-negotiating branch (b_connection_made; dead because doNegotiation is the constant True).
   Parameters (the theorems hold for EVERY choice, so nothing about them is assumed; lib/IdentityBytesReal.v instantiates
   them with the TRANSLATED parseLines of C13 (strict UTF-8) and the wire-level checks of lib/NegWire.v):
     D, parse    the parsed header block and Negotiation.parseLines (Exc = it raised)
     has_error   'error' in block;   claimed_of  block.get('my-tub-id')
     decode      six.ensure_str on bytes in the plaintext handlers (None = UnicodeDecodeError)
     pre_chk     every check of evaluateHello / evaluateNegotiationVersion1 that runs BEFORE the identity checks
                 (banana-negotiation-range present and parseable, version overlap, `assert not forced`)
     post_chk    every check of the deciding end that runs AFTER them (existing-connection comparison, vocabulary range)
     decision_chk acceptDecision (version, error key, vocabulary index and hash)
     redirect    does the listener have a redirect for this id
   Definitions only; proofs in IdentityBytesProofs.v. *)
From Coq Require Import ZArith List String Bool.
Import ListNotations.
Require Import Verif.lib.PyLite Verif.gen.NegotiateGen Verif.lib.Negotiate Verif.lib.NegBytes Verif.gen.IdentityGen
               Verif.lib.NegSplit Verif.lib.Identity.
Local Open Scope Z_scope.

Record bstate := { b_phase : rphase;
                   b_their : option (list Z);     (* self.theirTubRef *)
                   b_attached : list (list Z);    (* keys given to Tub.brokerAttached, latest first *)
                   b_buf : list Z;                (* self.buffer *)
                   b_fail : option string;        (* class of the exception last caught by dataReceived *)
                   b_passed : list (list Z) }.    (* GHOST: the header blocks whose hello passed the identity checks *)

Definition b_init : bstate :=
  {| b_phase := initial_phase; b_their := None; b_attached := []; b_buf := []; b_fail := None; b_passed := [] |}.

Section Bytes.
Variable cert : Type.
Variable tubid_of : cert -> list Z.
Variable decode : list Z -> option (list Z).
Variable D : Type.
Variable parse : list Z -> res D.
Variable has_error : D -> bool.
Variable claimed_of : D -> option (list Z).
Variable pre_chk post_chk decision_chk : D -> res unit.
Variable redirect : list Z -> bool.

Definition rexc (at_raise : rphase) : rphase :=
  match phase_set_by_error_handler with Some ph => RP ph | None => at_raise end.

(* the `except Exception` handler of dataReceived: failureReason recorded, loseConnection(); the buffer keeps what the
   try block left in it *)
Definition raised (st : bstate) (at_raise : rphase) (their : option (list Z)) (w : string) : bstate :=
  {| b_phase := rexc at_raise; b_their := their; b_attached := b_attached st; b_buf := b_buf st; b_fail := Some w;
     b_passed := b_passed st |}.

(* switchToBanana: Broker created under attach_key, Tub.brokerAttached(key); the rest of the buffer goes to the Broker *)
Definition switched (r : role) (target : list Z) (st : bstate) (t : list Z) (hdr : list Z) (newly_passed : bool) : bstate :=
  {| b_phase := RP PhBanana; b_their := Some t; b_attached := attach_key (is_client r) target t :: b_attached st;
     b_buf := []; b_fail := b_fail st; b_passed := if newly_passed then hdr :: b_passed st else b_passed st |}.

(* handleENCRYPTED(header) *)
Definition handle_encrypted (r : role) (my_id target : list Z) (p : presented cert) (st : bstate) (hdr : list Z) : bstate * bool :=
  match peer_from_transport cert p with
  | Exc w => (raised st (b_phase st) (b_their st) w, true)
  | Ok _ =>
    match parse hdr with
    | Exc w => (raised st (b_phase st) (b_their st) w, true)
    | Ok d =>
      if has_error d then (raised st (b_phase st) (b_their st) "RemoteNegotiationError", true)
      else match pre_chk d with
      | Exc w => (raised st (RP phase_during_evaluate_hello) (b_their st) w, true)
      | Ok _ =>
        let claimed := claimed_of d in
        match handle_hello cert tubid_of r my_id target p claimed with
        | Reject w => (raised st (RP phase_during_evaluate_hello)
                              (their_after_rejected_evaluation cert tubid_of p claimed (b_their st)) w, true)
        | Accept t master =>
            if master
            then match post_chk d with
                 | Ok _ => (switched r target st t hdr true, false)
                 | Exc w => (raised st (RP phase_during_evaluate_hello) (Some t) w, true)
                 end
            else ({| b_phase := RP slave_phase_after_accept; b_their := Some t; b_attached := b_attached st;
                     b_buf := b_buf st; b_fail := b_fail st; b_passed := hdr :: b_passed st |}, false)
        end
      end
    end
  end.

(* handleDECIDING(header) *)
Definition handle_deciding (r : role) (target : list Z) (st : bstate) (hdr : list Z) : bstate * bool :=
  match parse hdr with
  | Exc w => (raised st (b_phase st) (b_their st) w, true)
  | Ok d =>
      match decision_chk d with
      | Ok _ => match b_their st with
                | Some t => (switched r target st t hdr false, false)
                | None => (raised st (b_phase st) (b_their st) "AttributeError", true)
                end
      | Exc w => (raised st (b_phase st) (b_their st) w, true)
      end
  end.

Definition enter_encrypted (st : bstate) : bstate :=
  {| b_phase := RP phase_after_start_encrypted; b_their := b_their st; b_attached := b_attached st; b_buf := b_buf st;
     b_fail := b_fail st; b_passed := b_passed st |}.

(* one complete header block, already cut off the buffer; result: new state, did an exception reach the handler *)
Definition bhandle (r : role) (my_id target : list Z) (p : presented cert) (st : bstate) (hdr : list Z) : bstate * bool :=
  match dispatch (b_phase st) (is_client r) with
  | HPlaintextClient =>
      match plaintext_client_guard decode hdr with
      | Ok _ => (enter_encrypted st, false)
      | Exc w => (raised st (b_phase st) (b_their st) w, true)
      end
  | HPlaintextServer =>
      match plaintext_server_guard decode my_id redirect hdr with
      | Ok _ => (enter_encrypted st, false)
      | Exc w => (raised st (b_phase st) (b_their st) w, true)
      end
  | HEncrypted => handle_encrypted r my_id target p st hdr
  | HDeciding => handle_deciding r target st hdr
  | HAssert => (raised st (b_phase st) (b_their st) "AssertionError", true)
  end.

Definition with_bbuf (st : bstate) (b : list Z) : bstate :=
  {| b_phase := b_phase st; b_their := b_their st; b_attached := b_attached st; b_buf := b; b_fail := b_fail st;
     b_passed := b_passed st |}.

Definition is_banana (ph : rphase) : bool := rphase_eqb ph (RP PhBanana).
Definition is_abandoned (ph : rphase) : bool := rphase_eqb ph (RP PhAbandoned).

(* the try block of dataReceived after `self.buffer += chunk`, including the recursion `self.dataReceived(b"")` *)
Fixpoint bdrain (fuel : nat) (r : role) (my_id target : list Z) (p : presented cert) (st : bstate) : bstate :=
  match fuel with
  | O => st
  | S f =>
    let buf := b_buf st in
    let eoh := match find_term buf with Some e => Z.of_nat e | None => (-1) end in
    let v := header_verdict eoh (Z.of_nat (List.length buf)) in
    if v =? 0 then raised st (b_phase st) (b_their st) "BananaError"
    else if v =? 1 then st
    else
      match find_term buf with
      | None => raised st (b_phase st) (b_their st) "no-terminator"      (* header_verdict says split where there is no terminator: defensive *)
      | Some e =>
          let hdr := firstn e buf in
          let st1 := with_bbuf st (skipn (e + 4) buf) in
          let '(st2, exc) := bhandle r my_id target p st1 hdr in
          if exc then st2
          else if is_banana (b_phase st2) then st2
          else match b_buf st2 with [] => st2 | _ => bdrain f r my_id target p st2 end
      end
  end.

(* dataReceived(chunk).  Once switchToBanana ran, self.dataReceived IS the Broker's: nothing reaches this code *)
Definition brecv_chunk (r : role) (my_id target : list Z) (p : presented cert) (st : bstate) (chunk : list Z) : bstate :=
  if is_banana (b_phase st) || is_abandoned (b_phase st) then st
  else let st1 := with_bbuf st (b_buf st ++ chunk) in
       bdrain (S (List.length (b_buf st1))) r my_id target p st1.

(* Negotiation.connectionMade, before the first byte is read.  With doNegotiation true (the only value the translator accepts:
   a class constant nothing in the package stores to) it only sends; the else-branch `self.switchToBanana({})` would register
   self.target on a client without any check (and fail with AttributeError on a listener: self.theirTubRef does not exist yet).
   The else-branch is written down so that the closed world is visible HERE: connection_made_switches / do_negotiation /
   switch_sites of gen/IdentityGen.v are read from the whole package; bytes_start_is_init (IdentityBytesProofs.v) is the proof
   that on this tree the branch is dead.  It is dead code of the model too and not compared with the implementation. *)
Definition b_connection_made_with (switches : bool) (r : role) (target : list Z) : bstate :=
  if switches
  then if is_client r
       then {| b_phase := RP PhBanana; b_their := None; b_attached := [attach_key true target []]; b_buf := []; b_fail := None;
               b_passed := [] |}
       else {| b_phase := initial_phase; b_their := None; b_attached := []; b_buf := []; b_fail := Some "AttributeError"%string;
               b_passed := [] |}
  else b_init.
Definition b_connection_made (r : role) (target : list Z) : bstate :=
  b_connection_made_with (connection_made_switches do_negotiation) r target.

Definition brecv_all (r : role) (my_id target : list Z) (p : presented cert) (chunks : list (list Z)) : bstate :=
  fold_left (brecv_chunk r my_id target p) chunks (b_connection_made r target).

(* handlePLAINTEXTClient / handlePLAINTEXTServer as one function of the role *)
Definition plain_guard (r : role) (my_id : list Z) (hdr : list Z) : res unit :=
  if is_client r then plaintext_client_guard decode hdr else plaintext_server_guard decode my_id redirect hdr.

End Bytes.
