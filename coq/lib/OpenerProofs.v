From Coq Require Import ZArith List Bool Lia ZifyBool.
Import ListNotations.
Require Import Verif.lib.PyLite Verif.gen.BananaGen Verif.lib.OpenerBase Verif.gen.OpenerGen.
Local Open Scope Z_scope.

(* gen/OpenerGen.v is produced by symbolic execution of the two openerCheckToken methods: whatever the arrangement of the
   tests in the source (if/elif chain, guard clauses, a helper computing the limit), the result is a nest of
   if-then-else over the same atomic tests.  The proofs below do not depend on that arrangement: they decide the
   type-byte tests, split on the remaining ones and finish by linear arithmetic. *)

Lemma bytes_eqb_eq a : forall b, bytes_eqb a b = true <-> a = b.
Proof.
  induction a as [|x a IH]; intros [|y b]; cbn; try (split; [discriminate|discriminate]); try (split; reflexivity).
  rewrite andb_true_iff, Z.eqb_eq, IH. split; [intros [-> ->]; reflexivity | intros H; inversion H; auto].
Qed.

Lemma ot_is_copyable_spec ot : ot_is_copyable ot = true <-> ot = [copyable_name].
Proof.
  destruct ot as [|c [|d r]]; cbn; try (split; [discriminate|discriminate]).
  rewrite bytes_eqb_eq. split; [intros ->; reflexivity | intros H; inversion H; reflexivity].
Qed.

Lemma string_is_string : (tok_STRING =? tok_STRING) = true.  Proof. reflexivity. Qed.
Lemma string_not_vocab : (tok_STRING =? tok_VOCAB) = false.   Proof. reflexivity. Qed.

Ltac split_ifs H :=
  repeat match type of H with
         | context [if ?c then _ else _] => let E := fresh "E" in destruct c eqn:E
         end.

(* H : <nest of ifs> = true, about a STRING token *)
Ltac string_case H :=
  rewrite ?string_is_string, ?string_not_vocab in H; cbn [negb andb orb] in H;
  split_ifs H; try discriminate; try lia.

(* ---- the Broker's root (PBRootUnslicer) ---- *)
Theorem pb_first_index_bounded mi lg size :
  pb_opener_accepts mi lg [] tok_STRING size = true -> size <= mi.
Proof.
  unfold pb_opener_accepts. intros H. cbn [List.length Nat.eqb ot_is_copyable] in H. string_case H.
Qed.

Theorem pb_classname_bounded mi lg size :
  pb_opener_accepts mi lg [copyable_name] tok_STRING size = true -> size <= lg.
Proof.
  unfold pb_opener_accepts. intros H. cbn [List.length Nat.eqb] in H.
  replace (ot_is_copyable [copyable_name]) with true in H by reflexivity. string_case H.
Qed.

Ltac kinds_case H ty :=
  destruct (Z.eqb_spec ty tok_STRING) as [Hs|Hs]; [left; exact Hs|];
  destruct (Z.eqb_spec ty tok_VOCAB) as [Hv|Hv]; [right; exact Hv|];
  cbn [negb andb orb] in H; split_ifs H; discriminate.

Theorem pb_index_kinds mi lg ot ty size :
  pb_opener_accepts mi lg ot ty size = true -> ty = tok_STRING \/ ty = tok_VOCAB.
Proof. unfold pb_opener_accepts. intros H. kinds_case H ty. Qed.

(* ---- the plain root (storage, and every Banana that is not a Broker) ---- *)
Theorem root_index_bounded mi lg ot size :
  root_opener_accepts mi lg ot tok_STRING size = true -> size <= Z.max mi lg.
Proof. unfold root_opener_accepts. intros H. string_case H. Qed.

Theorem root_non_copyable_bounded mi lg ot size :
  ot_is_copyable ot = false -> root_opener_accepts mi lg ot tok_STRING size = true -> size <= mi.
Proof. unfold root_opener_accepts. intros Hc H. rewrite ?Hc in H. string_case H. Qed.

Theorem root_index_kinds mi lg ot ty size :
  root_opener_accepts mi lg ot ty size = true -> ty = tok_STRING \/ ty = tok_VOCAB.
Proof. unfold root_opener_accepts. intros H. kinds_case H ty. Qed.

(* a second index token is awaited only after "copyable" (RootUnslicer.open, shape fact), so the two positions
   above are all the index positions there are *)
Theorem second_index_only_after_copyable : open_waits_only_for_copyable_name = true.
Proof. reflexivity. Qed.

Example pb_accepts_a_registered_name : pb_opener_accepts 15 30 [copyable_name] tok_STRING 30 = true /\
                                       pb_opener_accepts 15 30 [copyable_name] tok_STRING 31 = false /\
                                       pb_opener_accepts 15 30 [] tok_STRING 16 = false.
Proof. repeat split. Qed.
