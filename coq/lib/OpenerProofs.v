From Coq Require Import ZArith List Bool Lia.
Import ListNotations.
Require Import Verif.lib.PyLite Verif.gen.BananaGen Verif.lib.OpenerBase Verif.gen.OpenerGen.
Local Open Scope Z_scope.

Lemma bytes_eqb_eq a : forall b, bytes_eqb a b = true <-> a = b.
Proof.
  induction a as [|x a IH]; intros [|y b]; cbn; try (split; [discriminate|discriminate]); try (split; reflexivity).
  rewrite andb_true_iff, Z.eqb_eq, IH. split; [intros [-> ->]; reflexivity | intros H; inversion H; auto].
Qed.

Lemma ot_is_copyable_spec ot : ot_is_copyable ot = true <-> ot = [copyable_name].
Proof.
  destruct ot as [|c [|d r]]; cbn; try (split; [discriminate|discriminate]).
  rewrite bytes_eqb_eq. split; [intros ->; reflexivity | intros H; inversion H; reflexivity].
Qed.

Lemma string_not_vocab : (tok_STRING =? tok_VOCAB) = false.
Proof. reflexivity. Qed.

(* ---- the Broker's root (PBRootUnslicer) ---- *)
(* the first index token is bounded by the longest opentype string, the class name after OPEN copyable by the
   longest registered Copyable name *)
Theorem pb_first_index_bounded mi lg size :
  pb_opener_accepts mi lg [] tok_STRING size = true -> size <= mi.
Proof.
  unfold pb_opener_accepts. rewrite Z.eqb_refl. cbn [List.length Nat.eqb].
  destruct (Z.ltb_spec mi size); [discriminate | lia].
Qed.

Theorem pb_classname_bounded mi lg size :
  pb_opener_accepts mi lg [copyable_name] tok_STRING size = true -> size <= lg.
Proof.
  unfold pb_opener_accepts. rewrite Z.eqb_refl. cbn [List.length Nat.eqb].
  replace (ot_is_copyable [copyable_name]) with true by reflexivity.
  destruct (Z.ltb_spec lg size); [discriminate | lia].
Qed.

(* only STRING and VOCAB tokens may be index tokens *)
Theorem pb_index_kinds mi lg ot ty size :
  pb_opener_accepts mi lg ot ty size = true -> ty = tok_STRING \/ ty = tok_VOCAB.
Proof.
  unfold pb_opener_accepts. destruct (Z.eqb_spec ty tok_STRING); [auto|].
  destruct (Z.eqb_spec ty tok_VOCAB); [auto | discriminate].
Qed.

(* ---- the plain root (storage, and every Banana that is not a Broker) ---- *)
Theorem root_index_bounded mi lg ot size :
  root_opener_accepts mi lg ot tok_STRING size = true -> size <= Z.max mi lg.
Proof.
  unfold root_opener_accepts. rewrite Z.eqb_refl.
  destruct (ot_is_copyable ot).
  - destruct (Z.ltb_spec (Z.max mi lg) size); [discriminate | lia].
  - destruct (Z.ltb_spec mi size); [discriminate | lia].
Qed.

Theorem root_non_copyable_bounded mi lg ot size :
  ot_is_copyable ot = false -> root_opener_accepts mi lg ot tok_STRING size = true -> size <= mi.
Proof.
  unfold root_opener_accepts. rewrite Z.eqb_refl. intros ->.
  destruct (Z.ltb_spec mi size); [discriminate | lia].
Qed.

Theorem root_index_kinds mi lg ot ty size :
  root_opener_accepts mi lg ot ty size = true -> ty = tok_STRING \/ ty = tok_VOCAB.
Proof.
  unfold root_opener_accepts. destruct (Z.eqb_spec ty tok_STRING); [auto|].
  destruct (Z.eqb_spec ty tok_VOCAB); [auto | discriminate].
Qed.

(* a second index token is awaited only after "copyable" (RootUnslicer.open, shape fact), so the two positions
   above are all the index positions there are *)
Theorem second_index_only_after_copyable : open_waits_only_for_copyable_name = true.
Proof. reflexivity. Qed.

Example pb_accepts_a_registered_name : pb_opener_accepts 15 30 [copyable_name] tok_STRING 30 = true /\
                                       pb_opener_accepts 15 30 [copyable_name] tok_STRING 31 = false /\
                                       pb_opener_accepts 15 30 [] tok_STRING 16 = false.
Proof. repeat split. Qed.
