(* C04 x C07: proofs about lib/OrderBytes.v.  Chunk independence itself is C07's theorem (RecvProofs.feed_app /
   feed_all_concat), and "the incremental receiver emits decode's tokens" is ObjChunks.chunks_decode; both are reused. *)
From Coq Require Import ZArith List Bool Arith Lia Sorted.
Import ListNotations.
Require Import Verif.lib.PyLite Verif.gen.BananaGen Verif.lib.Token Verif.lib.TokenProofs Verif.lib.Recv Verif.lib.RecvProofs
        Verif.lib.ObjChunks Verif.gen.OrderGen Verif.lib.Order Verif.lib.OrderProofs Verif.lib.OrderBytes.

Definition cstable := stable unit token col_begin col_finish col_nobody [] [] (fun _ => []).

(* ---- framing *)
Lemma fscan_app st a b : fscan st (a ++ b) = fscan (fscan st a) b.
Proof. unfold fscan. apply fold_left_app. Qed.

Lemma fstep_mono st t : f_done st <= f_done (fstep st t).
Proof. destruct t; cbn [fstep f_done]; try lia. destruct (f_depth st) as [|[|d]]; cbn [f_done]; lia. Qed.

Lemma fscan_mono ts : forall st, f_done st <= f_done (fscan st ts).
Proof.
  induction ts as [|t ts IH]; intros st; cbn [fscan fold_left]; [lia|].
  etransitivity; [apply (fstep_mono st t) | apply IH].
Qed.

(* a serialization is framed when, read from depth 0, it ends exactly one top-level object and nothing more *)
Definition framed (ts : list token) : Prop :=
  forall n o, exists o', fscan (fmk 0 n o) ts = fmk 0 (S n) o'.

Lemma fscan_framed_calls {A} (ser : A -> list token) : (forall c, framed (ser c)) ->
  forall cs n o, exists o', fscan (fmk 0 n o) (concat (map ser cs)) = fmk 0 (n + List.length cs) o'.
Proof.
  intros F. induction cs as [|c cs IH]; intros n o; cbn [map concat List.length].
  - exists o. rewrite Nat.add_0_r. reflexivity.
  - rewrite fscan_app. destruct (F c n o) as [o1 ->]. destruct (IH (S n) o1) as [o2 ->]. exists o2. f_equal. lia.
Qed.

(* ---- the tokenizer on packets *)
Lemma cfeed_stable r c : cstable r -> cstable (fst (cfeed r c)).
Proof. apply feed_stable. Qed.

Lemma cfeed_app r x y : cstable r ->
  cfeed r (x ++ y) = let '(r1, e1) := cfeed r x in let '(r2, e2) := cfeed r1 y in (r2, e1 ++ e2).
Proof. apply feed_app. Qed.

Lemma cfeed_nil r : cstable r -> cfeed r [] = (r, []).
Proof. apply feed_nil. Qed.

Lemma cfeed_all_app cs1 : forall r cs2,
  cfeed_all r (cs1 ++ cs2) =
  let '(r1, e1) := cfeed_all r cs1 in let '(r2, e2) := cfeed_all r1 cs2 in (r2, e1 ++ e2).
Proof.
  unfold cfeed_all. induction cs1 as [|c cs1 IH]; intros r cs2; cbn [app feed_all].
  - destruct (feed_all _ _ _ _ _ _ _ _ r cs2); reflexivity.
  - destruct (feed _ _ _ _ _ _ _ _ r c) as [r1 e1]. rewrite IH.
    destruct (feed_all _ _ _ _ _ _ _ _ r1 cs1) as [r2 e2]. destruct (feed_all _ _ _ _ _ _ _ _ r2 cs2) as [r3 e3].
    rewrite app_assoc. reflexivity.
Qed.

(* packets that arrive later only ADD tokens: what has been tokenized is never revised *)
Theorem tokens_prefix cs1 cs2 : exists more, tokens_of_chunks (cs1 ++ cs2) = tokens_of_chunks cs1 ++ more.
Proof.
  unfold tokens_of_chunks. rewrite cfeed_all_app.
  destruct (cfeed_all (Recv.init tt) cs1) as [r1 e1]. destruct (cfeed_all r1 cs2) as [r2 e2]. exists e2. reflexivity.
Qed.

(* ... so the number of completed top-level objects (= Deliver steps performed) only grows with further packets *)
Theorem completed_monotone cs1 cs2 : completed cs1 <= completed (cs1 ++ cs2).
Proof.
  unfold completed. destruct (tokens_prefix cs1 cs2) as [more ->]. rewrite fscan_app. apply fscan_mono.
Qed.

(* C07 lifted: the Deliver steps are a function of the byte stream alone, not of its packetisation *)
Theorem completed_chunk_independent cs cs' : concat cs = concat cs' -> completed cs = completed cs'.
Proof.
  intros E. unfold completed, tokens_of_chunks, cfeed_all. rewrite (chunk_independent _ _ _ _ _ _ _ _ tt cs cs' E). reflexivity.
Qed.

(* a stream that consists of serialized calls: however it is cut into packets, the receiver completes exactly one
   top-level object per call -- no packet boundary merges, splits, duplicates or loses a Deliver *)
Theorem one_deliver_per_call {A} (ser : A -> list token) (calls : list A) bs cs :
  (forall c, framed (ser c)) ->
  forallb wf_token (concat (map ser calls)) = true -> forallb no_err (concat (map ser calls)) = true ->
  encode_stream (concat (map ser calls)) = Ok bs -> concat cs = bs ->
  completed cs = List.length calls.
Proof.
  intros F W NE E C. subst bs. unfold completed.
  rewrite (chunks_decode cs (concat (map ser calls))); [|apply stream_roundtrip; assumption|exact NE].
  destruct (fscan_framed_calls ser F calls 0 0) as [o' H]. unfold finit. rewrite H. reflexivity.
Qed.

(* ... and after the packets that end with the last byte of call j (the first j calls), exactly j; later packets only add *)
Corollary delivers_in_stream_order {A} (ser : A -> list token) (calls : list A) j bs1 cs1 cs2 :
  (forall c, framed (ser c)) ->
  forallb wf_token (concat (map ser (firstn j calls))) = true -> forallb no_err (concat (map ser (firstn j calls))) = true ->
  encode_stream (concat (map ser (firstn j calls))) = Ok bs1 -> concat cs1 = bs1 ->
  completed cs1 = List.length (firstn j calls) /\ List.length (firstn j calls) <= completed (cs1 ++ cs2).
Proof.
  intros F W NE E C. pose proof (one_deliver_per_call ser (firstn j calls) bs1 cs1 F W NE E C) as H.
  split; [exact H|]. rewrite <- H. apply completed_monotone.
Qed.

(* ---- the ordering model driven by packets *)
Lemma delivers_add a b s : delivers b (delivers a s) = delivers (a + b) s.
Proof. unfold delivers. rewrite repeat_app, fold_left_app. reflexivity. Qed.

Lemma run_app ops more : run (ops ++ more) = fold_left step more (run ops).
Proof. unfold run. apply fold_left_app. Qed.

(* a packet-driven history IS a history of the ordering model: every packet amounts to some number of Deliver steps *)
Theorem packets_refine_model bops : exists ops, b_model (brun bops) = run ops.
Proof.
  unfold brun. assert (G : forall bops b ops0, b_model b = run ops0 -> exists ops, b_model (fold_left bstep bops b) = run ops).
  { clear bops. induction bops as [|o bops IH]; intros b ops0 H; cbn [fold_left]; [exists ops0; exact H|].
    destruct o as [o|c]; cbn [bstep].
    - apply (IH _ (ops0 ++ [o])). cbn [b_model]. rewrite run_app, H. reflexivity.
    - destruct (cfeed (b_recv b) c) as [r' toks].
      apply (IH _ (ops0 ++ repeat Deliver (f_done (fscan (b_frame b) toks) - f_done (b_frame b)))).
      cbn [b_model]. rewrite run_app, H. reflexivity. }
  apply (G bops binit []). reflexivity.
Qed.

Theorem order_any_chunking bops :
  sublist (entered (b_model (brun bops))) (issued (b_model (brun bops))) /\ NoDup (entered (b_model (brun bops))).
Proof.
  destruct (packets_refine_model bops) as [ops ->]. split; [apply entered_in_issue_order | apply entered_at_most_once].
Qed.

(* two consecutive packets behave exactly like their concatenation, on the whole state (tokenizer, framing, ordering model) *)
Lemma bstep_app b x y : cstable (b_recv b) ->
  bstep (bstep b (BChunk x)) (BChunk y) = bstep b (BChunk (x ++ y)).
Proof.
  intros St. cbn [bstep]. rewrite (cfeed_app _ x y St).
  destruct (cfeed (b_recv b) x) as [r1 e1]. cbn [b_recv b_frame b_model].
  destruct (cfeed r1 y) as [r2 e2]. rewrite fscan_app.
  pose proof (fscan_mono e1 (b_frame b)) as M1. pose proof (fscan_mono e2 (fscan (b_frame b) e1)) as M2.
  rewrite delivers_add. f_equal. f_equal. lia.
Qed.

Lemma bstep_stable b o : cstable (b_recv b) -> cstable (b_recv (bstep b o)).
Proof.
  intros St. destruct o as [o|c]; cbn [bstep b_recv]; [exact St|].
  pose proof (cfeed_stable (b_recv b) c St) as H. destruct (cfeed (b_recv b) c) as [r' toks]. exact H.
Qed.

Lemma bfold_stable bops : forall b, cstable (b_recv b) -> cstable (b_recv (fold_left bstep bops b)).
Proof. induction bops as [|o bops IH]; intros b St; cbn [fold_left]; [exact St|]. apply IH, bstep_stable, St. Qed.

Lemma rechunk_from cs : forall b, cstable (b_recv b) ->
  fold_left bstep (map BChunk cs) b = bstep b (BChunk (concat cs)).
Proof.
  induction cs as [|c cs IH]; intros b St; cbn [map fold_left concat].
  - cbn [bstep]. rewrite (cfeed_nil _ St). cbn [fscan fold_left]. rewrite Nat.sub_diag. destruct b; reflexivity.
  - rewrite IH by (apply bstep_stable, St). apply bstep_app, St.
Qed.

(* "regardless of packetisation": anywhere in a history, a run of consecutive packets may be re-cut arbitrarily (same
   bytes) without changing anything -- the tokenizer, the framing state, the whole ordering model, hence what is entered *)
Theorem rechunking_changes_nothing pre cs cs' post : concat cs = concat cs' ->
  brun (pre ++ map BChunk cs ++ post) = brun (pre ++ map BChunk cs' ++ post).
Proof.
  intros E. unfold brun. rewrite !fold_left_app.
  assert (St : cstable (b_recv (fold_left bstep pre binit))) by (apply bfold_stable, init_stable).
  rewrite !rechunk_from by exact St. rewrite E. reflexivity.
Qed.

(* ------------------------------------------------------------------ *)
(* NOT BEFORE THE LAST BYTE.  The theorems above say how many objects a COMPLETE stream completes; these say when: the
   tokenizer hands a token upward only once its last byte has arrived, the framing counts an object only at its closing CLOSE,
   so a call is delivered exactly when its last byte has arrived -- and the packets that carry the bytes of the model's `wire`
   amount to exactly the Deliver steps of the calls they carry completely. *)

Lemma ctok_step_no_skip b c' es n : ctok_step tt b <> TSkip unit token c' es n.
Proof.
  unfold ctok_step, tok_step, col_begin. destruct (scan_header 64 [] b) as [| |ds ty rest]; try discriminate.
  destruct (ty =? tok_ERROR)%Z.
  { destruct (SIZE_LIMIT <? le128 ds)%Z; [discriminate|]. destruct (lenZ rest <? le128 ds)%Z; discriminate. }
  destruct (has_body ty).
  - destruct (lenZ rest <? blen ty (le128 ds))%Z; [discriminate|]. destruct (col_finish _ _ _ _); discriminate.
  - destruct (col_nobody _ _ _); discriminate.
Qed.

(* a proper prefix p of a stream that decodes cleanly into ts yields a proper prefix of ts: at least the last token is missing *)
Lemma cloop_proper_prefix : forall fuel bs ts, decode_all fuel bs = (ts, EndClean) -> forallb no_err ts = true ->
  forall p q f2, bs = p ++ q -> q <> [] -> (List.length p < f2)%nat ->
  exists ts1 ts2, ts = ts1 ++ ts2 /\ ts2 <> [] /\ snd (cloop f2 tt p) = ts1.
Proof.
  induction fuel as [|f IH]; intros bs ts D NE p q f2 E Q L; [discriminate|]. cbn [decode_all] in D.
  destruct bs as [|b0 bs']. { destruct p; [|discriminate]. destruct q; [contradiction Q; reflexivity|discriminate]. }
  destruct (scan_token (b0 :: bs')) as [| |t rest] eqn:S; try discriminate.
  destruct (interp t) as [tk|] eqn:I; [|discriminate].
  destruct (decode_all f rest) as [ts' e] eqn:D'. inversion D; subst ts e; clear D.
  cbn [forallb] in NE. apply andb_true_iff in NE as [N1 N2].
  pose proof (tok_step_scan _ _ _ _ S I N1) as T. rewrite E in T.
  destruct f2 as [|f2]; [lia|].
  destruct p as [|p0 p'].
  { exists [], (tk :: ts'). split; [reflexivity|]. split; [discriminate|]. reflexivity. }
  unfold cloop. rewrite loop_cons. fold ctok_step. fold cloop.
  destruct (ctok_step tt (p0 :: p')) as [|c' es n|c' es restp|es] eqn:Tp.
  - exists [], (tk :: ts'). split; [reflexivity|]. split; [discriminate|]. reflexivity.
  - exfalso. exact (ctok_step_no_skip _ _ _ _ Tp).
  - pose proof (tok_step_app_cont _ _ _ _ _ _ _ _ _ (p0 :: p') q c' es restp Tp) as T2. fold ctok_step in T2.
    rewrite T in T2. inversion T2; subst c' es rest.
    pose proof (tok_step_cont_length _ _ _ _ _ _ _ _ _ _ _ _ _ Tp) as Lr.
    destruct (IH (restp ++ q) ts' D' N2 restp q f2 eq_refl Q ltac:(cbn [List.length] in *; lia)) as (ts1 & ts2 & E1 & E2 & E3).
    exists (tk :: ts1), ts2. split; [rewrite E1; reflexivity|]. split; [exact E2|].
    destruct (cloop f2 tt restp) as [s1 es1]. cbn [snd] in *. rewrite E3. reflexivity.
  - exfalso. pose proof (tok_step_app_dead _ _ _ _ _ _ _ _ _ (p0 :: p') q es Tp) as T2. fold ctok_step in T2.
    rewrite T in T2. discriminate.
Qed.

Theorem tokens_before_last_byte cs p q ts : decode (p ++ q) = (ts, EndClean) -> forallb no_err ts = true -> q <> [] -> concat cs = p ->
  exists ts1 ts2, ts = ts1 ++ ts2 /\ ts2 <> [] /\ tokens_of_chunks cs = ts1.
Proof.
  intros D NE Q C. unfold tokens_of_chunks, cfeed_all. rewrite feed_all_is_run, C.
  unfold Recv.run, feed. cbn [Recv.init Recv.mk r_dead r_skip r_buf r_ctx]. cbn [Z.ltb andb Z.to_nat skipn app].
  fold cloop. unfold decode in D.
  apply (cloop_proper_prefix _ _ _ D NE p q (S (List.length p)) eq_refl Q). lia.
Qed.

Lemma encode_stream_app a : forall b x y, encode_stream a = Ok x -> encode_stream b = Ok y -> encode_stream (a ++ b) = Ok (x ++ y).
Proof.
  induction a as [|t a IH]; intros b x y Ea Eb; cbn [app encode_stream] in *.
  - inversion Ea; subst x. exact Eb.
  - unfold bind in *. destruct (encode_token t []) as [bt|]; [|discriminate].
    destruct (encode_stream a) as [ba|] eqn:E; [|discriminate]. inversion Ea; subst x.
    rewrite (IH b ba y eq_refl Eb). rewrite app_assoc. reflexivity.
Qed.

(* what has been tokenized of a stream that starts with the complete bytes bs1: the tokens of bs1, then more *)
Lemma tokens_after_complete cs bs1 p ts1 : decode bs1 = (ts1, EndClean) -> forallb no_err ts1 = true -> concat cs = bs1 ++ p ->
  exists more, tokens_of_chunks cs = ts1 ++ more.
Proof.
  intros D NE C.
  assert (E : tokens_of_chunks cs = tokens_of_chunks ([bs1] ++ [p])).
  { unfold tokens_of_chunks, cfeed_all. rewrite (chunk_independent _ _ _ _ _ _ _ _ tt cs ([bs1] ++ [p])); [reflexivity|].
    cbn [app concat]. rewrite app_nil_r. exact C. }
  rewrite E. destruct (tokens_prefix [bs1] [p]) as [more ->]. exists more. f_equal.
  apply chunks_decode; [cbn [concat]; rewrite app_nil_r; exact D | exact NE].
Qed.

(* strict framing: the object is complete at the LAST token of its serialization and at no earlier one *)
Definition framed_strict (ts : list token) : Prop :=
  framed ts /\ forall ts1 ts2, ts = ts1 ++ ts2 -> ts2 <> [] -> forall n o, f_done (fscan (fmk 0 n o) ts1) = n.

(* the bytes of `calls`, complete, followed by the bytes of call c cut into p ++ q, of which p has arrived -- in any packets:
   c is delivered iff q = [], i.e. exactly when its last byte has arrived; the calls before it are, c's successors are not *)
Theorem delivered_exactly_at_last_byte {A} (ser : A -> list token) (calls : list A) (c : A) bs1 p q cs :
  (forall c, framed_strict (ser c)) ->
  forallb wf_token (concat (map ser (calls ++ [c]))) = true -> forallb no_err (concat (map ser (calls ++ [c]))) = true ->
  encode_stream (concat (map ser calls)) = Ok bs1 -> encode_stream (ser c) = Ok (p ++ q) -> concat cs = bs1 ++ p ->
  completed cs = match q with [] => S (List.length calls) | _ => List.length calls end.
Proof.
  intros F W NE E1 Ec C.
  assert (Eall : encode_stream (concat (map ser (calls ++ [c]))) = Ok (bs1 ++ p ++ q)).
  { rewrite map_app, concat_app. cbn [map concat]. rewrite app_nil_r. apply encode_stream_app; assumption. }
  destruct q as [|q0 q'].
  - rewrite app_nil_r in *.
    rewrite (one_deliver_per_call ser (calls ++ [c]) (bs1 ++ p) cs (fun x => proj1 (F x)) W NE Eall C).
    rewrite app_length. cbn [List.length]. lia.
  - pose proof (stream_roundtrip _ _ W Eall) as D.
    assert (Q : q0 :: q' <> []) by discriminate.
    destruct (tokens_before_last_byte cs (bs1 ++ p) (q0 :: q') _ ltac:(rewrite <- app_assoc; exact D) NE Q C) as (ts1 & ts2 & T1 & T2 & T3).
    rewrite map_app, concat_app, forallb_app in W, NE. cbn [map concat] in W, NE. rewrite app_nil_r in W, NE.
    apply andb_true_iff in W as [W1 W2]. apply andb_true_iff in NE as [NE1 NE2].
    destruct (tokens_after_complete cs bs1 p _ (stream_roundtrip _ _ W1 E1) NE1 C) as [more M].
    subst ts1. rewrite map_app, concat_app in T1. cbn [map concat] in T1. rewrite app_nil_r, M, <- app_assoc in T1.
    apply app_inv_head in T1.
    unfold completed. rewrite M, fscan_app.
    destruct (fscan_framed_calls ser (fun x => proj1 (F x)) calls 0 0) as [o' H]. unfold finit. rewrite H. cbn [Nat.add].
    exact (proj2 (F c) more ts2 T1 T2 (List.length calls) o').
Qed.

(* ---- the same about the MODEL's wire: Deliver steps take the calls off the wire in order ... *)
Lemma deliver_wire s : lost s = false -> cut s = None ->
  wire (deliver s) = tl (wire s) /\ lost (deliver s) = false /\ cut (deliver s) = None.
Proof.
  intros L C. unfold deliver. rewrite L. unfold in_flight, cut_pred. rewrite C. cbn [negb].
  destruct (wire s) as [|c w] eqn:Ew; [rewrite Ew; auto|]. destruct (cfate c); cbn [wire lost cut tl]; auto.
Qed.

Lemma delivers_wire k : forall s, lost s = false -> cut s = None ->
  wire (delivers k s) = skipn k (wire s) /\ lost (delivers k s) = false /\ cut (delivers k s) = None.
Proof.
  unfold delivers. induction k as [|k IH]; intros s L C; cbn [repeat fold_left skipn]; [auto|].
  cbn [step]. destruct (deliver_wire s L C) as (H1 & H2 & H3). destruct (IH (deliver s) H2 H3) as (I1 & I2 & I3).
  rewrite I1, H1. split; [|auto]. destruct (wire s); cbn [tl]; [apply skipn_nil|reflexivity].
Qed.

(* ... and the packets that carry the bytes of the wire -- the calls `calls` completely, then p of call c's p ++ q -- are, on the
   whole state, exactly the Deliver steps of the calls whose last byte they carry: those leave the wire, c stays unless q = [].
   (The receiver is between two top-level objects when the first of these bytes arrives.) *)
Theorem wire_bytes_are_delivers (ser : call -> list token) b calls c later bs1 p q cs :
  (forall c, framed_strict (ser c)) ->
  b_recv b = Recv.init tt -> f_depth (b_frame b) = 0 ->
  lost (b_model b) = false -> cut (b_model b) = None -> wire (b_model b) = calls ++ c :: later ->
  forallb wf_token (concat (map ser (calls ++ [c]))) = true -> forallb no_err (concat (map ser (calls ++ [c]))) = true ->
  encode_stream (concat (map ser calls)) = Ok bs1 -> encode_stream (ser c) = Ok (p ++ q) -> concat cs = bs1 ++ p ->
  let b' := fold_left bstep (map BChunk cs) b in
  let k := match q with [] => S (List.length calls) | _ => List.length calls end in
  b_model b' = delivers k (b_model b) /\
  wire (b_model b') = match q with [] => later | _ => c :: later end.
Proof.
  intros F R0 D0 L C Wi W NE E1 Ec Cc b' k.
  assert (St : cstable (b_recv b)) by (rewrite R0; apply init_stable).
  assert (K : completed cs = k) by (apply (delivered_exactly_at_last_byte ser calls c bs1 p q cs F W NE E1 Ec Cc)).
  assert (M : b_model b' = delivers k (b_model b)).
  { subst b'. rewrite (rechunk_from cs b St). cbn [bstep]. rewrite R0.
    unfold completed, tokens_of_chunks, cfeed_all in K. rewrite feed_all_is_run in K. unfold Recv.run in K. fold cfeed in K.
    destruct (cfeed (Recv.init tt) (concat cs)) as [r' toks]. cbn [snd] in K. cbn [b_model].
    destruct (b_frame b) as [d n o]. cbn [f_depth] in D0. subst d. cbn [f_done].
    assert (Sh : forall ts n o, f_done (fscan (fmk 0 n o) ts) = n + f_done (fscan finit ts) /\
                               f_depth (fscan (fmk 0 n o) ts) = f_depth (fscan finit ts)).
    { clear. intros ts. induction ts as [|t ts IH] using rev_ind; intros n o; [cbn; split; lia|].
      rewrite !fscan_app. cbn [fscan fold_left]. destruct (IH n o) as [I1 I2].
      destruct (fscan (fmk 0 n o) ts) as [d1 n1 o1], (fscan finit ts) as [d2 n2 o2]. cbn [f_done f_depth] in *. subst d2 n1.
      destruct t; cbn [fstep f_done f_depth]; try (split; lia). destruct d1 as [|[|d]]; cbn [f_done f_depth]; split; lia. }
    rewrite (proj1 (Sh toks n o)), K. f_equal. lia. }
  split; [exact M|]. rewrite M. destruct (delivers_wire k (b_model b) L C) as [Hw _]. rewrite Hw, Wi. subst k.
  destruct q; clear; induction calls as [|x r IH]; cbn [List.length app skipn]; auto.
Qed.

(* ---- non-vacuity *)
Lemma ser_call_framed k : framed (ser_call k).
Proof. intros n o. eexists. reflexivity. Qed.

(* three calls, bytes delivered one at a time / in two odd pieces / at once: three Delivers each time, and the
   packet-driven model enters 0,1,2 *)
Example three_calls_bytewise :
  match encode_stream (concat (map ser_call [0; 1; 2])) with
  | Ok bs =>
    completed (map (fun b => [b]) bs) = 3 /\ completed [firstn 17 bs; []; skipn 17 bs] = 3 /\ completed [bs] = 3 /\
    entered (b_model (brun ([BModel (Issue 0 FPlain); BModel (Issue 0 FPlain); BModel (Issue 0 FPlain)] ++
                            map (fun b => BChunk [b]) bs ++ [BModel Turn; BModel Turn; BModel Turn]))) = [0; 1; 2]
  | Exc _ => False
  end.
Proof. vm_compute. repeat split; reflexivity. Qed.

Lemma ser_call_framed_strict k : framed_strict (ser_call k).
Proof.
  split; [apply ser_call_framed|]. intros ts1 ts2 E Q n o. unfold ser_call in E.
  repeat (destruct ts1 as [|? ts1]; [reflexivity|cbn [app] in E; injection E as <- E]).
  destruct ts1; [|discriminate E]. cbn [app] in E. subst ts2. contradiction Q; reflexivity.
Qed.

(* the bytes of calls 0 and 1 and all but the last byte of call 2: two Delivers, in any packets; the last byte brings the third;
   inside call 0 (its OPEN has long arrived): none *)
Example not_before_the_last_byte :
  match encode_stream (concat (map ser_call [0; 1; 2])) with
  | Ok bs =>
    completed [removelast bs] = 2 /\ completed (map (fun b => [b]) (removelast bs)) = 2 /\ completed [removelast bs; [last bs 0%Z]] = 3 /\
    completed [firstn 20 bs] = 0 /\ completed [firstn 1 bs] = 0
  | Exc _ => False
  end.
Proof. vm_compute. repeat split; reflexivity. Qed.

(* and on the model: two calls on the wire, their bytes arrive without the very last one: call 0 leaves the wire, call 1 stays *)
Example wire_bytes_example :
  let s := run [Issue 0 FPlain; Issue 0 FPlain] in
  match encode_stream (concat (map (fun c => ser_call (cid c)) (wire s))) with
  | Ok bs =>
    ids (wire (b_model (fold_left bstep (map BChunk [firstn 9 bs; skipn 9 (removelast bs)]) (bmk s (Recv.init tt) finit)))) = [1] /\
    ids (wire (b_model (fold_left bstep (map BChunk [firstn 9 bs; skipn 9 bs]) (bmk s (Recv.init tt) finit)))) = []
  | Exc _ => False
  end.
Proof. vm_compute. split; reflexivity. Qed.
