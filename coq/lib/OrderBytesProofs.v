(* C04 x C07: proofs about lib/OrderBytes.v.  Chunk independence itself is C07's theorem (RecvProofs.feed_app /
   feed_all_concat), and "the incremental receiver emits decode's tokens" is ObjChunks.chunks_decode; both are reused. *)
From Coq Require Import ZArith List Bool Arith Lia Sorted.
Import ListNotations.
Require Import Verif.lib.PyLite Verif.gen.BananaGen Verif.lib.Token Verif.lib.TokenProofs Verif.lib.Recv Verif.lib.RecvProofs
        Verif.lib.ObjChunks Verif.gen.OrderGen Verif.lib.Order Verif.lib.OrderProofs Verif.lib.OrderBytes.

Definition cstable := stable unit token col_begin col_finish col_nobody [] [] (fun _ => []).

(* ---- framing *)
Lemma fscan_app st a b : fscan st (a ++ b) = fscan (fscan st a) b.
Proof. unfold fscan. apply fold_left_app. Qed.

Lemma fstep_mono st t : f_done st <= f_done (fstep st t).
Proof. destruct t; cbn [fstep f_done]; try lia. destruct (f_depth st) as [|[|d]]; cbn [f_done]; lia. Qed.

Lemma fscan_mono ts : forall st, f_done st <= f_done (fscan st ts).
Proof.
  induction ts as [|t ts IH]; intros st; cbn [fscan fold_left]; [lia|].
  etransitivity; [apply (fstep_mono st t) | apply IH].
Qed.

(* a serialization is framed when, read from depth 0, it ends exactly one top-level object and nothing more *)
Definition framed (ts : list token) : Prop :=
  forall n o, exists o', fscan (fmk 0 n o) ts = fmk 0 (S n) o'.

Lemma fscan_framed_calls {A} (ser : A -> list token) : (forall c, framed (ser c)) ->
  forall cs n o, exists o', fscan (fmk 0 n o) (concat (map ser cs)) = fmk 0 (n + List.length cs) o'.
Proof.
  intros F. induction cs as [|c cs IH]; intros n o; cbn [map concat List.length].
  - exists o. rewrite Nat.add_0_r. reflexivity.
  - rewrite fscan_app. destruct (F c n o) as [o1 ->]. destruct (IH (S n) o1) as [o2 ->]. exists o2. f_equal. lia.
Qed.

(* ---- the tokenizer on packets *)
Lemma cfeed_stable r c : cstable r -> cstable (fst (cfeed r c)).
Proof. apply feed_stable. Qed.

Lemma cfeed_app r x y : cstable r ->
  cfeed r (x ++ y) = let '(r1, e1) := cfeed r x in let '(r2, e2) := cfeed r1 y in (r2, e1 ++ e2).
Proof. apply feed_app. Qed.

Lemma cfeed_nil r : cstable r -> cfeed r [] = (r, []).
Proof. apply feed_nil. Qed.

Lemma cfeed_all_app cs1 : forall r cs2,
  cfeed_all r (cs1 ++ cs2) =
  let '(r1, e1) := cfeed_all r cs1 in let '(r2, e2) := cfeed_all r1 cs2 in (r2, e1 ++ e2).
Proof.
  unfold cfeed_all. induction cs1 as [|c cs1 IH]; intros r cs2; cbn [app feed_all].
  - destruct (feed_all _ _ _ _ _ _ _ _ r cs2); reflexivity.
  - destruct (feed _ _ _ _ _ _ _ _ r c) as [r1 e1]. rewrite IH.
    destruct (feed_all _ _ _ _ _ _ _ _ r1 cs1) as [r2 e2]. destruct (feed_all _ _ _ _ _ _ _ _ r2 cs2) as [r3 e3].
    rewrite app_assoc. reflexivity.
Qed.

(* packets that arrive later only ADD tokens: what has been tokenized is never revised *)
Theorem tokens_prefix cs1 cs2 : exists more, tokens_of_chunks (cs1 ++ cs2) = tokens_of_chunks cs1 ++ more.
Proof.
  unfold tokens_of_chunks. rewrite cfeed_all_app.
  destruct (cfeed_all (Recv.init tt) cs1) as [r1 e1]. destruct (cfeed_all r1 cs2) as [r2 e2]. exists e2. reflexivity.
Qed.

(* ... so the number of completed top-level objects (= Deliver steps performed) only grows with further packets *)
Theorem completed_monotone cs1 cs2 : completed cs1 <= completed (cs1 ++ cs2).
Proof.
  unfold completed. destruct (tokens_prefix cs1 cs2) as [more ->]. rewrite fscan_app. apply fscan_mono.
Qed.

(* C07 lifted: the Deliver steps are a function of the byte stream alone, not of its packetisation *)
Theorem completed_chunk_independent cs cs' : concat cs = concat cs' -> completed cs = completed cs'.
Proof.
  intros E. unfold completed, tokens_of_chunks, cfeed_all. rewrite (chunk_independent _ _ _ _ _ _ _ _ tt cs cs' E). reflexivity.
Qed.

(* a stream that consists of serialized calls: however it is cut into packets, the receiver completes exactly one
   top-level object per call -- no packet boundary merges, splits, duplicates or loses a Deliver *)
Theorem one_deliver_per_call {A} (ser : A -> list token) (calls : list A) bs cs :
  (forall c, framed (ser c)) ->
  forallb wf_token (concat (map ser calls)) = true -> forallb no_err (concat (map ser calls)) = true ->
  encode_stream (concat (map ser calls)) = Ok bs -> concat cs = bs ->
  completed cs = List.length calls.
Proof.
  intros F W NE E C. subst bs. unfold completed.
  rewrite (chunks_decode cs (concat (map ser calls))); [|apply stream_roundtrip; assumption|exact NE].
  destruct (fscan_framed_calls ser F calls 0 0) as [o' H]. unfold finit. rewrite H. reflexivity.
Qed.

(* ... and after the packets that end with the last byte of call j (the first j calls), exactly j; later packets only add *)
Corollary delivers_in_stream_order {A} (ser : A -> list token) (calls : list A) j bs1 cs1 cs2 :
  (forall c, framed (ser c)) ->
  forallb wf_token (concat (map ser (firstn j calls))) = true -> forallb no_err (concat (map ser (firstn j calls))) = true ->
  encode_stream (concat (map ser (firstn j calls))) = Ok bs1 -> concat cs1 = bs1 ->
  completed cs1 = List.length (firstn j calls) /\ List.length (firstn j calls) <= completed (cs1 ++ cs2).
Proof.
  intros F W NE E C. pose proof (one_deliver_per_call ser (firstn j calls) bs1 cs1 F W NE E C) as H.
  split; [exact H|]. rewrite <- H. apply completed_monotone.
Qed.

(* ---- the ordering model driven by packets *)
Lemma delivers_add a b s : delivers b (delivers a s) = delivers (a + b) s.
Proof. unfold delivers. rewrite repeat_app, fold_left_app. reflexivity. Qed.

Lemma run_app ops more : run (ops ++ more) = fold_left step more (run ops).
Proof. unfold run. apply fold_left_app. Qed.

(* a packet-driven history IS a history of the ordering model: every packet amounts to some number of Deliver steps *)
Theorem packets_refine_model bops : exists ops, b_model (brun bops) = run ops.
Proof.
  unfold brun. assert (G : forall bops b ops0, b_model b = run ops0 -> exists ops, b_model (fold_left bstep bops b) = run ops).
  { clear bops. induction bops as [|o bops IH]; intros b ops0 H; cbn [fold_left]; [exists ops0; exact H|].
    destruct o as [o|c]; cbn [bstep].
    - apply (IH _ (ops0 ++ [o])). cbn [b_model]. rewrite run_app, H. reflexivity.
    - destruct (cfeed (b_recv b) c) as [r' toks].
      apply (IH _ (ops0 ++ repeat Deliver (f_done (fscan (b_frame b) toks) - f_done (b_frame b)))).
      cbn [b_model]. rewrite run_app, H. reflexivity. }
  apply (G bops binit []). reflexivity.
Qed.

Theorem order_any_chunking bops :
  sublist (entered (b_model (brun bops))) (issued (b_model (brun bops))) /\ NoDup (entered (b_model (brun bops))).
Proof.
  destruct (packets_refine_model bops) as [ops ->]. split; [apply entered_in_issue_order | apply entered_at_most_once].
Qed.

(* two consecutive packets behave exactly like their concatenation, on the whole state (tokenizer, framing, ordering model) *)
Lemma bstep_app b x y : cstable (b_recv b) ->
  bstep (bstep b (BChunk x)) (BChunk y) = bstep b (BChunk (x ++ y)).
Proof.
  intros St. cbn [bstep]. rewrite (cfeed_app _ x y St).
  destruct (cfeed (b_recv b) x) as [r1 e1]. cbn [b_recv b_frame b_model].
  destruct (cfeed r1 y) as [r2 e2]. rewrite fscan_app.
  pose proof (fscan_mono e1 (b_frame b)) as M1. pose proof (fscan_mono e2 (fscan (b_frame b) e1)) as M2.
  rewrite delivers_add. f_equal. f_equal. lia.
Qed.

Lemma bstep_stable b o : cstable (b_recv b) -> cstable (b_recv (bstep b o)).
Proof.
  intros St. destruct o as [o|c]; cbn [bstep b_recv]; [exact St|].
  pose proof (cfeed_stable (b_recv b) c St) as H. destruct (cfeed (b_recv b) c) as [r' toks]. exact H.
Qed.

Lemma bfold_stable bops : forall b, cstable (b_recv b) -> cstable (b_recv (fold_left bstep bops b)).
Proof. induction bops as [|o bops IH]; intros b St; cbn [fold_left]; [exact St|]. apply IH, bstep_stable, St. Qed.

Lemma rechunk_from cs : forall b, cstable (b_recv b) ->
  fold_left bstep (map BChunk cs) b = bstep b (BChunk (concat cs)).
Proof.
  induction cs as [|c cs IH]; intros b St; cbn [map fold_left concat].
  - cbn [bstep]. rewrite (cfeed_nil _ St). cbn [fscan fold_left]. rewrite Nat.sub_diag. destruct b; reflexivity.
  - rewrite IH by (apply bstep_stable, St). apply bstep_app, St.
Qed.

(* "regardless of packetisation": anywhere in a history, a run of consecutive packets may be re-cut arbitrarily (same
   bytes) without changing anything -- the tokenizer, the framing state, the whole ordering model, hence what is entered *)
Theorem rechunking_changes_nothing pre cs cs' post : concat cs = concat cs' ->
  brun (pre ++ map BChunk cs ++ post) = brun (pre ++ map BChunk cs' ++ post).
Proof.
  intros E. unfold brun. rewrite !fold_left_app.
  assert (St : cstable (b_recv (fold_left bstep pre binit))) by (apply bfold_stable, init_stable).
  rewrite !rechunk_from by exact St. rewrite E. reflexivity.
Qed.

(* ---- non-vacuity *)
Lemma ser_call_framed k : framed (ser_call k).
Proof. intros n o. eexists. reflexivity. Qed.

(* three calls, bytes delivered one at a time / in two odd pieces / at once: three Delivers each time, and the
   packet-driven model enters 0,1,2 *)
Example three_calls_bytewise :
  match encode_stream (concat (map ser_call [0; 1; 2])) with
  | Ok bs =>
    completed (map (fun b => [b]) bs) = 3 /\ completed [firstn 17 bs; []; skipn 17 bs] = 3 /\ completed [bs] = 3 /\
    entered (b_model (brun ([BModel (Issue 0 FPlain); BModel (Issue 0 FPlain); BModel (Issue 0 FPlain)] ++
                            map (fun b => BChunk [b]) bs ++ [BModel Turn; BModel Turn; BModel Turn]))) = [0; 1; 2]
  | Exc _ => False
  end.
Proof. vm_compute. repeat split; reflexivity. Qed.
