(* C13: the negotiation at the level of the bytes on the wire, and the phase machine of Negotiation.dataReceived.
   Built from the TRANSLATED codec (gen/NegCodecGen.v: parseLines, sendBlock, block keys, dispatch, error_report, phase
   stores), the block splitter of lib/NegSplit.v and the record-level decision functions of lib/Negotiate.v.
   Model only. *)
From Coq Require Import ZArith List String Bool Lia.
Import ListNotations.
Require Import Verif.lib.PyLite Verif.gen.NegotiateGen Verif.lib.Negotiate Verif.lib.NegCodec Verif.gen.NegCodecGen Verif.lib.NegSplit.
Local Open Scope Z_scope.

(* ---- field parsing *)
(* `min_s, max_s = s.split()` then int(min_s), int(max_s): exactly two fields *)
Definition parse_pair_strict (s : bytes) : res (Z * Z) :=
  match ws_split s with
  | [a; b] => bind (py_int a) (fun x => bind (py_int b) (fun y => Ok (x, y)))
  | _ => Exc "ValueError"
  end.

(* `r = s.split(); lo = int(r[0]); hi = int(r[1])`: further fields are ignored *)
Definition parse_pair_lax (s : bytes) : res (Z * Z) :=
  match ws_split s with
  | [] => Exc "IndexError"
  | a :: r => bind (py_int a) (fun x => match r with [] => Exc "IndexError" | b :: _ => bind (py_int b) (fun y => Ok (x, y)) end)
  end.

Definition fmt_pair (a b : Z) : bytes := fmt_d a ++ [32] ++ fmt_d b.

Section Wire.
(* how a table hash (kept as a number in lib/Negotiate.v) is written in a decision block: hashVocabTable returns four hex digits *)
Variable hf : Z -> bytes.

(* ---- the hello block: Negotiation.__init__ (negotiationOffer) + sendHello *)
Definition hello_block (e : endpoint) : dict :=
  dset (dset (dset [] hello_key_version_range_written (fmt_pair (ep_vmin e) (ep_vmax e)))
             hello_key_vocab_range_written (fmt_pair (ep_vocmin e) (ep_vocmax e)))
       hello_key_tubid_written (ep_id e).

(* handleENCRYPTED + evaluateHello on a parsed block: the version both will use *)
Definition eval_hello_wire (me : endpoint) (offer : dict) : res Z :=
  match dget offer error_key with
  | Some _ => Exc "RemoteNegotiationError"
  | None =>
    match dget offer hello_key_version_range_written with
    | None => Exc "NegotiationError"
    | Some s => bind (parse_pair_strict s) (fun p => best_overlap (ep_vmin me) (ep_vmax me) (fst p) (snd p))
    end
  end.

(* the peer's id as claimed in the block (that it matches the certificate is C05's subject) *)
Definition claimed_id (offer : dict) : option bytes := dget offer hello_key_tubid_written.

(* decider's part of evaluateNegotiationVersion1: the decision block, and the parameters the decider keeps for its own Broker *)
Definition decide_wire (me : endpoint) (offer : dict) (ver : Z) : res (dict * params) :=
  let s := match dget offer hello_key_vocab_range_written with Some s => s | None => [48; 32; 48] end in
  bind (parse_pair_lax s) (fun p =>
  bind (best_overlap (ep_vocmin me) (ep_vocmax me) (fst p) (snd p)) (fun idx =>
  Ok (dset (dset [] decision_key_vocab_written (fmt_d idx ++ [32] ++ hf (ep_hash me idx)))
           decision_key_version_written (fmt_d ver),
      {| p_version := ver; p_vocab := idx |}))).

(* handleDECIDING: acceptDecision + acceptDecisionVersion1 on a parsed block *)
Definition accept_wire (me : endpoint) (d : dict) : res params :=
  match dget d decision_key_version_written with
  | None => Exc "NegotiationError"
  | Some vs =>
    if list_is_nil vs then Exc "NegotiationError"
    else
      bind (py_int vs) (fun ver =>
      if negb (ep_accepts me ver) then Exc "AttributeError"
      else
        match dget d error_key with
        | Some _ => Exc "RemoteNegotiationError"
        | None =>
          bind (match dget d decision_key_vocab_written with
                | None => Ok (0, None)
                | Some s => if list_is_nil s then Ok (0, None)
                            else match ws_split s with
                                 | [a; h] => bind (py_int a) (fun i => Ok (i, Some h))
                                 | _ => Exc "ValueError"
                                 end
                end) (fun ih =>
          let idx := fst ih in
          bind (check_inrange (ep_vocmin me) (ep_vocmax me) idx) (fun _ =>
          if (hash_checked_from_index <=? idx)
             && negb (match snd ih with Some h => list_eqb (hf (ep_hash me idx)) h | None => false end)
          then Exc "NegotiationError"
          else Ok {| p_version := ver; p_vocab := idx |}))
        end)
  end.

(* ---- one block across the wire: the sender's sendBlock, any bytes `rest` sent behind it, the receiver's splitter
   (lib/NegSplit.v, limits translated from dataReceived) and parseLines *)
Definition deliver (blk : dict) (rest : bytes) : res (dict * bytes) :=
  bind (sendBlock blk) (fun wire =>
  match find_term (wire ++ rest) with
  | None => Exc "no-terminator"
  | Some e => if (cap <? e)%nat then Exc "BananaError"
              else bind (parseLines (firstn e (wire ++ rest))) (fun d => Ok (d, skipn (e + 4) (wire ++ rest)))
  end).

(* ---- both ends, on the wire.  m is the decider.  Same skeleton as Negotiate.run (each end handles the peer's hello on its own;
   the decider sends its decision and switches at once), but every message is formatted, framed, split and parsed *)
Definition wire_run (m s : endpoint) : outcome * outcome :=
  let s_hello := bind (deliver (hello_block m) []) (fun o => eval_hello_wire s (fst o)) in
  match bind (deliver (hello_block s) []) (fun o => bind (eval_hello_wire m (fst o)) (fun ver => decide_wire m (fst o) ver)) with
  | Exc tm => (Failed tm, match s_hello with Exc ts => Failed ts | Ok _ => Failed "RemoteNegotiationError" end)
  | Ok dec =>
    match s_hello with
    | Exc ts => (SwitchedThenLost (snd dec), Failed ts)
    | Ok _ =>
      match bind (deliver (fst dec) []) (fun o => accept_wire s (fst o)) with
      | Exc t => (SwitchedThenLost (snd dec), Failed t)
      | Ok p => (Banana (snd dec), Banana p)
      end
    end
  end.

Definition wire_negotiate (a b : endpoint) : outcome * outcome :=
  if i_am_master (ep_id a) (ep_id b) then wire_run a b
  else if i_am_master (ep_id b) (ep_id a) then swap (wire_run b a)
  else (Failed "no-master", Failed "no-master").

End Wire.

(* ------------------------------------------------------------------------------------------------------------ *)
(* The phase machine of one Negotiation object.  What a header block does depends on the handler chosen by the TRANSLATED
   dispatch and on what the handler makes of the content; the content is abstracted to the handler's verdict. *)
Inductive verdict :=
| VGood            (* PLAINTEXT handlers: acceptable request / response.  DECIDING: acceptable decision *)
| VHelloIDecide    (* ENCRYPTED: acceptable hello, I am the decider and can accommodate the peer: decision sent *)
| VHelloIRefuse    (* ENCRYPTED: acceptable hello, I am the decider and refuse (no common table, duplicate connection) *)
| VHelloIWait      (* ENCRYPTED: acceptable hello, the peer decides *)
| VBad.            (* the handler raises: malformed content, incompatible offer, remote error block *)

Record nstate := { ns_recv : Z; ns_send : Z; ns_client : bool; ns_switched : bool; ns_dead : bool; ns_report : Z }.

Definition fail_with (s : nstate) (send_now : Z) : nstate :=
  {| ns_recv := ns_recv s; ns_send := send_now; ns_client := ns_client s; ns_switched := ns_switched s; ns_dead := true;
     ns_report := error_report send_now |}.

Definition set_phases (s : nstate) (r sd : Z) (sw : bool) : nstate :=
  {| ns_recv := r; ns_send := sd; ns_client := ns_client s; ns_switched := sw; ns_dead := false; ns_report := ns_report s |}.

(* one header block handed to dataReceived's dispatch *)
Definition on_block (s : nstate) (v : verdict) : nstate :=
  if ns_dead s || ns_switched s || input_ignored (ns_recv s) (ns_client s) then s
  else
    let h := dispatch (ns_recv s) (ns_client s) in
    if h =? 0 then      (* handlePLAINTEXTClient: startENCRYPTED *)
      match v with VGood => set_phases s ph_ENCRYPTED (ns_send s) false | _ => fail_with s (ns_send s) end
    else if h =? 1 then (* handlePLAINTEXTServer: sendPlaintextServerAndStartENCRYPTED *)
      match v with VGood => set_phases s ph_ENCRYPTED ph_ENCRYPTED false | _ => fail_with s (ns_send s) end
    else if h =? 2 then (* handleENCRYPTED: evaluateHello / evaluateNegotiationVersion1 / sendDecision *)
      match v with
      | VHelloIDecide => set_phases s (ns_recv s) ph_BANANA true
      | VHelloIRefuse => fail_with s ph_DECIDING
      | VHelloIWait => set_phases s ph_DECIDING ph_BANANA false
      | _ => fail_with s (ns_send s)
      end
    else if h =? 3 then (* handleDECIDING: acceptDecision, switchToBanana *)
      match v with VGood => set_phases s (ns_recv s) (ns_send s) true | _ => fail_with s (ns_send s) end
    else fail_with s (ns_send s).

(* connectionLost before the switch: negotiationFailed *)
Definition on_lost (s : nstate) : nstate :=
  if ns_switched s then s
  else {| ns_recv := ph_ABANDONED; ns_send := ns_send s; ns_client := ns_client s; ns_switched := false; ns_dead := true;
          ns_report := ns_report s |}.

Definition init_state (client : bool) : nstate :=
  {| ns_recv := ph_PLAINTEXT; ns_send := if client then ph_ENCRYPTED else ph_PLAINTEXT; ns_client := client;
     ns_switched := false; ns_dead := false; ns_report := 3 |}.

Definition run_blocks (s : nstate) (vs : list verdict) : nstate := fold_left on_block vs s.

Definition state_code (s : nstate) : list Z :=
  [ns_recv s; ns_send s; if ns_switched s then 1 else 0; if ns_dead s then 1 else 0; ns_report s].
