(* C14: who has a connection attempt under way, and when.  For all schedules of lib/Converge.v:
   a Tub has a live TubConnector only while it has no current connection; every connection it dialled whose own end
   is still negotiating belongs to that live connector; a hello sent by the dialling non-master carries last-connection. *)
From Coq Require Import ZArith List Bool Arith Lia.
Import ListNotations.
Require Import Verif.lib.PyLite Verif.gen.ConvergeGen Verif.lib.Converge Verif.lib.ConvergeProofs.

Definition xinv (s : state) : Prop :=
  (forall x, t_connector (tubof x s) <> None -> t_broker (tubof x s) = None) /\
  (forall x i, i < nconn s -> c_client (conns s i) = x -> negotiating (cend x (conns s i)) = true ->
               t_connector (tubof x s) = Some (c_gen (conns s i))) /\
  (forall i inc last, In (Hello inc last) (c_qsm (conns s i)) -> c_client (conns s i) = TS -> last <> None).

(* s' differs from s only harmlessly: connectors unchanged, no Tub got a NEW current connection, no end started negotiating, no new hello *)
Definition xframe (s s' : state) : Prop :=
  nconn s' = nconn s /\
  (forall x, t_connector (tubof x s') = t_connector (tubof x s) /\
             (t_broker (tubof x s') = None \/ t_broker (tubof x s') = t_broker (tubof x s))) /\
  (forall i, c_client (conns s' i) = c_client (conns s i) /\ c_gen (conns s' i) = c_gen (conns s i) /\
             (forall x, negotiating (cend x (conns s' i)) = true -> negotiating (cend x (conns s i)) = true) /\
             (forall inc last, In (Hello inc last) (c_qsm (conns s' i)) -> In (Hello inc last) (c_qsm (conns s i)))).

Lemma xframe_refl s : xframe s s.
Proof. unfold xframe. split; [reflexivity|]. split; [auto|]. intros i. auto. Qed.
Lemma xframe_trans s1 s2 s3 : xframe s1 s2 -> xframe s2 s3 -> xframe s1 s3.
Proof.
  intros (A0 & A1 & A2) (B0 & B1 & B2). split; [congruence|]. split.
  - intros x. destruct (A1 x) as [Ac Ab], (B1 x) as [Bc Bb]. split; [congruence|].
    destruct Bb as [Bb|Bb]; [left; exact Bb|]. destruct Ab as [Ab|Ab]; [left|right]; congruence.
  - intros i. destruct (A2 i) as (Aa & Ag & An & Ah), (B2 i) as (Ba & Bg & Bn & Bh).
    split; [congruence|]. split; [congruence|]. split; [intros x H; apply An, Bn, H|intros a b H; apply Ah, Bh, H].
Qed.
Lemma xframe_inv s s' : xframe s s' -> xinv s -> xinv s'.
Proof.
  intros (F0 & F1 & F2) (X1 & X3 & X4). split; [|split].
  - intros x Hc. destruct (F1 x) as [Fc Fb]. destruct Fb as [Fb|Fb]; [exact Fb|]. rewrite Fb. apply X1. rewrite <- Fc. exact Hc.
  - intros x i Hi Hx Hn. destruct (F2 i) as (Fa & Fg & Fn & _). destruct (F1 x) as [Fc _]. rewrite Fc, Fg.
    apply X3; [rewrite <- F0; exact Hi|rewrite <- Fa; exact Hx|apply Fn, Hn].
  - intros i a b H Hx. destruct (F2 i) as (Fa & _ & _ & Fh). apply (X4 i a b); [apply Fh, H|rewrite <- Fa; exact Hx].
Qed.

(* ---- connection transformers that keep dialler and generation, start no negotiation, add no hello *)
Definition cf (f : conn -> conn) : Prop :=
  forall k, c_client (f k) = c_client k /\ c_gen (f k) = c_gen k /\
            (forall x, negotiating (cend x (f k)) = true -> negotiating (cend x k) = true) /\
            (forall a b, In (Hello a b) (c_qsm (f k)) -> In (Hello a b) (c_qsm k)).
Lemma cf_id : cf (fun k => k).
Proof. intros k. auto. Qed.
Lemma cf_comp f g : cf f -> cf g -> cf (fun k => f (g k)).
Proof.
  intros Hf Hg k. destruct (Hf (g k)) as (A1 & A2 & A3 & A4), (Hg k) as (B1 & B2 & B3 & B4).
  split; [congruence|]. split; [congruence|]. split; [intros x H; apply B3, A3, H|intros a b H; apply B4, A4, H].
Qed.
Lemma in_hello_snoc a b (l : list msg) m : (forall a' b', m <> Hello a' b') -> In (Hello a b) (l ++ [m]) -> In (Hello a b) l.
Proof. intros Hm H. apply in_app_or in H as [H|[H|[]]]; [exact H|]. exfalso. apply (Hm a b). exact H. Qed.
Lemma cf_enq x m : (forall a' b', m <> Hello a' b') -> cf (enq x m).
Proof.
  intros Hm k. unfold enq. destruct (c_cut k); [apply cf_id|]. destruct x; cbn; (split; [reflexivity|]; split; [reflexivity|]; split; [auto|]);
    intros a b H; try exact H. apply in_hello_snoc in H; [exact H|exact Hm].
Qed.
Lemma cf_set_end x e : negotiating e = false -> cf (set_end x e).
Proof.
  intros He k. destruct x; cbn; (split; [reflexivity|]; split; [reflexivity|]; split; [|auto]);
    intros y; destruct y; cbn; try rewrite He; auto; discriminate.
Qed.
Lemma cf_lose x : cf (lose x).
Proof.
  intros k. unfold lose. destruct (cend x k); try apply cf_id;
    apply (cf_comp (enq x Fin) (set_end x _)); try (apply cf_enq; intros; discriminate); apply cf_set_end; reflexivity.
Qed.
Lemma cf_cancel x g : cf (cancel x g).
Proof. intros k. unfold cancel. destruct (_ && _ && _)%bool; [apply cf_lose|apply cf_id]. Qed.
Lemma cf_srv_expire n d : cf (srv_expire n d).
Proof. intros k. unfold srv_expire. destruct (_ && _)%bool; [apply cf_lose|apply cf_id]. Qed.
Lemma cf_pop_ms : cf pop_ms.
Proof. intros k. cbn. auto. Qed.
Lemma cf_pop_sm : cf pop_sm.
Proof.
  intros k. cbn. split; [reflexivity|]. split; [reflexivity|]. split; [auto|]. intros a b H.
  destruct (c_qsm k); cbn [tl] in H; [exact H|right; exact H].
Qed.
Lemma cf_cut : cf cut_conn.
Proof. intros k. cbn. split; [reflexivity|]. split; [reflexivity|]. split; [auto|]. intros a b []. Qed.
Lemma cf_kill x : cf (kill x).
Proof. apply (cf_comp (set_end x ELost) cut_conn); [apply cf_set_end; reflexivity|apply cf_cut]. Qed.

Lemma xframe_upd c k' s :
  c_client k' = c_client (conns s c) -> c_gen k' = c_gen (conns s c) ->
  (forall x, negotiating (cend x k') = true -> negotiating (cend x (conns s c)) = true) ->
  (forall a b, In (Hello a b) (c_qsm k') -> In (Hello a b) (c_qsm (conns s c))) ->
  xframe s (set_conns (upd (conns s) c k') s).
Proof.
  intros H1 H2 H3 H4. unfold xframe. cbn [set_conns nconn conns]. split; [reflexivity|]. split.
  - intros x. destruct x; cbn; auto.
  - intros i. unfold upd. destruct (Nat.eqb_spec i c); [subst; auto|auto 10].
Qed.
Lemma xframe_upd_cf f c s : cf f -> xframe s (set_conns (upd (conns s) c (f (conns s c))) s).
Proof. intros Hf. destruct (Hf (conns s c)) as (A & B & C & D). apply xframe_upd; assumption. Qed.
Lemma xframe_map f s : cf f -> xframe s (map_conns f s).
Proof.
  intros Hf. unfold xframe. cbn [map_conns set_conns nconn conns]. split; [reflexivity|]. split.
  - intros x. destruct x; cbn; auto.
  - intros i. apply Hf.
Qed.
Lemma xframe_set_tub x t s :
  t_connector t = t_connector (tubof x s) -> (t_broker t = None \/ t_broker t = t_broker (tubof x s)) -> xframe s (set_tub x t s).
Proof.
  intros Hc Hb. unfold xframe. split; [destruct x; reflexivity|]. split.
  - intros y. destruct x, y; cbn; auto.
  - intros i. destruct x; cbn; auto 10.
Qed.

(* ---- Tub-level facts *)
Lemma getref_conn_broker n t :
  (t_connector t <> None -> t_broker t = None) ->
  (t_connector (getref_tub n t) <> None -> t_broker (getref_tub n t) = None) /\
  (t_connector t <> None -> t_connector (getref_tub n t) = t_connector t).
Proof.
  intros H. unfold getref_tub. destruct (t_broker t) eqn:Eb.
  - cbn. split; [exact H|auto].
  - destruct (t_connector t) eqn:Ec; cbn; split; auto. intros C. contradiction C. reflexivity.
Qed.

Lemma gone_conn_broker n t :
  let t' := connector_gone n t in
  (t_connector t' <> None -> t_broker t' = None) /\ (t_broker t' = None \/ t_broker t' = t_broker t).
Proof.
  cbv zeta. split; [|right; apply broker_connector_gone].
  unfold connector_gone, connection_failed_forgets_first, errback_all. cbn [set_connector t_broker].
  destruct (t_broker t) eqn:Eb; [cbn; intros C; contradiction C; reflexivity|].
  match goal with |- context [if ?b then _ else _] => destruct b end.
  - intros _. rewrite broker_getref_tub. cbn. exact Eb.
  - cbn. intros _. exact Eb.
Qed.

(* the connector of x finishes (fails / times out) when none of its attempts is negotiating any more *)
Lemma xinv_gone x s :
  xinv s -> (forall i, i < nconn s -> c_client (conns s i) = x -> negotiating (cend x (conns s i)) = false) ->
  xinv (set_tub x (connector_gone (now s) (tubof x s)) s).
Proof.
  intros (X1 & X3 & X4) Hno. destruct (gone_conn_broker (now s) (tubof x s)) as [G1 G2]. cbv zeta in *.
  split; [|split].
  - intros y. destruct x, y; cbn [set_tub tubof tm ts]; try apply G1; first [apply (X1 TM)|apply (X1 TS)].
  - intros y i Hi Hy Hn. assert (Ny : nconn (set_tub x (connector_gone (now s) (tubof x s)) s) = nconn s) by (destruct x; reflexivity).
    rewrite Ny in Hi.
    assert (Ec : conns (set_tub x (connector_gone (now s) (tubof x s)) s) = conns s) by (destruct x; reflexivity). rewrite Ec in *.
    destruct x, y; cbn [set_tub tubof tm ts];
      try (rewrite (Hno i Hi Hy) in Hn; discriminate); first [apply (X3 TM)|apply (X3 TS)]; assumption.
  - assert (Ec : conns (set_tub x (connector_gone (now s) (tubof x s)) s) = conns s) by (destruct x; reflexivity). rewrite Ec. exact X4.
Qed.

(* after TubConnector.cancelRemainingConnections of the live connector nothing x dialled is negotiating at x's end *)
Lemma cancel_clears x g s :
  xinv s -> t_connector (tubof x s) = Some g ->
  forall i, i < nconn s -> c_client (conns s i) = x -> negotiating (cend x (cancel x g (conns s i))) = false.
Proof.
  intros (_ & X3 & _) Ec i Hi Hx. destruct (negotiating (cend x (conns s i))) eqn:Hn.
  - pose proof (X3 x i Hi Hx Hn) as E. rewrite Ec in E. inversion E; subst g.
    unfold cancel. rewrite Hx, Hn, Nat.eqb_refl. replace (tub_eqb x x) with true by (destruct x; reflexivity). cbn [andb].
    unfold lose. destruct x; destruct (conns s i) as [cl gg m sd qms qsm cut]; cbn in *;
      [destruct m|destruct sd]; try discriminate Hn; destruct cut; reflexivity.
  - destruct (cf_cancel x g (conns s i)) as (_ & _ & C & _).
    destruct (negotiating (cend x (cancel x g (conns s i)))) eqn:E; [|reflexivity]. apply C in E. congruence.
Qed.

Lemma xinv_timeout x s : xinv s -> xinv (do_timeout x s).
Proof.
  intros H. unfold do_timeout. destruct (t_connector (tubof x s)) as [g|] eqn:Ec; [|exact H].
  set (s1 := map_conns (cancel x g) s).
  assert (H1 : xinv s1) by (eapply xframe_inv; [apply xframe_map, cf_cancel|exact H]).
  apply (xinv_gone x s1 H1). intros i Hi Hx. cbn [s1 map_conns set_conns conns nconn] in *.
  destruct (cf_cancel x g (conns s i)) as (Ecl & _). rewrite Ecl in Hx. apply (cancel_clears x g s H Ec i Hi Hx).
Qed.

Lemma xinv_connector_failed x g s : xinv s -> xinv (connector_failed x g s).
Proof.
  intros H. unfold connector_failed. destruct (t_connector (tubof x s)) as [g'|] eqn:Ec; [|exact H].
  destruct (Nat.eqb g g' && negb (any_pending x g s))%bool eqn:E; [|exact H].
  apply andb_true_iff in E as [Eg Ep]. apply Nat.eqb_eq in Eg. subst g'. apply negb_true_iff in Ep.
  apply xinv_gone; [exact H|]. intros i Hi Hx. destruct (negotiating (cend x (conns s i))) eqn:Hn; [|reflexivity]. exfalso.
  destruct H as (_ & X3 & _). pose proof (X3 x i Hi Hx Hn) as E. rewrite Ec in E. inversion E as [Eg].
  unfold any_pending in Ep. rewrite <- not_true_iff_false in Ep. apply Ep. apply existsb_exists. exists i. split; [apply in_seq; lia|].
  unfold is_pending. rewrite Hx, <- Eg, Nat.eqb_refl. replace (tub_eqb x x) with true by (destruct x; reflexivity). cbn [andb].
  destruct (cend x (conns s i)); try discriminate Hn; reflexivity.
Qed.

Lemma xinv_conn_lost x c pre s : cf pre -> xinv s -> xinv (conn_lost x c pre s).
Proof.
  intros Hp H. unfold conn_lost.
  set (s1 := set_conns (upd (conns s) c (set_end x ELost (pre (conns s c)))) s).
  assert (H1 : xinv s1).
  { eapply xframe_inv; [|exact H]. apply (xframe_upd_cf (fun k => set_end x ELost (pre k))).
    apply (cf_comp (set_end x ELost) pre); [apply cf_set_end; reflexivity|exact Hp]. }
  destruct (cend x (pre (conns s c))); try exact H1;
    try (destruct (tub_eqb (c_client (pre (conns s c))) x); [apply xinv_connector_failed|]; exact H1).
  destruct (t_broker (tubof x s1)); [|exact H1]. destruct (Nat.eqb n c); [|exact H1].
  eapply xframe_inv; [|exact H1]. apply xframe_set_tub; [reflexivity|left; reflexivity].
Qed.

Lemma xframe_drop x s : xframe s (drop_existing x s).
Proof.
  unfold drop_existing. destruct (t_broker (tubof x s)) as [e|]; [|apply xframe_refl].
  eapply xframe_trans; [apply (xframe_upd_cf (lose x) e s), cf_lose|].
  apply xframe_set_tub; [reflexivity|left; reflexivity].
Qed.

(* Negotiation.switchToBanana at x on c: given that, if x dialled c, c belongs to x's live connector *)
Lemma xinv_attach x c s :
  xinv s -> (c_client (conns s c) = x -> t_connector (tubof x s) = Some (c_gen (conns s c))) -> xinv (attach x c s).
Proof.
  intros H Hpre. unfold attach.
  match goal with |- xinv (set_tub x ?t' ?s1') => set (s1 := s1') end.
  assert (Hs1 : xinv s1 /\ nconn s1 = nconn s /\ (forall i, c_client (conns s1 i) = c_client (conns s i)) /\
                forall i, i < nconn s -> c_client (conns s i) = x -> negotiating (cend x (conns s1 i)) = false).
  { unfold s1. destruct (tub_eqb (c_client (conns s c)) x) eqn:Ex.
    - assert (Ecl : c_client (conns s c) = x) by (destruct (c_client (conns s c)), x; try discriminate; reflexivity).
      split; [eapply xframe_inv; [apply xframe_map, cf_cancel|exact H]|]. split; [reflexivity|]. split.
      + intros i. apply cf_cancel.
      + intros i Hi Hx. apply (cancel_clears x _ s H (Hpre Ecl) i Hi Hx).
    - destruct (t_connector (tubof x s)) as [g'|] eqn:Ec.
      + split; [eapply xframe_inv; [apply xframe_map, cf_cancel|exact H]|]. split; [reflexivity|]. split.
        * intros i. apply cf_cancel.
        * intros i Hi Hx. apply (cancel_clears x g' s H Ec i Hi Hx).
      + split; [exact H|]. split; [reflexivity|]. split; [reflexivity|]. intros i Hi Hx.
        destruct (negotiating (cend x (conns s i))) eqn:Hn; [|reflexivity]. destruct H as (_ & X3 & _).
        rewrite (X3 x i Hi Hx Hn) in Ec. discriminate. }
  destruct Hs1 as ((X1 & X3 & X4) & Hn1 & Hcl & Hno).
  assert (Ec : forall t, conns (set_tub x t s1) = conns s1) by (intros t; destruct x; reflexivity).
  assert (En : forall t, nconn (set_tub x t s1) = nconn s1) by (intros t; destruct x; reflexivity).
  split; [|split].
  - intros y. destruct x, y; cbn [set_tub tubof tm ts]; try (cbn; intros C; contradiction C; reflexivity); first [apply (X1 TM)|apply (X1 TS)].
  - intros y i Hi Hy Hn. rewrite En, Hn1 in Hi. rewrite Ec in *.
    destruct x, y; cbn [set_tub tubof tm ts];
      try (rewrite Hcl in Hy; rewrite (Hno i Hi Hy) in Hn; discriminate); first [apply (X3 TM)|apply (X3 TS)]; try assumption; rewrite Hn1; exact Hi.
  - rewrite Ec. exact X4.
Qed.

Lemma xinv_getref x s : xinv s -> xinv (do_getref x s).
Proof.
  intros (X1 & X3 & X4). unfold do_getref. destruct (getref_conn_broker (now s) (tubof x s) (X1 x)) as [G1 G2].
  assert (Ec : forall t, conns (set_tub x t s) = conns s) by (intros t; destruct x; reflexivity).
  assert (En : forall t, nconn (set_tub x t s) = nconn s) by (intros t; destruct x; reflexivity).
  split; [|split].
  - intros y. destruct x, y; cbn [set_tub tubof tm ts]; try exact G1; first [apply (X1 TM)|apply (X1 TS)].
  - intros y i Hi Hy Hn. rewrite En in Hi. rewrite Ec in *.
    destruct x, y; cbn [set_tub tubof tm ts]; try (first [apply (X3 TM)|apply (X3 TS)]; assumption).
    + pose proof (X3 TM i Hi Hy Hn) as E. cbn [tubof] in *. rewrite G2; [exact E|rewrite E; discriminate].
    + pose proof (X3 TS i Hi Hy Hn) as E. cbn [tubof] in *. rewrite G2; [exact E|rewrite E; discriminate].
  - rewrite Ec. exact X4.
Qed.

Lemma xinv_dial x s : xinv s -> xinv (do_dial x s).
Proof.
  intros (X1 & X3 & X4). unfold do_dial. destruct (t_connector (tubof x s)) as [g|] eqn:Ec; [|split; [|split]; assumption].
  split; [|split]; cbn [tubof tm ts conns nconn].
  - intros y. destruct y; [apply (X1 TM)|apply (X1 TS)].
  - intros y i Hi Hy Hn. unfold upd in *. destruct (Nat.eqb_spec i (nconn s)).
    + cbn [c_client c_gen] in *. subst y. destruct x; exact Ec.
    + destruct y; [apply (X3 TM i)|apply (X3 TS i)]; try assumption; lia.
  - intros i a b H Hx. unfold upd in *. destruct (Nat.eqb i (nconn s)); [|apply (X4 i a b H Hx)].
    cbn [c_qsm c_client] in *. subst x. destruct H as [H|[]]. inversion H. discriminate.
Qed.

Lemma xinv_master_accept c inc s :
  c < nconn s -> xinv s -> c_m (conns s c) = ENeg -> xinv (master_accept c inc s).
Proof.
  intros Hc H Em. unfold master_accept.
  match goal with |- xinv (attach TM c ?s2') => set (s2 := s2') end.
  assert (F : xframe s s2).
  { unfold s2. eapply xframe_trans.
    - apply (xframe_upd_cf (fun k => set_end TM EBrk (enq TM (Decision (t_inc (tm s)) (t_master (tm s) + seqnum_step)) k)) c s).
      apply (cf_comp (set_end TM EBrk) (enq TM _)); [apply cf_set_end; reflexivity|apply cf_enq; intros; discriminate].
    - apply xframe_set_tub; [reflexivity|right; reflexivity]. }
  apply xinv_attach; [eapply xframe_inv; [exact F|exact H]|].
  destruct F as (_ & F1 & F2). destruct (F2 c) as (Fa & Fg & _). destruct (F1 TM) as [Fc _]. rewrite Fa, Fg, Fc. intros Ecl.
  destruct H as (_ & X3 & _). apply (X3 TM c Hc Ecl). cbn [cend]. rewrite Em. reflexivity.
Qed.

Lemma xinv_deliver_m c s : c < nconn s -> inv s -> xinv s -> xinv (deliver_m c s).
Proof.
  intros Hc HI H. unfold deliver_m. destruct (c_qsm (conns s c)) as [|m q] eqn:Eq; [exact H|].
  set (s0 := set_conns (upd (conns s) c (pop_sm (conns s c))) s).
  assert (F0 : xframe s s0) by apply (xframe_upd_cf pop_sm c s), cf_pop_sm.
  assert (H0 : xinv s0) by (eapply xframe_inv; [exact F0|exact H]).
  assert (Hl : xinv (set_conns (upd (conns s) c (lose TM (pop_sm (conns s c)))) s)).
  { eapply xframe_inv; [|exact H]. apply (xframe_upd_cf (fun k => lose TM (pop_sm k)) c s), (cf_comp (lose TM) pop_sm); [apply cf_lose|apply cf_pop_sm]. }
  destruct m as [inc last|a b| |].
  - destruct (c_m (conns s c)) eqn:Em; try exact H0.
    assert (Em0 : c_m (conns s0 c) = ENeg) by (cbn [s0 set_conns conns]; rewrite upd_same; destruct (conns s c); cbn in *; exact Em).
    destruct (t_broker (tm s0)).
    + match goal with |- context [compare_offer ?a1 ?a2 ?a3 ?a4 ?a5 ?a6 ?a7] =>
        destruct (compare_offer a1 a2 a3 a4 a5 a6 a7) as [[|]|] end;
        try (eapply xframe_inv; [|exact H0]; unfold master_reject;
             apply (xframe_upd_cf (fun k => lose TM (enq TM ErrorBlk k)) c s0), (cf_comp (lose TM) (enq TM ErrorBlk));
             [apply cf_lose|apply cf_enq; intros; discriminate]).
      assert (Fd : xframe s0 (drop_existing TM s0)) by apply xframe_drop.
      apply xinv_master_accept.
      * destruct Fd as (Fn & _). rewrite Fn. exact Hc.
      * eapply xframe_inv; [exact Fd|exact H0].
      * unfold drop_existing. cbn [tubof]. destruct (t_broker (tm s0)) as [e|] eqn:Eb; [|exact Em0].
        cbn [set_tub set_conns conns]. unfold upd. destruct (Nat.eqb_spec c e); [|exact Em0]. subst e. exfalso.
        assert (Eb' : t_broker (tm s) = Some c) by exact Eb.
        apply (proj1 (proj1 HI c)) in Eb'. congruence.
    + apply xinv_master_accept; [exact Hc|exact H0|exact Em0].
  - destruct (c_m (conns s c)); try exact H0. exact Hl.
  - destruct (c_m (conns s c)); try exact H0. exact Hl.
  - destruct (c_m (conns s c)); try exact H0; (apply xinv_conn_lost; [apply cf_pop_sm|exact H]).
Qed.

Lemma xinv_deliver_s c s : c < nconn s -> xinv s -> xinv (deliver_s c s).
Proof.
  intros Hc H. unfold deliver_s. destruct (c_qms (conns s c)) as [|m q] eqn:Eq; [exact H|].
  assert (H0 : xinv (set_conns (upd (conns s) c (pop_ms (conns s c))) s)).
  { eapply xframe_inv; [apply (xframe_upd_cf pop_ms c s), cf_pop_ms|exact H]. }
  assert (Hl : xinv (set_conns (upd (conns s) c (lose TS (pop_ms (conns s c)))) s)).
  { eapply xframe_inv; [|exact H]. apply (xframe_upd_cf (fun k => lose TS (pop_ms k)) c s), (cf_comp (lose TS) pop_ms); [apply cf_lose|apply cf_pop_ms]. }
  destruct m as [inc last|inc seq| |].
  - destruct (c_s (conns s c)) eqn:Es; try exact H0; [|exact Hl].
    eapply xframe_inv; [|exact H]. apply xframe_upd; try reflexivity.
    + intros x. destruct x; cbn; [auto|]. intros _. rewrite Es. reflexivity.
    + intros a b Hin. exact Hin.
  - destruct (c_s (conns s c)) eqn:Es; try exact H0; [exact Hl|].
    set (s1 := drop_existing TS s).
    assert (F1 : xframe s s1) by apply xframe_drop.
    match goal with |- xinv (attach TS c ?s2') => set (s2 := s2') end.
    assert (F2 : xframe s1 s2).
    { unfold s2. eapply xframe_trans.
      - apply (xframe_upd_cf (fun k => set_end TS EBrk (pop_ms k)) c s1).
        apply (cf_comp (set_end TS EBrk) pop_ms); [apply cf_set_end; reflexivity|apply cf_pop_ms].
      - apply xframe_set_tub; [reflexivity|right; reflexivity]. }
    pose proof (xframe_trans _ _ _ F1 F2) as F.
    apply xinv_attach; [eapply xframe_inv; [exact F|exact H]|].
    destruct F as (_ & Fx & Fi). destruct (Fi c) as (Fa & Fg & _). destruct (Fx TS) as [Fc _]. rewrite Fa, Fg, Fc. intros Ecl.
    destruct H as (_ & X3 & _). apply (X3 TS c Hc Ecl). cbn [cend]. rewrite Es. reflexivity.
  - destruct (c_s (conns s c)); try exact H0; exact Hl.
  - destruct (c_s (conns s c)); try exact H0; (apply xinv_conn_lost; [apply cf_pop_ms|exact H]).
Qed.

Lemma xinv_advance dt s : xinv s -> xinv (do_advance dt s).
Proof.
  intros H. unfold do_advance. set (n := Z.max _ _).
  set (s2 := set_conns (fun i => srv_expire n (sdl s i) (conns s i)) (set_now n s)).
  assert (H2 : xinv s2).
  { eapply xframe_inv; [|exact H]. unfold xframe. cbn [s2 set_conns set_now nconn conns]. split; [reflexivity|]. split.
    - intros x. destruct x; cbn; auto.
    - intros i. apply cf_srv_expire. }
  assert (H3 : xinv (if expired TM s2 then do_timeout TM s2 else s2)) by (destruct (expired TM s2); [apply xinv_timeout|]; exact H2).
  destruct (expired TS _); [apply xinv_timeout|]; exact H3.
Qed.

Theorem step_xinv s o : inv s -> xinv s -> xinv (step s o).
Proof.
  intros HI H. destruct o as [x|x|c to|c x|c|x|x|x|dt|o]; cbn [step].
  - apply xinv_getref, H.
  - apply xinv_dial, H.
  - destruct to; destruct (Nat.ltb_spec c (nconn s)); try exact H; [apply xinv_deliver_m|apply xinv_deliver_s]; assumption.
  - destruct (Nat.ltb c (nconn s)); [|exact H]. unfold do_closeseen. destruct (close_pending x (conns s c)); [|exact H].
    apply xinv_conn_lost; [apply cf_id|exact H].
  - destruct (Nat.ltb c (nconn s)); [|exact H]. eapply xframe_inv; [|exact H]. apply (xframe_upd_cf cut_conn c s), cf_cut.
  - destruct H as (X1 & X3 & X4). unfold do_restart.
    assert (Ec : forall t, conns (set_tub x t (map_conns (kill x) s)) = fun i => kill x (conns s i)) by (intros t; destruct x; reflexivity).
    assert (En : forall t, nconn (set_tub x t (map_conns (kill x) s)) = nconn s) by (intros t; destruct x; reflexivity).
    split; [|split].
    + intros y. destruct x, y; cbn [set_tub map_conns set_conns tubof tm ts new_tub t_connector t_broker]; auto;
        first [apply (X1 TM)|apply (X1 TS)].
    + intros y i Hi Hy Hn. rewrite En in Hi. rewrite Ec in *. destruct (cf_kill x (conns s i)) as (Ka & Kg & Kn & _).
      rewrite Ka in Hy. rewrite Kg.
      destruct x, y; cbn [set_tub map_conns set_conns tubof tm ts];
        try (exfalso; unfold kill in Hn; destruct (conns s i); cbn in Hn; discriminate Hn);
        first [apply (X3 TM i)|apply (X3 TS i)]; try assumption; apply Kn, Hn.
    + intros i a b Hin. rewrite Ec in Hin. unfold kill in Hin. destruct x; cbn in Hin; destruct Hin.
  - apply xinv_timeout, H.
  - eapply xframe_inv; [|exact H]. apply xframe_set_tub; [reflexivity|right; reflexivity].
  - apply xinv_advance, H.
  - eapply xframe_inv; [|exact H]. unfold xframe. cbn [set_ho nconn conns]. split; [reflexivity|]. split; [intros x; destruct x; cbn; auto|auto 10].
Qed.

Theorem run_xinv ops : xinv (run ops).
Proof.
  unfold run. assert (G : forall l s, inv s -> xinv s -> xinv (fold_left step l s)).
  { induction l as [|o r IH]; intros s HI H; cbn [fold_left]; [exact H|]. apply IH; [apply step_inv, HI|apply step_xinv; assumption]. }
  apply G; [apply init_inv|]. split; [|split].
  - intros x. destruct x; cbn; auto.
  - intros x i Hi. cbn in Hi. lia.
  - intros i a b []. 
Qed.

(* a Tub looks for a connection (live TubConnector, or one of its own dials still negotiating at its end)
   only while it has no current connection *)
Theorem attempt_only_without_broker ops x :
  let s := run ops in
  (t_connector (tubof x s) <> None -> t_broker (tubof x s) = None) /\
  (forall i, i < nconn s -> c_client (conns s i) = x -> negotiating (cend x (conns s i)) = true -> t_broker (tubof x s) = None).
Proof.
  cbv zeta. destruct (run_xinv ops) as (X1 & X3 & _). split; [apply X1|].
  intros i Hi Hx Hn. apply X1. rewrite (X3 x i Hi Hx Hn). discriminate.
Qed.

(* handle-old-duplicate-connections is never consulted between two modern Tubs: whenever the master evaluates an offer
   while it has a current connection, the offer carries last-connection (and my-incarnation), so the translated decision
   function does not reach its old-peer branch and its result does not depend on the option or on the Broker's age *)
Theorem handle_old_unreachable ops c inc last rest :
  let s := run ops in
  c < nconn s -> c_qsm (conns s c) = Hello inc last :: rest -> c_m (conns s c) = ENeg -> t_broker (tm s) <> None ->
  last <> None /\
  forall h h' a a',
    compare_offer (Some inc) last (t_bir (tm s)) (t_bseq (tm s)) (t_inc (tm s)) h a =
    compare_offer (Some inc) last (t_bir (tm s)) (t_bseq (tm s)) (t_inc (tm s)) h' a'.
Proof.
  cbv zeta. intros Hc Eq Em Hb. destruct (run_xinv ops) as (X1 & X3 & X4).
  assert (Hl : last <> None).
  { destruct (c_client (conns (run ops) c)) eqn:Ecl.
    - exfalso. apply Hb. apply (X1 TM). rewrite (X3 TM c Hc Ecl); [discriminate|]. cbn [cend]. rewrite Em. reflexivity.
    - apply (X4 c inc last); [rewrite Eq; left; reflexivity|exact Ecl]. }
  split; [exact Hl|]. intros h h' a a'. destruct last as [[lir lseq]|]; [|contradiction Hl; reflexivity].
  rewrite !compare_total. reflexivity.
Qed.

