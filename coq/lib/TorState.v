(* TorState.v -- the Tor handlers' hint_to_endpoint (connections/tor.py _Common, shared by default_socks / socks_endpoint /
   launch / control_endpoint / control_endpoint_maker) WITH the state of the handler's Tor.

   Furl.tor_hint_to_endpoint is the classification alone (the handler of a Tor that is there).  Here the function is run
   statement by statement, in the order translated from the source (FurlGen.TOR_STEPS), against a Tor that is ready,
   still starting (the Deferred of _maybe_connect has not fired: a launch takes 15-20 s, a control-port maker may never
   answer) or cannot be had (the Deferred fails with the launch / connection error e).  Definitions only. *)
From Coq Require Import ZArith List String Bool.
Import ListNotations.
Require Import Verif.lib.PyLite Verif.lib.Regex Verif.lib.FurlPrim Verif.gen.FurlGen Verif.lib.Furl.
Local Open Scope Z_scope.

Inductive tor_state :=
| TorReady                    (* _maybe_connect's Deferred fires with a socks endpoint *)
| TorStarting                 (* ... has not fired (yet) *)
| TorFails (e : string).      (* ... fails with the exception e of the launch / the control connection *)

(* what the caller of hint_to_endpoint holds: a Deferred that has fired with a result, or one that is still waiting *)
Inductive outcome := Done (r : res endpoint) | Waiting.

(* local variables of the function: mo (unbound / None / a match), (host, portnum), socks_endpoint *)
Record tor_env := { e_mo : option (option caps); e_hp : option (str * Z); e_socks : bool }.
Definition tor_env0 : tor_env := {| e_mo := None; e_hp := None; e_socks := false |}.

Definition unbound : outcome := Done (Exc "UnboundLocalError").

Fixpoint tor_run (nonpublic : str -> bool) (st : tor_state) (hint : str) (steps : list tor_step) (env : tor_env) : outcome :=
  match steps with
  | [] =>                                    (* ep = TorClientEndpoint(host, portnum, socks_endpoint=..); return ep, host *)
      match e_hp env with
      | Some (h, p) => if e_socks env then Done (Ok (EpTor h p)) else unbound
      | None => unbound
      end
  | TsMatch :: r =>                          (* mo = HINT_RE.search(hint) *)
      tor_run nonpublic st hint r {| e_mo := Some (re_apply TOR_HINT_RE TOR_HINT_RE_method hint); e_hp := e_hp env; e_socks := e_socks env |}
  | TsRejectNoMatch :: r =>                  (* if not mo: raise InvalidHintError *)
      match e_mo env with
      | None => unbound
      | Some None => Done invalid
      | Some (Some _) => tor_run nonpublic st hint r env
      end
  | TsBind :: r =>                           (* host, portnum = mo.group(1), int(mo.group(2)) *)
      match e_mo env with
      | None => unbound
      | Some None => Done (Exc "AttributeError")
      | Some (Some c) =>
          match py_int (group_or_nil 2 c) with
          | Exc e => Done (Exc e)
          | Ok port => tor_run nonpublic st hint r {| e_mo := e_mo env; e_hp := Some (group_or_nil 1 c, port); e_socks := e_socks env |}
          end
      end
  | TsRejectNonPublic :: r =>                (* if is_non_public_numeric_address(host): raise InvalidHintError *)
      match e_hp env with
      | None => unbound
      | Some (h, _) => if nonpublic h then Done invalid else tor_run nonpublic st hint r env
      end
  | TsWaitTor :: r =>                        (* socks_endpoint = yield self._maybe_connect(reactor, update_status) *)
      match st with
      | TorReady => tor_run nonpublic st hint r {| e_mo := e_mo env; e_hp := e_hp env; e_socks := true |}
      | TorStarting => Waiting
      | TorFails e => Done (Exc e)
      end
  end.

Definition tor_handler_gen (steps : list tor_step) (nonpublic : str -> bool) (st : tor_state) (hint : str) : outcome :=
  tor_run nonpublic st hint steps tor_env0.

(* the handler as translated *)
Definition tor_handler := tor_handler_gen TOR_STEPS.

(* the order of the seeded change C20-r6s1 (kept as a regression): get the shared Tor going first, look at the hint afterwards *)
Definition TOR_STEPS_WAIT_FIRST : list tor_step := [TsWaitTor; TsMatch; TsRejectNoMatch; TsBind; TsRejectNonPublic].

(* compact observation code for the correspondence check *)
Definition outcome_code (o : outcome) : list (list Z) :=
  match o with Waiting => [[-9]] | Done r => ep_code r end.
