(* C13: the Python primitives used by the negotiation message codec (Negotiation.parseLines / sendBlock and the
   field parsing of evaluateHello / acceptDecisionVersion1), as executable Gallina over byte strings (list Z).
   A Python `str` is kept as its UTF-8 encoding (decoding is injective on well-formed input, and every comparison the
   codec makes -- dict keys, sort order of keys -- is the same on code points and on their UTF-8 bytes).
   A Python dict with str keys is kept in canonical form: association list with strictly ascending keys.
   Model only (no proofs) so that the correspondence can still be evaluated when a proof breaks. *)
From Coq Require Import ZArith List String Bool Lia.
Import ListNotations.
Require Import Verif.lib.PyLite Verif.gen.NegotiateGen Verif.lib.Negotiate.
Local Open Scope Z_scope.

Notation bytes := (list Z) (only parsing).

(* ---- order on byte strings (Python's < on bytes / on str through UTF-8): lexicographic, the same order as for tub ids *)
Definition bytes_ltb (a b : bytes) : bool := str_ltb a b.

(* ---- does l start with p? *)
Fixpoint starts_with (p l : bytes) : bool :=
  match p, l with
  | [], _ => true
  | _ :: _, [] => false
  | x :: p', y :: l' => (x =? y) && starts_with p' l'
  end.

(* bytes.find(sep) for a non-empty sep: offset of the first occurrence *)
Fixpoint bytes_find (sep l : bytes) : option nat :=
  if starts_with sep l then Some O
  else match l with [] => None | _ :: r => option_map S (bytes_find sep r) end.

(* bytes.index(sep): ValueError when absent *)
Definition bytes_index (l sep : bytes) : res Z :=
  match bytes_find sep l with Some n => Ok (Z.of_nat n) | None => Exc "ValueError" end.

(* bytes.split(sep), sep non-empty: cut at every non-overlapping occurrence, scanning left to right.
   `skip` = bytes of the separator just matched that are still to be passed over *)
Fixpoint split_go (sep : bytes) (skip : nat) (cur l : bytes) {struct l} : list bytes :=
  match l with
  | [] => [rev cur]
  | x :: r =>
    match skip with
    | S n => split_go sep n cur r
    | O => if starts_with sep l then rev cur :: split_go sep (List.length sep - 1) [] r
           else split_go sep O (x :: cur) r
    end
  end.
Definition bytes_split (sep l : bytes) : list bytes := split_go sep O [] l.

(* bytes.lower(): ASCII letters only *)
Definition lower1 (c : Z) : Z := if (65 <=? c) && (c <=? 90) then c + 32 else c.
Definition bytes_lower (l : bytes) : bytes := map lower1 l.

(* bytes.lstrip() / str.split(): ASCII whitespace *)
Definition is_space (c : Z) : bool := (c =? 32) || ((9 <=? c) && (c <=? 13)).
Fixpoint bytes_lstrip (l : bytes) : bytes :=
  match l with c :: r => if is_space c then bytes_lstrip r else l | [] => [] end.

(* six.ensure_str(bytes) = bytes.decode("utf-8", "strict"): the strict decoder of CPython (no overlong forms, no
   surrogates, nothing above U+10FFFF) *)
Definition contb (b : Z) : bool := (128 <=? b) && (b <=? 191).
Fixpoint utf8_valid (fuel : nat) (l : bytes) {struct fuel} : bool :=
  match fuel with
  | O => false
  | S f =>
    match l with
    | [] => true
    | b :: r =>
      if b <? 128 then utf8_valid f r
      else if (194 <=? b) && (b <=? 223) then
        match r with c1 :: r1 => contb c1 && utf8_valid f r1 | _ => false end
      else if (224 <=? b) && (b <=? 239) then
        match r with
        | c1 :: c2 :: r2 =>
          contb c1 && contb c2 && (if b =? 224 then 160 <=? c1 else true) && (if b =? 237 then c1 <=? 159 else true)
          && utf8_valid f r2
        | _ => false end
      else if (240 <=? b) && (b <=? 244) then
        match r with
        | c1 :: c2 :: c3 :: r3 =>
          contb c1 && contb c2 && contb c3 && (if b =? 240 then 144 <=? c1 else true) && (if b =? 244 then c1 <=? 143 else true)
          && utf8_valid f r3
        | _ => false end
      else false
    end
  end.
Definition ensure_str (l : bytes) : res bytes :=
  if utf8_valid (S (List.length l)) l then Ok l else Exc "UnicodeDecodeError".

(* ---- canonical dict: strictly ascending association list *)
Notation dict := (list (list Z * list Z)) (only parsing).

Fixpoint dset (d : dict) (k v : bytes) : dict :=
  match d with
  | [] => [(k, v)]
  | (k', v') :: r => if list_eqb k k' then (k, v) :: r
                     else if bytes_ltb k k' then (k, v) :: d
                     else (k', v') :: dset r k v
  end.

Fixpoint dget (d : dict) (k : bytes) : option bytes :=
  match d with
  | [] => None
  | (k', v') :: r => if list_eqb k k' then Some v' else dget r k
  end.

Definition dget_res (d : dict) (k : bytes) : res bytes :=
  match dget d k with Some v => Ok v | None => Exc "KeyError" end.

Definition dict_keys (d : dict) : list bytes := map fst d.

(* list.sort() on strings: insertion sort (stable; any correct sort gives the same list) *)
Fixpoint insert_sorted (k : bytes) (l : list bytes) : list bytes :=
  match l with
  | [] => [k]
  | x :: r => if bytes_ltb x k then x :: insert_sorted k r else k :: l
  end.
Fixpoint sort_keys (l : list bytes) : list bytes :=
  match l with [] => [] | k :: r => insert_sorted k (sort_keys r) end.

(* `for x in xs: BODY` where BODY may raise: left fold that stops at the first exception *)
Fixpoint for_res {A S} (xs : list A) (s : S) (body : S -> A -> res S) : res S :=
  match xs with
  | [] => Ok s
  | x :: r => match body s x with Exc t => Exc t | Ok s' => for_res r s' body end
  end.

Definition bind {A B} (r : res A) (f : A -> res B) : res B :=
  match r with Ok v => f v | Exc t => Exc t end.

(* ---- str.split() with no argument, on ASCII text: maximal runs of non-whitespace; for a str the separators U+001C..U+001F
   count as whitespace too (str.isspace), unlike for bytes.lstrip() and int() *)
Definition is_uspace (c : Z) : bool := is_space c || ((28 <=? c) && (c <=? 31)).
Fixpoint ws_split_go (cur : bytes) (l : bytes) : list bytes :=
  match l with
  | [] => match cur with [] => [] | _ => [rev cur] end
  | c :: r => if is_uspace c then match cur with [] => ws_split_go [] r | _ => rev cur :: ws_split_go [] r end
              else ws_split_go (c :: cur) r
  end.
Definition ws_split (l : bytes) : list bytes := ws_split_go [] l.

(* ---- "%d" % n *)
Fixpoint digits_go (fuel : nat) (n : Z) (acc : bytes) {struct fuel} : bytes :=
  match fuel with
  | O => acc
  | S f => if n <? 10 then (48 + n) :: acc else digits_go f (n / 10) ((48 + n mod 10) :: acc)
  end.
Definition fmt_nat (n : Z) : bytes := digits_go (S (Z.to_nat (Z.log2 n))) n [].
Definition fmt_d (n : Z) : bytes := if n <? 0 then 45 :: fmt_nat (- n) else fmt_nat n.

(* ---- int(s) on ASCII text: surrounding whitespace, one optional sign, decimal digits, single underscores between
   digits.  Text with a byte >= 128 is outside the model (Python also accepts other Unicode digits and spaces). *)
Definition is_digit (c : Z) : bool := (48 <=? c) && (c <=? 57).
(* digits with single interior underscores; `prev_digit` = the previous character was a digit *)
Fixpoint digits_val (acc : Z) (prev_digit : bool) (l : bytes) : option Z :=
  match l with
  | [] => if prev_digit then Some acc else None
  | c :: r => if is_digit c then digits_val (acc * 10 + (c - 48)) true r
              else if (c =? 95) && prev_digit then
                     match r with c2 :: _ => if is_digit c2 then digits_val acc false r else None | [] => None end
              else None
  end.
Definition bytes_strip (l : bytes) : bytes := rev (bytes_lstrip (rev (bytes_lstrip l))).
Definition py_int (s : bytes) : res Z :=
  if existsb (fun c => 128 <=? c) s then Exc "NotModelled-non-ASCII"
  else
    let t := bytes_strip s in
    let '(neg, body) := match t with
                        | c :: r => if c =? 45 then (true, r) else if c =? 43 then (false, r) else (false, t)
                        | [] => (false, t) end in
    match digits_val 0 false body with
    | Some v => Ok (if neg then - v else v)
    | None => Exc "ValueError"
    end.
