(* C01, sender: sharing is pinned RELATIVE TO THE PYTHON HEAP (review 2, finding 3).
   SendHeapProofs shows machine = canonical descent; both use scopes_register / scopes_lookup, so a registerRefID that forgets
   (mutant: scopes_register = no-op) passed every theorem there while [s, s] denoted [[1], [1]].  Here, for the descent
   (hence, by send_heap_unique, for the machine):
     - the tables only grow while a scope lives: whatever is sliced, an object that resolved to number k still resolves to k,
       and only the innermost table changes (`grows`);
     - the FIRST encounter of a heap object in a scope emits a container of that object's kind whose children are the canonical
       terms of that object's items (same number of them), and -- tracked kinds, some scope on the stack -- records the object
       under ITS OWN OPEN number;
     - EVERY LATER encounter in that scope, whatever was sliced in between, emits `reference` to that very number:
   the same heap object is never sliced twice in one scope (object |-> OPEN number is a function that never changes). *)
From Coq Require Import ZArith List String Bool Lia.
Import ListNotations.
Require Import Verif.lib.PyLite Verif.gen.BananaGen Verif.gen.SlicersGen Verif.lib.Token Verif.lib.Obj Verif.lib.SendHeap.
Local Open Scope Z_scope.

Definition grows (scs scs' : list stable) : Prop :=
  match scs with [] => scs' = [] | T :: r => exists T', scs' = T' :: r end /\
  forall o k, scopes_lookup scs o = Some k -> scopes_lookup scs' o = Some k.

Lemma grows_refl scs : grows scs scs.
Proof. split; [destruct scs as [|T r]; [reflexivity|exists T; reflexivity]|auto]. Qed.
Lemma grows_trans a b c : grows a b -> grows b c -> grows a c.
Proof.
  intros [S1 L1] [S2 L2]. split; [|auto].
  destruct a as [|T r]; [subst b; exact S2|]. destruct S1 as (T1 & ->). exact S2.
Qed.

Lemma lookup_register_same T r oid n : scopes_lookup (scopes_register (T :: r) oid n) oid = Some n.
Proof. cbn. unfold gen_scoped_lookup, gen_scoped_register. cbn. rewrite Z.eqb_refl. reflexivity. Qed.

Lemma grows_register scs oid n : scopes_lookup scs oid = None -> grows scs (scopes_register scs oid n).
Proof.
  intros L. split; [destruct scs as [|T r]; [reflexivity|eexists; reflexivity]|].
  intros o k H. destruct scs as [|T r]; [discriminate|]. cbn in *.
  unfold gen_scoped_lookup, gen_scoped_register in *. cbn. destruct (oid =? o) eqn:E; [|exact H].
  apply Z.eqb_eq in E. subst o. rewrite H in L. discriminate.
Qed.

(* a scoped slicer's own table is pushed empty and popped with it: the tables below are what they were *)
Lemma grows_push_pop scs1 scs3 : grows ([] :: scs1) scs3 -> tl scs3 = scs1.
Proof. intros [(T' & ->) _]. reflexivity. Qed.

Definition PG (h : sheap) (fu : nat) : Prop :=
  forall v scs n t n' scs', bcanon fu h scs n v = Some (t, n', scs') -> grows scs scs'.

Lemma grows_list h fu : PG h fu -> forall l scs n os n' scs', bcanon_list fu h scs n l = Some (os, n', scs') -> grows scs scs'.
Proof.
  intros P. induction l as [|x r IH]; intros scs n os n' scs' H; cbn [bcanon_list] in H.
  - inversion H; subst. apply grows_refl.
  - destruct (bcanon fu h scs n x) as [[[o m2] s2]|] eqn:B; [|discriminate].
    fold (bcanon_list fu h) in H. destruct (bcanon_list fu h s2 m2 r) as [[[os' m3] s3]|] eqn:BL; [|discriminate].
    inversion H; subst. eapply grows_trans; [exact (P _ _ _ _ _ _ B)|exact (IH _ _ _ _ _ BL)].
Qed.

Theorem tables_grow h : forall fuel, PG h fuel.
Proof.
  induction fuel as [|fu IH]; intros v scs n t n' scs' H; [discriminate|]. cbn [bcanon] in H.
  destruct v; try (inversion H; subst; apply grows_refl).
  destruct (scopes_lookup scs id) as [k|] eqn:L; [inversion H; subst; apply grows_refl|].
  destruct (sfind id h) as [nd|]; [|discriminate].
  fold (bcanon_list fu h) in H.
  set (scs1 := if tracked (sn_kind nd) then scopes_register scs id n else scs) in *.
  assert (G1 : grows scs scs1) by (unfold scs1; destruct (tracked (sn_kind nd)); [apply grows_register; exact L|apply grows_refl]).
  match type of H with match ?b with _ => _ end = _ => destruct b as [[[os m] scs3]|] eqn:BL; [|discriminate] end.
  inversion H; subst. pose proof (grows_list h fu IH _ _ _ _ _ _ BL) as G3.
  destruct (is_scope (sn_kind nd)).
  - rewrite (grows_push_pop _ _ G3). exact G1.
  - eapply grows_trans; [exact G1|exact G3].
Qed.

Lemma bcanon_list_length h fu : forall l s0 z os m s3, bcanon_list fu h s0 z l = Some (os, m, s3) -> List.length os = List.length l.
Proof.
  induction l as [|x r IH]; intros s0 z os m s3 BL; cbn [bcanon_list] in BL.
  - inversion BL. reflexivity.
  - destruct (bcanon fu h s0 z x) as [[[o m2] s2]|]; [|discriminate]. fold (bcanon_list fu h) in BL.
    destruct (bcanon_list fu h s2 m2 r) as [[[os' m3] s3']|] eqn:B2; [|discriminate]. inversion BL; subst.
    cbn [List.length]. f_equal. exact (IH _ _ _ _ _ B2).
Qed.

(* FIRST encounter: the emitted container has the heap object's kind and one child term per item of the heap object, these
   being the canonical terms of the items in order (kinds and items preserved) *)
Theorem first_encounter_is_the_object h fu scs n oid nd t n' scs' :
  scopes_lookup scs oid = None -> sfind oid h = Some nd ->
  bcanon (S fu) h scs n (SObj oid) = Some (t, n', scs') ->
  exists os scs3,
    t = OCont (sn_kind nd) os /\
    bcanon_list fu h (let scs1 := if tracked (sn_kind nd) then scopes_register scs oid n else scs in
                      if is_scope (sn_kind nd) then [] :: scs1 else scs1) (n + 1) (sn_items nd) = Some (os, n', scs3) /\
    List.length os = List.length (sn_items nd).
Proof.
  intros L F H. cbn [bcanon] in H. rewrite L, F in H. fold (bcanon_list fu h) in H. cbv zeta.
  destruct (bcanon_list fu h _ (n + 1) (sn_items nd)) as [[[os m] scs3]|] eqn:BL; [|discriminate].
  inversion H; subst. exists os, scs3. split; [reflexivity|]. split; [reflexivity|].
  exact (bcanon_list_length h fu _ _ _ _ _ _ BL).
Qed.

(* ... and it is recorded under its own OPEN number (tracked kind, a scope on the stack) *)
Theorem sliced_object_is_registered h fuel scs n oid nd t n' scs' :
  scs <> [] -> sfind oid h = Some nd -> tracked (sn_kind nd) = true ->
  bcanon fuel h scs n (SObj oid) = Some (t, n', scs') ->
  exists k, scopes_lookup scs' oid = Some k /\ (scopes_lookup scs oid = None -> k = n).
Proof.
  intros NE F T H. destruct fuel as [|fu]; [discriminate|]. cbn [bcanon] in H.
  destruct (scopes_lookup scs oid) as [k|] eqn:L.
  - inversion H; subst. exists k. split; [exact L|discriminate].
  - rewrite F, T in H. fold (bcanon_list fu h) in H.
    assert (NS : is_scope (sn_kind nd) = false) by (destruct (sn_kind nd); try reflexivity; discriminate).
    rewrite NS in H.
    destruct (bcanon_list fu h (scopes_register scs oid n) (n + 1) (sn_items nd)) as [[[os m] scs3]|] eqn:BL; [|discriminate].
    inversion H; subst. exists n. split; [|reflexivity].
    destruct (grows_list h fu (tables_grow h fu) _ _ _ _ _ _ BL) as [_ G]. apply G.
    destruct scs as [|T0 r]; [contradiction|]. apply lookup_register_same.
Qed.

(* EVERY LATER encounter in the scope -- after anything else has been sliced -- is a reference to that very number *)
Theorem later_encounter_is_a_reference h scs scs' oid k fu m :
  scopes_lookup scs oid = Some k -> grows scs scs' ->
  bcanon (S fu) h scs' m (SObj oid) = Some (ORef k, m + 1, scs').
Proof. intros L [_ G]. cbn [bcanon]. rewrite (G _ _ L). reflexivity. Qed.

(* together: a tracked heap object sliced once in a scope is never sliced again in it, whatever is sliced in between
   (f2 / v: any value, any fuel), and the reference carries the number its OPEN took *)
Theorem same_object_never_sliced_twice h f1 scs n oid nd t n1 scs1 :
  scs <> [] -> sfind oid h = Some nd -> tracked (sn_kind nd) = true ->
  bcanon f1 h scs n (SObj oid) = Some (t, n1, scs1) ->
  forall f2 v m t2 m2 scs2, bcanon f2 h scs1 m v = Some (t2, m2, scs2) ->
  forall f3 m3, exists k, bcanon (S f3) h scs2 m3 (SObj oid) = Some (ORef k, m3 + 1, scs2) /\ (scopes_lookup scs oid = None -> k = n).
Proof.
  intros NE F T H f2 v m t2 m2 scs2 H2 f3 m3.
  destruct (sliced_object_is_registered h f1 scs n oid nd t n1 scs1 NE F T H) as (k & L & K).
  exists k. split; [|exact K].
  apply later_encounter_is_a_reference with (scs := scs1); [exact L|exact (tables_grow h f2 _ _ _ _ _ _ H2)].
Qed.

(* non-vacuity, and the mutant's witness: s = [1]; the queue [s, s] in a storage Banana is [[1], reference to 0] *)
Example ex_shared_twice :
  let h := [(7, {| sn_kind := CList; sn_items := [SInt 1] |})] in
  canon_of 5 h true 0 [SObj 7; SObj 7] = Some [OList [OInt 1]; ORef 0] /\
  send_heap 50 h true 0 [SObj 7; SObj 7] = Some (slice_list 0 [OList [OInt 1]; ORef 0]).
Proof. vm_compute. split; reflexivity. Qed.
