(* C08 / C09: ONE connection with BOTH directions at once, and everything a Broker forgets when the connection is lost.

   Each end of a connection is owner (exports its objects) and holder (imports the peer's) at the same time:
     instance IA = lib/Refs.v with A as owner, B as holder;  instance IB = lib/Refs.v with B as owner, A as holder.
   The two instances have separate tables (A's myReferenceBy*, B's yourReferenceBy* vs the converse), separate clid counters
   (each Broker's nextCLID) and separate request ids (each Broker's nextReqID); what they SHARE is the transport -- the
   physical FIFO A->B carries IA's my-references / decref answers and IB's decref calls / your-references interleaved -- and
   the loss of the connection.  The physical queues are modelled by tag lists (tAB, tBA: which instance the next message of
   that direction belongs to) over the instances' own queues; a delivery takes the head TAG and lets that instance process
   the head of its queue.  ConnProofs.v: the tags are a faithful merge (counts match, so a delivery always finds its
   message), every component state is a reachable state of lib/Refs.v (so every two-party theorem holds per direction),
   and after the loss both ends have forgotten everything, in both directions.

   Per end also (fix 30b3768 and the gift tables): Broker.inboundDeliveryQueue, activeLocalCalls, myGifts, myGiftsByGiftID.
   call.py CallUnslicer.receiveChild (activeLocalCalls entry when reqID != 0), broker.py scheduleCall / doNextCall /
   _callFinished / callFailed, makeGift / remote_decgift, finish() -- WHICH tables finish() empties is read from the source
   (finish_clears_*, finish_drops_undelivered_calls). *)
From Coq Require Import ZArith List Bool Lia.
Import ListNotations.
Require Import Verif.lib.PyLite Verif.gen.RefsGen Verif.lib.Refs.
Local Open Scope Z_scope.

Inductive inst := IA | IB.

(* ---- per end: the call tables and the gift tables *)
Record btabs := {
  b_gifts : list Z;        (* myGifts (gift ids of the entries) *)
  b_giftids : list Z;      (* myGiftsByGiftID *)
  b_inq : list Z;          (* inboundDeliveryQueue: request ids of calls parsed but not yet run *)
  b_active : list Z;       (* activeLocalCalls: request ids the peer wants an answer for *)
  b_running : list Z       (* ghost: calls taken off the queue whose answer has not been sent *)
}.
Definition btabs0 : btabs := {| b_gifts := []; b_giftids := []; b_inq := []; b_active := []; b_running := [] |}.

Inductive qop :=
| QCall (rid : Z)          (* an inbound call has been parsed: CallUnslicer (entry in activeLocalCalls) + scheduleCall *)
| QRun                     (* doNextCall takes the oldest queued call *)
| QDone (rid : Z)          (* _callFinished / callFailed: the answer is sent, the entry removed *)
| QGift (id : Z)           (* makeGift creates an entry *)
| QUngift (id : Z).        (* remote_decgift deletes an entry *)

Definition memZ (x : Z) (l : list Z) : bool := existsb (Z.eqb x) l.
Definition delZ (x : Z) (l : list Z) : list Z := filter (fun y => negb (y =? x)) l.

Definition qstep (b : btabs) (q : qop) : btabs :=
  match q with
  | QCall rid =>
    if negb (rid =? 0) && memZ rid (b_active b) then b      (* `assert self.reqID not in activeLocalCalls` *)
    else {| b_gifts := b_gifts b; b_giftids := b_giftids b; b_inq := b_inq b ++ [rid];
            b_active := if rid =? 0 then b_active b else rid :: b_active b; b_running := b_running b |}
  | QRun =>
    match b_inq b with
    | [] => b
    | rid :: r => {| b_gifts := b_gifts b; b_giftids := b_giftids b; b_inq := r; b_active := b_active b;
                     b_running := if rid =? 0 then b_running b else rid :: b_running b |}
    end
  | QDone rid =>
    if memZ rid (b_running b)
    then {| b_gifts := b_gifts b; b_giftids := b_giftids b; b_inq := b_inq b; b_active := delZ rid (b_active b);
            b_running := delZ rid (b_running b) |}
    else b
  | QGift id =>
    if memZ id (b_gifts b) then b
    else {| b_gifts := id :: b_gifts b; b_giftids := id :: b_giftids b; b_inq := b_inq b; b_active := b_active b;
            b_running := b_running b |}
  | QUngift id =>
    {| b_gifts := delZ id (b_gifts b); b_giftids := delZ id (b_giftids b); b_inq := b_inq b; b_active := b_active b;
       b_running := b_running b |}
  end.

(* Broker.finish(): the part about these four tables, as the source has it *)
Definition qfinish (b : btabs) : btabs :=
  {| b_gifts := if finish_clears_myGifts then [] else b_gifts b;
     b_giftids := if finish_clears_myGiftsByGiftID then [] else b_giftids b;
     b_inq := if finish_drops_undelivered_calls then [] else b_inq b;
     b_active := if finish_drops_undelivered_calls then filter (fun r => negb (memZ r (b_inq b))) (b_active b) else b_active b;
     b_running := b_running b |}.

(* ---- the connection *)
Record sym := {
  dA : state;              (* A owns, B holds *)
  dB : state;              (* B owns, A holds *)
  tAB : list inst;         (* physical FIFO A -> B: IA = next of (ch_oh dA), IB = next of (ch_ho dB) *)
  tBA : list inst;         (* physical FIFO B -> A: IA = next of (ch_ho dA), IB = next of (ch_oh dB) *)
  xA : btabs; xB : btabs
}.

Inductive sop :=
| ActA (o : op)            (* a local action of instance IA (Send by A / DropProxy, HandleRefLost, SendHome by B) *)
| ActB (o : op)
| DeliverAB                (* B processes the next message A sent *)
| DeliverBA
| AuxA (q : qop) | AuxB (q : qop)
| SLost.                   (* the connection is lost: both Brokers run finish() *)

Definition sinit : sym := {| dA := init; dB := init; tAB := []; tBA := []; xA := btabs0; xB := btabs0 |}.

Definition is_local (o : op) : bool :=
  match o with Send _ _ | DropProxy _ | HandleRefLost | SendHome _ _ => true | _ => false end.

Definition grow {A} (before after : list A) (i : inst) : list inst := repeat i (List.length after - List.length before).

Definition sstep (s : sym) (o : sop) : sym :=
  if lost (dA s) then s
  else match o with
  | ActA a =>
    if is_local a then
      let d := fst (step (dA s) a) in
      {| dA := d; dB := dB s; tAB := tAB s ++ grow (ch_oh (dA s)) (ch_oh d) IA; tBA := tBA s ++ grow (ch_ho (dA s)) (ch_ho d) IA;
         xA := xA s; xB := xB s |}
    else s
  | ActB a =>
    if is_local a then
      let d := fst (step (dB s) a) in
      {| dA := dA s; dB := d; tAB := tAB s ++ grow (ch_ho (dB s)) (ch_ho d) IB; tBA := tBA s ++ grow (ch_oh (dB s)) (ch_oh d) IB;
         xA := xA s; xB := xB s |}
    else s
  | DeliverAB =>
    match tAB s with
    | [] => s
    | IA :: r => {| dA := fst (step (dA s) RecvOH); dB := dB s; tAB := r; tBA := tBA s; xA := xA s; xB := xB s |}
    | IB :: r => let d := fst (step (dB s) RecvHO) in
                 {| dA := dA s; dB := d; tAB := r; tBA := tBA s ++ grow (ch_oh (dB s)) (ch_oh d) IB; xA := xA s; xB := xB s |}
    end
  | DeliverBA =>
    match tBA s with
    | [] => s
    | IA :: r => let d := fst (step (dA s) RecvHO) in
                 {| dA := d; dB := dB s; tAB := tAB s ++ grow (ch_oh (dA s)) (ch_oh d) IA; tBA := r; xA := xA s; xB := xB s |}
    | IB :: r => {| dA := dA s; dB := fst (step (dB s) RecvOH); tAB := tAB s; tBA := r; xA := xA s; xB := xB s |}
    end
  | AuxA q => {| dA := dA s; dB := dB s; tAB := tAB s; tBA := tBA s; xA := qstep (xA s) q; xB := xB s |}
  | AuxB q => {| dA := dA s; dB := dB s; tAB := tAB s; tBA := tBA s; xA := xA s; xB := qstep (xB s) q |}
  | SLost => {| dA := fst (step (dA s) ConnLost); dB := fst (step (dB s) ConnLost); tAB := []; tBA := [];
                xA := qfinish (xA s); xB := qfinish (xB s) |}
  end.

Fixpoint srun (s : sym) (ops : list sop) : sym :=
  match ops with [] => s | o :: r => srun (sstep s o) r end.

Fixpoint cnt_inst (i : inst) (l : list inst) : nat :=
  match l with [] => O | j :: r => ((match i, j with IA, IA | IB, IB => 1 | _, _ => 0 end) + cnt_inst i r)%nat end.
