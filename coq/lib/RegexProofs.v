(* RegexProofs.v -- facts about the backtracking matcher of Regex.v:
   (1) soundness of the static cost analysis `an`: if it succeeds, one match attempt costs at most
       K * (|s| + 1) steps for EVERY subject s (an_sound, attempt_bound_sound, linear_bound_sound),
       and an unanchored search at most (|s| + 1) * (K * (|s| + 1) + 1)  (search_quadratic);
   (2) inversion / frame lemmas used to read captures (m_success, star_inv, grp_star_inv);
   (3) the greedy repeat takes a whole run when the continuation accepts there (star_greedy). *)
From Coq Require Import ZArith NArith List Bool Lia.
Import ListNotations.
Require Import Verif.lib.Regex.

Definition cost (o : out) : N := snd o.
Definition len (s : list Z) : N := N.of_nat (List.length s).

Lemma len_nil : len [] = 0%N. Proof. reflexivity. Qed.
Lemma len_cons x s : len (x :: s) = (len s + 1)%N.
Proof. unfold len. cbn [List.length]. lia. Qed.

Lemma some_inj {A} (a b : A) : Some a = Some b -> a = b.
Proof. congruence. Qed.

Lemma cost_tick o : cost (tick o) = (cost o + 1)%N.
Proof. destruct o; reflexivity. Qed.
Lemma cost_fail1 : cost fail1 = 1%N. Proof. reflexivity. Qed.
Lemma cost_orelse o f : (cost (orelse o f) <= cost o + cost (f tt))%N.
Proof. destruct o as [[c|] n]; unfold orelse, cost; cbn [fst snd]; lia. Qed.

(* ---------------------------------------------------------------- summaries *)
Definition Sound (k : K) (sm : summ) : Prop :=
  (forall s c, (cost (k s c) <= sa sm * len s + sb sm)%N) /\
  (forall C q, sq sm C = Some q -> forall x s c, in_cset C x = true -> (cost (k (x :: s) c) <= q)%N).

Lemma Sound_mk k a b q :
  (forall s c, (cost (k s c) <= a * len s + b)%N) ->
  (forall C v, q C = Some v -> forall x s c, in_cset C x = true -> (cost (k (x :: s) c) <= v)%N) ->
  Sound k (mk a b q).
Proof.
  intros H1 H2. split; cbn [mk sa sb sq].
  - exact H1.
  - intros C v Hq x s c Hx. destruct (q C) as [v'|] eqn:E.
    + inversion Hq; subst. eapply H2; eauto.
    + destruct (a =? 0)%N eqn:Ea; [|discriminate]. inversion Hq; subst.
      apply N.eqb_eq in Ea. subst a. specialize (H1 (x :: s) c). lia.
Qed.

Lemma in_ranges_ex rs x : in_ranges rs x = true <-> exists r, In r rs /\ in_range x r = true.
Proof. unfold in_ranges. apply existsb_exists. Qed.

Lemma disj_sound C D x : disj C D = true -> in_cset C x = true -> in_cset D x = false.
Proof.
  unfold disj, in_cset. destruct (cs_neg C), (cs_neg D); intros Hd Hc; try discriminate.
  - (* C negated, D positive: D's ranges inside C's *)
    destruct (in_ranges (cs_ranges D) x) eqn:E; [|reflexivity].
    apply in_ranges_ex in E as (r & Hr & Hx).
    unfold ranges_sub in Hd. rewrite forallb_forall in Hd. specialize (Hd r Hr).
    apply existsb_exists in Hd as (r' & Hr' & Hs).
    assert (in_ranges (cs_ranges C) x = true).
    { apply in_ranges_ex. exists r'. split; [assumption|].
      unfold range_sub in Hs. unfold in_range in *. lia. }
    rewrite H in Hc. discriminate.
  - (* C positive, D negated *)
    apply in_ranges_ex in Hc as (r & Hr & Hx).
    unfold ranges_sub in Hd. rewrite forallb_forall in Hd. specialize (Hd r Hr).
    apply existsb_exists in Hd as (r' & Hr' & Hs).
    assert (in_ranges (cs_ranges D) x = true).
    { apply in_ranges_ex. exists r'. split; [assumption|].
      unfold range_sub in Hs. unfold in_range in *. lia. }
    rewrite H. reflexivity.
  - (* both positive *)
    destruct (in_ranges (cs_ranges D) x) eqn:E; [|reflexivity].
    apply in_ranges_ex in Hc as (r1 & Hr1 & Hx1).
    apply in_ranges_ex in E as (r2 & Hr2 & Hx2).
    rewrite forallb_forall in Hd. specialize (Hd r1 Hr1).
    rewrite forallb_forall in Hd. specialize (Hd r2 Hr2).
    unfold range_disj in Hd. unfold in_range in *. lia.
Qed.

Lemma opt_add_some o d v : opt_add o d = Some v -> exists w, o = Some w /\ v = (w + d)%N.
Proof. destruct o; cbn; intros H; inversion H; eauto. Qed.
Lemma opt_add2_some o1 o2 d v : opt_add2 o1 o2 d = Some v ->
  exists x y, o1 = Some x /\ o2 = Some y /\ v = (x + y + d)%N.
Proof. destruct o1, o2; cbn; intros H; inversion H; eauto. Qed.

Lemma cost_stop_lin k sk lo s c : Sound k sk -> (cost (stop lo k s c) <= sa sk * len s + sb sk + 1)%N.
Proof.
  intros [H _]. destruct lo; cbn [stop].
  - rewrite cost_tick. specialize (H s c). lia.
  - rewrite cost_fail1. lia.
Qed.

(* cost of `stop` at a position whose first character the continuation handles quickly *)
Lemma cost_stop_quick k sk lo x s c C q :
  Sound k sk -> sq sk C = Some q -> in_cset C x = true -> (cost (stop lo k (x :: s) c) <= q + 1)%N.
Proof.
  intros [_ H] Hq Hx. destruct lo; cbn [stop].
  - rewrite cost_tick. specialize (H C q Hq x s c Hx). lia.
  - rewrite cost_fail1. lia.
Qed.

Lemma star_lin_unb k sk cs q0 :
  Sound k sk -> sq sk cs = Some q0 ->
  forall s lo c, (cost (star cs lo None s c k) <= N.max (sa sk) (q0 + 2) * len s + (sb sk + 2))%N.
Proof.
  intros Hk Hq. set (A := N.max (sa sk) (q0 + 2)).
  assert (HA1 : (sa sk <= A)%N) by (unfold A; lia).
  assert (HA2 : (q0 + 2 <= A)%N) by (unfold A; lia).
  clearbody A.
  induction s as [|x s IH]; intros lo c; cbn [star].
  - pose proof (cost_stop_lin k sk lo [] c Hk) as H. rewrite len_nil in *. lia.
  - cbn [hi_open andb]. destruct (in_cset cs x) eqn:E.
    + eapply N.le_trans; [apply cost_orelse|]; cbn beta. rewrite cost_tick.
      specialize (IH (pred lo) c). cbn [option_map] in *.
      pose proof (cost_stop_quick k sk lo x s c cs q0 Hk Hq E) as H.
      rewrite len_cons. lia.
    + pose proof (cost_stop_lin k sk lo (x :: s) c Hk) as H.
      assert (sa sk * len (x :: s) <= A * len (x :: s))%N by (apply N.mul_le_mono_r; assumption).
      lia.
Qed.

Lemma star_lin_b k sk cs :
  Sound k sk ->
  forall s lo hi c, (cost (star cs lo (Some hi) s c k) <= N.of_nat (S hi) * (sa sk * len s + sb sk + 2))%N.
Proof.
  intros Hk. induction s as [|x s IH]; intros lo hi c; cbn [star].
  - pose proof (cost_stop_lin k sk lo [] c Hk) as H.
    assert (1 * (sa sk * len [] + sb sk + 2) <= N.of_nat (S hi) * (sa sk * len [] + sb sk + 2))%N
      by (apply N.mul_le_mono_r; lia).
    lia.
  - assert (Hstop : (cost (stop lo k (x :: s) c) <= 1 * (sa sk * len (x :: s) + sb sk + 2))%N).
    { pose proof (cost_stop_lin k sk lo (x :: s) c Hk). lia. }
    assert (Hmono : forall h, (1 <= h)%N ->
              (1 * (sa sk * len (x :: s) + sb sk + 2) <= h * (sa sk * len (x :: s) + sb sk + 2))%N)
      by (intros; apply N.mul_le_mono_r; assumption).
    destruct hi as [|hi']; cbn [hi_open andb].
    + specialize (Hmono (N.of_nat 1)). lia.
    + destruct (in_cset cs x) eqn:E.
      * eapply N.le_trans; [apply cost_orelse|]; cbn beta. rewrite cost_tick.
        specialize (IH (pred lo) hi' c). cbn [option_map pred].
        set (X' := (sa sk * len s + sb sk + 2)%N) in *.
        set (X := (sa sk * len (x :: s) + sb sk + 2)%N) in *.
        assert (HX : (X' <= X)%N).
        { unfold X, X'. rewrite len_cons. lia. }
        assert (N.of_nat (S hi') * X' <= N.of_nat (S hi') * X)%N by (apply N.mul_le_mono_l; assumption).
        replace (N.of_nat (S (S hi'))) with (N.of_nat (S hi') + 1)%N by lia.
        pose proof (cost_stop_lin k sk lo (x :: s) c Hk) as Hs. fold X in Hs. lia.
      * specialize (Hmono (N.of_nat (S (S hi')))). lia.
Qed.

(* when the first character is outside the repeat's set, the repeat stops at once *)
Lemma star_first_out cs lo hi x s c k : in_cset cs x = false -> star cs lo hi (x :: s) c k = stop lo k (x :: s) c.
Proof. intros E. cbn [star]. rewrite E, andb_false_r. reflexivity. Qed.

Lemma star_q k sk cs lo hi C v :
  Sound k sk ->
  (if disj C cs then match lo with O => opt_add (sq sk C) 1 | S _ => Some 1%N end else None) = Some v ->
  forall x s c, in_cset C x = true -> (cost (star cs lo hi (x :: s) c k) <= v)%N.
Proof.
  intros Hk Hv x s c Hx. destruct (disj C cs) eqn:Ed; [|discriminate].
  rewrite (star_first_out cs lo hi x s c k (disj_sound C cs x Ed Hx)).
  destruct lo.
  - apply opt_add_some in Hv as (w & Hw & ->).
    eapply cost_stop_quick; eauto.
  - inversion Hv; subst. cbn [stop]. rewrite cost_fail1. lia.
Qed.

Definition an_ok (r : re) : Prop :=
  forall sk sm, an r sk = Some sm -> forall k, Sound k sk -> Sound (fun s c => m r s c k) sm.

Lemma rep_sound r (IHr : an_ok r) :
  forall hi lo sk sm, rep_an (an r) lo hi sk = Some sm ->
  forall k, Sound k sk -> Sound (fun s c => rep (m r) lo hi s c k) sm.
Proof.
  induction hi as [|hi IH]; intros lo sk sm Han k Hk; cbn [rep_an] in Han.
  - inversion Han; subst. cbn [rep]. exact Hk.
  - destruct (rep_an (an r) (pred lo) hi sk) as [srest|] eqn:E1; [|discriminate].
    destruct (an r srest) as [sbody|] eqn:E2; [|discriminate].
    pose proof (IH (pred lo) sk srest E1 k Hk) as Hrest.
    pose proof (IHr srest sbody E2 _ Hrest) as Hbody. cbn beta in Hbody.
    destruct Hbody as [Hb1 Hb2]. destruct Hk as [Hk1 Hk2].
    destruct lo as [|lo']; inversion Han; subst; clear Han; cbn [pred] in *; apply Sound_mk.
    + intros s c. cbn [rep]. eapply N.le_trans; [apply cost_orelse|]; cbn beta. rewrite cost_tick.
      specialize (Hb1 s c). specialize (Hk1 s c). lia.
    + intros C v Hv x s c Hx. apply opt_add2_some in Hv as (q1 & q2 & Hq1 & Hq2 & ->).
      cbn [rep]. eapply N.le_trans; [apply cost_orelse|]; cbn beta. rewrite cost_tick.
      specialize (Hb2 C q1 Hq1 x s c Hx). specialize (Hk2 C q2 Hq2 x s c Hx). lia.
    + intros s c. cbn [rep]. rewrite cost_tick. specialize (Hb1 s c). lia.
    + intros C v Hv x s c Hx. apply opt_add_some in Hv as (q1 & Hq1 & ->).
      cbn [rep]. rewrite cost_tick. specialize (Hb2 C q1 Hq1 x s c Hx). lia.
Qed.

(* Soundness of the analysis: a summary it computes really bounds the matcher's steps *)
Theorem an_sound : forall r, an_ok r.
Proof.
  induction r as [|cs|a IHa b IHb|a IHa b IHb|cs lo hi|r IHr lo hi|i r IHr|]; intros sk sm Han k Hk; cbn [an] in Han.
  - (* Eps *) inversion Han; subst. exact Hk.
  - (* Chr *) apply some_inj in Han; subst sm. destruct Hk as [Hk1 Hk2]. apply Sound_mk.
    + intros s c. cbn [m]. destruct s as [|x s].
      * rewrite cost_fail1. lia.
      * destruct (in_cset cs x).
        -- rewrite cost_tick. specialize (Hk1 s c). rewrite len_cons. lia.
        -- rewrite cost_fail1. lia.
    + intros C v Hv x s c Hx. destruct (disj C cs) eqn:Ed; [|discriminate]. inversion Hv; subst.
      cbn [m]. rewrite (disj_sound C cs x Ed Hx). rewrite cost_fail1. lia.
  - (* Cat *) destruct (an b sk) as [s2|] eqn:E; [|discriminate].
    cbn [m]. apply (IHa s2 sm Han). apply (IHb sk s2 E). exact Hk.
  - (* Alt *) destruct (an a sk) as [s1|] eqn:E1; [|discriminate].
    destruct (an b sk) as [s2|] eqn:E2; [|discriminate]. apply some_inj in Han; subst sm.
    destruct (IHa sk s1 E1 k Hk) as [Ha1 Ha2]. destruct (IHb sk s2 E2 k Hk) as [Hb1 Hb2].
    apply Sound_mk.
    + intros s c. cbn [m]. eapply N.le_trans; [apply cost_orelse|]; cbn beta. rewrite cost_tick.
      specialize (Ha1 s c). specialize (Hb1 s c). cbn beta in *. lia.
    + intros C v Hv x s c Hx. apply opt_add2_some in Hv as (q1 & q2 & Hq1 & Hq2 & ->).
      cbn [m]. eapply N.le_trans; [apply cost_orelse|]; cbn beta. rewrite cost_tick.
      specialize (Ha2 C q1 Hq1 x s c Hx). specialize (Hb2 C q2 Hq2 x s c Hx). cbn beta in *. lia.
  - (* Star *) destruct hi as [hi|].
    + apply some_inj in Han; subst sm. apply Sound_mk.
      * intros s c. cbn [m]. pose proof (star_lin_b k sk cs Hk s lo hi c) as H. unfold hfac.
        replace (N.of_nat (S hi) * sa sk * len s + N.of_nat (S hi) * (sb sk + 2))%N
          with (N.of_nat (S hi) * (sa sk * len s + sb sk + 2))%N by ring. exact H.
      * intros C v Hv x s c Hx. cbn [m]. eapply star_q; eauto.
    + destruct (sq sk cs) as [q0|] eqn:Eq; [|discriminate]. apply some_inj in Han; subst sm. apply Sound_mk.
      * intros s c. cbn [m]. apply star_lin_unb; assumption.
      * intros C v Hv x s c Hx. cbn [m]. eapply star_q; eauto.
  - (* Rep *) cbn [m]. eapply rep_sound; eauto.
  - (* Grp *) destruct Hk as [Hk1 Hk2]. split.
    + intros s c. cbn [m].
      assert (Hk' : Sound (fun s' c' => k s' ((i, (s, s')) :: c')) sk).
      { split; intros; [apply Hk1 | eapply Hk2; eauto]. }
      destruct (IHr sk sm Han _ Hk') as [H _]. apply (H s c).
    + intros C q Hq x s c Hx. cbn [m].
      assert (Hk' : Sound (fun s' c' => k s' ((i, (x :: s, s')) :: c')) sk).
      { split; intros; [apply Hk1 | eapply Hk2; eauto]. }
      destruct (IHr sk sm Han _ Hk') as [_ H]. apply (H C q Hq x s c Hx).
  - (* Eol *) apply some_inj in Han; subst sm. destruct Hk as [Hk1 Hk2]. apply Sound_mk.
    + intros s c. cbn [m]. destruct (at_eol s).
      * rewrite cost_tick. specialize (Hk1 s c). lia.
      * rewrite cost_fail1. lia.
    + intros C v Hv x s c Hx. inversion Hv; subst. cbn [m].
      destruct (at_eol (x :: s)) eqn:E.
      * cbn [at_eol] in E. destruct s; [|discriminate].
        rewrite cost_tick. specialize (Hk1 [x] c). rewrite len_cons, len_nil in Hk1. lia.
      * rewrite cost_fail1. lia.
Qed.

Lemma accept_sound : Sound accept accept_summ.
Proof.
  unfold accept_summ. apply Sound_mk.
  - intros s c. unfold accept, cost; cbn [snd]. lia.
  - intros C v Hv x s c _. inversion Hv; subst. unfold accept, cost; cbn [snd]. lia.
Qed.

Theorem attempt_bound_sound r Kb :
  attempt_bound r = Some Kb -> forall s, (cost (m_top r s) <= Kb * (len s + 1))%N.
Proof.
  unfold attempt_bound. destruct (an (Grp 0 r) accept_summ) as [sm|] eqn:E; [|discriminate].
  intros H s. inversion H; subst; clear H.
  destruct (an_sound (Grp 0 r) accept_summ sm E accept accept_sound) as [H _].
  specialize (H s []). unfold m_top.
  set (M := N.max (sa sm) (sb sm)).
  assert (sa sm * len s <= M * len s)%N by (apply N.mul_le_mono_r; unfold M; lia).
  assert (sb sm <= M)%N by (unfold M; lia). cbn beta in H. lia.
Qed.

(* THE TIME CLAIM, generic form: whenever the analysis accepts a pattern that is applied at
   position 0 only, matching costs at most K * (|s| + 1) steps on every subject *)
Theorem linear_bound_sound p meth Kb :
  linear_bound p meth = Some Kb -> forall s, (re_steps p meth s <= Kb * (len s + 1))%N.
Proof.
  unfold linear_bound, re_steps, re_run. intros H s.
  destruct meth.
  - destruct (p_anch p); [|discriminate]. apply attempt_bound_sound; assumption.
  - apply attempt_bound_sound. destruct (p_anch p); assumption.
Qed.

(* an unanchored search repeats the attempt at every start position *)
Theorem search_quadratic r Kb :
  attempt_bound r = Some Kb ->
  forall s, (cost (search_from r s) <= (len s + 1) * (Kb * (len s + 1) + 1))%N.
Proof.
  intros HK. induction s as [|x s IH]; cbn [search_from].
  - eapply N.le_trans; [apply cost_orelse|]; cbn beta. rewrite cost_tick.
    pose proof (attempt_bound_sound r Kb HK []) as H. rewrite len_nil in *. unfold cost at 2; cbn [snd]. lia.
  - eapply N.le_trans; [apply cost_orelse|]; cbn beta. rewrite cost_tick.
    pose proof (attempt_bound_sound r Kb HK (x :: s)) as H. rewrite len_cons in *.
    set (L := len s) in *. nia.
Qed.

Theorem re_steps_bounded p meth Kb :
  attempt_bound (p_body p) = Some Kb ->
  forall s, (re_steps p meth s <= (len s + 1) * (Kb * (len s + 1) + 1))%N.
Proof.
  intros HK s. unfold re_steps, re_run.
  assert (Hm : (cost (m_top (p_body p) s) <= (len s + 1) * (Kb * (len s + 1) + 1))%N).
  { pose proof (attempt_bound_sound _ _ HK s). nia. }
  destruct meth; [destruct (p_anch p)|]; try exact Hm. apply search_quadratic; assumption.
Qed.

(* ---------------------------------------------------------------- success / captures *)
Fixpoint grps (r : re) : list nat :=
  match r with
  | Cat a b | Alt a b => grps a ++ grps b
  | Rep r _ _ => grps r
  | Grp i r => i :: grps r
  | _ => []
  end.

Lemma orelse_some o f res n : orelse o f = (Some res, n) ->
  (exists n', o = (Some res, n')) \/ (exists n', f tt = (Some res, n')).
Proof.
  destruct o as [[c|] n0]; unfold orelse; intros H.
  - inversion H; subst. left; eauto.
  - right. destruct (f tt) as [r2 n2]. cbn [fst snd] in H. inversion H; subst. eauto.
Qed.

Lemma tick_some o res n : tick o = (Some res, n) -> exists n', o = (Some res, n').
Proof. destruct o as [r0 n0]; unfold tick; cbn [fst snd]; intros H; inversion H; subst; eauto. Qed.

Lemma stop_some lo k s c res n : stop lo k s c = (Some res, n) -> lo = O /\ exists n', k s c = (Some res, n').
Proof. destruct lo; cbn [stop]; intros H; [apply tick_some in H; auto | discriminate]. Qed.

(* a successful greedy repeat consumed a run u of the set, within its bounds, and the
   continuation succeeded on the rest with the same captures *)
Lemma star_inv cs k res : forall s lo hi c n,
  star cs lo hi s c k = (Some res, n) ->
  exists u s', s = u ++ s' /\ forallb (in_cset cs) u = true /\ (lo <= List.length u)%nat /\
               (match hi with Some h => (List.length u <= h)%nat | None => True end) /\
               exists n', k s' c = (Some res, n').
Proof.
  induction s as [|x s IH]; intros lo hi c n H; cbn [star] in H.
  - apply stop_some in H as [-> Hk]. exists [], []. cbn. repeat split; auto. destruct hi; auto; lia.
  - destruct (hi_open hi && in_cset cs x) eqn:E.
    + apply andb_true_iff in E as [Eh Ex].
      apply orelse_some in H as [[n' H]|[n' H]].
      * apply tick_some in H as [n'' H]. apply IH in H as (u & s' & -> & Hu & Hlo & Hhi & Hk).
        exists (x :: u), s'. cbn [app forallb List.length]. rewrite Ex, Hu. repeat split; auto; [lia|].
        destruct hi as [[|h]|]; cbn [hi_open option_map pred] in *; try discriminate; auto; lia.
      * apply stop_some in H as [-> Hk]. exists [], (x :: s). cbn. repeat split; auto. destruct hi; auto; lia.
    + apply stop_some in H as [-> Hk]. exists [], (x :: s). cbn. repeat split; auto. destruct hi; auto; lia.
Qed.

Definition frame (r : re) (c c' : caps) : Prop := forall i, ~ In i (grps r) -> cap_get i c' = cap_get i c.

Definition succ_ok (r : re) : Prop :=
  forall s c k res n, m r s c k = (Some res, n) ->
  exists s' c' n', k s' c' = (Some res, n') /\ frame r c c'.

Lemma rep_success r (IHr : succ_ok r) : forall hi lo s c k res n,
  rep (m r) lo hi s c k = (Some res, n) ->
  exists s' c' n', k s' c' = (Some res, n') /\ frame r c c'.
Proof.
  induction hi as [|hi IH]; intros lo s c k res n H; cbn [rep] in H.
  - exists s, c, n. split; [assumption|]. intros i _. reflexivity.
  - assert (Hbody : forall lo' n0, m r s c (fun s' c' => rep (m r) lo' hi s' c' k) = (Some res, n0) ->
                     exists s' c' n', k s' c' = (Some res, n') /\ frame r c c').
    { intros lo' n0 H0. apply IHr in H0 as (s1 & c1 & n1 & H1 & F1).
      apply IH in H1 as (s2 & c2 & n2 & H2 & F2). exists s2, c2, n2. split; [assumption|].
      intros i Hi. rewrite (F2 i Hi). apply F1; assumption. }
    destruct lo as [|lo'].
    + apply orelse_some in H as [[n' H]|[n' H]].
      * apply tick_some in H as [n'' H]. eapply Hbody; eauto.
      * exists s, c, n'. split; [assumption|]. intros i _. reflexivity.
    + apply tick_some in H as [n'' H]. eapply Hbody; eauto.
Qed.

(* if a match succeeds, the continuation was entered successfully somewhere, with captures that
   differ from the incoming ones only on the groups that occur in r *)
Theorem m_success : forall r, succ_ok r.
Proof.
  induction r as [|cs|a IHa b IHb|a IHa b IHb|cs lo hi|r IHr lo hi|i r IHr|]; intros s c k res n H; cbn [m] in H.
  - exists s, c, n. split; [assumption|]. intros i _. reflexivity.
  - destruct s as [|x s]; [discriminate|]. destruct (in_cset cs x); [|discriminate].
    apply tick_some in H as [n' H]. exists s, c, n'. split; [assumption|]. intros i _. reflexivity.
  - apply IHa in H as (s1 & c1 & n1 & H1 & F1). apply IHb in H1 as (s2 & c2 & n2 & H2 & F2).
    exists s2, c2, n2. split; [assumption|]. intros i Hi. cbn [grps] in Hi. rewrite in_app_iff in Hi.
    rewrite F2 by tauto. apply F1. tauto.
  - apply orelse_some in H as [[n' H]|[n' H]].
    + apply tick_some in H as [n'' H]. apply IHa in H as (s1 & c1 & n1 & H1 & F1).
      exists s1, c1, n1. split; [assumption|]. intros i Hi. cbn [grps] in Hi. rewrite in_app_iff in Hi. apply F1. tauto.
    + apply IHb in H as (s1 & c1 & n1 & H1 & F1).
      exists s1, c1, n1. split; [assumption|]. intros i Hi. cbn [grps] in Hi. rewrite in_app_iff in Hi. apply F1. tauto.
  - apply star_inv in H as (u & s' & _ & _ & _ & _ & n' & Hk). exists s', c, n'. split; [assumption|].
    intros i _. reflexivity.
  - apply (rep_success r IHr) in H. exact H.
  - apply IHr in H as (s1 & c1 & n1 & H1 & F1). exists s1, ((i, (s, s1)) :: c1), n1. split; [assumption|].
    intros j Hj. cbn [grps In] in Hj. cbn [cap_get]. destruct (Nat.eqb j i) eqn:E.
    + apply Nat.eqb_eq in E. subst. tauto.
    + apply F1. tauto.
  - destruct (at_eol s); [|discriminate]. apply tick_some in H as [n' H].
    exists s, c, n'. split; [assumption|]. intros i _. reflexivity.
Qed.

Lemma content_app u s' : content (u ++ s', s') = u.
Proof.
  unfold content. cbn [fst snd]. rewrite app_length.
  replace (List.length u + List.length s' - List.length s')%nat with (List.length u) by lia.
  rewrite firstn_app, firstn_all, Nat.sub_diag. cbn [firstn]. apply app_nil_r.
Qed.

(* a group around a repeat of one set: the group's text is a run of that set within the bounds *)
Lemma grp_star_inv i cs lo hi s c k res n :
  m (Grp i (Star cs lo hi)) s c k = (Some res, n) ->
  exists u s', s = u ++ s' /\ forallb (in_cset cs) u = true /\ (lo <= List.length u)%nat /\
               (match hi with Some h => (List.length u <= h)%nat | None => True end) /\
               exists n', k s' ((i, (u ++ s', s')) :: c) = (Some res, n').
Proof.
  cbn [m]. intros H. apply star_inv in H as (u & s' & -> & Hu & Hlo & Hhi & n' & Hk).
  exists u, s'. repeat split; eauto.
Qed.

(* ---------------------------------------------------------------- greedy takes the run *)
Lemma fst_orelse_tick o f res : fst o = Some res -> fst (orelse (tick o) f) = Some res.
Proof. destruct o as [[c|] n]; cbn; intros H; inversion H; reflexivity. Qed.

Lemma star_greedy cs k res : forall u v lo c,
  forallb (in_cset cs) u = true ->
  (match v with [] => True | x :: _ => in_cset cs x = false end) ->
  (lo <= List.length u)%nat ->
  fst (k v c) = Some res ->
  fst (star cs lo None (u ++ v) c k) = Some res.
Proof.
  induction u as [|y u IH]; intros v lo c Hu Hv Hlo Hk.
  - cbn [app]. assert (lo = O) by (cbn in Hlo; lia). subst lo.
    destruct v as [|x v]; cbn [star].
    + cbn [stop]. unfold tick. cbn [fst]. assumption.
    + rewrite Hv, andb_false_r. cbn [stop]. unfold tick. cbn [fst]. assumption.
  - cbn [forallb] in Hu. apply andb_true_iff in Hu as [Hy Hu].
    cbn [app star hi_open andb]. rewrite Hy. apply fst_orelse_tick. cbn [option_map].
    apply IH; auto. cbn [List.length] in Hlo. lia.
Qed.

(* ---------------------------------------------------------------- lower bounds on the step count *)
Lemma cost_orelse_ge o f : (cost o <= cost (orelse o f))%N.
Proof. destruct o as [[c|] n]; unfold orelse, cost; cbn [fst snd]; lia. Qed.

Lemma orelse_none n f : orelse (None, n) f = (fst (f tt), (n + snd (f tt))%N).
Proof. reflexivity. Qed.

(* an unbounded greedy repeat walks over the whole run of its set, whatever follows *)
Lemma star_cost_ge cs k : forall s lo c, forallb (in_cset cs) s = true -> (len s <= cost (star cs lo None s c k))%N.
Proof.
  induction s as [|x s IH]; intros lo c H.
  - rewrite len_nil. lia.
  - cbn [forallb] in H. apply andb_true_iff in H as [Hx Hs].
    cbn [star hi_open andb]. rewrite Hx. cbn [option_map].
    eapply N.le_trans; [|apply cost_orelse_ge]. rewrite cost_tick, len_cons.
    specialize (IH (pred lo) c Hs). lia.
Qed.

(* a failed attempt at one position is paid in full, and the search goes on at the next one *)
Lemma search_skip r x s : fst (m_top r (x :: s)) = None ->
  cost (search_from r (x :: s)) = (cost (m_top r (x :: s)) + 1 + cost (search_from r s))%N.
Proof.
  intros H. cbn [search_from]. destruct (m_top r (x :: s)) as [o n]. cbn [fst] in H. subst o.
  unfold tick. cbn [fst snd]. rewrite orelse_none. unfold cost. cbn [snd]. reflexivity.
Qed.

Lemma search_step_le r x s :
  (cost (search_from r (x :: s)) <= cost (m_top r (x :: s)) + 1 + cost (search_from r s))%N.
Proof.
  cbn [search_from]. eapply N.le_trans; [apply cost_orelse|]. cbn beta. rewrite cost_tick. lia.
Qed.

Lemma search_nil_le r : (cost (search_from r []) <= cost (m_top r []) + 1)%N.
Proof.
  cbn [search_from]. eapply N.le_trans; [apply cost_orelse|]. cbn beta. rewrite cost_tick. unfold cost. cbn [snd]. lia.
Qed.

(* literal characters *)
Lemma in_cset_lit_eqb a x : in_cset (CS false [(a, a)]) x = (x =? a)%Z.
Proof.
  unfold in_cset, in_ranges, in_range. cbn [cs_neg cs_ranges existsb fst snd]. rewrite orb_false_r.
  destruct (Z.eqb_spec x a) as [->|Hne].
  - rewrite Z.leb_refl. reflexivity.
  - destruct (Z.leb_spec a x), (Z.leb_spec x a); cbn; try reflexivity; lia.
Qed.
