(* ConnectAllProofs.v -- per-hint containment and no-stall for the model of TubConnector.connectToAll (ConnectAll.v),
   for ALL hint lists and ALL behaviours of the individual hints (a hint whose handler has not answered, HWaiting, included:
   it counts as pending).  What happens after connect() has returned (late phase, timer) is ConnectLateProofs.v. *)
From Coq Require Import ZArith List String Bool Lia.
Import ListNotations.
Require Import Verif.lib.PyLite Verif.lib.ConnectAll.
Local Open Scope Z_scope.

Lemma hmem_In h l : hmem h l = true <-> In h l.
Proof.
  induction l as [|x l IH]; cbn [hmem In]; [split; [discriminate|tauto]|].
  rewrite orb_true_iff, IH, list_eqb_eq. split; intros [H|H]; auto.
Qed.

Lemma list_eqb_refl h : list_eqb h h = true.
Proof. apply list_eqb_eq. reflexivity. Qed.

(* ---- checkForFailure / failed() touch only active, failed_calls and the reason *)
Lemma cff_fields s :
  attempted (check_for_failure s) = attempted s /\ valid (check_for_failure s) = valid s /\
  pending (check_for_failure s) = pending s /\ statuses (check_for_failure s) = statuses s /\
  remaining (check_for_failure s) = remaining s.
Proof.
  unfold check_for_failure. destruct (negb (active s)); [auto|].
  destruct (negb (nil_b (remaining s)) || negb (nil_b (pending s))); [auto|].
  destruct (nil_b (valid s)); cbn; auto.
Qed.

Lemma consider_fields beh h s :
  attempted (consider beh h s) = attempted s /\ remaining (consider beh h s) = remaining s /\
  pending (consider beh h s) = (if is_pending (beh h) then h :: pending s else pending s) /\
  (forall h', status_of h' (statuses (consider beh h s)) =
              if list_eqb h' h then Some (expected_status (beh h)) else status_of h' (statuses s)).
Proof.
  unfold consider. destruct (beh h) as [| |e|e]; cbn [is_pending expected_status].
  - split; [reflexivity|]. split; [reflexivity|]. split; [reflexivity|].
    intros h'. cbn [statuses add_pending good_hint status_of]. reflexivity.
  - split; [reflexivity|]. split; [reflexivity|]. split; [reflexivity|].
    intros h'. cbn [statuses add_pending resolving status_of]. reflexivity.
  - unfold connection_failed.
    match goal with |- context [check_for_failure ?x] => destruct (cff_fields x) as (A & _ & P & S & R) end.
    rewrite A, P, S, R. split; [reflexivity|]. split; [reflexivity|]. split; [reflexivity|].
    intros h'. cbn [statuses good_hint status_of]. destruct (list_eqb h' h); reflexivity.
  - unfold connection_failed.
    match goal with |- context [check_for_failure ?x] => destruct (cff_fields x) as (A & _ & P & S & R) end.
    rewrite A, P, S, R. split; [reflexivity|]. split; [reflexivity|]. split; [reflexivity|].
    intros h'. cbn [statuses status_of]. reflexivity.
Qed.

(* ---- what the loop does to the bookkeeping, whatever the failure logic does *)
Definition Jinv (beh : hstr -> houtcome) (s : cas) : Prop :=
  forall h, In h (attempted s) -> is_pending (beh h) = true -> In h (pending s).
Definition Kinv (beh : hstr -> houtcome) (s : cas) : Prop :=
  forall h, In h (attempted s) -> status_of h (statuses s) = Some (expected_status (beh h)).

Lemma loop_books beh : forall l s, Jinv beh s -> Kinv beh s ->
  let r := connect_loop beh l s in
  (forall h, In h (attempted s) \/ In h l -> In h (attempted r)) /\
  (forall h, In h (pending s) -> In h (pending r)) /\
  (forall h, In h (pending r) -> In h (pending s) \/ (In h l /\ is_pending (beh h) = true)) /\
  Jinv beh r /\ Kinv beh r.
Proof.
  induction l as [|x rest IH]; intros s HJ HK; cbn [connect_loop].
  - destruct (cff_fields s) as (A & _ & P & S & _). cbv zeta. rewrite A, P.
    split; [intros h [H|[]]; exact H|]. split; [auto|]. split; [auto|].
    split; [intros h; rewrite A, P; apply HJ | intros h; rewrite A, S; apply HK].
  - cbn [attempted].
    set (s0 := {| remaining := rest; attempted := attempted s; valid := valid s; pending := pending s; statuses := statuses s;
                  reason := reason s; active := active s; failed_calls := failed_calls s |}).
    destruct (hmem x (attempted s)) eqn:M.
    + assert (J0 : Jinv beh s0) by exact HJ. assert (K0 : Kinv beh s0) by exact HK.
      destruct (IH s0 J0 K0) as (A & P1 & P3 & J & K). cbv zeta in *. cbn [attempted pending] in *.
      split; [|split; [exact P1|split; [|split; assumption]]].
      * intros h [H|[<-|H]]; apply A; [left; exact H | left; apply hmem_In; exact M | right; exact H].
      * intros h H. destruct (P3 h H) as [H1|[H1 H2]]; [left; exact H1 | right; split; [right; exact H1 | exact H2]].
    + set (s1 := {| remaining := rest; attempted := x :: attempted s; valid := valid s; pending := pending s; statuses := statuses s;
                    reason := reason s; active := active s; failed_calls := failed_calls s |}).
      destruct (consider_fields beh x s1) as (CA & _ & CP & CS).
      assert (Hx : ~ In x (attempted s)) by (intros H; apply hmem_In in H; congruence).
      assert (J1 : Jinv beh (consider beh x s1)).
      { intros h. rewrite CA, CP. cbn [attempted pending s1]. intros [<-|H] Hb.
        - rewrite Hb. left. reflexivity.
        - destruct (is_pending (beh x)); [right|]; apply HJ; assumption. }
      assert (K1 : Kinv beh (consider beh x s1)).
      { intros h. rewrite CA, CS. cbn [attempted statuses s1]. intros [<-|H].
        - rewrite list_eqb_refl. reflexivity.
        - destruct (list_eqb h x) eqn:E; [apply list_eqb_eq in E; subst; tauto|]. apply HK. exact H. }
      destruct (IH _ J1 K1) as (A & P1 & P3 & J & K). cbv zeta in *. rewrite CA, CP in *. cbn [attempted pending s1] in *.
      split; [|split; [|split; [|split; assumption]]].
      * intros h [H|[<-|H]]; apply A; [left; right; exact H | left; left; reflexivity | right; exact H].
      * intros h H. apply P1. destruct (is_pending (beh x)); [right|]; exact H.
      * intros h H. destruct (P3 h H) as [H1|[H1 H2]]; [|right; split; [right; exact H1 | exact H2]].
        destruct (is_pending (beh x)) eqn:B; [|left; exact H1].
        destruct H1 as [<-|H1]; [right; split; [left; reflexivity | exact B] | left; exact H1].
Qed.

(* ---- the failure logic *)
Definition Iinv (s : cas) : Prop := active s = true /\ failed_calls s = 0%nat.
Definition Finv (s : cas) : Prop := active s = false /\ failed_calls s = 1%nat.

Lemma cff_nonempty s : remaining s <> [] -> check_for_failure s = s.
Proof.
  intros H. unfold check_for_failure. destruct (negb (active s)); [reflexivity|].
  destruct (remaining s); [congruence|]. reflexivity.
Qed.

Lemma cff_last s : Iinv s -> remaining s = [] ->
  (pending s <> [] /\ check_for_failure s = s) \/ (pending s = [] /\ Finv (check_for_failure s)).
Proof.
  intros [Ha Hf] Hr. unfold check_for_failure. rewrite Ha, Hr. cbn [negb nil_b orb].
  destruct (pending s) as [|p ps]; cbn [nil_b negb].
  - right. split; [reflexivity|]. unfold Finv. destruct (nil_b (valid s)); cbn; rewrite Hf; auto.
  - left. split; [discriminate|reflexivity].
Qed.

Lemma cff_inactive s : active s = false -> check_for_failure s = s.
Proof. intros H. unfold check_for_failure. rewrite H. reflexivity. Qed.

Lemma consider_inv beh h s : Iinv s ->
  (remaining s <> [] -> Iinv (consider beh h s)) /\
  (remaining s = [] -> (pending (consider beh h s) <> [] /\ Iinv (consider beh h s)) \/
                       (pending (consider beh h s) = [] /\ Finv (consider beh h s))).
Proof.
  intros HI. unfold consider. destruct (beh h) as [| |e|e].
  - split; [intros _; exact HI|]. intros _. left. split; [cbn; discriminate | exact HI].
  - split; [intros _; exact HI|]. intros _. left. split; [cbn; discriminate | exact HI].
  - unfold connection_failed.
    match goal with |- context [check_for_failure ?x] => set (y := x) end.
    assert (Iy : Iinv y) by exact HI.
    split.
    + intros H. rewrite cff_nonempty by exact H. exact Iy.
    + intros H. destruct (cff_last y Iy H) as [[P E]|[P Fy]].
      * left. rewrite E. split; [exact P|exact Iy].
      * right. destruct (cff_fields y) as (_ & _ & Pp & _). rewrite Pp. auto.
  - unfold connection_failed.
    match goal with |- context [check_for_failure ?x] => set (y := x) end.
    assert (Iy : Iinv y) by exact HI.
    split.
    + intros H. rewrite cff_nonempty by exact H. exact Iy.
    + intros H. destruct (cff_last y Iy H) as [[P E]|[P Fy]].
      * left. rewrite E. split; [exact P|exact Iy].
      * right. destruct (cff_fields y) as (_ & _ & Pp & _). rewrite Pp. auto.
Qed.

Lemma loop_failure beh : forall l s, remaining s = l -> Iinv s ->
  let r := connect_loop beh l s in
  (pending r <> [] /\ Iinv r) \/ (pending r = [] /\ Finv r).
Proof.
  induction l as [|x rest IH]; intros s Hr HI; cbn [connect_loop]; cbv zeta.
  - destruct (cff_last s HI Hr) as [[P E]|[P Fy]].
    + left. rewrite E. auto.
    + right. destruct (cff_fields s) as (_ & _ & Pp & _). rewrite Pp. auto.
  - cbn [attempted].
    destruct (hmem x (attempted s)).
    + apply IH; [reflexivity | exact HI].
    + match goal with |- context [consider beh x ?y] => set (s1 := y) end.
      assert (I1 : Iinv s1) by exact HI.
      destruct (consider_inv beh x s1 I1) as [Hne Hnil].
      destruct (consider_fields beh x s1) as (_ & CR & _ & _).
      destruct rest as [|x2 rest'].
      * cbn [connect_loop].
        destruct (Hnil eq_refl) as [[P I2]|[P F2]].
        -- assert (R2 : remaining (consider beh x s1) = []) by (rewrite CR; reflexivity).
           destruct (cff_last _ I2 R2) as [[P' E]|[P' _]]; [|congruence]. left. rewrite E. auto.
        -- right. rewrite cff_inactive by (destruct F2; assumption). auto.
      * apply IH; [rewrite CR; reflexivity | apply Hne; cbn; discriminate].
Qed.

(* ================================================================== the theorems *)
Lemma init_J beh hints : Jinv beh (init hints). Proof. intros h []. Qed.
Lemma init_K beh hints : Kinv beh (init hints). Proof. intros h []. Qed.

(* 1. every hint is considered, whatever any hint (itself or another) does *)
Theorem every_hint_tried : forall beh hints h, In h hints -> In h (attempted (connect_all beh hints)).
Proof.
  intros beh hints h H. destruct (loop_books beh hints (init hints) (init_J beh hints) (init_K beh hints)) as (A & _).
  apply A. right. exact H.
Qed.

(* 2. a hint that yields a live endpoint is dialled, one whose handler is still waiting is held (is_pending) -- no exception
      of another hint keeps it from being tried -- and every hint ends with the status that its OWN outcome determines *)
Theorem usable_hint_dialled : forall beh hints h, In h hints -> is_pending (beh h) = true ->
  In h (pending (connect_all beh hints)).
Proof.
  intros beh hints h H Hb.
  destruct (loop_books beh hints (init hints) (init_J beh hints) (init_K beh hints)) as (A & _ & _ & J & _).
  apply J; [apply A; right; exact H | exact Hb].
Qed.

Theorem status_is_own : forall beh hints h, In h hints ->
  status_of h (statuses (connect_all beh hints)) = Some (expected_status (beh h)).
Proof.
  intros beh hints h H.
  destruct (loop_books beh hints (init hints) (init_J beh hints) (init_K beh hints)) as (A & _ & _ & _ & K).
  apply K. apply A. right. exact H.
Qed.

(* 3. never stalls: either a connection attempt is running (then the connect timer of Connector.v bounds the wait) and
      nothing has been reported, or failed() -- Tub.connectionFailed, which answers every waiting getReference -- ran
      exactly once before connect() returned; which of the two is decided by `usable` alone *)
Theorem connect_all_outcome : forall beh hints,
  let r := connect_all beh hints in
  (usable beh hints = true /\ pending r <> [] /\ active r = true /\ failed_calls r = 0%nat) \/
  (usable beh hints = false /\ pending r = [] /\ active r = false /\ failed_calls r = 1%nat).
Proof.
  intros beh hints. cbv zeta.
  destruct (loop_books beh hints (init hints) (init_J beh hints) (init_K beh hints)) as (A & _ & P3 & J & _).
  destruct (loop_failure beh hints (init hints) eq_refl (conj eq_refl eq_refl)) as [[P [Ha Hf]]|[P [Ha Hf]]];
    cbv zeta in *; change (connect_loop beh hints (init hints)) with (connect_all beh hints) in *.
  - left. split; [|auto]. unfold usable. apply existsb_exists.
    destruct (pending (connect_all beh hints)) as [|p ps] eqn:E; [congruence|].
    destruct (P3 p (or_introl eq_refl)) as [[]|[Hin Hb]].
    exists p. auto.
  - right. split; [|auto]. unfold usable. destruct (existsb (fun h => is_pending (beh h)) hints) eqn:E; [|reflexivity].
    apply existsb_exists in E as (h & Hin & Hb).
    pose proof (usable_hint_dialled beh hints h Hin Hb) as H. rewrite P in H. destruct H.
Qed.

(* non-vacuity: a raising hint before and after a usable one; only raising hints; a duplicate *)
Example connect_all_examples :
  let beh := fun h : hstr => match h with [1] => HPending | [2] => HRaises "KeyError" | [3] => HRaises "InvalidHintError"
                                     | [4] => HConnectFails "ConnectionRefusedError" | _ => HRaises "TypeError" end in
  obs (connect_all beh [[2]; [1]; [3]; [1]; [4]]) =
    ([[2]; [1]; [3]; [4]], [[1]; [4]], 1, [([2], 2); ([1], 0); ([3], 1); ([4], 3)], Some "KeyError"%string, true, 0) /\
  obs (connect_all beh [[2]; [3]]) = ([[2]; [3]], [], 0, [([2], 2); ([3], 1)], Some "NoLocationHintsError"%string, false, 1) /\
  obs (connect_all beh []) = ([], [], 0, [], Some "NoLocationHintsError"%string, false, 1).
Proof. vm_compute. repeat split; reflexivity. Qed.
