(* Index tokens (the strings that follow an OPEN and select the unslicer) are judged by the ROOT unslicer's
   openerCheckToken, whatever schema is in force.  gen/OpenerGen.v holds the two implementations, translated
   from slicers/root.py and broker.py by symbolic execution; this file holds what they are compared with. *)
From Coq Require Import ZArith List Bool.
Import ListNotations.
Local Open Scope Z_scope.

(* "copyable" *)
Definition copyable_name : list Z := [99; 111; 112; 121; 97; 98; 108; 101].

Fixpoint bytes_eqb (a b : list Z) : bool :=
  match a, b with
  | [], [] => true
  | x :: a', y :: b' => (x =? y) && bytes_eqb a' b'
  | _, _ => false
  end.

(* tuple(opentype) == ("copyable",) : exactly one index token so far, and it spells "copyable" *)
Definition ot_is_copyable (ot : list (list Z)) : bool :=
  match ot with
  | [c] => bytes_eqb c copyable_name
  | _ => false
  end.
