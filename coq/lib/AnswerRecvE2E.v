(* C03 -- END TO END, bytes to firing: the bytes the (translated) sender encoding produces for
        OPEN n  "answer"  INT rid  <body>  CLOSE n          resp.   OPEN n  "error"  INT rid  <body>  CLOSE n
   fed in ANY chunking to ANY idle receiver of lib/AnswerRecv.v whose table holds rid -> h, with ANY oracle that accepts the
   sequence, make the receiver perform exactly [Complete h] (resp. [Fail h ORemoteError]) and leave it idle again.

   "the oracle accepts the sequence" is the predicate `walk` below: the questions the receiver puts to the oracle along the
   body (taste of every token, `after` of every index token / child token / inner CLOSE, readiness at the final CLOSE of an
   answer) are all answered with "accept".  It is the exact guard: the _refuted lemmas at the end show what happens outside.

   Body tokens covered: INT (0 <= z < 2^31), STRING, and nested OPEN k <index STRINGs> ... CLOSE k sequences to any depth
   (as many index tokens as the oracle asks for: DMore).  NEG / LONGINT / LONGNEG / FLOAT / VOCAB children take the same
   path through `deliver` but are not covered by the composed statement. *)
From Coq Require Import ZArith List Bool Lia.
Import ListNotations.
Require Import Verif.lib.PyLite Verif.gen.BananaGen Verif.lib.Token Verif.lib.TokenProofs Verif.lib.Recv Verif.lib.RecvProofs.
Require Import Verif.gen.RequestsGen Verif.lib.Requests Verif.lib.RequestsProofs Verif.lib.AnswerRecv Verif.lib.AnswerRecvProofs.
Local Open Scope Z_scope.

Definition small_int (z : Z) : bool := (0 <=? z) && (z <? 2 ^ 31).
Definition is_nil {A} (l : list A) : bool := match l with [] => true | _ => false end.

Section E2E.
Variable C : Type.
Variable taste : C -> utop -> bool -> Z -> Z -> ck.
Variable after : C -> utop -> bool -> Z -> Z -> list Z -> dres * C.

Notation actx := (actx C).
Notation step_nobody_a := (step_nobody_a C taste after).
Notation begin_body_a := (begin_body_a C taste).
Notation finish_body_a := (finish_body_a C after).
Notation afeed := (afeed C taste after).
Notation jrun := (jrun C taste after).
Notation jinit := (jinit C).
Notation jst := (jst C).
Notation fb := (fun c ty hdr body => to_h C (finish_body_a c ty hdr body)).
Notation sn := (fun c ty hdr => to_h C (step_nobody_a c ty hdr)).
Notation atok := (Recv.tok_step actx op begin_body_a fb sn [] [] (fun _ => [])).
Notation aloop := (Recv.loop actx op begin_body_a fb sn [] [] (fun _ => [])).

Definition is_ok_ck (k : ck) : bool := match k with CkOk => true | _ => false end.

(* ------------------------------------------------------------------------------------------------------------
   the guard: the oracle accepts the body.  err/h/n: the sequence is an error / bound to handle h / opened with count n.
   hv = haveResults / gotFailure, kids = open counts of the unslicers above the Answer/ErrorUnslicer, io = inOpen,
   ib = inboundOpenCount. *)
Definition prim_ok (a : dres * C) : option C := match a with (DViol, _) | (DBanana, _) => None | (_, cs') => Some cs' end.

Fixpoint walk (err : bool) (h : nat) (n : Z) (cs : C) (hv : bool) (kids : list Z) (io : bool) (ib : Z) (ts : list token)
  {struct ts} : bool :=
  let top := UBody err h hv n kids in
  match ts with
  | [] => negb io && hv && is_nil kids &&
          (if err then true else match fst (after cs (UBody err h true n []) false tok_CLOSE n []) with DLate => false | _ => true end)
  | t :: r =>
    if io then
      match t with
      | TString b =>
        hdr_ok (lenZ b) && is_ok_ck (taste cs top true tok_STRING (lenZ b)) &&
        match after cs top true tok_STRING (lenZ b) b with
        | (DMore, cs') => walk err h n cs' hv kids true ib r
        | (DOk, cs') | (DLate, cs') => walk err h n cs' hv (ib :: kids) false ib r
        | _ => false
        end
      | _ => false
      end
    else
      let full := hv && is_nil kids in                                    (* "stop sending me stuff!" *)
      let prim ty hdr body :=
        negb full && is_ok_ck (taste cs top false ty hdr) &&
        match kids with
        | [] => walk err h n cs true [] false ib r
        | _ => match prim_ok (after cs top false ty hdr body) with Some cs' => walk err h n cs' hv kids false ib r | None => false end
        end in
      match t with
      | TOpen k => hdr_ok k && negb full && is_ok_ck (taste cs top false tok_OPEN k) && walk err h n cs hv kids true k r
      | TClose k =>
        hdr_ok k &&
        match kids with
        | [] => false
        | k' :: kids' =>
          (k' =? k) && match prim_ok (after cs top false tok_CLOSE k []) with
                       | Some cs' => walk err h n cs' (match kids' with [] => true | _ => hv end) kids' false ib r
                       | None => false
                       end
        end
      | TInt z => small_int z && prim tok_INT z []
      | TString b => hdr_ok (lenZ b) && prim tok_STRING (lenZ b) b
      | _ => false
      end
  end.

(* ------------------------------------------------------------------------------------------------------------
   one pass of the tokenizer on the encoding of one token *)
Lemma atok_nobody c ty n ds rest :
  scan_header 64 [] (ds ++ ty :: rest) = HOk ds ty rest -> le128 ds = n ->
  (ty =? tok_ERROR) = false -> has_body ty = false ->
  atok c (ds ++ ty :: rest) = TCont _ _ (fst (step_nobody_a c ty n)) (snd (step_nobody_a c ty n)) rest.
Proof.
  intros S V E B. unfold Recv.tok_step. rewrite S, V, E, B. unfold to_h. reflexivity.
Qed.

Lemma atok_body c ty body ds rest :
  scan_header 64 [] (ds ++ ty :: body ++ rest) = HOk ds ty (body ++ rest) -> le128 ds = lenZ body ->
  (ty =? tok_ERROR) = false -> has_body ty = true -> (ty =? tok_FLOAT) = false ->
  begin_body_a c ty (lenZ body) = BAccept ->
  atok c (ds ++ ty :: body ++ rest) =
  TCont _ _ (fst (finish_body_a c ty (lenZ body) body)) (snd (finish_body_a c ty (lenZ body) body)) rest.
Proof.
  intros S V E B F A. unfold Recv.tok_step. rewrite S, V, E, B, A. unfold blen. rewrite F.
  rewrite lenZ_app. pose proof (lenZ_nonneg rest) as NR.
  destruct (Z.ltb_spec (lenZ body + lenZ rest) (lenZ body)); [lia|].
  unfold lenZ at 1 2 3 4. rewrite Nat2Z.id.
  destruct (firstn_skipn_app_exact body rest) as [F1 F2]. rewrite F1, F2. unfold to_h. reflexivity.
Qed.

Lemma aloop_step c b c' es rest : atok c b = TCont _ _ c' es rest ->
  aloop (S (List.length b)) c b = (fst (aloop (S (List.length rest)) c' rest), es ++ snd (aloop (S (List.length rest)) c' rest)).
Proof.
  intros T. pose proof (tok_step_cont_length _ _ _ _ _ _ _ _ _ _ _ _ _ T) as L.
  destruct b as [|x b]; [cbn in L; lia|].
  rewrite loop_cons, T.
  rewrite (loop_fuel _ _ _ _ _ _ _ _ (List.length (x :: b)) (S (List.length rest)) c' rest); [|exact L|lia].
  destruct (aloop (S (List.length rest)) c' rest). reflexivity.
Qed.

Lemma enc_stream_cons t r bs : encode_stream (t :: r) = Ok bs ->
  exists b bs', encode_token t [] = Ok b /\ encode_stream r = Ok bs' /\ bs = b ++ bs'.
Proof.
  cbn [encode_stream]. unfold bind. destruct (encode_token t []) as [b|]; [|discriminate].
  destruct (encode_stream r) as [bs'|]; [|discriminate]. intros E; inversion E. eauto.
Qed.

(* header-only tokens and STRING: what the encoder writes and what the scanner finds *)
Lemma enc_hdr n ty rest b : hdr_ok n = true -> 128 <= ty -> hdr_tok n ty [] = Ok b ->
  exists ds, b ++ rest = ds ++ ty :: rest /\ scan_header 64 [] (ds ++ ty :: rest) = HOk ds ty rest /\ le128 ds = n.
Proof.
  intros H T E. destruct (hdr_tok_scan n ty [] rest H T) as (ds & E' & S & V). rewrite E in E'. inversion E'; subst b.
  exists ds. cbn [app]. rewrite <- app_assoc. cbn [app]. auto.
Qed.

Lemma enc_string bs rest b : hdr_ok (lenZ bs) = true -> encode_token (TString bs) [] = Ok b ->
  exists ds, b ++ rest = ds ++ tok_STRING :: bs ++ rest /\
             scan_header 64 [] (ds ++ tok_STRING :: bs ++ rest) = HOk ds tok_STRING (bs ++ rest) /\ le128 ds = lenZ bs.
Proof.
  intros H E. cbn [encode_token] in E. unfold bind in E.
  destruct (hdr_tok (Z.of_nat (List.length bs)) tok_STRING []) as [w|] eqn:W; [|discriminate]. inversion E; subst b.
  assert (T : 128 <= tok_STRING) by (unfold tok_STRING; lia).
  destruct (enc_hdr _ _ (bs ++ rest) w H T W) as (ds & E1 & S & V).
  exists ds. rewrite <- app_assoc. auto.
Qed.

Lemma enc_small_int z b : small_int z = true -> encode_token (TInt z) [] = Ok b -> hdr_tok z tok_INT [] = Ok b /\ hdr_ok z = true.
Proof.
  unfold small_int. intros H. apply andb_true_iff in H as [H0 H1]. apply Z.leb_le in H0. apply Z.ltb_lt in H1.
  cbn [encode_token]. unfold send_int.
  destruct (Z.geb_spec z (2 ^ 31)); [lia|]. destruct (Z.geb_spec z 0); [|lia].
  unfold hdr_tok, bind. intros E. split; [exact E|].
  unfold hdr_ok. apply andb_true_iff. split; [apply Z.leb_le; lia|apply Z.ltb_lt].
  assert (2 ^ 31 < 2 ^ 448) by (apply Z.pow_lt_mono_r; lia). lia.
Qed.

(* ------------------------------------------------------------------------------------------------------------
   the receiver while it is inside the body of an answer / error sequence *)
Definition bctx (err : bool) (h : nat) (n : Z) (s : st) (io first : bool) (ib : Z) (hv : bool) (kids : list Z) (cs : C)
  (voc : list (Z * list Z)) : actx := mkA C s 0 io first ib (UBody err h hv n kids) cs voc false.

Ltac open_model := unfold AnswerRecv.step_nobody_a, AnswerRecv.begin_body_a, AnswerRecv.finish_body_a, AnswerRecv.clauses,
  AnswerRecv.taste_of, AnswerRecv.deliver, AnswerRecv.handle_open, AnswerRecv.handle_token, AnswerRecv.handle_close,
  AnswerRecv.oracle_open, AnswerRecv.body_val, bctx;
  cbn [a_st a_disc a_inopen a_first a_inbopen a_top a_cs a_vocab a_dead
       set_st set_disc set_inopen set_first set_inbopen set_top set_cs set_dead fst snd andb orb negb
       Z.eqb Z.ltb Z.compare Pos.compare Pos.compare_cont Pos.eqb tok_OPEN tok_CLOSE tok_INT tok_STRING tok_ABORT tok_NEG tok_VOCAB
       tok_PING tok_PONG tok_LONGINT tok_LONGNEG tok_FLOAT tok_ERROR].

Lemma sn_open err h n s first ib hv kids cs voc k :
  hv && is_nil kids = false -> taste cs (UBody err h hv n kids) false tok_OPEN k = CkOk ->
  step_nobody_a (bctx err h n s false first ib hv kids cs voc) tok_OPEN k = (bctx err h n s true true k hv kids cs voc, []).
Proof.
  intros F T. open_model. destruct hv; destruct kids; try discriminate; rewrite T; reflexivity.
Qed.

Lemma bb_index err h n s first ib hv kids cs voc len :
  taste cs (UBody err h hv n kids) true tok_STRING len = CkOk ->
  begin_body_a (bctx err h n s true first ib hv kids cs voc) tok_STRING len = BAccept.
Proof. intros T. open_model. rewrite T. reflexivity. Qed.

Lemma fb_index err h n s first ib hv kids cs voc b :
  finish_body_a (bctx err h n s true first ib hv kids cs voc) tok_STRING (lenZ b) b =
  match after cs (UBody err h hv n kids) true tok_STRING (lenZ b) b with
  | (DMore, cs') => (bctx err h n s true false ib hv kids cs' voc, [])
  | (DOk, cs') | (DLate, cs') => (bctx err h n s false false ib hv (ib :: kids) cs' voc, [])
  | (DViol, cs') => violation C (set_inopen C (set_cs C (bctx err h n s true false ib hv kids cs voc) cs') false) true false
  | (DBanana, cs') => fatal C (set_cs C (bctx err h n s true false ib hv kids cs voc) cs')
  end.
Proof.
  open_model. destruct (after cs (UBody err h hv n kids) true 130 (lenZ b) b) as [r cs']. destruct r; reflexivity.
Qed.

(* a primitive child: INT *)
Lemma sn_int err h n s first ib hv kids cs voc z :
  hv && is_nil kids = false -> taste cs (UBody err h hv n kids) false tok_INT z = CkOk ->
  step_nobody_a (bctx err h n s false first ib hv kids cs voc) tok_INT z =
  match kids with
  | [] => (bctx err h n s false first ib true [] cs voc, [])
  | _ => match after cs (UBody err h hv n kids) false tok_INT z [] with
         | (DViol, cs') => violation C (set_cs C (bctx err h n s false first ib hv kids cs voc) cs') false false
         | (DBanana, cs') => fatal C (set_cs C (bctx err h n s false first ib hv kids cs voc) cs')
         | (_, cs') => (bctx err h n s false first ib hv kids cs' voc, [])
         end
  end.
Proof.
  intros F T. open_model. destruct hv; destruct kids; try discriminate; rewrite T; try reflexivity;
    cbn [app fst snd]; match goal with |- context [after ?a ?b ?c ?d ?e ?f] => destruct (after a b c d e f) as [r cs'] end;
    destruct r; reflexivity.
Qed.

Lemma bb_string err h n s first ib hv kids cs voc len :
  hv && is_nil kids = false -> taste cs (UBody err h hv n kids) false tok_STRING len = CkOk ->
  begin_body_a (bctx err h n s false first ib hv kids cs voc) tok_STRING len = BAccept.
Proof. intros F T. open_model. destruct hv; destruct kids; try discriminate; rewrite T; reflexivity. Qed.

Lemma fb_string err h n s first ib hv kids cs voc b :
  finish_body_a (bctx err h n s false first ib hv kids cs voc) tok_STRING (lenZ b) b =
  match kids with
  | [] => (bctx err h n s false first ib true [] cs voc, [])
  | _ => match after cs (UBody err h hv n kids) false tok_STRING (lenZ b) b with
         | (DViol, cs') => violation C (set_cs C (bctx err h n s false first ib hv kids cs voc) cs') false false
         | (DBanana, cs') => fatal C (set_cs C (bctx err h n s false first ib hv kids cs voc) cs')
         | (_, cs') => (bctx err h n s false first ib hv kids cs' voc, [])
         end
  end.
Proof.
  open_model. destruct kids; [reflexivity|].
  match goal with |- context [after ?a ?b ?c ?d ?e ?f] => destruct (after a b c d e f) as [r cs'] end. destruct r; reflexivity.
Qed.

(* the CLOSE of a child sequence *)
Lemma sn_close_inner err h n s first ib hv k kids cs voc :
  step_nobody_a (bctx err h n s false first ib hv (k :: kids) cs voc) tok_CLOSE k =
  match after cs (UBody err h hv n (k :: kids)) false tok_CLOSE k [] with
  | (DViol, cs') => violation C (set_cs C (bctx err h n s false first ib hv (k :: kids) cs voc) cs') false true
  | (DBanana, cs') => fatal C (set_cs C (bctx err h n s false first ib hv (k :: kids) cs voc) cs')
  | (_, cs') => (bctx err h n s false first ib (match kids with [] => true | _ => hv end) kids cs' voc, [])
  end.
Proof.
  open_model. rewrite andb_false_r. cbn [andb]. open_model. rewrite Z.eqb_refl. cbn [negb app].
  match goal with |- context [after ?a ?b ?c ?d ?e ?f] => destruct (after a b c d e f) as [r cs'] end. destruct r; reflexivity.
Qed.

(* the CLOSE of the answer / error sequence itself *)
Lemma sn_close_final_error h n s first ib cs voc :
  step_nobody_a (bctx true h n s false first ib true [] cs voc) tok_CLOSE n =
  (mkA C (Requests.step s (Fail h ORemoteError)) 0 false first ib URoot cs voc false, [Fail h ORemoteError]).
Proof.
  open_model. rewrite andb_false_r. cbn [andb]. open_model. rewrite Z.eqb_refl. reflexivity.
Qed.

Lemma sn_close_final_answer h n s first ib cs voc :
  fst (after cs (UBody false h true n []) false tok_CLOSE n []) <> DLate ->
  step_nobody_a (bctx false h n s false first ib true [] cs voc) tok_CLOSE n =
  (mkA C (Requests.step s (Complete h)) 0 false first ib URoot (snd (after cs (UBody false h true n []) false tok_CLOSE n [])) voc false,
   [Complete h]).
Proof.
  intros NL. open_model. rewrite andb_false_r. cbn [andb]. open_model. rewrite Z.eqb_refl. cbn [negb].
  destruct (after cs (UBody false h true n []) false tok_CLOSE n []) as [r cs'] eqn:A. cbn [fst snd] in *.
  destruct r; try reflexivity. congruence.
Qed.

(* ------------------------------------------------------------------------------------------------------------
   the body and the final CLOSE, token by token *)
Definition final_op (err : bool) (h : nat) : op := if err then Fail h ORemoteError else Complete h.

Definition idle_ctx (c : actx) : Prop := a_dead c = false /\ a_disc c = 0 /\ a_inopen c = false /\ a_top c = URoot.

Definition lands (r : rstate actx * list op) (s : st) (voc : list (Z * list Z)) (x : op) : Prop :=
  exists c', r = (mk c' [] 0 false, [x]) /\ idle_ctx c' /\ a_st c' = Requests.step s x /\ a_vocab c' = voc.

Lemma step_then c c1 buf bs' s voc x : atok c buf = TCont _ _ c1 [] bs' ->
  lands (aloop (S (List.length bs')) c1 bs') s voc x -> lands (aloop (S (List.length buf)) c buf) s voc x.
Proof.
  intros T (c' & E & I). rewrite (aloop_step _ _ _ _ _ T), E. exists c'. split; [reflexivity|exact I].
Qed.

Lemma is_ok_ck_true k : is_ok_ck k = true -> k = CkOk.
Proof. destruct k; [reflexivity|discriminate|discriminate]. Qed.

Lemma tok_facts :
  128 <= tok_OPEN /\ 128 <= tok_CLOSE /\ 128 <= tok_INT /\
  (tok_OPEN =? tok_ERROR) = false /\ (tok_CLOSE =? tok_ERROR) = false /\ (tok_INT =? tok_ERROR) = false /\
  (tok_STRING =? tok_ERROR) = false /\ (tok_STRING =? tok_FLOAT) = false /\
  has_body tok_OPEN = false /\ has_body tok_CLOSE = false /\ has_body tok_INT = false /\ has_body tok_STRING = true.
Proof. unfold tok_OPEN, tok_CLOSE, tok_INT. repeat split; try lia; reflexivity. Qed.

Lemma body_walk err h n (Hn : hdr_ok n = true) : forall ts cs hv kids io ib first bs s voc,
  walk err h n cs hv kids io ib ts = true ->
  encode_stream (ts ++ [TClose n]) = Ok bs ->
  lands (aloop (S (List.length bs)) (bctx err h n s io first ib hv kids cs voc) bs) s voc (final_op err h).
Proof.
  destruct tok_facts as (GO & GC & GI & EO & EC & EI & ES & FS & BO & BC & BI & BS).
  induction ts as [|t r IH]; intros cs hv kids io ib first bs s voc W E.
  - (* the CLOSE of the sequence itself *)
    cbn [app] in E. apply enc_stream_cons in E as (b & bs' & E1 & E2 & ->). cbn [encode_stream] in E2. inversion E2; subst bs'.
    cbn [encode_token] in E1. destruct (enc_hdr n tok_CLOSE [] b Hn GC E1) as (ds & -> & S & V).
    cbn [walk] in W. apply andb_true_iff in W as [W W4]. apply andb_true_iff in W as [W W3]. apply andb_true_iff in W as [W1 W2].
    destruct io; [discriminate|]. subst hv. destruct kids; [|discriminate].
    rewrite (aloop_step _ _ _ _ _ (atok_nobody _ _ _ _ _ S V EC BC)). cbn [Recv.loop List.length app].
    destruct err; cbn [final_op].
    + rewrite sn_close_final_error. eexists. split; [reflexivity|]. repeat split; reflexivity.
    + rewrite sn_close_final_answer.
      * eexists. split; [reflexivity|]. repeat split; reflexivity.
      * intros X. rewrite X in W4. discriminate.
  - cbn [app] in E. apply enc_stream_cons in E as (b & bs' & E1 & E2 & ->).
    cbn [walk] in W. destruct io.
    + (* an index token *)
      destruct t as [z|b8|b0|k|k|k|k|k|k|b0]; try discriminate.
      apply andb_true_iff in W as [W W3]. apply andb_true_iff in W as [W1 W2]. apply is_ok_ck_true in W2.
      destruct (enc_string b0 bs' b W1 E1) as (ds & -> & S & V).
      destruct (after cs (UBody err h hv n kids) true tok_STRING (lenZ b0) b0) as [rr cs'] eqn:A.
      destruct rr; try discriminate;
        (eapply (step_then _ _ _ bs');
         [rewrite (atok_body _ _ _ _ _ S V ES BS FS (bb_index _ _ _ _ _ _ _ _ _ _ _ W2)); rewrite fb_index, A; reflexivity
         |apply IH; assumption]).
    + destruct t as [z|b8|b0|k|k|k|k|k|k|b0]; try discriminate.
      * (* INT child *)
        apply andb_true_iff in W as [W0 W]. apply andb_true_iff in W as [W W3]. apply andb_true_iff in W as [W1 W2].
        apply is_ok_ck_true in W2. apply negb_true_iff in W1.
        destruct (enc_small_int z b W0 E1) as [E1' Hz].
        destruct (enc_hdr z tok_INT bs' b Hz GI E1') as (ds & -> & S & V).
        destruct kids as [|k0 kids].
        -- eapply (step_then _ _ _ bs');
             [rewrite (atok_nobody _ _ _ _ _ S V EI BI); rewrite (sn_int _ _ _ _ _ _ _ _ _ _ _ W1 W2); reflexivity|apply IH; assumption].
        -- destruct (after cs (UBody err h hv n (k0 :: kids)) false tok_INT z []) as [rr cs'] eqn:A.
           destruct rr; try discriminate;
             (eapply (step_then _ _ _ bs');
              [rewrite (atok_nobody _ _ _ _ _ S V EI BI); rewrite (sn_int _ _ _ _ _ _ _ _ _ _ _ W1 W2), A; reflexivity|apply IH; assumption]).
      * (* STRING child *)
        apply andb_true_iff in W as [W0 W]. apply andb_true_iff in W as [W W3]. apply andb_true_iff in W as [W1 W2].
        apply is_ok_ck_true in W2. apply negb_true_iff in W1.
        destruct (enc_string b0 bs' b W0 E1) as (ds & -> & S & V).
        destruct kids as [|k0 kids].
        -- eapply (step_then _ _ _ bs');
             [rewrite (atok_body _ _ _ _ _ S V ES BS FS (bb_string _ _ _ _ _ _ _ _ _ _ _ W1 W2)); rewrite fb_string; reflexivity
             |apply IH; assumption].
        -- destruct (after cs (UBody err h hv n (k0 :: kids)) false tok_STRING (lenZ b0) b0) as [rr cs'] eqn:A.
           destruct rr; try discriminate;
             (eapply (step_then _ _ _ bs');
              [rewrite (atok_body _ _ _ _ _ S V ES BS FS (bb_string _ _ _ _ _ _ _ _ _ _ _ W1 W2)); rewrite fb_string, A; reflexivity
              |apply IH; assumption]).
      * (* OPEN of a child sequence *)
        apply andb_true_iff in W as [W W3]. apply andb_true_iff in W as [W W2]. apply andb_true_iff in W as [W0 W1].
        apply is_ok_ck_true in W2. apply negb_true_iff in W1.
        cbn [encode_token] in E1. destruct (enc_hdr k tok_OPEN bs' b W0 GO E1) as (ds & -> & S & V).
        eapply (step_then _ _ _ bs').
        -- rewrite (atok_nobody _ _ _ _ _ S V EO BO). rewrite (sn_open _ _ _ _ _ _ _ _ _ _ _ W1 W2). reflexivity.
        -- apply IH; assumption.
      * (* CLOSE of a child sequence *)
        apply andb_true_iff in W as [W0 W]. destruct kids as [|k' kids]; [discriminate|].
        apply andb_true_iff in W as [W1 W]. apply Z.eqb_eq in W1. subst k'.
        cbn [encode_token] in E1. destruct (enc_hdr k tok_CLOSE bs' b W0 GC E1) as (ds & -> & S & V).
        destruct (after cs (UBody err h hv n (k :: kids)) false tok_CLOSE k []) as [rr cs'] eqn:A.
        destruct rr; try discriminate;
          (eapply (step_then _ _ _ bs');
           [rewrite (atok_nobody _ _ _ _ _ S V EC BC); rewrite sn_close_inner, A; reflexivity|apply IH; assumption]).
Qed.

(* ------------------------------------------------------------------------------------------------------------
   the head of the sequence: OPEN n, the opentype, the request id *)
Definition opentype_of (err : bool) : list Z := if err then error_opentype else answer_opentype.

Definition rctx (s : st) (io first : bool) (ib : Z) (t : utop) (cs : C) (voc : list (Z * list Z)) : actx :=
  mkA C s 0 io first ib t cs voc false.

Lemma sn_open_root s first ib cs voc n :
  step_nobody_a (rctx s false first ib URoot cs voc) tok_OPEN n = (rctx s true true n URoot cs voc, []).
Proof. unfold rctx. open_model. reflexivity. Qed.

Lemma bb_root s n cs voc len : taste cs URoot true tok_STRING len = CkOk ->
  begin_body_a (rctx s true true n URoot cs voc) tok_STRING len = BAccept.
Proof. intros T. unfold rctx. open_model. rewrite T. reflexivity. Qed.

Lemma fb_root err s n cs voc :
  finish_body_a (rctx s true true n URoot cs voc) tok_STRING (lenZ (opentype_of err)) (opentype_of err) =
  (rctx s false false n (UWantId err n) cs voc, []).
Proof. unfold rctx. destruct err; open_model; reflexivity. Qed.

Lemma sn_reqid err s n cs voc rid h : tbl_find rid (table s) = Some h ->
  step_nobody_a (rctx s false false n (UWantId err n) cs voc) tok_INT rid = (bctx err h n s false false n false [] cs voc, []).
Proof. intros T. unfold rctx. open_model. rewrite T. reflexivity. Qed.

Definition accepts (err : bool) (h : nat) (n : Z) (cs : C) (body : list token) : Prop :=
  taste cs URoot true tok_STRING (lenZ (opentype_of err)) = CkOk /\ walk err h n cs false [] false n body = true.

Definition seq_tokens (err : bool) (n rid : Z) (body : list token) : list token :=
  TOpen n :: TString (opentype_of err) :: TInt rid :: body ++ [TClose n].

Lemma hdr_ok_opentype err : hdr_ok (lenZ (opentype_of err)) = true.
Proof. destruct err; reflexivity. Qed.

Theorem seq_fires_ctx err c n rid h body bs :
  idle_ctx c -> tbl_find rid (table (a_st c)) = Some h -> small_int rid = true -> hdr_ok n = true ->
  accepts err h n (a_cs c) body -> encode_stream (seq_tokens err n rid body) = Ok bs ->
  lands (aloop (S (List.length bs)) c bs) (a_st c) (a_vocab c) (final_op err h).
Proof.
  destruct tok_facts as (GO & GC & GI & EO & EC & EI & ES & FS & BO & BC & BI & BS).
  intros (I1 & I2 & I3 & I4) T R Hn (A1 & A2) E.
  destruct c as [s d io first ib t cs voc dead]. cbn [a_st a_disc a_inopen a_top a_cs a_vocab a_dead] in *. subst d io t dead.
  fold (rctx s false first ib URoot cs voc).
  unfold seq_tokens in E.
  apply enc_stream_cons in E as (b1 & r1 & E1 & E & ->). cbn [encode_token] in E1.
  destruct (enc_hdr n tok_OPEN r1 b1 Hn GO E1) as (ds1 & -> & S1 & V1).
  eapply (step_then _ _ _ r1); [rewrite (atok_nobody _ _ _ _ _ S1 V1 EO BO), sn_open_root; cbn [fst snd]; reflexivity|].
  apply enc_stream_cons in E as (b2 & r2 & E2 & E & ->).
  destruct (enc_string _ r2 b2 (hdr_ok_opentype err) E2) as (ds2 & -> & S2 & V2).
  eapply (step_then _ _ _ r2); [rewrite (atok_body _ _ _ _ _ S2 V2 ES BS FS (bb_root _ _ _ _ _ A1)), fb_root; cbn [fst snd]; reflexivity|].
  apply enc_stream_cons in E as (b3 & r3 & E3 & E & ->).
  destruct (enc_small_int rid b3 R E3) as [E3' Hr].
  destruct (enc_hdr rid tok_INT r3 b3 Hr GI E3') as (ds3 & -> & S3 & V3).
  eapply (step_then _ _ _ r3); [rewrite (atok_nobody _ _ _ _ _ S3 V3 EI BI), (sn_reqid _ _ _ _ _ _ _ T); cbn [fst snd]; reflexivity|].
  apply (body_walk err h n Hn body); assumption.
Qed.

(* ------------------------------------------------------------------------------------------------------------
   THE COMPOSED THEOREM, for the whole receiver and any chunking *)
Definition idle (s : rstate actx) : Prop := r_dead s = false /\ r_skip s = 0 /\ r_buf s = [] /\ idle_ctx (r_ctx s).

Lemma idle_stable s : idle s -> RecvProofs.stable actx op begin_body_a fb sn [] [] (fun _ => []) s.
Proof. intros (D & K & B & _). right; right. auto. Qed.

Theorem seq_fires err s n rid h body bs chunks :
  idle s -> tbl_find rid (table (jst s)) = Some h -> small_int rid = true -> hdr_ok n = true ->
  accepts err h n (a_cs (r_ctx s)) body -> encode_stream (seq_tokens err n rid body) = Ok bs -> concat chunks = bs ->
  snd (jrun s (map JData chunks)) = [final_op err h] /\ idle (fst (jrun s (map JData chunks))) /\
  jst (fst (jrun s (map JData chunks))) = Requests.step (jst s) (final_op err h).
Proof.
  intros I T R Hn A E K. rewrite (jrun_data C taste after). unfold AnswerRecv.afeed_all.
  rewrite (RecvProofs.feed_all_concat _ _ _ _ _ _ _ _ chunks s (idle_stable s I)), K.
  destruct I as (D & SK & B & IC). unfold Recv.feed. rewrite D, SK, B. cbn [Z.ltb Z.compare andb Z.to_nat skipn app].
  destruct (seq_fires_ctx err (r_ctx s) n rid h body bs IC T R Hn A E) as (c' & L & IC' & ST & _).
  rewrite L. cbn [fst snd]. split; [reflexivity|]. split; [|exact ST].
  repeat split; try reflexivity; apply IC'.
Qed.

(* ... from any REACHABLE idle receiver (any history of operations and received chunks), stated with `resolves` of
   lib/RequestsProofs.v: the request pending under rid fires with exactly that outcome and leaves the table; every other
   call, table entry, the eventual queue and the connection state are unchanged *)
Theorem answer_bytes_fire_result cs voc js n rid h body bs chunks :
  let s := fst (jrun (jinit cs voc) js) in
  idle s -> tbl_find rid (table (jst s)) = Some h -> small_int rid = true -> hdr_ok n = true ->
  accepts false h n (a_cs (r_ctx s)) body -> encode_stream (seq_tokens false n rid body) = Ok bs -> concat chunks = bs ->
  let r := jrun s (map JData chunks) in
  snd r = [Complete h] /\ idle (fst r) /\ resolves (jst s) (jst (fst r)) h rid OResult.
Proof.
  cbv zeta. intros I T R Hn A E K.
  destruct (seq_fires false _ n rid h body bs chunks I T R Hn A E K) as (X1 & X2 & X3).
  split; [exact X1|]. split; [exact X2|]. rewrite X3. cbn [final_op].
  rewrite (bytes_refine_operations C taste after) in *.
  apply (fail_on_pending_fires _ rid h OResult). apply tbl_find_some. exact T.
Qed.

Theorem error_bytes_fire_remote_failure cs voc js n rid h body bs chunks :
  let s := fst (jrun (jinit cs voc) js) in
  idle s -> tbl_find rid (table (jst s)) = Some h -> small_int rid = true -> hdr_ok n = true ->
  accepts true h n (a_cs (r_ctx s)) body -> encode_stream (seq_tokens true n rid body) = Ok bs -> concat chunks = bs ->
  let r := jrun s (map JData chunks) in
  snd r = [Fail h ORemoteError] /\ idle (fst r) /\ resolves (jst s) (jst (fst r)) h rid ORemoteError.
Proof.
  cbv zeta. intros I T R Hn A E K.
  destruct (seq_fires true _ n rid h body bs chunks I T R Hn A E K) as (X1 & X2 & X3).
  split; [exact X1|]. split; [exact X2|]. rewrite X3. cbn [final_op].
  rewrite (bytes_refine_operations C taste after) in *.
  apply (fail_on_pending_fires _ rid h ORemoteError). apply tbl_find_some. exact T.
Qed.

(* the initial receiver is idle, and (seq_fires) the receiver is idle again after every accepted sequence *)
Lemma jinit_idle cs voc : idle (jinit cs voc).
Proof. repeat split; reflexivity. Qed.

(* ------------------------------------------------------------------------------------------------------------
   THE TWO LAYERS AGREE (review 2, finding 2).  The wire-level operations of lib/Requests.v (Answer / Error / AnswerViolation
   rid: "the unslicer looked rid up and then ...") and the request-object operations the byte-level receiver emits
   (Complete h / Fail h o on the bound request) are the same state transformers whenever the table maps rid to h.  In
   particular a Violation inside an ERROR sequence is `Fail h OViolation` at the byte level (AnswerRecv.violation for
   UBody true ..) and therefore `AnswerViolation rid` -- not `Error rid` -- at the operation level: the caller gets the
   Violation, not a remote failure (ErrorUnslicer.reportViolation: request.fail(f)). *)
Theorem wire_ops_are_request_ops (s : st) rid h : tbl_find rid (table s) = Some h ->
  Requests.step s (Answer rid) = Requests.step s (Complete h) /\
  Requests.step s (Error rid) = Requests.step s (Fail h ORemoteError) /\
  Requests.step s (AnswerViolation rid) = Requests.step s (Fail h OViolation).
Proof. intros T. cbn [Requests.step]. rewrite T. repeat split; reflexivity. Qed.

Theorem violation_in_either_sequence_is_AnswerViolation (c : actx) err h hv oc kids io ic rid :
  a_top c = UBody err h hv oc kids -> tbl_find rid (table (a_st c)) = Some h ->
  snd (violation C c io ic) = [Fail h OViolation] /\
  a_st (fst (violation C c io ic)) = Requests.step (a_st c) (AnswerViolation rid).
Proof.
  intros T F. destruct (violation_fails_bound_request C c err h hv oc kids io ic T) as (V1 & _ & V3 & _).
  split; [exact V1|]. rewrite V3. symmetry. apply (wire_ops_are_request_ops _ _ _ F).
Qed.

End E2E.

(* ------------------------------------------------------------------------------------------------------------
   Non-vacuity (the concrete oracle of the correspondence, lib/AnswerRecv.v) and the region outside the guard *)
Definition ea (tasters : list (option taster)) (js : list jop) := fst (go0 tasters js).

(* OPEN 0 "answer" INT 1 INT 5 CLOSE 0 is `answer1`; OPEN 0 "error" INT 1 (OPEN 1 "copyable" "F" "value" "x" CLOSE 1) CLOSE 0
   is `error1` (two index tokens: the oracle answers DMore to "copyable") *)
Definition fbody : list token :=
  [TOpen 1; TString [99; 111; 112; 121; 97; 98; 108; 101]; TString [70]; TString [118; 97; 108; 117; 101]; TString [120]; TClose 1].

Example ex_e2e_guards_hold :
  let s := ea [None] [JOp (Call KTwoWay)] in
  idle coracle s /\ tbl_find 1 (table (jst coracle s)) = Some 0%nat /\
  encode_stream (seq_tokens false 0 1 [TInt 5]) = Ok answer1 /\ accepts coracle c_taste c_after false 0 0 (a_cs (r_ctx s)) [TInt 5] /\
  encode_stream (seq_tokens true 0 1 fbody) = Ok error1 /\ accepts coracle c_taste c_after true 0 0 (a_cs (r_ctx s)) fbody.
Proof. vm_compute. repeat split. Qed.

(* a nested answer  OPEN 3 "answer" INT 1 (OPEN 4 "list" INT 7 (OPEN 5 "list" "ab" CLOSE 5) CLOSE 4) CLOSE 3  under a constraint
   that admits an OPEN: accepted *)
Definition lbody : list token :=
  [TOpen 4; TString [108; 105; 115; 116]; TInt 7; TOpen 5; TString [108; 105; 115; 116]; TString [97; 98]; TClose 5; TClose 4].
Example ex_e2e_nested :
  accepts coracle c_taste c_after false 0 3 (o0 [Some [(136, None)]]) lbody /\
  exists bs, encode_stream (seq_tokens false 3 1 lbody) = Ok bs /\
             snd (go0 [Some [(136, None)]] (JOp (Call KTwoWay) :: map (fun b => JData [b]) bs)) = [Call KTwoWay; Complete 0%nat].
Proof. split; [vm_compute; split; reflexivity|]. eexists. split; [vm_compute; reflexivity|]. vm_compute. reflexivity. Qed.

(* OUTSIDE the guard `accepts`: (1) the result constraint rejects the body -> the request fails with the Violation instead;
   (2) the oracle says the result is not ready at the final CLOSE (a gift is still being claimed, DLate) -> nothing fires yet *)
Lemma accepts_is_needed_violation_refuted :
  let s := ea [Some [(130, Some 10)]] [JOp (Call KTwoWay)] in
  idle coracle s /\ tbl_find 1 (table (jst coracle s)) = Some 0%nat /\
  encode_stream (seq_tokens false 0 1 [TInt 5]) = Ok answer1 /\
  ~ accepts coracle c_taste c_after false 0 0 (a_cs (r_ctx s)) [TInt 5] /\
  snd (jrun coracle c_taste c_after s [JData answer1]) = [Fail 0%nat OViolation].
Proof. vm_compute. repeat split. intros [_ X]. discriminate. Qed.

Definition late_after (u : unit) (t : utop) (io : bool) (ty hdr : Z) (body : list Z) : dres * unit :=
  (if ty =? tok_CLOSE then DLate else DOk, tt).
Lemma accepts_is_needed_late_refuted :
  let s := fst (jrun unit (fun _ _ _ _ _ => CkOk) late_after (jinit unit tt []) [JOp (Call KTwoWay)]) in
  idle unit s /\ tbl_find 1 (table (jst unit s)) = Some 0%nat /\
  ~ accepts unit (fun _ _ _ _ _ => CkOk) late_after false 0 0 tt [TInt 5] /\
  snd (jrun unit (fun _ _ _ _ _ => CkOk) late_after s [JData answer1]) = [].
Proof. vm_compute. repeat split. intros [_ X]. discriminate. Qed.

(* OUTSIDE the guard `small_int rid`: a request id of 2^31 or more is sent as a LONGINT, which AnswerUnslicer.checkToken
   rejects ("request ID must be an INT", BananaError): the connection is abandoned and the request is NOT completed by its
   answer (it then fails with the connection).  The state is hand-made: 2^31 calls are needed to reach it. *)
Definition big_rid : Z := 2 ^ 31.
Definition big_state : rstate (actx unit) :=
  Recv.init (ctx0 unit (mkSt [mkCall big_rid true true true []] [(big_rid, 0%nat)] false (big_rid + 1) [] 0 0) tt []).
Lemma small_int_is_needed_refuted :
  idle unit big_state /\ tbl_find big_rid (table (jst unit big_state)) = Some 0%nat /\
  accepts unit (fun _ _ _ _ _ => CkOk) (fun _ _ _ _ _ _ => (DOk, tt)) false 0 0 tt [TInt 5] /\
  exists bs, encode_stream (seq_tokens false 0 big_rid [TInt 5]) = Ok bs /\
             let r := jrun unit (fun _ _ _ _ _ => CkOk) (fun _ _ _ _ _ _ => (DOk, tt)) big_state [JData bs] in
             snd r = [] /\ jdead unit (fst r) = true.
Proof. split; [repeat split; reflexivity|]. split; [reflexivity|]. split; [split; reflexivity|]. eexists. split; [vm_compute; reflexivity|]. vm_compute. split; reflexivity. Qed.
